"""Extra tool-built images of check C02 (not part of gen/mkbase.py's profiles).

htree directories whose names contain bytes >= 0x80, one image per directory hash version (legacy, half_md4, tea) and
per signedness flag of the superblock (EXT2_FLAGS_SIGNED_HASH / EXT2_FLAGS_UNSIGNED_HASH).  The directory index is
built by the tools of the tree under test (mke2fs -d, debugfs ssv, e2fsck -fyD): whether every leaf entry hashes into
the range its index entry assigns to the leaf (Ext4Abs!Shapes, rule class "htree") depends on the hash variant the
superblock demands, and is judged by the reader's own hash functions.
Plus one image with a detached directory cycle (two directories that contain each other), built with debugfs.

    images(build) -> (dir, [ {name, path, ok, ...} ])      cached next to the build, keyed by build stamp + this file
"""
import os, sys, json, shutil, hashlib
from common import run, tool_env, Lock

UUID = "22223333-4444-5555-6666-777788889999"
HASH_SEED = "0badcafe-1234-5678-9abc-def012345678"
# (name, def_hash_version, s_flags value: 1 = signed, 2 = unsigned, mke2fs feature options)
VARIANTS = [
    ("legacy_signed", 0, 1, "^has_journal,^metadata_csum"),
    ("legacy_unsigned", 0, 2, "^has_journal,metadata_csum"),
    ("halfmd4_signed", 1, 1, "^has_journal,metadata_csum"),
    ("halfmd4_unsigned", 1, 2, "^has_journal,^metadata_csum"),
    ("tea_signed", 2, 1, "^has_journal,^metadata_csum"),
    ("tea_unsigned", 2, 2, "^has_journal,metadata_csum"),
]


def host_tree(root):
    """three directories of 160 empty files: UTF-8 names, Latin-1 names (single bytes 0xA0..0xFF, not valid UTF-8), and
    names that mix both with ASCII; long enough for several leaf blocks at 1 KiB"""
    root = os.fsencode(root)
    if os.path.exists(root):
        shutil.rmtree(root)
    os.makedirs(root)
    T = 1500000000

    def mk(d, names):
        p = os.path.join(root, d)
        os.mkdir(p)
        for n in names:
            f = os.path.join(p, n)
            open(f, "wb").close()
            os.utime(f, (T, T))
        os.utime(p, (T, T))
    mk(b"utf8", [("féè_%04d_€ü中文" % i).encode("utf-8") for i in range(160)])
    mk(b"latin1", [bytes([0xE9, 0xE8, 0xFC, 0xA0 + (i % 90)]) + (b"_%04d_" % i) + bytes([0xFF, 0xFE, 0x80 + (i % 120)]) for i in range(160)])
    mk(b"mixed", [(b"n%03d" % i) + bytes([0x80 + ((i * 7) % 128)]) * (1 + i % 9) + b".dat" for i in range(160)])
    os.utime(root, (T, T))
    return os.fsdecode(root)


def make_one(build, outdir, tree, name, hver, sflags, feats):
    env = tool_env(build)
    img = os.path.join(outdir, name + ".img")
    with open(img, "wb") as f:
        f.truncate(4096 * 1024)
    info = {"name": name, "path": img, "hash_version": hver, "s_flags": sflags, "ok": False}
    rc, out, err = run([os.path.join(build, "misc", "mke2fs"), "-q", "-F", "-t", "ext4", "-b", "1024", "-N", "1024", "-O", feats,
                        "-U", UUID, "-E", "hash_seed=" + HASH_SEED, "-d", tree, img], env=env, timeout=120)
    info["mke2fs_rc"] = rc
    if rc != 0:
        info["err"] = err.decode("utf8", "replace")[-300:]
        return info
    rc, out, err = run([os.path.join(build, "debugfs", "debugfs"), "-w", "-f", "-", img], env=env, timeout=60,
                       input=("ssv flags %d\nssv def_hash_version %s\n" % (sflags, ("legacy", "half_md4", "tea")[hver])).encode())
    info["debugfs_rc"] = rc
    fsck = os.path.join(build, "e2fsck", "e2fsck")
    rc, out, err = run([fsck, "-fyD", img], env=env, timeout=120)       # builds the index of every directory with the tools' own hash
    info["rehash_rc"] = rc
    # the superblock must now say what was asked for (debugfs does not report a rejected ssv through its exit status)
    sb = open(img, "rb").read()[1024:2048]
    info["ok"] = rc in (0, 1) and sb[0xFC] == hver and (int.from_bytes(sb[0x160:0x164], "little") & 3) == sflags
    info["sha256"] = hashlib.sha256(open(img, "rb").read()).hexdigest()
    return info


CYCLE_CMDS = """mkdir /a
mkdir /a/b
write /dev/null /a/b/f
unlink /a/..
link /a/b /a/..
link /a /a/b/a
sif /a/b links_count 3
unlink /a
sif <2> links_count 3
"""


def make_cycle(build, outdir):
    """two directories that contain each other (a/b, b/a, '..' of each = the other), named by nothing else: detached from the
    root, every link count equal to the number of references.  Built with debugfs of the tree under test."""
    env = tool_env(build)
    name = "dir_cycle"
    img = os.path.join(outdir, name + ".img")
    with open(img, "wb") as f:
        f.truncate(4096 * 1024)
    info = {"name": name, "path": img, "ok": False}
    rc, out, err = run([os.path.join(build, "misc", "mke2fs"), "-q", "-F", "-t", "ext4", "-b", "1024", "-N", "256", "-O", "^has_journal",
                        "-U", UUID, "-E", "hash_seed=" + HASH_SEED, img], env=env, timeout=120)
    info["mke2fs_rc"] = rc
    if rc != 0:
        return info
    rc, out, err = run([os.path.join(build, "debugfs", "debugfs"), "-w", "-f", "-", img], env=env, timeout=60, input=CYCLE_CMDS.encode())
    info["debugfs_rc"] = rc
    # built as intended?  inodes 12 (a) and 13 (b) are directories, each is the other's '..' and holds an entry for the other
    rc, out, err = run([os.path.join(build, "debugfs", "debugfs"), "-R", "ls -p <12>", img], env=env, timeout=60)
    rc2, out2, err2 = run([os.path.join(build, "debugfs", "debugfs"), "-R", "ls -p <13>", img], env=env, timeout=60)
    a = [l.split("/") for l in out.decode("latin-1").splitlines() if l.startswith("/")]
    b = [l.split("/") for l in out2.decode("latin-1").splitlines() if l.startswith("/")]
    info["ok"] = (sorted((x[5], x[1]) for x in a) == [(".", "12"), ("..", "13"), ("b", "13")] and
                  sorted((x[5], x[1]) for x in b) == [(".", "13"), ("..", "12"), ("a", "12"), ("f", "14")])
    info["sha256"] = hashlib.sha256(open(img, "rb").read()).hexdigest()
    return info


def images(build):
    stamp = open(os.path.join(build, ".verif_stamp")).read().strip()[:16]
    gen_h = hashlib.sha256(open(os.path.abspath(__file__), "rb").read()).hexdigest()[:8]
    outdir = os.path.join(build, "verif-c02x-%s-%s" % (stamp, gen_h))
    meta = os.path.join(outdir, "meta.json")
    with Lock(os.path.join(build, "verif-c02x.lock")):
        if os.path.exists(meta):
            return outdir, json.load(open(meta))
        for d in os.listdir(build):
            if d.startswith("verif-c02x-"):
                shutil.rmtree(os.path.join(build, d), ignore_errors=True)
        os.makedirs(outdir)
        tree = host_tree(os.path.join(outdir, "tree"))
        res = [make_one(build, outdir, tree, *v) for v in VARIANTS] + [make_cycle(build, outdir)]
        shutil.rmtree(tree, ignore_errors=True)
        with open(meta, "w") as f:
            json.dump(res, f, indent=1)
        return outdir, res


if __name__ == "__main__":
    sys.path.insert(0, os.path.join(os.path.dirname(os.path.dirname(os.path.abspath(__file__))), "lib"))
    import build as B
    d, res = images(B.build())
    print(d)
    for r in res:
        print(r)
