"""Starting images of check C01's own: the BOUNDARY CATALOGUE of spec/Corrupt.tla (StartImages).

The base images of gen/mkbase.py are 8-32 MiB (one meta group, two htree levels, extents far below the length limits).  The
images here sit at the limits of the on-disk format, each one stated in Corrupt.tla from the format constants and enumerated
by TLC (Emit_Corrupt, key "boundary"); nothing here invents a geometry or a recipe:

  metabg   meta_bg with >= 3 meta groups (1 KiB blocks, 256 blocks per group, 32- and 64-byte descriptors), populated with the
           host tree of gen/mkbase.py so that every role of the catalogue binds;
  longext  one large SPARSE filesystem with the files of Corrupt.tla!LongExtentFiles: runs of written / unwritten extents at
           EXT_INIT_MAX_LEN / EXT_UNINIT_MAX_LEN, adjacent logically and physically, in trees of depth 0 / 1 / 2 (built with
           libext2fs through harness/c01mk.c: ext2fs_fallocate without zeroing, scattered extents to deepen the tree, punched
           out again);
  bigdir   large_dir directories of MaxNameLen-byte names whose index needs exactly DxCap1, DxCap1+1, DxCap2, DxCap2+1 and
           DxTwoSecond leaves ("lin": the directory as a linear file; "idx": after the tools indexed it with e2fsck -fyD).

    images(build, U, tier, treedir) -> [info]     built by the tools of the tree under test, cached next to the build
    XBase(info, U)                                -> corrupt.Base of such an image: binds the boundary roles, sparse-aware apply()
"""
import os, sys, json, shutil, hashlib, struct, mmap
HERE = os.path.dirname(os.path.abspath(__file__))
VERIF = os.path.dirname(HERE)
for _p in (os.path.join(VERIF, "lib"), os.path.join(VERIF, "reader"), HERE):
    if _p not in sys.path:
        sys.path.insert(0, _p)
from common import run, tool_env, Lock
import corrupt, ext4read

UUID = "33334444-5555-6666-7777-88889999aaaa"
HASH_SEED = "0badcafe-1234-5678-9abc-def012345678"
SCATTER_AT = 200000          # logical block where the tree-deepening extents of a long-extent file are put (beyond every run)
SCATTER_N = {0: 0, 1: 4, 2: 400}


def _tools(build):
    return {k: os.path.join(build, d, k) for k, d in (("mke2fs", "misc"), ("e2fsck", "e2fsck"), ("debugfs", "debugfs"))}


def _finish(build, info, img):
    """the reader's projection (cached as JSON: the images are large) and the verdict of e2fsck -fn on the image as built"""
    env = tool_env(build)
    rc, out, err = run([_tools(build)["e2fsck"], "-fn", img], env=env, timeout=300)
    info["fsck_fn_rc"] = rc
    info["fsck_fn_tail"] = out.decode("latin-1")[-300:] if rc else ""
    P = ext4read.project(img)
    if "fatal" in P:
        info["err"] = "reader: %s" % P["fatal"]
        return info
    with open(img + ".P.json", "w") as f:
        json.dump(P, f, separators=(",", ":"))
    info["geo"] = {k: P["geo"][k] for k in ("bs", "blocks", "bpg", "gdc", "dsize", "ipg") if k in P["geo"]}
    info["built"] = True
    return info


# ---------------------------------------------------------------------------------------------------------------------
# (i) meta_bg
# ---------------------------------------------------------------------------------------------------------------------
def make_metabg(build, outdir, spec, treedir, drv):
    t = _tools(build); env = tool_env(build)
    img = os.path.join(outdir, spec["name"] + ".img")
    info = {"name": spec["name"], "kind": "metabg", "path": img, "spec": spec, "built": False, "ok": False}
    blocks = spec["groups"] * spec["bpg"]
    with open(img, "wb") as f:
        f.truncate(blocks * spec["bs"])
    feats = "meta_bg,^resize_inode,metadata_csum," + ("64bit" if spec["dsize"] == 64 else "^64bit")
    rc, out, err = run([t["mke2fs"], "-q", "-F", "-t", "ext4", "-b", str(spec["bs"]), "-g", str(spec["bpg"]), "-N", str(spec["ipg"] * spec["groups"]),
                        "-O", feats, "-J", "size=1", "-U", UUID, "-E", "hash_seed=" + HASH_SEED, "-d", treedir, img], env=env, timeout=300)
    info["mke2fs_rc"] = rc
    if rc != 0:
        info["err"] = err.decode("utf8", "replace")[-300:]
        return info
    rc, out, err = run([t["e2fsck"], "-fyD", img], env=env, timeout=300)        # index the directories, as gen/mkbase.py does
    info["rehash_rc"] = rc
    _finish(build, info, img)
    if info["built"]:
        g = info["geo"]
        dpb = spec["bs"] // spec["dsize"]
        # the image is the one the catalogue names: group count, descriptor size, >= 3 meta groups
        info["ok"] = (g["gdc"] == spec["groups"] and g["bpg"] == spec["bpg"] and g["bs"] == spec["bs"] and
                      (g["dsize"] if spec["dsize"] == 64 else 32) == spec["dsize"] and g["ipg"] == spec["ipg"] and (g["gdc"] + dpb - 1) // dpb >= 3)
    return info


# ---------------------------------------------------------------------------------------------------------------------
# (ii) extents at the length limits
# ---------------------------------------------------------------------------------------------------------------------
def make_longext(build, outdir, spec, treedir, drv):
    t = _tools(build); env = tool_env(build)
    img = os.path.join(outdir, spec["name"] + ".img")
    info = {"name": spec["name"], "kind": "longext", "path": img, "spec": spec, "built": False, "ok": False}
    files = sorted(spec["files"], key=lambda f: f["name"])
    need = sum(r["len"] for f in files for r in f["runs"])
    blocks = ((need + 16384 + 8191) // 8192 + 4) * 8192
    with open(img, "wb") as f:
        f.truncate(blocks * spec["bs"])
    # flex_bg over the whole filesystem and no backup superblocks: the free space is one run
    rc, out, err = run([t["mke2fs"], "-q", "-F", "-t", "ext4", "-b", str(spec["bs"]), "-N", "64", "-G", "128",
                        "-O", "^has_journal,^resize_inode,sparse_super2,metadata_csum,64bit", "-E", "num_backup_sb=0,lazy_itable_init=1,hash_seed=" + HASH_SEED,
                        "-U", UUID, img], env=env, timeout=300)
    info["mke2fs_rc"] = rc
    if rc != 0:
        info["err"] = err.decode("utf8", "replace")[-300:]
        return info
    empty = os.path.join(outdir, "empty")
    open(empty, "wb").close()
    cmds = "".join("write %s %s\n" % (empty, f["name"]) for f in files)
    rc, out, err = run([t["debugfs"], "-w", "-f", "-", img], env=env, timeout=120, input=cmds.encode())
    inos = [int(x) for x in __import__("re").findall(r"Allocated inode: (\d+)", out.decode("latin-1"))]
    if len(inos) != len(files):
        info["err"] = "debugfs write: %s" % (out + err).decode("latin-1")[-300:]
        return info
    # 1. every run of every file, back to back (nothing else is allocated in between: physically adjacent)
    ops = []
    for f, ino in zip(files, inos):
        l = 0
        for r in f["runs"]:
            ops += ["falloc", str(ino), r["kind"], str(l), str(r["len"])]
            l += r["len"]
        ops += ["size", str(ino), str(l)]
    # 2. scattered single-block extents push the tree to the wanted depth; 3. punched out again, the depth stays
    for f, ino in zip(files, inos):
        n = SCATTER_N[f["depth"]]
        for k in range(n):
            ops += ["falloc", str(ino), "u", str(SCATTER_AT + 2 * k), "1"]
        if n:
            ops += ["punch", str(ino), str(SCATTER_AT), str(2 * n)]
    rc, out, err = run([drv, img] + ops, env=env, timeout=300)
    info["c01mk_rc"] = rc
    if rc != 0:
        info["err"] = "c01mk: %s" % (out + err).decode("latin-1")[-300:]
        return info
    _finish(build, info, img)
    if info["built"]:
        info["files"] = {f["name"]: ino for f, ino in zip(files, inos)}
        info["ok"] = _longext_as_specified(img, spec, info)
    return info


def _read_extents(raw, bs, off, ino_seed=None):
    """leaf extents below the extent header at byte `off`: [(lblk, len, unwritten, pblk)], and the depth"""
    magic, ent, mx, depth = struct.unpack_from("<HHHH", raw, off)
    if magic != 0xF30A: return None, -1
    out = []
    for k in range(ent):
        e = off + 12 + 12 * k
        if depth == 0:
            lblk, ln, hi, lo = struct.unpack_from("<IHHI", raw, e)
            out.append((lblk, ln - 32768 if ln > 32768 else ln, ln > 32768, (hi << 32) | lo))
        else:
            lblk, lo, hi = struct.unpack_from("<IIH", raw, e)
            sub, _ = _read_extents(raw, bs, ((hi << 32) | lo) * bs)
            if sub is None: return None, -1
            out += sub
    return out, depth


def _longext_as_specified(img, spec, info):
    """every file holds exactly the runs the catalogue names (lengths, written/unwritten, adjacent) at the named depth"""
    B = XBase(info, None)
    ok = True
    shapes = {}
    for f in spec["files"]:
        ino = B.path_ino.get("/" + f["name"])
        if not ino: ok = False; continue
        ex, depth = _read_extents(B.raw, B.bs, B.inode_off(ino) + corrupt.IB)
        want = [(r["len"], r["kind"] == "u") for r in f["runs"]]
        got = [(e[1], e[2]) for e in ex or []]
        adj = all(a[0] + a[1] == b[0] and a[3] + a[1] == b[3] for a, b in zip(ex or [], (ex or [])[1:]))
        shapes[f["name"]] = {"depth": depth, "extents": got}
        if got != want or depth != f["depth"] or not adj: ok = False
    info["shapes"] = shapes
    return ok


# ---------------------------------------------------------------------------------------------------------------------
# (iii) directories at the htree level boundaries
# ---------------------------------------------------------------------------------------------------------------------
def _dirent(ino, name, rec_len, ftype):
    b = struct.pack("<IHBB", ino, rec_len, len(name), ftype) + name
    return b + b"\0" * (rec_len - len(b))


def linear_dir(entries, per_block, bs, dirino, parent, target, namelen):
    """the directory as a linear file: '.' and '..' in block 0, `per_block` entries of full-length names per block"""
    rl = 4 * ((8 + namelen + 3) // 4)
    out = []
    i = 0
    while i < entries or not out:
        blk = b""
        if not out:
            blk = _dirent(dirino, b".", 12, 2) + _dirent(parent, b"..", 12, 2)
        n = min(per_block, entries - i)
        for k in range(n):
            name = (b"%06d" % (i + k)) + b"x" * (namelen - 6)
            blk += _dirent(target, name, rl if k < n - 1 else bs - len(blk), 1)
        if n == 0:      # a directory of no entries: '..' covers the block
            blk = _dirent(dirino, b".", 12, 2) + _dirent(parent, b"..", bs - 12, 2)
        i += n
        out.append(blk)
    return b"".join(out)


def make_bigdir(build, outdir, spec, treedir, drv):
    t = _tools(build); env = tool_env(build)
    img = os.path.join(outdir, spec["name"] + ".img")
    info = {"name": spec["name"], "kind": "bigdir", "path": img, "spec": spec, "built": False, "ok": False}
    bs = spec["bs"]
    lin = os.path.join(outdir, "bigdir_lin_%s.img" % spec["name"].rsplit("_", 1)[1])
    if spec["form"] == "idx" and os.path.exists(lin + ".P.json"):
        shutil.copyfile(lin, img)
    else:
        per = spec["entries"] // spec["leaves"]
        blocks = ((spec["leaves"] * 9 // 8 + 2048 + 8191) // 8192) * 8192
        with open(img, "wb") as f:
            f.truncate(blocks * bs)
        rc, out, err = run([t["mke2fs"], "-q", "-F", "-t", "ext4", "-b", str(bs), "-N", "64",
                            "-O", "large_dir,dir_index,^has_journal,^resize_inode,^64bit,^metadata_csum", "-U", UUID, "-E", "hash_seed=" + HASH_SEED, img],
                           env=env, timeout=300)
        info["mke2fs_rc"] = rc
        if rc != 0:
            info["err"] = err.decode("utf8", "replace")[-300:]
            return info
        data = os.path.join(outdir, spec["name"] + ".dirdata")
        with open(data, "wb") as f:
            f.write(linear_dir(spec["entries"], per, bs, 12, 2, 13, 255))
        small = os.path.join(outdir, "small")
        with open(small, "wb") as f:
            f.write(b"data\n")
        # the directory is written as a file, becomes a directory (mode), and gets its name through `link` (which takes the
        # entry's file type from the mode); every entry of it names the one regular file `target`
        cmds = ("write %s deep.tmp\nwrite %s target\nsif deep.tmp mode 040755\nsif deep.tmp links_count 2\nlink deep.tmp deep\nunlink deep.tmp\n"
                "sif target links_count %d\nsif <2> links_count 4\nset_bg 0 used_dirs_count 3\nset_bg 0 checksum calc\n" % (data, small, spec["entries"] + 1))
        rc, out, err = run([t["debugfs"], "-w", "-f", "-", img], env=env, timeout=300, input=cmds.encode())
        os.unlink(data)
        got = [int(x) for x in __import__("re").findall(r"Allocated inode: (\d+)", out.decode("latin-1"))]
        if got != [12, 13]:
            info["err"] = "debugfs: inodes %s: %s" % (got, (out + err).decode("latin-1")[-300:])
            return info
    if spec["form"] == "idx":
        rc, out, err = run([t["e2fsck"], "-fyD", img], env=env, timeout=600)
        info["rehash_rc"] = rc
    _finish(build, info, img)
    if info["built"]:
        B = XBase(info, None)
        dino = B.path_ino.get("/deep")
        D = B.dirs.get(dino)
        info["dir"] = {"ino": dino, "kind": D and D["kind"], "blocks": (B.rd(B.raw, B.inode_off(dino) + 4, 4) // bs) if dino else 0}
        o0 = B.loc.get("dirblk", {}).get("%d:0" % dino) if dino else None
        if spec["form"] == "idx" and o0 is not None:
            info["dir"]["levels"] = B.raw[o0 + 0x1E] + 1
            info["dir"]["root_count"] = B.rd(B.raw, o0 + 0x18 + B.raw[o0 + 0x1D] + 2, 2)
        info["ok"] = bool(D) and D["kind"] == ("htree" if spec["form"] == "idx" else "linear")
    return info


MAKERS = {"metabg": make_metabg, "longext": make_longext, "bigdir": make_bigdir}


def specs(U, tier):
    b = U["boundary"]
    out = sorted(b["metabg"], key=lambda x: x["name"]) + sorted(b["longext"], key=lambda x: x["name"])
    # "lin" before "idx": the indexed form is made from a copy of the linear one
    out += sorted([x for x in b["bigdir"] if tier == "thorough" or x["tier"] == "quick"], key=lambda x: (x["leaves"], x["form"] != "lin"))
    return out


def images(build, U, tier, treedir, drv, only=None):
    """-> [info] of the boundary images this tier runs (built once per build + generator + catalogue, one at a time under a lock);
    only = name of the one image wanted (replay)"""
    stamp = open(os.path.join(build, ".verif_stamp")).read().strip()[:16]
    gen_h = hashlib.sha256(open(os.path.abspath(__file__), "rb").read() + open(os.path.join(VERIF, "harness", "c01mk.c"), "rb").read() +
                           json.dumps(U["boundary"], sort_keys=True).encode()).hexdigest()[:8]
    outdir = os.path.join(build, "verif-c01x-%s-%s" % (stamp, gen_h))
    res = []
    with Lock(os.path.join(build, "verif-c01x.lock")):
        if not os.path.isdir(outdir):
            for d in os.listdir(build):
                if d.startswith("verif-c01x-"):
                    shutil.rmtree(os.path.join(build, d), ignore_errors=True)
            os.makedirs(outdir)
        for sp in specs(U, tier):
            if only and sp["name"] != only and not (sp["kind"] == "bigdir" and sp["name"].replace("_lin_", "_idx_") == only):
                continue
            meta = os.path.join(outdir, sp["name"] + ".meta.json")
            if os.path.exists(meta):
                res.append(json.load(open(meta)))
                continue
            info = MAKERS[sp["kind"]](build, outdir, sp, treedir, drv)
            with open(meta, "w") as f:
                json.dump(info, f, indent=1)
            res.append(info)
    return res


# ---------------------------------------------------------------------------------------------------------------------
# binding of the boundary roles
# ---------------------------------------------------------------------------------------------------------------------
class XBase(corrupt.Base):
    """corrupt.Base of a boundary image.  The image is mapped copy-on-write (large and mostly holes) and apply() copies it
    sparsely; the roles of Corrupt.tla!BoundaryRoles are resolved to an object of THIS image and handed to the catalogue's
    own field tables (gen/corrupt.py) in the addressed form  ino@<n> / gd@<g> / bb@<g> / ib@<g> / extblk@<block>@<inode>."""

    def __init__(self, info, U):
        self.info = info
        self.kind = info["kind"]
        path = info["path"]
        self.path = path
        self._f = open(path, "rb")
        self.raw = mmap.mmap(self._f.fileno(), 0, access=mmap.ACCESS_COPY)
        self.P = json.load(open(path + ".P.json"))
        P = self.P
        self.geo = P["geo"]; self.bs = self.geo["bs"]; self.loc = P["loc"]
        self.ino = {i["ino"]: i for i in P["inodes"]}
        self.meta_csum = "metadata_csum" in self.geo["features"]
        self.gdt_csum = "uninit_bg" in self.geo["features"] or "gdt_csum" in self.geo["features"]
        self.has64 = "64bit" in self.geo["features"]
        self.dsize = self.geo["dsize"] if self.has64 else 32
        self.seed = int(P["sb"]["seed"], 16) if self.meta_csum else 0
        self.uuid = bytes.fromhex(P["sb"]["uuid"])
        self.path_ino = {}
        for t in P["tree"]:
            self.path_ino.setdefault(t["path"], t["ino"])
        self.dirs = {d["dir"]: d for d in P["dirs"]}
        self._roles()

    # ---- which object a boundary role names on this image ---------------------------------------------------------
    def meta_group_of(self, which):
        dpb = self.bs // self.dsize
        nmg = (self.geo["gdc"] + dpb - 1) // dpb
        return {"first": 0, "mid": nmg // 2, "last": nmg - 1}[which], dpb, nmg

    def resolve(self, role):
        """-> addressed role understood by corrupt.Base.patches, or None"""
        geo = self.geo
        if self.kind == "metabg":
            if "meta_bg" not in geo["features"]: return None
            p = role.split("_")
            if p[0] == "mgd":
                m, dpb, nmg = self.meta_group_of(p[1])
                if nmg < 3: return None
                return "gd@%d" % (m * dpb if p[2] == "head" else min((m + 1) * dpb, geo["gdc"]) - 1)
            if p[0] in ("mgbb", "mgib"):
                m, dpb, nmg = self.meta_group_of(p[1])
                if nmg < 3: return None
                return "%s@%d" % (p[0][2:], m * dpb)
        if self.kind == "longext":
            pre, _, name = role.partition("_")
            ino = self.path_ino.get("/" + name)
            if not ino: return None
            if pre == "lx": return "ino@%d" % ino
            # the chain of tree blocks from the root to the leaf that holds logical block 0
            chain = []
            off = self.inode_off(ino) + corrupt.IB
            while True:
                magic, ent, mx, depth = struct.unpack_from("<HHHH", self.raw, off)
                if magic != 0xF30A or depth == 0 or ent == 0 or len(chain) > 5: break
                lblk, lo, hi = struct.unpack_from("<IIH", self.raw, off + 12)
                blk = (hi << 32) | lo
                if not 0 < blk < geo["blocks"]: break
                chain.append(blk); off = blk * self.bs
            if pre == "lxb" and chain: return "extblk@%d@%d" % (chain[-1], ino)
            if pre == "lxi" and len(chain) >= 2: return "extblk@%d@%d" % (chain[0], ino)
        return None

    def dx_walk(self, dino):
        """offsets of the index blocks of directory dino by level: [[root], [second-level...], [third-level...]], leaves
        (of the image as built; computed once)"""
        if getattr(self, "_walk", None) is None or self._walk[0] != dino:
            self._walk = (dino, self._dx_walk(dino))
        return self._walk[1]

    def _dx_walk(self, dino):
        dl = self.loc.get("dirblk", {})
        o0 = dl.get("%d:0" % dino)
        if o0 is None: return None, None
        buf = open(self.path, "rb").read() if len(self.raw) < (64 << 20) else self.raw
        levels = buf[o0 + 0x1E]
        cur = [(o0, 0x18 + buf[o0 + 0x1D])]
        out = [[o0]]
        for lv in range(levels + 1):
            nxt = []
            for o, cl in cur:
                count = self.rd(buf, o + cl + 2, 2)
                for k in range(min(count, (self.bs - cl) // 8)):
                    lb = self.rd(buf, o + cl + 4 + 8 * k, 4) & 0x0FFFFFFF
                    oo = dl.get("%d:%d" % (dino, lb))
                    if oo is not None: nxt.append((oo, 8))
            if lv < levels: out.append([o for o, _ in nxt])
            cur = nxt
        return out, [o for o, _ in cur]

    def patches(self, rec, buf=None):
        buf = self.raw if buf is None else buf
        role, field, vc = rec["role"], rec["field"], rec["vc"]
        if role == "image":
            return [], ("none", None)
        if role in ("dx_node_last", "dx_third", "dx_third_last", "dx_leaf_last", "dirblk_big"):
            if self.kind != "bigdir": raise corrupt.NoBind("role")
            dino = self.R.get("dir_htree")
            D = self.dirs.get(dino)
            if not D: raise corrupt.NoBind("role absent")

            def setint(base, off, w, new=None, bits=None):
                old = self.rd(buf, base + off, w)
                if bits is not None: new = old ^ bits
                elif new is None: new = corrupt.intval(vc, old, w)
                new &= (1 << (8 * w)) - 1
                if new == old: raise corrupt.NoBind("value unchanged")
                return [(base + off, new.to_bytes(w, "little"))]
            if role == "dirblk_big":
                if D["kind"] != "linear": raise corrupt.NoBind("not linear")
                o = self.loc.get("dirblk", {}).get("%d:1" % dino)
                if o is None: raise corrupt.NoBind("no second block")
                return self.dirblock_patch(buf, o, dino, field, vc, setint)
            if D["kind"] != "htree": raise corrupt.NoBind("not htree")
            lv, leaves = self.dx_walk(dino)
            if lv is None: raise corrupt.NoBind("no root")
            if role == "dx_leaf_last":
                if not leaves: raise corrupt.NoBind("no leaf")
                return self.dirblock_patch(buf, leaves[-1], dino, field, vc, setint)
            if role == "dx_node_last":
                if len(lv) < 2 or len(lv[1]) < 2: raise corrupt.NoBind("one second-level block")
                return self.dx_patch(buf, lv[1][-1], dino, 8, field, vc, setint, root=False)
            if len(lv) < 3 or not lv[2]: raise corrupt.NoBind("no third level")
            if role == "dx_third_last" and len(lv[2]) < 2: raise corrupt.NoBind("one third-level block")
            return self.dx_patch(buf, lv[2][0 if role == "dx_third" else -1], dino, 8, field, vc, setint, root=False)
        a = self.resolve(role)
        if a is not None:
            return corrupt.Base.patches(self, dict(rec, role=a), buf)
        if role.split("_")[0] in ("mgd", "mgbb", "mgib", "lx", "lxb", "lxi"):
            raise corrupt.NoBind("boundary role absent on this image")
        return corrupt.Base.patches(self, rec, buf)

    def bind(self, rec, buf=None):
        if rec["role"] == "image":
            return [] if rec.get("csum", "fix") == "fix" else None
        return corrupt.Base.bind(self, rec, buf)

    def apply(self, recipes, out_path):
        """sparse copy of the image + the patches of the recipes (later recipes see the earlier patches)"""
        f = open(self.path, "rb")
        buf = mmap.mmap(f.fileno(), 0, access=mmap.ACCESS_COPY)
        try:
            allp = []
            changed = False
            for rec in recipes:
                pt = self.bind(rec, buf)
                if pt is None: return None
                for o, b in pt:
                    if o < 0 or o + len(b) > len(buf): return None
                    if bytes(buf[o:o + len(b)]) != b: changed = True
                    buf[o:o + len(b)] = b
                allp += pt
            if not changed and not all(r["role"] == "image" for r in recipes): return None
        finally:
            buf.close(); f.close()
        sparse_copy(self.path, out_path)
        fd = os.open(out_path, os.O_WRONLY)
        try:
            for o, b in allp:
                os.pwrite(fd, b, o)
        finally:
            os.close(fd)
        return allp


def sparse_copy(src, dst):
    """copy only the data extents of src (SEEK_DATA / SEEK_HOLE); dst gets the same size"""
    with open(src, "rb") as s, open(dst, "wb") as d:
        size = os.fstat(s.fileno()).st_size
        d.truncate(size)
        pos = 0
        while pos < size:
            try:
                a = os.lseek(s.fileno(), pos, os.SEEK_DATA)
            except OSError:
                break
            e = os.lseek(s.fileno(), a, os.SEEK_HOLE)
            off = a
            while off < e:
                chunk = os.pread(s.fileno(), min(e - off, 1 << 22), off)
                if not chunk: break
                os.pwrite(d.fileno(), chunk, off)
                off += len(chunk)
            pos = e


if __name__ == "__main__":
    # python3 gen/c01_extras.py [quick|thorough]  -> builds the images with the current tree, prints what binds
    import time
    import build as Bd, mkbase
    tier = sys.argv[1] if len(sys.argv) > 1 else "quick"
    b = Bd.build()
    basedir, binfo = mkbase.base_images(b)
    U, _ = corrupt.universe(os.path.dirname(basedir))
    t0 = time.time()
    res = images(b, U, tier, os.path.join(basedir, "tree"), Bd.driver(b, "c01mk"))
    print("built in %.1f s" % (time.time() - t0))
    for i in res:
        print({k: v for k, v in i.items() if k not in ("spec", "path")})
        if i.get("built"):
            t0 = time.time()
            X = XBase(i, U)
            rec = sorted(U["boundary"]["recipes"][i["kind"]], key=corrupt.rkey)
            n = sum(1 for r in rec if X.bind(r) is not None)
            m = [corrupt.rname(r) for r in U["boundary"]["mandatory"][i["kind"]] if X.bind(r) is None]
            print("   bind %d of %d (%.1f s); mandatory that do not bind: %s" % (n, len(rec), time.time() - t0, m))
