"""Extra source filesystems for C19 (e2image), beyond the base profiles of gen/mkbase.py:

  deep_ext     ext4 1k: a file whose extent tree has depth 2 (700 one-block islands), two directories whose blocks were
               allocated interleaved (each directory has more than 4 extents -> extent tree of depth 1: "dirmap" blocks)
  deep_ind     ext2 1k: a file with indirect, double and triple indirect blocks; interleaved block-mapped directories
  dense        ext2 1k, 16 MiB + 1 block, completely full of non-zero data: an all-data qcow2 image of it is larger than
               the filesystem (L2 tables at file offsets beyond the virtual size); the last block of the filesystem is in use
  lastdir      ext4 1k metadata_csum, 1 MiB, filled with directories up to the last block (metadata with a non-zero last byte
               in the last block of the filesystem)
  manygroups   ext2 1k, 640 groups of 256 blocks (sparse 160 MiB), every group has initialised bitmaps: metadata in more than 512 distinct L2
               tables, so the writer's L2 cache (L2_CACHE_PREALLOC = 512) is flushed in the middle of the run
  mmp          ext4 1k with the MMP block
  dirtyjournal ext4_1k base profile with a committed, unreplayed transaction in the journal (needs_recovery)
  size_*       small populated filesystems whose block counts sit on / next to L2-table boundaries (128 blocks at 1k,
               512 at 4k) with per-group bitmaps (no flex_bg), so that the last group's tables are the last mapped clusters
               (the list is E2image.tla SizesQuick / SizesMore, handed over by Emit_E2image)
  wide_*       sparse filesystems larger than 4 GiB (E2image.tla WideQuick / WideMore): the geometry is searched so that every
               target block of the catalogue (just below, at, just above byte 2^31 and 2^32) is an inode-table block of a group
               without backups; the inodes in those blocks are put in use (debugfs seti/sif/ln) and one block-mapped file has
               its data block in the group after the last target.  kind "dense": no uninit_bg, every group has an initialised
               block bitmap; kind "hole": metadata_csum, no backup superblocks, the groups without targets stay uninitialised, so that a metadata image
               has a hole of more than 2^31 bytes between the first group and the first target

Built with the scratch-built mke2fs / debugfs / e2fsck of the current tree, cached next to that build.  Every image must pass
e2fsck -fn (info["ok"]); the caller skips and reports the ones that do not."""
import os, sys, json, shutil, hashlib, concurrent.futures as cf
from common import run, tool_env, Lock
import mkbase

UUID = mkbase.UUID
HASH_SEED = mkbase.HASH_SEED


def pattern(n, k=7):
    base = bytes(((i * k) % 251) + 1 for i in range(4096))
    return (base * (n // 4096 + 1))[:n]


def small_tree(root):
    if os.path.exists(root):
        shutil.rmtree(root)
    os.makedirs(root + "/d1/d2")
    T = 1500000000
    for p, data in (("hello", b"hello\n"), ("d1/a", pattern(3000)), ("d1/d2/b", pattern(20000, 11))):
        with open(os.path.join(root, p), "wb") as f:
            f.write(data)
    os.symlink("d1/" + "x" * 90, os.path.join(root, "slow"))
    for d, ds, fs in os.walk(root):
        for f in fs:
            os.utime(os.path.join(d, f), (T, T), follow_symlinks=False)
        os.utime(d, (T, T))
    return root


def deep_tree(root, ind=False):
    small_tree(root)
    p = os.path.join(root, "frag")
    with open(p, "wb") as f:
        if ind:
            for lb in (0, 5, 12 + 5, 12 + 256 + 5, 12 + 256 + 700, 12 + 256 + 65536 + 5):
                f.seek(lb * 1024)
                f.write(pattern(1024, lb % 200 + 3))
        else:
            for k in range(700):
                f.seek(k * 2048)
                f.write(pattern(1024, k % 200 + 3))
    os.utime(p, (1500000000, 1500000000))
    return root


def _mk(build, env, img, kb, args, tree=None):
    if os.path.exists(img):
        os.unlink(img)
    with open(img, "wb") as f:
        f.truncate(kb * 1024)
    cmd = [os.path.join(build, "misc", "mke2fs"), "-q", "-F", "-U", UUID, "-E", "hash_seed=" + HASH_SEED] + args.split()
    if tree:
        cmd += ["-d", tree]
    rc, out, err = run(cmd + [img], env=env, timeout=300)
    return rc, err.decode("utf8", "replace")[-300:]


def _debugfs(build, env, img, script):
    return run([os.path.join(build, "debugfs", "debugfs"), "-w", "-f", "-", img], env=env, timeout=600, input=script.encode())


def _finish(build, env, img, info, fix=False):
    fsck = os.path.join(build, "e2fsck", "e2fsck")
    if fix:
        rc, out, err = run([fsck, "-fy", img], env=env, timeout=300)
        info["fix_rc"] = rc
    rc, out, err = run([fsck, "-fn", img], env=env, timeout=300)
    info["fsck_rc"] = rc
    info["ok"] = rc == 0
    if rc:
        info["fsck_out"] = out.decode("utf8", "replace")[-400:]
    return info


def interleave_dirs(n=60):
    s = "mkdir /da\nmkdir /db\n"
    for i in range(n):
        # (debugfs "ln" does not expand a full directory; "symlink" does)
        s += "cd /da\nsymlink %s t\n" % (("a%03d_" % i) + "p" * 240)
        s += "cd /db\nsymlink %s t\n" % (("b%03d_" % i) + "q" * 240)
    return s


def make(build, name, outdir, spec=None):
    env = tool_env(build)
    img = os.path.join(outdir, name + ".img")
    info = {"name": name}
    tdir = os.path.join(outdir, "t_" + name)
    if name == "deep_ext":
        rc, err = _mk(build, env, img, 16384, "-t ext4 -b 1024 -N 512 -O metadata_csum,64bit -J size=1", deep_tree(tdir))
        info["mke2fs_rc"] = rc
        _debugfs(build, env, img, interleave_dirs())
        return _finish(build, env, img, info, fix=True)
    if name == "deep_ind":
        rc, err = _mk(build, env, img, 16384, "-t ext2 -b 1024 -N 512", deep_tree(tdir, ind=True))
        info["mke2fs_rc"] = rc
        _debugfs(build, env, img, interleave_dirs())
        return _finish(build, env, img, info, fix=True)
    if name == "dense":
        rc, err = _mk(build, env, img, 16392, "-t ext2 -b 1024 -N 16 -m 0 -O ^resize_inode")
        info["mke2fs_rc"] = rc
        big = os.path.join(outdir, "big.bin")
        with open(big, "wb") as f:
            f.write(pattern(17000 * 1024))
        _debugfs(build, env, img, "write %s big\n" % big)
        os.unlink(big)
        return _finish(build, env, img, info, fix=True)
    if name == "lastdir":
        rc, err = _mk(build, env, img, 1024, "-t ext4 -b 1024 -N 1024 -I 128 -m 0 -O metadata_csum,^resize_inode,^has_journal,^flex_bg")
        info["mke2fs_rc"] = rc
        s = "".join("mkdir /s%d\n" % k for k in range(8))
        s += "".join("mkdir /s%d/d%03d\n" % (k % 8, k) for k in range(1000))
        _debugfs(build, env, img, s)
        return _finish(build, env, img, info, fix=True)
    if name == "manygroups":
        rc, err = _mk(build, env, img, 160 * 1024, "-t ext2 -b 1024 -g 256 -N 5120 -O ^resize_inode",
                      small_tree(tdir))
        info["mke2fs_rc"] = rc
        return _finish(build, env, img, info)
    if name == "mmp":
        rc, err = _mk(build, env, img, 4096, "-t ext4 -b 1024 -N 128 -O mmp,metadata_csum -J size=1", small_tree(tdir))
        info["mke2fs_rc"] = rc
        return _finish(build, env, img, info)
    if name == "dirtyjournal":
        # ext4_1k base profile + one committed, not yet replayed transaction (three blocks headed for free space): the journal
        # blocks are non-zero metadata, needs_recovery is set, e2fsck -fn says it skips the recovery
        bdir, bmeta = mkbase.base_images(build)
        shutil.copy(os.path.join(bdir, "ext4_1k.img"), img)
        blob = os.path.join(outdir, "jblob.bin")
        with open(blob, "wb") as f:
            f.write(pattern(3072, 29))
        rc, out, err = _debugfs(build, env, img, "jo\njw -b 7000-7002 %s\njc\n" % blob)
        os.unlink(blob)
        info["mke2fs_rc"] = 0
        return _finish(build, env, img, info)
    if name.startswith("wide"):
        return make_wide(build, env, img, info, spec, tdir)
    if name.startswith("size_"):
        _, bs, blocks = name.split("_")
        bs, blocks = int(bs), int(blocks)
        g = 256 if bs == 1024 else 512
        rc, err = _mk(build, env, img, blocks * bs // 1024, "-t ext4 -b %d -g %d -N 64 -O ^flex_bg,^resize_inode,metadata_csum,^has_journal,^uninit_bg" % (bs, g),
                      small_tree(tdir))
        info["mke2fs_rc"] = rc
        info["mke2fs_err"] = err
        if rc:
            info["ok"] = False
            return info
        return _finish(build, env, img, info)
    raise KeyError(name)


def _has_backup(k):
    if k < 2:
        return True
    for p in (3, 5, 7):
        x = p
        while x < k:
            x *= p
        if x == k:
            return True
    return False


def wide_geometry(bs, first, targets, max_itb=64):
    """blocks per group (multiple of 8) and inode-table length such that every target block lies inside the inode table
    (group start + 2 ...) of a group that carries no backup superblock; the shortest table wins, then the largest group"""
    best = None
    for g in range(8 * bs, 4 * bs, -8):
        n = 0
        for t in targets:
            k, r = divmod(t - first, g)
            if _has_backup(k) or r < 2 or r - 2 >= max_itb:
                n = None
                break
            n = max(n, r - 1)
        if n and (best is None or n < best[1]):
            best = (g, n)
    return best


def make_wide(build, env, img, info, spec, tdir):
    bs, blocks, targets = spec["bs"], spec["blocks"], sorted(spec["targets"])
    first = 1 if bs == 1024 else 0
    isz = 256
    ipb = bs // isz
    geo = wide_geometry(bs, first, targets)
    info["spec"] = spec
    if not geo:
        info["ok"] = False
        info["mke2fs_err"] = "no geometry puts the targets %s into inode tables" % targets
        return info
    g, itb = geo
    while (itb * ipb) % 8:          # mke2fs keeps inodes per group a multiple of 8
        itb += 1
    ipg = itb * ipb
    groups = (blocks - first + g - 1) // g
    info["geometry"] = {"bpg": g, "itb": itb, "ipg": ipg, "groups": groups}
    rc, err = _mk(build, env, img, blocks * bs // 1024, "-t ext4 -b %d -g %d -N %d -I %d -O ^has_journal,^flex_bg,^resize_inode,%s" % (
                      bs, g, groups * ipg, isz,
                      # hole: no backup groups either (their block bitmaps are initialised), the -E here replaces the one of _mk
                      "metadata_csum,sparse_super2 -E hash_seed=%s,num_backup_sb=0" % HASH_SEED if spec.get("kind") == "hole" else "^uninit_bg"),
                  small_tree(tdir))
    info["mke2fs_rc"] = rc
    info["mke2fs_err"] = err
    if rc:
        info["ok"] = False
        return info
    s = "mkdir /w\n"
    want = {}
    for t in targets:
        k, r = divmod(t - first, g)
        ino = k * ipg + (r - 2) * ipb + 1
        want[ino] = t
        s += "seti <%d>\nsif <%d> mode 0100644\nsif <%d> links_count 1\nsif <%d> mtime 1500000000\nln <%d> /w/t%d\nimap <%d>\n" % ((ino,) * 5 + (t, ino))
    # one block-mapped file whose only data block lies in the group after the last target (file data beyond the last boundary)
    k = (targets[-1] - first) // g + 1
    if k < groups:
        ino, blk = k * ipg + 1, first + k * g + 2 + itb + 5
        s += "seti <%d>\nsif <%d> mode 0100644\nsif <%d> links_count 1\nsif <%d> size %d\nsif <%d> blocks %d\nsif <%d> block[0] %d\nsetb %d\nzap_block -p 0x5a %d\nln <%d> /w/data\n" % (
            ino, ino, ino, ino, bs, ino, bs // 512, ino, blk, blk, blk, ino)
        info["data_block"] = blk
    rc, out, err = _debugfs(build, env, img, s)
    import re
    got = {int(a): int(b) for a, b in re.findall(r"Inode (\d+) is part of block group \d+\s+located at block (\d+)", (out + err).decode("utf8", "replace"))}
    if got != want:
        info["ok"] = False
        info["mke2fs_err"] = "the inodes meant for the target blocks are elsewhere: wanted %s, debugfs imap says %s" % (want, got)
        return info
    return _finish(build, env, img, info, fix=True)


EXTRA = ["deep_ext", "deep_ind", "dense", "lastdir", "manygroups", "mmp", "dirtyjournal"]


def size_name(e):
    return "size_%d_%d" % (e["bs"], e["blocks"])


def wide_name(e):
    return "wide%s_%d" % ("" if e["kind"] == "dense" else e["kind"], e["bs"])


def images(build, names, specs=None):
    """specs: name -> catalogue entry of Emit_E2image for the names that need one (wide_*)"""
    specs = specs or {}
    stamp = open(os.path.join(build, ".verif_stamp")).read().strip()[:16]
    gen_h = hashlib.sha256(open(os.path.abspath(__file__), "rb").read()).hexdigest()[:8]
    outdir = os.path.join(build, "verif-c19-%s-%s" % (stamp, gen_h))
    with Lock(os.path.join(build, "verif-c19.lock")):
        for d in os.listdir(build):
            if d.startswith("verif-c19-") and os.path.join(build, d) != outdir and os.path.isdir(os.path.join(build, d)):
                shutil.rmtree(os.path.join(build, d), ignore_errors=True)
        os.makedirs(outdir, exist_ok=True)
        meta_p = os.path.join(outdir, "meta.json")
        meta = json.load(open(meta_p)) if os.path.exists(meta_p) else {}
        todo = [n for n in names if n not in meta or (n in specs and meta[n].get("spec") != specs[n])]
        if todo:
            with cf.ThreadPoolExecutor(max_workers=6) as ex:
                for info in ex.map(lambda n: make(build, n, outdir, specs.get(n)), todo):
                    meta[info["name"]] = info
            for n in todo:
                shutil.rmtree(os.path.join(outdir, "t_" + n), ignore_errors=True)
            with open(meta_p, "w") as f:
                json.dump(meta, f, indent=1)
    return outdir, {n: meta[n] for n in names}
