"""C14 clause (a), journals: recompute every checksum of a jbd2 log the tools wrote.

Built on the independent encoder/decoder of gen/jbd2write.py (own crc32c / big-endian crc32, own image and block
decoding; imported, not edited).  Shares no code with e2fsprogs.  walk(img) follows the log from the journal
superblock like a recovery scan would (s_start, s_sequence, ring wrap) and returns one record per checksummed object:

  jsb     journal superblock             v2/v3: crc32c(~0, 1024 bytes with s_checksum = 0); s_checksum_type must be 4 (crc32c)
  desc    descriptor block tail          v2/v3: crc32c(seed, block with the 4 tail bytes = 0), seed = crc32c(~0, jsb.s_uuid)
  tag     one block tag                  v2/v3: crc32c(crc32c(seed, be32(sequence)), the data block AS STORED IN THE LOG)
                                         v3 stores 32 bits, v2 the low 16 bits
  revoke  revoke block tail              like desc
  commit  commit block                   v2/v3: crc32c(seed, block with h_chksum[0] = 0)
                                         v1 (COMPAT_CHECKSUM): h_chksum[0] = crc32_be(~0, every descriptor block of the
                                         transaction followed by the data blocks it describes), type 1, size 4; revoke
                                         blocks do not enter that sum (it is what a recovery scan accumulates)
Checksums travel as 16-bit halves (TLC integers are 32-bit)."""
import os, sys, struct
sys.path.insert(0, os.path.dirname(os.path.abspath(__file__)))
import jbd2write as J

MAGIC_BYTES = struct.pack(">I", J.MAGIC)


def _h(v):
    return [(v >> 16) & 0xFFFF, v & 0xFFFF]


def _obj(kind, seq, stored, fmt, **kw):
    d = dict(k=kind, seq=seq & 0x7FFFFFFF, st=_h(stored), fm=_h(fmt), fd=_h(fmt), esc=0, logmagic=0, blk=-1, ctype=-1, n=0)
    d.update(kw)
    return d


def walk(img_path, limit=4096):
    """-> dict(ver, b64, bs, start, seq, first, maxlen, objs=[...], err=[...]); never raises on a readable image"""
    out = dict(ver=0, b64=0, bs=0, start=0, objs=[], err=[], tags=0, descs=0, revblocks=0, revoked=0, commits=0, ctype=-1)
    try:
        im = J.Image(img_path)
        jmap = im.journal_map()
    except Exception as e:
        out["err"].append("nojournal:%r" % (e,))
        return out
    if not jmap:
        out["err"].append("nojournal:empty")
        return out
    bs = im.bs
    raw = im.rd(jmap[0])
    magic, btype, _ = struct.unpack_from(">III", raw, 0)
    if magic != J.MAGIC or btype not in (J.T_SBV1, J.T_SBV2):
        out["err"].append("jsb:magic_or_type")
        return out
    jbs, maxlen, first, seq, start = struct.unpack_from(">IIIII", raw, 12)
    comp, inc, _ro = struct.unpack_from(">III", raw, 36) if btype == J.T_SBV2 else (0, 0, 0)
    uuid = raw[48:64]
    v2, v3, v1 = bool(inc & J.INCOMPAT_CSUM2), bool(inc & J.INCOMPAT_CSUM3), bool(comp & J.COMPAT_CHECKSUM)
    if v2 and v3:
        out["err"].append("jsb:csum_v2_and_v3")
    if v1 and (v2 or v3):
        out["err"].append("jsb:csum_v1_and_v23")
    ver = 3 if v3 else 2 if v2 else 1 if v1 else 0
    v23 = ver >= 2
    out.update(ver=ver, b64=1 if inc & J.INCOMPAT_64BIT else 0, bs=bs, start=start, seq=seq & 0x7FFFFFFF, first=first, maxlen=maxlen,
               ctype=raw[0x50])
    if jbs != bs or maxlen > len(jmap) or first < 1 or first >= maxlen or (start and not first <= start < maxlen):
        out["err"].append("jsb:geometry")
        return out
    seed = J.crc32c_raw(0xFFFFFFFF, uuid)
    if v23:
        z = bytearray(raw[:1024]); stored = struct.unpack_from(">I", z, 0xFC)[0]
        struct.pack_into(">I", z, 0xFC, 0)
        out["objs"].append(_obj("jsb", seq, stored, J.crc32c_raw(0xFFFFFFFF, bytes(z)), ctype=raw[0x50]))

    def nxt(p):
        p += 1
        return first + (p - maxlen) if p >= maxlen else p

    pos, steps = start, 0
    v1sum = v1all = 0xFFFFFFFF          # v1all: every block of the transaction incl. revoke blocks (what the named deviation sums)
    while pos and steps < limit:
        steps += 1
        b = im.rd(jmap[pos])
        m, t, s = struct.unpack_from(">III", b, 0)
        if m != J.MAGIC or s != (seq & 0xFFFFFFFF):
            break
        if t == J.T_DESC:
            d = J.decode_block(b, inc, comp)
            out["descs"] += 1
            if v23:
                out["objs"].append(_obj("desc", s, struct.unpack_from(">I", b, bs - 4)[0], J.crc32c_raw(seed, b[:bs - 4] + b"\0\0\0\0"), n=len(d["tags"])))
            if ver == 1:
                v1sum = J.crc32_be_raw(v1sum, b); v1all = J.crc32_be_raw(v1all, b)
            for tg in d["tags"]:
                if not inc & J.INCOMPAT_64BIT:
                    tg["blk"] &= 0xFFFFFFFF          # t_blocknr_high means nothing without the 64bit feature
                pos = nxt(pos)
                data = im.rd(jmap[pos])
                fmt = 0
                if ver == 1:
                    v1sum = J.crc32_be_raw(v1sum, data); v1all = J.crc32_be_raw(v1all, data)
                elif v23:
                    fmt = J.crc32c_raw(J.crc32c_raw(seed, struct.pack(">I", s)), data)
                if ver == 2:
                    fmt &= 0xFFFF
                out["tags"] += 1
                out["objs"].append(_obj("tag", s, tg["cs"] if v23 else 0, fmt if v23 else 0, esc=tg["flags"] & J.F_ESCAPE,
                                        logmagic=int(data[:4] == MAGIC_BYTES), blk=tg["blk"] if tg["blk"] < (1 << 31) else -2,
                                        n=pos, _data=data))
            pos = nxt(pos)
        elif t == J.T_REVOKE:
            d = J.decode_block(b, inc, comp)
            out["revblocks"] += 1
            out["revoked"] += len(d["blks"])
            if ver == 1:
                v1all = J.crc32_be_raw(v1all, b)
            if v23:
                out["objs"].append(_obj("revoke", s, struct.unpack_from(">I", b, bs - 4)[0], J.crc32c_raw(seed, b[:bs - 4] + b"\0\0\0\0"), n=len(d["blks"])))
            pos = nxt(pos)
        elif t == J.T_COMMIT:
            out["commits"] += 1
            if v23:
                z = bytearray(b); stored = struct.unpack_from(">I", z, 16)[0]
                struct.pack_into(">I", z, 16, 0)
                out["objs"].append(_obj("commit", s, stored, J.crc32c_raw(seed, bytes(z)), ctype=b[12], n=b[13]))
            elif ver == 1:
                out["objs"].append(_obj("commit", s, struct.unpack_from(">I", b, 16)[0], v1sum, ctype=b[12], n=b[13], fd=_h(v1all)))
            v1sum = v1all = 0xFFFFFFFF
            seq += 1
            pos = nxt(pos)
        else:
            break
    return out


if __name__ == "__main__":
    import json
    r = walk(sys.argv[1])
    for o in r["objs"]:
        o.pop("_data", None)
    print(json.dumps(r))
