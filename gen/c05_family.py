"""C05 universe (a), second part: images that concretise the family FsckPreserve enumerates (Emit_FsckPreserve):

  DirFamily    = entry-count class x name-length class x collision class      -> one directory each under /fam
  MapShapes    = hole / size patterns at the boundaries of the two mapping formats -> one file each under /maps
  StartLayouts = linear (as populated by mke2fs -d), rehashed (after e2fsck -fyD), rehashed_then_grown (then files
                 written into and removed from every directory through debugfs, i.e. libext2fs' own htree insertion)

on three carriers: `e4` (ext4, 1 KiB blocks, metadata_csum, extents), `e3` (ext3: block maps, no checksums) and `up`
(the ext3 image with the extent feature switched on by tune2fs: an upgraded filesystem whose files are still block mapped).

Entry counts are derived from the real constants (block size, dirent size, csum tail, dx root limit and the fill rule of
e2fsck/rehash.c copy_dir_entries: a leaf is closed once less than 20 % of it is left).  Every entry of a family directory is
a hard link to one inode, so thousands of entries cost one inode.  Hash collisions are REAL collisions of the half-MD4
directory hash under the fixed hash seed, found by a birthday search with the reader's own hash code and re-verified on
every use; for class `pairs_at_boundary` the number of entries hashing below the pair is chosen so that the pair straddles
a leaf boundary when the directory is packed (the continuation flag of the index is then read back and reported).
What was actually obtained (levels, leaves, continuation flags per directory; depth per file) is measured on the images
with the independent reader and returned for the evidence file.  Images are cached next to the scratch build."""
import os, sys, json, shutil, hashlib, struct, time
from common import run, tool_env, Lock, SCRATCH, VERIF
sys.path.insert(0, os.path.join(VERIF, "reader"))
import ext4read
import mkbase

BS = 1024
CARRIERS = {
    "e4": dict(args="-t ext4 -b 1024 -N 2048 -O metadata_csum,64bit -J size=1", kb=24576, tail=12),
    "e3": dict(args="-t ext3 -b 1024 -N 2048 -J size=1", kb=24576, tail=0),
}
ALPHA1 = [chr(c) for c in range(0x21, 0x7F) if chr(c) not in "/."]
B36 = "0123456789abcdefghijklmnopqrstuvwxyz"


def entsize(n):
    return 8 + ((n + 3) & ~3)


def per_leaf(tail, n, slack_pct=20):
    """entries of name length n that e2fsck -D puts into one leaf (copy_dir_entries, equal-sized entries)"""
    rec = entsize(n)
    left = BS - tail
    slack = max((BS - tail) * slack_pct // 100, 12)
    k = 0
    while rec <= left:
        left -= rec
        k += 1
        if left < slack:
            break
    return k


def root_limit(tail):
    return (BS - 32 - (8 if tail else 0)) // 8


def entry_count(ecls, n, tail):
    rec = entsize(n)
    cap0 = (BS - tail - 24) // rec            # block 0 of a linear directory also holds '.' and '..'
    pl = per_leaf(tail, n)
    lim = root_limit(tail)
    return {"zero": 0, "one": 1, "blk_minus1": cap0 - 1, "blk_full": cap0, "blk_plus1": cap0 + 1,
            "two_leaves": max(cap0 + 2, 2 * pl - 1), "idx_minus1": (lim - 1) * pl, "idx_full": lim * pl,
            "idx_plus1": lim * pl + 1, "two_levels": lim * pl + lim * pl // 2}[ecls]


# ---------------------------------------------------------------------------------------------------------------
# names and collisions
# ---------------------------------------------------------------------------------------------------------------
def _b36(i, w):
    s = ""
    for _ in range(w):
        s = B36[i % 36] + s
        i //= 36
    return s


def name_of(n, i):
    """i-th candidate name of length n (n = 1: a single character)"""
    if n == 1:
        return ALPHA1[i]
    var = min(n, 8 if n <= 8 else (n % 32 or 32))
    if n > 8 and var < 8:
        var += 32
    pre = n - var
    return "p" * pre + _b36(i, min(var, 12)).rjust(var, "q")


def fast_hasher(n, seed):
    """half-MD4 (signed-char variant, ASCII names) of candidate names of length n: the state after the common prefix of
    full 32-byte chunks is computed once (a full chunk does not depend on the remaining length), then one transform per
    name.  Agreement with the reader's dirhash() is asserted on the first candidates."""
    probe = name_of(n, 0).encode()
    var = len(probe) - (len(probe) - 1) // 32 * 32 if n > 8 else n
    pre = len(probe) - var
    st = list(seed) if any(seed) else [0x67452301, 0xEFCDAB89, 0x98BADCFE, 0x10325476]
    for k in range(0, pre, 32):
        ext4read._half_md4(st, ext4read._str2hashbuf(probe[k:], 8, True))

    def h(nm):
        buf = list(st)
        ext4read._half_md4(buf, ext4read._str2hashbuf(nm[pre:], 8, True))
        v = buf[1] & 0xFFFFFFFE
        return 0xFFFFFFFC if v == 0xFFFFFFFE else v
    for i in range(3):
        nm = name_of(n, i).encode()
        if nm[:pre] != probe[:pre] or h(nm) != ext4read.dirhash(1, nm, seed)[0]:
            raise RuntimeError("fast hash disagrees with the reader's dirhash for length %d" % n)
    return h


def hashes(n, count, seed, hver):
    """[(name, hash)] for the first `count` candidates of length n"""
    h = fast_hasher(n, seed)
    return [(nm, h(nm.encode())) for nm in (name_of(n, i) for i in range(count))]


def find_collisions(n, seed, hver, want=3, limit=400000):
    """colliding pairs among the candidate names of length n: [(name_a, name_b, hash)], by birthday search"""
    cache = os.path.join(SCRATCH, "c05-collisions.json")
    key = "%s:%d:%d:%d" % (",".join("%08x" % x for x in seed), hver, n, want)
    db = {}
    with Lock(cache + ".lock"):
        if os.path.exists(cache):
            try:
                db = json.load(open(cache))
            except ValueError:
                db = {}
        if key in db:
            return [tuple(x) for x in db[key]]
        seen, pairs = {}, []
        i = 0
        fh = fast_hasher(n, seed)
        while len(pairs) < want and i < limit:
            nm = name_of(n, i)
            h = fh(nm.encode())
            if h in seen:
                pairs.append((seen[h], nm, h))
            else:
                seen[h] = nm
            i += 1
        db[key] = pairs
        with open(cache + ".tmp", "w") as f:
            json.dump(db, f)
        os.replace(cache + ".tmp", cache)
    return pairs


def dir_names(ecls, n, coll, tail, seed, hver, pool, pairs):
    """the entry names of one family directory + what was forced"""
    N = entry_count(ecls, n, tail)
    info = {"N": N, "forced_boundary": 0, "pairs": 0}
    if n == 1:
        N = min(N, len(ALPHA1))
        info["N"] = N
        return [name_of(1, i) for i in range(N)], info
    if coll == "none" or N < 2 or not pairs:
        return [nm for nm, h in pool[:N]], info
    pl = per_leaf(tail, n)
    if coll == "pair":
        a, b, h = pairs[0]
        rest = [nm for nm, hh in pool if nm not in (a, b)][:N - 2]
        info["pairs"] = 1
        return rest + [a, b], info
    # pairs_at_boundary: as many entries below the pair's hash as puts the pair across the end of a leaf
    a, b, h = pairs[0]
    below = [nm for nm, hh in pool if hh < h and nm not in (a, b)]
    above = [nm for nm, hh in pool if hh > h and nm not in (a, b)]
    m = (N - 2 + 1) // pl
    nb = m * pl - 1
    while nb > len(below) or (N - 2 - nb) > len(above) or nb > N - 2:
        m -= 1
        nb = m * pl - 1
        if m < 1:
            break
    if m >= 1 and nb >= 0:
        names = below[:nb] + [a, b] + above[:N - 2 - nb]
        info["forced_boundary"] = 1
        info["pairs"] = 1
        # a second pair somewhere else when there is room
        if len(pairs) > 1 and N > 2 * pl + 4:
            a2, b2, h2 = pairs[1]
            if a2 not in names and b2 not in names and h2 > h:
                names = names[:-2] + [a2, b2]
                info["pairs"] = 2
        return names, info
    rest = [nm for nm, hh in pool if nm not in (a, b)][:N - 2]
    info["pairs"] = 1
    return rest + [a, b], info


# ---------------------------------------------------------------------------------------------------------------
# host tree
# ---------------------------------------------------------------------------------------------------------------
def islands(path, positions, nblk=1):
    with open(path, "wb") as f:
        for k, p in enumerate(positions):
            f.seek(p * BS)
            f.write(bytes(((k * 37 + i) & 255) or 1 for i in range(nblk * BS)))
    return path


MAP_SHAPES = {
    "ext_inode_1": lambda p: islands(p, [0], 3),
    "ext_inode_4": lambda p: islands(p, [0, 3, 6, 9]),
    "ext_leaf_5": lambda p: islands(p, [0, 3, 6, 9, 12]),
    "ext_leaf_full": lambda p: islands(p, [2 * k for k in range(84)]),
    "ext_depth2": lambda p: islands(p, [2 * k for k in range(345)]),
    "ext_uninit": lambda p: islands(p, [0], 2),                    # + debugfs fallocate behind the data
    "ext_collapsible": lambda p: islands(p, [0, 3, 6, 9, 12, 15]),  # + debugfs punch: few extents left in a depth-1 tree
    "ind_11": lambda p: islands(p, [0], 11),
    "ind_12": lambda p: islands(p, [0], 12),
    "ind_13": lambda p: islands(p, [0], 13),
    "ind_268": lambda p: islands(p, [0], 268),
    "ind_269": lambda p: islands(p, [0], 269),
    "ind_sparse": lambda p: islands(p, [5, 11, 12, 13, 267, 268, 300]),
    "ind_dind_far": lambda p: islands(p, [0, 12 + 256 + 256 * 3 + 5]),
}


def host_tree(root, fam, shapes, tail, seed, hver):
    if os.path.exists(root):
        shutil.rmtree(root)
    os.makedirs(root + "/fam")
    os.makedirs(root + "/targets")
    os.makedirs(root + "/maps")
    T = 1500000000
    pools, pairs = {}, {}
    need = {}
    for e, n, c in fam:
        need[n] = max(need.get(n, 0), entry_count(e, n, tail) + 8)
    for n, cnt in need.items():
        if n == 1:
            continue
        pools[n] = hashes(n, cnt + 600, seed, hver)
        pairs[n] = find_collisions(n, seed, hver) if any(c != "none" and nn == n for e, nn, c in fam) else []
        for a, b, h in pairs[n]:
            ha, hb = ext4read.dirhash(hver, a.encode(), seed)[0], ext4read.dirhash(hver, b.encode(), seed)[0]
            if ha != hb or a == b or len(a) != n or len(b) != n:
                raise RuntimeError("cached collision %r / %r does not collide" % (a, b))
    meta = {}
    for e, n, c in sorted(fam):
        dn = "d_%s_%d_%s" % (e, n, c)
        names, info = dir_names(e, n, c, tail, seed, hver, pools.get(n, []), pairs.get(n, []))
        if len(set(names)) != len(names):
            raise RuntimeError("duplicate names generated for %s" % dn)
        os.makedirs(os.path.join(root, "fam", dn))
        tgt = os.path.join(root, "targets", dn)
        with open(tgt, "wb") as f:
            f.write(dn.encode() + b"\n")
        os.utime(tgt, (T, T))
        for nm in names:
            os.link(tgt, os.path.join(root, "fam", dn, nm))
        info["names"] = len(names)
        info["n"] = n
        meta[dn] = info
    for s in shapes:
        p = os.path.join(root, "maps", s)
        MAP_SHAPES[s](p)
        os.utime(p, (T, T))
    with open(os.path.join(root, "grow_src"), "wb") as f:
        f.write(b"grown\n")
    for d, ds, fs in os.walk(root):
        os.utime(d, (T, T))
    return meta


# ---------------------------------------------------------------------------------------------------------------
# measuring what was obtained
# ---------------------------------------------------------------------------------------------------------------
def measure(img):
    """per family directory: kind, levels, blocks, continuation flags in the dx root; per map file: map kind, index/ind blocks"""
    r = ext4read.Reader(img)
    P = r.project()
    if "fatal" in P or "reader_err" in P:
        return {"error": str(P.get("fatal") or P.get("reader_err"))[:200]}
    byino = {i["ino"]: i for i in P["inodes"]}
    dirs = {d["dir"]: d for d in P["dirs"]}
    name_ino = {}
    for t in P["tree"]:
        name_ino[t["path"]] = t["ino"]
    out = {"dirs": {}, "maps": {}}
    for path, ino in name_ino.items():
        if path.startswith("/fam/") and path.count("/") == 2 and ino in dirs:
            d = dirs[ino]
            cont = 0
            off = r.loc.get("dirblk", {}).get("%d:0" % ino)
            if d["kind"] == "htree" and off is not None:
                blk = r.img[off:off + BS]
                cnt = struct.unpack_from("<H", blk, 0x22)[0]
                for k in range(1, min(cnt, 124)):
                    if struct.unpack_from("<I", blk, 0x20 + 8 * k)[0] & 1:
                        cont += 1
            out["dirs"][path[5:]] = {"kind": d["kind"], "levels": d["levels"], "entries": len(d["ents"]) - 2,
                                      "blocks": sum(b - a + 1 for a, b in byino[ino]["own"]["data"]), "cont_flags_root": cont}
        elif path.startswith("/maps/"):
            i = byino[ino]
            out["maps"][path[6:]] = {"map": i["map"], "extents_or_runs": len(i["own"]["data"]), "index_blocks": len(i["own"]["index"]),
                                      "ind_blocks": len(i["own"]["ind"])}
    return out


def summarise(m):
    if "error" in m:
        return m
    ds = m["dirs"].values()
    return {"dirs": len(m["dirs"]), "linear": sum(1 for d in ds if d["kind"] != "htree"), "htree_1_level": sum(1 for d in ds if d["kind"] == "htree" and d["levels"] <= 1),
            "htree_2_levels": sum(1 for d in ds if d["kind"] == "htree" and d["levels"] >= 2),
            "dirs_with_continuation_flag": sum(1 for d in ds if d["cont_flags_root"]),
            "max_entries": max([d["entries"] for d in ds] or [0]),
            "files": len(m["maps"]), "files_with_index_blocks": sum(1 for f in m["maps"].values() if f["index_blocks"]),
            "files_with_2plus_index_blocks": sum(1 for f in m["maps"].values() if f["index_blocks"] > 1),
            "files_with_ind_blocks": sum(1 for f in m["maps"].values() if f["ind_blocks"]),
            "files_with_2plus_ind_blocks": sum(1 for f in m["maps"].values() if f["ind_blocks"] > 1)}


# ---------------------------------------------------------------------------------------------------------------
# images
# ---------------------------------------------------------------------------------------------------------------
def _fsck_n(build, img):
    rc, out, err = run([os.path.join(build, "e2fsck", "e2fsck"), "-fn", img], env=tool_env(build), timeout=300)
    return rc, (out + err).decode("utf8", "replace")[-400:]


def build_carrier(build, outdir, cname, fam, shapes):
    car = CARRIERS[cname]
    env = tool_env(build)
    seed = struct.unpack("<4I", bytes.fromhex(mkbase.HASH_SEED.replace("-", "")))
    hver = 1                                       # half_md4, signed-char variant: the names are ASCII
    tree = os.path.join(outdir, "tree_" + cname)
    meta = host_tree(tree, fam, shapes, car["tail"], seed, hver)
    res = {}
    lin = os.path.join(outdir, cname + "_linear.img")
    with open(lin, "wb") as f:
        f.truncate(car["kb"] * 1024)
    cmd = [os.path.join(build, "misc", "mke2fs"), "-q", "-F", "-U", mkbase.UUID, "-E", "hash_seed=" + mkbase.HASH_SEED] + car["args"].split() + ["-d", tree, lin]
    rc, out, err = run(cmd, env=env, timeout=600)
    if rc != 0:
        raise RuntimeError("mke2fs -d failed for family carrier %s: %s" % (cname, err.decode("utf8", "replace")[-400:]))
    dbg = os.path.join(build, "debugfs", "debugfs")
    # unwritten extents exist only in the extent format (on a block-mapped file debugfs' fallocate leaves i_size behind: C09's subject)
    cmds = ("fallocate /maps/ext_uninit 2 9\n" if cname == "e4" else "") + "punch /maps/ext_collapsible 5\n"
    rc, out, err = run([dbg, "-w", "-f", "-", lin], env=env, timeout=120, input=cmds.encode())
    shutil.rmtree(tree, ignore_errors=True)
    imgs = [("linear", lin)]
    reh = os.path.join(outdir, cname + "_rehashed.img")
    shutil.copyfile(lin, reh)
    rc, out, err = run([os.path.join(build, "e2fsck", "e2fsck"), "-fyD", reh], env=env, timeout=600)
    res["rehash_rc"] = rc
    imgs.append(("rehashed", reh))
    gro = os.path.join(outdir, cname + "_rehashed_then_grown.img")
    shutil.copyfile(reh, gro)
    grow_src = os.path.join(outdir, "grow_src")
    with open(grow_src, "wb") as f:
        f.write(b"grown\n")
    cmds = []
    for dn, info in sorted(meta.items()):
        n = info["n"]
        cmds.append("cd /fam/%s" % dn)
        if n == 1:
            extra = ["~"] if info["names"] < len(ALPHA1) else []
            extra = [x for x in extra if x not in [name_of(1, i) for i in range(info["names"])]]
        else:
            extra = [("g%d" % k).ljust(n, "G")[:n] for k in range(5)]
        for x in extra:
            cmds.append("write %s %s" % (grow_src, x))
        for x in extra[1::2]:
            cmds.append("rm %s" % x)
    rc, out, err = run([dbg, "-w", "-f", "-", gro], env=env, timeout=600, input=("\n".join(cmds) + "\n").encode())
    res["grow_rc"] = rc
    imgs.append(("rehashed_then_grown", gro))
    outl = []
    for lay, p in imgs:
        rc, tail = _fsck_n(build, p)
        m = measure(p)
        outl.append({"name": "%s_%s" % (cname, lay), "img": p, "carrier": cname, "layout": lay, "fsck_n": rc, "fsck_tail": tail if rc else "",
                     "measured": summarise(m), "dirs": meta if lay == "linear" else None})
    return outl


def family_images(build, univ, tier):
    """-> ([{"name", "img", "carrier", "layout", "measured"}], note).  Only images that pass e2fsck -fn are returned."""
    stamp = open(os.path.join(build, ".verif_stamp")).read().strip()[:16]
    famlist = univ["dirfamily"] if tier == "thorough" else univ["quickdirfamily"]
    gen_h = hashlib.sha256(open(os.path.abspath(__file__), "rb").read() + json.dumps([famlist, univ["mapshapes"]], sort_keys=True).encode()).hexdigest()[:8]
    outdir = os.path.join(build, "verif-c05fam-%s-%s" % (stamp, gen_h))
    metaf = os.path.join(outdir, "meta.json")
    with Lock(os.path.join(build, "verif-c05fam.lock")):
        if os.path.exists(metaf):
            allimgs = json.load(open(metaf))
        else:
            for d in os.listdir(build):
                if d.startswith("verif-c05fam-") and not d.startswith("verif-c05fam-%s-" % stamp):
                    shutil.rmtree(os.path.join(build, d), ignore_errors=True)
            os.makedirs(outdir)
            fam = [tuple(x) for x in famlist]
            shapes = sorted(univ["mapshapes"])
            unknown = [s for s in shapes if s not in MAP_SHAPES]
            if unknown:
                raise RuntimeError("mapping shapes of the specification without a generator: %s" % unknown)
            allimgs = []
            for cname in ("e4", "e3"):
                allimgs += build_carrier(build, outdir, cname, fam, shapes)
            # upgraded carrier: ext3 content, extent feature switched on (files stay block mapped until bmap2extent)
            for lay in ("linear", "rehashed_then_grown"):
                src = os.path.join(outdir, "e3_%s.img" % lay)
                dst = os.path.join(outdir, "up_%s.img" % lay)
                shutil.copyfile(src, dst)
                rc, out, err = run([os.path.join(build, "misc", "tune2fs"), "-O", "extent,uninit_bg", dst], env=tool_env(build, {"E2FSPROGS_UNDO_DIR": "none"}), timeout=120)
                rc2, out2, err2 = run([os.path.join(build, "e2fsck", "e2fsck"), "-fy", dst], env=tool_env(build), timeout=300)
                rc3, tail = _fsck_n(build, dst)
                allimgs.append({"name": "up_%s" % lay, "img": dst, "carrier": "up", "layout": lay, "fsck_n": rc3 if rc == 0 else 100 + rc,
                                "fsck_tail": tail if rc3 else "", "measured": summarise(measure(dst)), "dirs": None})
            with open(metaf, "w") as f:
                json.dump(allimgs, f, indent=1)
    ok = [x for x in allimgs if x["fsck_n"] == 0]
    bad = [(x["name"], x["fsck_n"], x["fsck_tail"][-200:]) for x in allimgs if x["fsck_n"] != 0]
    if tier == "quick":
        ok = [x for x in ok if x["name"] in ("e4_linear", "e4_rehashed_then_grown", "e3_linear", "up_linear")]
    note = {"images": {x["name"]: x["measured"] for x in ok}, "dropped_not_clean": bad,
            "entry_counts_e4": {"%s/%d" % (e, n): entry_count(e, n, 12) for e, n, c in sorted(set((e, n, "x") for e, n, c in map(tuple, famlist)))}}
    return ok, note


if __name__ == "__main__":
    sys.path.insert(0, os.path.join(VERIF, "lib"))
    import build as B
    b = B.build()
    u = json.load(open(sys.argv[1]))
    t0 = time.time()
    imgs, note = family_images(b, u, sys.argv[2] if len(sys.argv) > 2 else "thorough")
    print("%.1fs" % (time.time() - t0))
    print(json.dumps(note, indent=1)[:6000])
