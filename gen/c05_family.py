"""C05 universe (a), second part: images that concretise the family FsckPreserve enumerates (Emit_FsckPreserve):

  DirFamily    = entry-count class x name-length class x collision class      -> one directory each under /fam
  MapShapes    = hole / size patterns at the boundaries of the two mapping formats -> one file each under /maps
  StartLayouts = linear (as populated by mke2fs -d), rehashed (after e2fsck -fyD), rehashed_then_grown (then files
                 written into and removed from every directory through debugfs, i.e. libext2fs' own htree insertion)

on three carriers: `e4` (ext4, 1 KiB blocks, metadata_csum, extents), `e3` (ext3: block maps, no checksums) and `up`
(the ext3 image with the extent feature switched on by tune2fs: an upgraded filesystem whose files are still block mapped).

  ExtStateFamily = tree class x written/unwritten pattern of up to three neighbouring extents x adjacency class -> one file
                 each under /maps of the small carrier `st`.  The files are written with non-zero bytes, the trees are shaped
                 with debugfs punch, and the extents are then cut and flagged one by one through debugfs' extent editor
                 (extent_open / replace_node / insert_node [--uninit]), so every unwritten block sits on stale non-zero bytes.
  CfDirFamily  = encoding mode of the filesystem x casefold flag of the directory x name kind x size class -> one directory each
                 under /cf of the carriers `cf` (mke2fs -O casefold) and `cfs` (the same with -E encoding_flags=strict); the
                 casefold flag is set with debugfs set_inode_field while the directory is still linear.  Name kinds are
                 concrete byte strings (NAME_KINDS below) for every class the specification lists.

  SizeFamily   = file type x mapping format x block size x i_size class (relative to the mapping, or the limit of the format:
                 block map (12 + n + n^2 + n^3) blocks, extents 2^32 blocks - 1 byte, symlink 59 | 60 and blocksize - 2 | - 1)
                 -> one file each under /sz of the carrier `sz_<mapping><blocksize>`.  Files are written by debugfs from sparse host
                 files (data islands of non-zero bytes, the last mappable block included); sizes no mapped block reaches are set
                 with set_inode_field size.  What was obtained is read back with the independent reader.

Entry counts are derived from the real constants (block size, dirent size, csum tail, dx root limit and the fill rule of
e2fsck/rehash.c copy_dir_entries: a leaf is closed once less than 20 % of it is left).  Every entry of a family directory is
a hard link to one inode, so thousands of entries cost one inode.  Hash collisions are REAL collisions of the half-MD4
directory hash under the fixed hash seed, found by a birthday search with the reader's own hash code and re-verified on
every use; for class `pairs_at_boundary` the number of entries hashing below the pair is chosen so that the pair straddles
a leaf boundary when the directory is packed (the continuation flag of the index is then read back and reported).
What was actually obtained (levels, leaves, continuation flags per directory; depth per file) is measured on the images
with the independent reader and returned for the evidence file.  Images are cached next to the scratch build."""
import os, sys, json, shutil, hashlib, struct, time
from common import run, tool_env, Lock, SCRATCH, VERIF
sys.path.insert(0, os.path.join(VERIF, "reader"))
import ext4read
import mkbase

BS = 1024
CARRIERS = {
    "e4": dict(args="-t ext4 -b 1024 -N 2048 -O metadata_csum,64bit -J size=1", kb=24576, tail=12),
    "e3": dict(args="-t ext3 -b 1024 -N 2048 -J size=1", kb=24576, tail=0),
}
ALPHA1 = [chr(c) for c in range(0x21, 0x7F) if chr(c) not in "/."]
B36 = "0123456789abcdefghijklmnopqrstuvwxyz"


def entsize(n):
    return 8 + ((n + 3) & ~3)


def per_leaf(tail, n, slack_pct=20):
    """entries of name length n that e2fsck -D puts into one leaf (copy_dir_entries, equal-sized entries)"""
    rec = entsize(n)
    left = BS - tail
    slack = max((BS - tail) * slack_pct // 100, 12)
    k = 0
    while rec <= left:
        left -= rec
        k += 1
        if left < slack:
            break
    return k


def root_limit(tail):
    return (BS - 32 - (8 if tail else 0)) // 8


def entry_count(ecls, n, tail):
    rec = entsize(n)
    cap0 = (BS - tail - 24) // rec            # block 0 of a linear directory also holds '.' and '..'
    pl = per_leaf(tail, n)
    lim = root_limit(tail)
    return {"zero": 0, "one": 1, "blk_minus1": cap0 - 1, "blk_full": cap0, "blk_plus1": cap0 + 1,
            "two_leaves": max(cap0 + 2, 2 * pl - 1), "idx_minus1": (lim - 1) * pl, "idx_full": lim * pl,
            "idx_plus1": lim * pl + 1, "two_levels": lim * pl + lim * pl // 2}[ecls]


# ---------------------------------------------------------------------------------------------------------------
# names and collisions
# ---------------------------------------------------------------------------------------------------------------
def _b36(i, w):
    s = ""
    for _ in range(w):
        s = B36[i % 36] + s
        i //= 36
    return s


def name_of(n, i):
    """i-th candidate name of length n (n = 1: a single character)"""
    if n == 1:
        return ALPHA1[i]
    var = min(n, 8 if n <= 8 else (n % 32 or 32))
    if n > 8 and var < 8:
        var += 32
    pre = n - var
    return "p" * pre + _b36(i, min(var, 12)).rjust(var, "q")


def fast_hasher(n, seed):
    """half-MD4 (signed-char variant, ASCII names) of candidate names of length n: the state after the common prefix of
    full 32-byte chunks is computed once (a full chunk does not depend on the remaining length), then one transform per
    name.  Agreement with the reader's dirhash() is asserted on the first candidates."""
    probe = name_of(n, 0).encode()
    var = len(probe) - (len(probe) - 1) // 32 * 32 if n > 8 else n
    pre = len(probe) - var
    st = list(seed) if any(seed) else [0x67452301, 0xEFCDAB89, 0x98BADCFE, 0x10325476]
    for k in range(0, pre, 32):
        ext4read._half_md4(st, ext4read._str2hashbuf(probe[k:], 8, True))

    def h(nm):
        buf = list(st)
        ext4read._half_md4(buf, ext4read._str2hashbuf(nm[pre:], 8, True))
        v = buf[1] & 0xFFFFFFFE
        return 0xFFFFFFFC if v == 0xFFFFFFFE else v
    for i in range(3):
        nm = name_of(n, i).encode()
        if nm[:pre] != probe[:pre] or h(nm) != ext4read.dirhash(1, nm, seed)[0]:
            raise RuntimeError("fast hash disagrees with the reader's dirhash for length %d" % n)
    return h


def hashes(n, count, seed, hver):
    """[(name, hash)] for the first `count` candidates of length n"""
    h = fast_hasher(n, seed)
    return [(nm, h(nm.encode())) for nm in (name_of(n, i) for i in range(count))]


def find_collisions(n, seed, hver, want=3, limit=400000):
    """colliding pairs among the candidate names of length n: [(name_a, name_b, hash)], by birthday search"""
    cache = os.path.join(SCRATCH, "c05-collisions.json")
    key = "%s:%d:%d:%d" % (",".join("%08x" % x for x in seed), hver, n, want)
    db = {}
    with Lock(cache + ".lock"):
        if os.path.exists(cache):
            try:
                db = json.load(open(cache))
            except ValueError:
                db = {}
        if key in db:
            return [tuple(x) for x in db[key]]
        seen, pairs = {}, []
        i = 0
        fh = fast_hasher(n, seed)
        while len(pairs) < want and i < limit:
            nm = name_of(n, i)
            h = fh(nm.encode())
            if h in seen:
                pairs.append((seen[h], nm, h))
            else:
                seen[h] = nm
            i += 1
        db[key] = pairs
        with open(cache + ".tmp", "w") as f:
            json.dump(db, f)
        os.replace(cache + ".tmp", cache)
    return pairs


def dir_names(ecls, n, coll, tail, seed, hver, pool, pairs):
    """the entry names of one family directory + what was forced"""
    N = entry_count(ecls, n, tail)
    info = {"N": N, "forced_boundary": 0, "pairs": 0}
    if n == 1:
        N = min(N, len(ALPHA1))
        info["N"] = N
        return [name_of(1, i) for i in range(N)], info
    if coll == "none" or N < 2 or not pairs:
        return [nm for nm, h in pool[:N]], info
    pl = per_leaf(tail, n)
    if coll == "pair":
        a, b, h = pairs[0]
        rest = [nm for nm, hh in pool if nm not in (a, b)][:N - 2]
        info["pairs"] = 1
        return rest + [a, b], info
    # pairs_at_boundary: as many entries below the pair's hash as puts the pair across the end of a leaf
    a, b, h = pairs[0]
    below = [nm for nm, hh in pool if hh < h and nm not in (a, b)]
    above = [nm for nm, hh in pool if hh > h and nm not in (a, b)]
    m = (N - 2 + 1) // pl
    nb = m * pl - 1
    while nb > len(below) or (N - 2 - nb) > len(above) or nb > N - 2:
        m -= 1
        nb = m * pl - 1
        if m < 1:
            break
    if m >= 1 and nb >= 0:
        names = below[:nb] + [a, b] + above[:N - 2 - nb]
        info["forced_boundary"] = 1
        info["pairs"] = 1
        # a second pair somewhere else when there is room
        if len(pairs) > 1 and N > 2 * pl + 4:
            a2, b2, h2 = pairs[1]
            if a2 not in names and b2 not in names and h2 > h:
                names = names[:-2] + [a2, b2]
                info["pairs"] = 2
        return names, info
    rest = [nm for nm, hh in pool if nm not in (a, b)][:N - 2]
    info["pairs"] = 1
    return rest + [a, b], info


# ---------------------------------------------------------------------------------------------------------------
# host tree
# ---------------------------------------------------------------------------------------------------------------
def islands(path, positions, nblk=1):
    with open(path, "wb") as f:
        for k, p in enumerate(positions):
            f.seek(p * BS)
            f.write(bytes(((k * 37 + i) & 255) or 1 for i in range(nblk * BS)))
    return path


MAP_SHAPES = {
    "ext_inode_1": lambda p: islands(p, [0], 3),
    "ext_inode_4": lambda p: islands(p, [0, 3, 6, 9]),
    "ext_leaf_5": lambda p: islands(p, [0, 3, 6, 9, 12]),
    "ext_leaf_full": lambda p: islands(p, [2 * k for k in range(84)]),
    "ext_depth2": lambda p: islands(p, [2 * k for k in range(345)]),
    "ext_uninit": lambda p: islands(p, [0], 2),                    # + debugfs fallocate behind the data
    "ext_collapsible": lambda p: islands(p, [0, 3, 6, 9, 12, 15]),  # + debugfs punch: few extents left in a depth-1 tree
    "ind_11": lambda p: islands(p, [0], 11),
    "ind_12": lambda p: islands(p, [0], 12),
    "ind_13": lambda p: islands(p, [0], 13),
    "ind_268": lambda p: islands(p, [0], 268),
    "ind_269": lambda p: islands(p, [0], 269),
    "ind_sparse": lambda p: islands(p, [5, 11, 12, 13, 267, 268, 300]),
    "ind_dind_far": lambda p: islands(p, [0, 12 + 256 + 256 * 3 + 5]),
}


def host_tree(root, fam, shapes, tail, seed, hver):
    if os.path.exists(root):
        shutil.rmtree(root)
    os.makedirs(root + "/fam")
    os.makedirs(root + "/targets")
    os.makedirs(root + "/maps")
    T = 1500000000
    pools, pairs = {}, {}
    need = {}
    for e, n, c in fam:
        need[n] = max(need.get(n, 0), entry_count(e, n, tail) + 8)
    for n, cnt in need.items():
        if n == 1:
            continue
        pools[n] = hashes(n, cnt + 600, seed, hver)
        pairs[n] = find_collisions(n, seed, hver) if any(c != "none" and nn == n for e, nn, c in fam) else []
        for a, b, h in pairs[n]:
            ha, hb = ext4read.dirhash(hver, a.encode(), seed)[0], ext4read.dirhash(hver, b.encode(), seed)[0]
            if ha != hb or a == b or len(a) != n or len(b) != n:
                raise RuntimeError("cached collision %r / %r does not collide" % (a, b))
    meta = {}
    for e, n, c in sorted(fam):
        dn = "d_%s_%d_%s" % (e, n, c)
        names, info = dir_names(e, n, c, tail, seed, hver, pools.get(n, []), pairs.get(n, []))
        if len(set(names)) != len(names):
            raise RuntimeError("duplicate names generated for %s" % dn)
        os.makedirs(os.path.join(root, "fam", dn))
        tgt = os.path.join(root, "targets", dn)
        with open(tgt, "wb") as f:
            f.write(dn.encode() + b"\n")
        os.utime(tgt, (T, T))
        for nm in names:
            os.link(tgt, os.path.join(root, "fam", dn, nm))
        info["names"] = len(names)
        info["n"] = n
        meta[dn] = info
    for s in shapes:
        p = os.path.join(root, "maps", s)
        MAP_SHAPES[s](p)
        os.utime(p, (T, T))
    with open(os.path.join(root, "grow_src"), "wb") as f:
        f.write(b"grown\n")
    for d, ds, fs in os.walk(root):
        os.utime(d, (T, T))
    return meta


# ---------------------------------------------------------------------------------------------------------------
# written / unwritten extent states (carrier `st`)
# ---------------------------------------------------------------------------------------------------------------
ST_CARRIER = dict(args="-t ext4 -b 1024 -N 256 -O metadata_csum,64bit -J size=1", kb=8192)
ST_LEN = 2                  # blocks per extent of the pattern
ST_ISLAND0 = 20             # first logical block of the filler extents that give the tree its depth
ST_D2_KEEP = 6              # filler extents left in the depth-2 tree


def st_name(t, p, a):
    return "st_%s_%s_%s" % (t, "".join(p), a)


def st_core(p, a):
    """logical start blocks of the pattern's extents"""
    return [k * (ST_LEN + 1 if a == "loggap" else ST_LEN) for k in range(len(p))]


def st_host_file(path, t, p, a):
    nfill = {"inode": 0, "collapsible": 5, "leaf": 5, "collapsible_d2": 345}[t]
    with open(path, "wb") as f:
        for k, l in enumerate(st_core(p, a)):
            f.seek(l * BS)
            f.write(bytes((((k + 1) * 53 + i) % 255) + 1 for i in range(ST_LEN * BS)))          # never a zero byte
        for j in range(nfill):
            f.seek((ST_ISLAND0 + 2 * j) * BS)
            f.write(bytes([(j % 200) + 33]) * BS)


def st_shape(build, img, fam):
    """punch the filler extents away where the class says so, then cut / flag the pattern's extents; returns what was obtained"""
    env = tool_env(build)
    dbg = os.path.join(build, "debugfs", "debugfs")
    cmds = []
    for t, p, a in fam:
        if t == "collapsible":
            cmds.append("punch /maps/%s %d" % (st_name(t, p, a), ST_ISLAND0))
        elif t == "collapsible_d2":
            cmds.append("punch /maps/%s %d" % (st_name(t, p, a), ST_ISLAND0 + 2 * ST_D2_KEEP))
    rc, out, err = run([dbg, "-w", "-f", "-", img], env=env, timeout=300, input=("\n".join(cmds) + "\n").encode())
    if rc != 0:
        raise RuntimeError("debugfs punch failed on the extent-state carrier: %s" % err.decode("utf8", "replace")[-300:])

    def runs_of():
        r = ext4read.Reader(img)
        P = r.project()
        if "fatal" in P or "reader_err" in P:
            raise RuntimeError("reader cannot project the extent-state carrier: %s" % str(P.get("fatal") or P.get("reader_err"))[:200])
        byino = {i["ino"]: i for i in P["inodes"]}
        return r, {t_["path"][6:]: byino[t_["ino"]] for t_ in P["tree"] if t_["path"].startswith("/maps/")}
    r, files = runs_of()
    cmds, want = [], {}
    for t, p, a in fam:
        nm = st_name(t, p, a)
        core = st_core(p, a)
        have = {x[0]: x for x in files[nm]["runs"]}
        if a == "loggap":
            phys = []
            for l in core:
                if l not in have or have[l][1] != ST_LEN:
                    raise RuntimeError("%s: expected an extent of %d blocks at %d, have %s" % (nm, ST_LEN, l, files[nm]["runs"][:6]))
                phys.append(have[l][2])
        else:
            if 0 not in have or have[0][1] != ST_LEN * len(p):
                raise RuntimeError("%s: expected one extent of %d blocks at 0, have %s" % (nm, ST_LEN * len(p), files[nm]["runs"][:6]))
            P0 = have[0][2]
            order = list(range(len(p))) if a == "contig" else list(reversed(range(len(p))))        # physgap: pieces in reverse order
            phys = [P0 + ST_LEN * order[k] for k in range(len(p))]
        want[nm] = [(core[k], ST_LEN, phys[k], 1 if p[k] == "u" else 0) for k in range(len(p))]
        cmds.append("extent_open /maps/%s" % nm)
        for k in range(len(p)):
            un = "--uninit " if p[k] == "u" else ""
            if a == "loggap" or k == 0:
                cmds.append("goto_block %d" % core[k])
                cmds.append("replace_node %s%d %d %d" % (un, core[k], ST_LEN, phys[k]))
            else:
                cmds.append("insert_node --after %s%d %d %d" % (un, core[k], ST_LEN, phys[k]))
        cmds.append("extent_close")
    rc, out, err = run([dbg, "-w", "-f", "-", img], env=env, timeout=300, input=("\n".join(cmds) + "\n").encode())
    if rc != 0:
        raise RuntimeError("debugfs extent editing failed: %s" % err.decode("utf8", "replace")[-300:])
    r, files = runs_of()
    got = {"files": len(fam), "depth0": 0, "depth1": 0, "depth2": 0, "unwritten_extents": 0, "unwritten_blocks_on_nonzero_bytes": 0,
           "written_unwritten_neighbours_contiguous": 0}
    for t, p, a in fam:
        nm = st_name(t, p, a)
        I = files[nm]
        runs = [tuple(x) for x in I["runs"]]
        head = [(x[0], x[1], x[2], 1 if x[3] else 0) for x in runs[:len(p)]]
        if head != want[nm]:
            raise RuntimeError("%s: extents obtained %s differ from the pattern %s" % (nm, head, want[nm]))
        d = len(I["own"]["index"])
        got["depth0" if d == 0 else "depth1" if d == 1 else "depth2"] += 1
        if (t == "inode") != (d == 0) or (t == "collapsible_d2") != (d > 1):
            raise RuntimeError("%s: tree class not obtained (%d index blocks, %d extents)" % (nm, d, len(runs)))
        if t == "collapsible" and len(runs) >= 4:
            raise RuntimeError("%s: %d extents left, e2fsck would not collapse the tree" % (nm, len(runs)))
        for k, (l, n, pb, un) in enumerate(want[nm]):
            if un:
                got["unwritten_extents"] += 1
                raw = r.img[pb * BS:(pb + n) * BS]
                for i in range(n):
                    if any(raw[i * BS:(i + 1) * BS]):
                        got["unwritten_blocks_on_nonzero_bytes"] += 1
                    else:
                        raise RuntimeError("%s: unwritten block %d holds zeros on disk" % (nm, pb + i))
            if k and a == "contig" and want[nm][k - 1][3] != un:
                got["written_unwritten_neighbours_contiguous"] += 1
    return got


def build_st_carrier(build, outdir, fam):
    env = tool_env(build)
    tree = os.path.join(outdir, "tree_st")
    if os.path.exists(tree):
        shutil.rmtree(tree)
    os.makedirs(tree + "/maps")
    T = 1500000000
    for t, p, a in fam:
        pth = os.path.join(tree, "maps", st_name(t, p, a))
        st_host_file(pth, t, p, a)
        os.utime(pth, (T, T))
    for d, ds, fs in os.walk(tree):
        os.utime(d, (T, T))
    img = os.path.join(outdir, "st_shaped.img")
    with open(img, "wb") as f:
        f.truncate(ST_CARRIER["kb"] * 1024)
    cmd = [os.path.join(build, "misc", "mke2fs"), "-q", "-F", "-U", mkbase.UUID, "-E", "hash_seed=" + mkbase.HASH_SEED] + ST_CARRIER["args"].split() + ["-d", tree, img]
    rc, out, err = run(cmd, env=env, timeout=600)
    shutil.rmtree(tree, ignore_errors=True)
    if rc != 0:
        raise RuntimeError("mke2fs -d failed for the extent-state carrier: %s" % err.decode("utf8", "replace")[-400:])
    got = st_shape(build, img, fam)
    rc, tail = _fsck_n(build, img)
    return [{"name": "st_shaped", "img": img, "carrier": "st", "layout": "shaped", "fsck_n": rc, "fsck_tail": tail if rc else "", "measured": got, "dirs": None}]


# ---------------------------------------------------------------------------------------------------------------
# i_size boundaries (carriers `sz_<mapping><blocksize>`)
# ---------------------------------------------------------------------------------------------------------------
# one small filesystem per (mapping format, block size) of FsckPreserve!SizeFamily.  huge_file is on everywhere: without it the
# format (kernel: ext4_max_bitmap_size) caps a file at 2^32 - 1 sectors, which at 4 KiB blocks lies below the block-map limit.
SZ_CARRIERS = {("ind", 1024): ("sz_ind1k", "-t ext3 -O large_file,huge_file -b 1024 -N 256 -J size=1", 8192),
               ("ind", 4096): ("sz_ind4k", "-t ext3 -O large_file,huge_file -b 4096 -N 256 -J size=4", 16384),
               ("ext", 1024): ("sz_ext1k", "-t ext4 -O large_file,huge_file,metadata_csum,64bit -b 1024 -N 256 -J size=1", 8192),
               ("ext", 4096): ("sz_ext4k", "-t ext4 -O large_file,huge_file,metadata_csum,64bit -b 4096 -N 256 -J size=4", 16384)}
SZ_NB = 3                   # mapped blocks of the ordinary files: logical blocks 0..2, the model's LastBlk = 2
HUGE_FILE_FL = 0x40000


def sz_limit(m, bs, lim):
    """largest i_size of the mapping format (FsckPreserve!SizeLimit with the real constants: SizeLimits of the specification)"""
    return lim["indmaxblocks"] * bs if m == "ind" else (1 << lim["extlblkbits"]) * bs - 1


def sz_last_mappable(m, lim):
    return lim["indmaxblocks"] - 1 if m == "ind" else (1 << lim["extlblkbits"]) - 2


def sz_plan(t, m, bs, c, lim):
    """-> dict(host=(host file size, [(offset, length)] data islands) | None, target=symlink target, size=i_size to set or None,
    want=i_size the file must end up with, post=extra step)"""
    nb = SZ_NB
    full = [(0, nb * bs)]
    if t == "lnk":
        n = {"fast_max": lim["fastsymlink"] - 1, "slow_min": lim["fastsymlink"], "slow_max_minus1": bs - 2, "slow_max": bs - 1}[c]
        return dict(target="t" * n, want=n, fast=n < lim["fastsymlink"])
    if t == "dir":
        return dict(mkdir=True, want=None)
    L = sz_limit(m, bs, lim)
    if c == "end":
        return dict(host=(nb * bs, full), want=nb * bs)
    if c == "end_partial":
        return dict(host=(nb * bs - 1, [(0, nb * bs - 1)]), want=nb * bs - 1)
    if c == "last_init_first_byte":
        return dict(host=(nb * bs, full), size=(nb - 1) * bs, want=(nb - 1) * bs)
    if c == "sparse_tail":
        return dict(host=((nb + 1) * bs, full), want=(nb + 1) * bs)
    if c == "max_minus1":
        return dict(host=(nb * bs, full), size=L - 1, want=L - 1)
    if c == "max":
        return dict(host=(nb * bs, full), size=L, want=L)
    if c == "max_last_block_mapped":
        last = sz_last_mappable(m, lim)
        return dict(host=((last + 1) * bs, [(0, bs), (last * bs, bs)]), want=(last + 1) * bs, lastblk=last)
    if c == "unwritten_past_eof":
        return dict(host=((nb + 2) * bs, [(0, (nb + 2) * bs)]), size=(nb - 1) * bs + 5, want=(nb - 1) * bs + 5, unwritten=(nb, 2))
    if c == "huge_file_iblocks":
        return dict(host=(nb * bs, full), want=nb * bs, huge=nb)
    raise RuntimeError("size class %s of the specification without a generator" % c)


def sz_name(t, c):
    return "%s_%s" % (t, c)


def build_sz_carrier(build, outdir, m, bs, fam, lim):
    cname, args, kb = SZ_CARRIERS[(m, bs)]
    env = tool_env(build)
    dbg = os.path.join(build, "debugfs", "debugfs")
    img = os.path.join(outdir, cname + ".img")
    with open(img, "wb") as f:
        f.truncate(kb * 1024)
    cmd = [os.path.join(build, "misc", "mke2fs"), "-q", "-F", "-U", mkbase.UUID, "-E", "hash_seed=" + mkbase.HASH_SEED] + args.split() + [img]
    rc, out, err = run(cmd, env=env, timeout=600)
    if rc != 0:
        raise RuntimeError("mke2fs failed for size carrier %s: %s" % (cname, err.decode("utf8", "replace")[-400:]))
    hostdir = os.path.join(outdir, "host_" + cname)
    shutil.rmtree(hostdir, ignore_errors=True)
    os.makedirs(hostdir)
    plans, cmds, skipped = {}, ["mkdir /sz"], {}
    for t, mm, b, c in sorted(fam):
        nm = sz_name(t, c)
        pl = sz_plan(t, m, bs, c, lim)
        if pl.get("host"):
            hp = os.path.join(hostdir, nm)
            try:
                with open(hp, "wb") as f:
                    for k, (o, n) in enumerate(pl["host"][1]):
                        f.seek(o)
                        f.write(bytes((((k + 3) * 41 + i) % 255) + 1 for i in range(n)))          # never a zero byte
                    f.truncate(pl["host"][0])
            except OSError as e:
                # the HOST cannot hold a sparse file of this size (ext4 host: 16 TiB - 4 KiB): the element cannot be built here
                skipped[nm] = "host file of %d bytes: %s" % (pl["host"][0], e.strerror)
                if os.path.exists(hp):
                    os.unlink(hp)
                continue
            cmds.append("write %s /sz/%s" % (hp, nm))
            if pl.get("size") is not None:
                cmds.append("set_inode_field /sz/%s size %d" % (nm, pl["size"]))
        elif pl.get("target"):
            cmds.append("symlink /sz/%s %s" % (nm, pl["target"]))
        elif pl.get("mkdir"):
            cmds.append("mkdir /sz/%s" % nm)
            cmds.append("symlink /sz/%s/entry target" % nm)
        plans[nm] = pl
    rc, out, err = run([dbg, "-w", "-f", "-", img], env=env, timeout=300, input=("\n".join(cmds) + "\n").encode())
    shutil.rmtree(hostdir, ignore_errors=True)
    if rc != 0:
        raise RuntimeError("debugfs failed on size carrier %s: %s" % (cname, err.decode("utf8", "replace")[-300:]))

    def files_of():
        P = ext4read.project(img)
        if "fatal" in P or "reader_err" in P:
            raise RuntimeError("reader cannot project size carrier %s: %s" % (cname, str(P.get("fatal") or P.get("reader_err"))[:200]))
        byino = {i["ino"]: i for i in P["inodes"]}
        return {t_["path"][4:]: (t_, byino[t_["ino"]]) for t_ in P["tree"] if t_["path"].startswith("/sz/") and t_["path"].count("/") == 2}
    files = files_of()
    cmds = []
    for nm, pl in sorted(plans.items()):
        if nm not in files:
            raise RuntimeError("size carrier %s: %s was not created: %s" % (cname, nm, (out + err).decode("utf8", "replace")[-300:]))
        I = files[nm][1]
        if pl.get("unwritten"):
            l0, n = pl["unwritten"]
            runs = [tuple(x) for x in I["runs"]]
            if len(runs) != 1 or runs[0][0] != 0 or runs[0][1] != l0 + n:
                raise RuntimeError("%s/%s: expected one extent of %d blocks, have %s" % (cname, nm, l0 + n, runs[:4]))
            cmds += ["extent_open /sz/%s" % nm, "goto_block 0", "replace_node 0 %d %d" % (l0, runs[0][2]),
                     "insert_node --after --uninit %d %d %d" % (l0, n, runs[0][2] + l0), "extent_close"]
        if pl.get("huge"):
            cmds += ["set_inode_field /sz/%s flags 0x%x" % (nm, _flagbits(I) | HUGE_FILE_FL), "set_inode_field /sz/%s blocks %d" % (nm, pl["huge"])]
    if cmds:
        rc, out, err = run([dbg, "-w", "-f", "-", img], env=env, timeout=300, input=("\n".join(cmds) + "\n").encode())
        if rc != 0:
            raise RuntimeError("debugfs (second step) failed on size carrier %s" % cname)
        files = files_of()
    got = {"files": {}, "not_built_on_this_host": skipped, "bs": bs, "mapping": m, "limit": sz_limit(m, bs, lim)}
    for nm, pl in sorted(plans.items()):
        T_, I = files[nm]
        want_map = {"ind": "indirect", "ext": "extent"}[m]
        if pl.get("target"):
            want_map = "fast-symlink" if pl["fast"] else want_map
        if I["map"] != want_map:
            raise RuntimeError("%s/%s: mapping %s, wanted %s" % (cname, nm, I["map"], want_map))
        isz = (I["size"][0] << 31) + I["size"][1]                      # the reader's projection splits 64-bit quantities (TLC ints are 32 bits)
        if pl["want"] is not None and isz != pl["want"]:
            raise RuntimeError("%s/%s: i_size %d, wanted %d" % (cname, nm, isz, pl["want"]))
        runs = [tuple(x) for x in I["runs"]]
        last = max((r[0] + r[1] - 1 for r in runs), default=-1)
        if "lastblk" in pl and last != ext4read.clip(pl["lastblk"]):          # (the projection clips block numbers to 2^31 - 1)
            raise RuntimeError("%s/%s: last mapped block %d, wanted %d" % (cname, nm, last, pl["lastblk"]))
        if pl.get("unwritten") and not any(r[3] for r in runs):
            raise RuntimeError("%s/%s: no unwritten extent obtained" % (cname, nm))
        if pl.get("huge") and not (_flagbits(I) & HUGE_FILE_FL):
            raise RuntimeError("%s/%s: HUGE_FILE flag not obtained" % (cname, nm))
        got["files"][nm] = {"size": isz, "map": I["map"], "last_mapped_block": last, "mapped_blocks": sum(r[1] for r in runs),
                            "unwritten_blocks": sum(r[1] for r in runs if r[3]), "ind_or_index_blocks": len(I["own"]["ind"]) + len(I["own"]["index"])}
    rc, tail = _fsck_n(build, img)
    return [{"name": cname, "img": img, "carrier": "sz", "layout": "sized", "fsck_n": rc, "fsck_tail": tail if rc else "", "measured": got, "dirs": None}]


# ---------------------------------------------------------------------------------------------------------------
# casefold (carriers `cf`, `cfs`)
# ---------------------------------------------------------------------------------------------------------------
CF_CARRIERS = {"nonstrict": ("cf", "-t ext4 -b 1024 -N 256 -O casefold,metadata_csum,64bit -J size=1"),
               "strict": ("cfs", "-t ext4 -b 1024 -N 256 -O casefold,metadata_csum,64bit -J size=1 -E encoding_flags=strict")}
CF_KB = 4096
CASEFOLD_FL = 0x40000000


def _u(s):
    return s.encode("utf8")


# kind -> function(i) -> list of names (bytes) for counter i; the counter keeps the names of one directory apart, `%03d` is ASCII.
# Valid kinds use code points assigned long before Unicode 12.1.  Twin kinds return the names that share one folded form.
# Invalid kinds are the ways a byte string fails to be UTF-8 (RFC 3629): a byte that cannot start a sequence, a sequence cut
# short by an ASCII byte or by the end of the name, an overlong form, a UTF-16 surrogate, a value above U+10FFFF.
NAME_KINDS = {
    "ascii_mixed_case":        lambda i: [b"ReadMe_%03d_MiXeD" % i],
    "utf8_2byte":              lambda i: [_u("caf\u00e9_\u00df_%03d" % i)],
    "utf8_3byte":              lambda i: [_u("\u20ac_\u6f22\u5b57_%03d" % i)],
    "utf8_4byte":              lambda i: [_u("\U0001f600_\U00010348_%03d" % i)],
    "utf8_decomposed":         lambda i: [_u("cafe\u0301_%03d" % i)],
    "differ_in_case_ascii":    lambda i: [b"File_%03d" % i, b"file_%03d" % i, b"FILE_%03d" % i],
    "differ_in_case_utf8":     lambda i: [_u("\u00c9cole_\u0416_%03d" % i), _u("\u00e9cole_\u0436_%03d" % i)],
    "differ_in_normalisation": lambda i: [_u("caf\u00e9_%03d" % i), _u("cafe\u0301_%03d" % i)],
    "latin1_high_byte":        lambda i: [b"caf\xe9_%03d" % i],
    "lone_continuation":       lambda i: [b"\x80abc_%03d" % i],
    "truncated_2byte":         lambda i: [b"trunc_%03d_\xc3" % i],
    "truncated_3byte":         lambda i: [b"trunc_%03d_\xe2\x82" % i],
    "truncated_4byte":         lambda i: [b"trunc_%03d_\xf0\x9f\x98" % i],
    "overlong_2byte":          lambda i: [b"over\xc0\xaf_%03d" % i],
    "surrogate":               lambda i: [b"sur\xed\xa0\x80_%03d" % i],
    "above_10ffff":            lambda i: [b"big\xf4\x90\x80\x80_%03d" % i],
    "bytes_fe_ff":             lambda i: [b"\xff\xfe_%03d" % i],
}
CF_PAD = 96                 # size class `indexed`: names are padded to about this length so that a few dozen fill several blocks


def _is_utf8(b):
    try:
        b.decode("utf8")
        return True
    except UnicodeDecodeError:
        return False


def cf_names(kind, size):
    """the names (bytes) of one directory of the casefold family"""
    groups = 2 if size == "one_block" else 36
    out = []
    for i in range(groups):
        grp = NAME_KINDS[kind](i)
        pad = b"-" + b"p" * (CF_PAD - max(len(nm) for nm in grp))       # the same padding for the names of one group: twins stay twins
        for nm in grp:
            if size == "indexed":
                # pad in the middle (after the counter the kind's significant bytes may have to stay last)
                cut = nm.index(b"%03d" % i) + 3
                nm = nm[:cut] + pad + nm[cut:]
            out.append(nm)
    return out


def cf_dirname(f, k, z):
    return "%s_%s_%s" % (f, k, z)


def build_cf_carrier(build, outdir, mode, fam, univ):
    """fam: the elements <<mode, flag, kind, size>> of CfDirFamily for this encoding mode"""
    cname, args = CF_CARRIERS[mode]
    env = tool_env(build)
    invalid, twins = set(univ["invalidnamekinds"]), set(univ["twinnamekinds"])
    tree = os.path.join(outdir, "tree_" + cname).encode()
    if os.path.exists(tree):
        shutil.rmtree(tree)
    os.makedirs(tree + b"/cf")
    os.makedirs(tree + b"/targets")
    T = 1500000000
    meta = {}
    for m, f, k, z in sorted(fam):
        dn = cf_dirname(f, k, z)
        names = cf_names(k, z)
        # the generator's table must agree with the class the specification puts the kind in
        bad = [n for n in names if _is_utf8(n) == (k in invalid)]
        if bad or len(set(names)) != len(names) or any(b"/" in n or b"\0" in n or len(n) > 255 for n in names):
            raise RuntimeError("name kind %s: generated names do not fit the class (%r)" % (k, bad[:2]))
        os.makedirs(os.path.join(tree, b"cf", dn.encode()))
        tgt = os.path.join(tree, b"targets", dn.encode())
        with open(tgt, "wb") as fh:
            fh.write(dn.encode() + b"\n")
        os.utime(tgt, (T, T))
        for nm in names:
            os.link(tgt, os.path.join(tree, b"cf", dn.encode(), nm))
        meta[dn] = {"names": len(names), "folded": f == "folded", "kind": k, "size": z}
    with open(os.path.join(tree, b"grow_src"), "wb") as fh:
        fh.write(b"grown\n")
    for d, ds, fs in os.walk(tree):
        os.utime(d, (T, T))
    lin = os.path.join(outdir, cname + "_linear.img")
    with open(lin, "wb") as fh:
        fh.truncate(CF_KB * 1024)
    cmd = [os.path.join(build, "misc", "mke2fs"), "-q", "-F", "-U", mkbase.UUID, "-E", "hash_seed=" + mkbase.HASH_SEED] + args.split() + ["-d", tree.decode(), lin]
    rc, out, err = run(cmd, env=env, timeout=600)
    shutil.rmtree(tree, ignore_errors=True)
    if rc != 0:
        raise RuntimeError("mke2fs -d failed for casefold carrier %s: %s" % (cname, err.decode("utf8", "replace")[-400:]))
    dbg = os.path.join(build, "debugfs", "debugfs")

    def set_casefold(img, which):
        """set the casefold flag on the family directories selected by which(info)"""
        P = ext4read.project(img)
        if "fatal" in P or "reader_err" in P:
            raise RuntimeError("reader cannot project casefold carrier %s" % cname)
        byino = {i["ino"]: i for i in P["inodes"]}
        ino_of = {t["path"]: t["ino"] for t in P["tree"]}
        cmds = ["set_inode_field <%d> flags 0x%x" % (ino_of["/cf/" + dn], _flagbits(byino[ino_of["/cf/" + dn]]) | CASEFOLD_FL)
                for dn, info in sorted(meta.items()) if info["folded"] and which(info)]
        rc, out, err = run([dbg, "-w", "-f", "-", img], env=env, timeout=120, input=("\n".join(cmds) + "\n").encode())
        if rc != 0:
            raise RuntimeError("debugfs set_inode_field failed on %s" % cname)
    # The casefold flag goes on while the directory is linear (no stored hash depends on it yet).
    # The hash of a name that cannot be folded -- not valid UTF-8 -- is by definition of the format the hash of its bytes (kernel:
    # ext4fs_dirhash falls back to the opaque name when utf8_casefold fails), i.e. the very hash an index built WITHOUT the flag
    # stores.  For the `rehashed` layouts the directories whose names are all of an invalid kind are therefore indexed first and
    # flagged afterwards: the result is the htree the kernel builds for such a directory, obtained without relying on the folded
    # hashing of the tools under test.
    opaque = lambda info: info["kind"] in invalid
    raw = os.path.join(outdir, cname + "_raw.img")
    shutil.copyfile(lin, raw)
    set_casefold(lin, lambda info: True)
    imgs = [("linear", lin)]
    reh = os.path.join(outdir, cname + "_rehashed.img")
    os.replace(raw, reh)
    set_casefold(reh, lambda info: not opaque(info))
    rc, out, err = run([os.path.join(build, "e2fsck", "e2fsck"), "-fyD", reh], env=env, timeout=600)
    set_casefold(reh, opaque)
    imgs.append(("rehashed", reh))
    gro = os.path.join(outdir, cname + "_rehashed_then_grown.img")
    shutil.copyfile(reh, gro)
    grow_src = os.path.join(outdir, "grow_src")
    with open(grow_src, "wb") as fh:
        fh.write(b"grown\n")
    cmds = []
    for dn, info in sorted(meta.items()):
        cmds.append("cd /cf/%s" % dn)
        extra = [("Grown%d" % k).ljust(CF_PAD if info["size"] == "indexed" else 8, "G") for k in range(5)]
        for x in extra:
            cmds.append("write %s %s" % (grow_src, x))
        for x in extra[1::2]:
            cmds.append("rm %s" % x)
    rc, out, err = run([dbg, "-w", "-f", "-", gro], env=env, timeout=600, input=("\n".join(cmds) + "\n").encode())
    imgs.append(("rehashed_then_grown", gro))
    outl = []
    for lay, pth in imgs:
        rc, tail = _fsck_n(build, pth)
        Q = ext4read.project(pth)
        got = {"error": str(Q.get("fatal") or Q.get("reader_err"))[:200]} if ("fatal" in Q or "reader_err" in Q) else cf_measure(Q, meta, pth)
        outl.append({"name": "%s_%s" % (cname, lay), "img": pth, "carrier": cname, "layout": lay, "fsck_n": rc, "fsck_tail": tail if rc else "",
                     "measured": got, "dirs": None})
    return outl


def _flagbits(i):
    rev = {v: k for k, v in ext4read.IFLAGS.items()}
    return sum(rev[x] for x in i["flags"])


def _unj(j):
    """inverse of the reader's jname(): the name's bytes"""
    out, i = bytearray(), 0
    while i < len(j):
        if j[i] == "\\" and j[i + 1:i + 2] == "x":
            out.append(int(j[i + 2:i + 4], 16)); i += 4
        else:
            out.append(ord(j[i])); i += 1
    return bytes(out)


def cf_measure(P, meta, img):
    import unicodedata
    with open(img, "rb") as fh:
        fh.seek(1024 + 0x27C)
        enc, encfl = struct.unpack("<HH", fh.read(4))
    byino = {i["ino"]: i for i in P["inodes"]}
    dirs = {d["dir"]: d for d in P["dirs"]}
    ino_of = {t["path"]: t["ino"] for t in P["tree"]}
    got = {"dirs": len(meta), "folded": 0, "folded_htree": 0, "plain_htree": 0, "dirs_with_invalid_utf8_names": 0, "folded_dirs_with_invalid_utf8_names": 0, "folded_htree_with_invalid_utf8_names": 0,
           "dirs_with_names_differing_only_in_case_or_normalisation": 0, "s_encoding": enc, "strict": encfl & 1}
    for dn, info in meta.items():
        ino = ino_of.get("/cf/" + dn)
        if ino is None or ino not in dirs:
            continue
        fold = bool(_flagbits(byino[ino]) & CASEFOLD_FL)
        ht = dirs[ino]["kind"] == "htree"
        got["folded"] += fold
        got["folded_htree"] += (fold and ht)
        got["plain_htree"] += (ht and not fold)
        names = [_unj(e[4]) for e in dirs[ino]["ents"] if not e[3]]
        inval = any(not _is_utf8(n) for n in names)
        got["dirs_with_invalid_utf8_names"] += inval
        got["folded_dirs_with_invalid_utf8_names"] += (inval and fold)
        got["folded_htree_with_invalid_utf8_names"] += (inval and fold and ht)
        keys = {}
        for n in names:
            if _is_utf8(n):
                keys.setdefault(unicodedata.normalize("NFD", n.decode("utf8").casefold()), []).append(n)
        got["dirs_with_names_differing_only_in_case_or_normalisation"] += any(len(v) > 1 for v in keys.values())
    return got


# ---------------------------------------------------------------------------------------------------------------
# measuring what was obtained
# ---------------------------------------------------------------------------------------------------------------
def measure(img):
    """per family directory: kind, levels, blocks, continuation flags in the dx root; per map file: map kind, index/ind blocks"""
    r = ext4read.Reader(img)
    P = r.project()
    if "fatal" in P or "reader_err" in P:
        return {"error": str(P.get("fatal") or P.get("reader_err"))[:200]}
    byino = {i["ino"]: i for i in P["inodes"]}
    dirs = {d["dir"]: d for d in P["dirs"]}
    name_ino = {}
    for t in P["tree"]:
        name_ino[t["path"]] = t["ino"]
    out = {"dirs": {}, "maps": {}}
    for path, ino in name_ino.items():
        if path.startswith("/fam/") and path.count("/") == 2 and ino in dirs:
            d = dirs[ino]
            cont = 0
            off = r.loc.get("dirblk", {}).get("%d:0" % ino)
            if d["kind"] == "htree" and off is not None:
                blk = r.img[off:off + BS]
                cnt = struct.unpack_from("<H", blk, 0x22)[0]
                for k in range(1, min(cnt, 124)):
                    if struct.unpack_from("<I", blk, 0x20 + 8 * k)[0] & 1:
                        cont += 1
            out["dirs"][path[5:]] = {"kind": d["kind"], "levels": d["levels"], "entries": len(d["ents"]) - 2,
                                      "blocks": sum(b - a + 1 for a, b in byino[ino]["own"]["data"]), "cont_flags_root": cont}
        elif path.startswith("/maps/"):
            i = byino[ino]
            out["maps"][path[6:]] = {"map": i["map"], "extents_or_runs": len(i["own"]["data"]), "index_blocks": len(i["own"]["index"]),
                                      "ind_blocks": len(i["own"]["ind"])}
    return out


def summarise(m):
    if "error" in m:
        return m
    ds = m["dirs"].values()
    return {"dirs": len(m["dirs"]), "linear": sum(1 for d in ds if d["kind"] != "htree"), "htree_1_level": sum(1 for d in ds if d["kind"] == "htree" and d["levels"] <= 1),
            "htree_2_levels": sum(1 for d in ds if d["kind"] == "htree" and d["levels"] >= 2),
            "dirs_with_continuation_flag": sum(1 for d in ds if d["cont_flags_root"]),
            "max_entries": max([d["entries"] for d in ds] or [0]),
            "files": len(m["maps"]), "files_with_index_blocks": sum(1 for f in m["maps"].values() if f["index_blocks"]),
            "files_with_2plus_index_blocks": sum(1 for f in m["maps"].values() if f["index_blocks"] > 1),
            "files_with_ind_blocks": sum(1 for f in m["maps"].values() if f["ind_blocks"]),
            "files_with_2plus_ind_blocks": sum(1 for f in m["maps"].values() if f["ind_blocks"] > 1)}


# ---------------------------------------------------------------------------------------------------------------
# images
# ---------------------------------------------------------------------------------------------------------------
def _fsck_n(build, img):
    rc, out, err = run([os.path.join(build, "e2fsck", "e2fsck"), "-fn", img], env=tool_env(build), timeout=300)
    return rc, (out + err).decode("utf8", "replace")[-400:]


def build_carrier(build, outdir, cname, fam, shapes):
    car = CARRIERS[cname]
    env = tool_env(build)
    seed = struct.unpack("<4I", bytes.fromhex(mkbase.HASH_SEED.replace("-", "")))
    hver = 1                                       # half_md4, signed-char variant: the names are ASCII
    tree = os.path.join(outdir, "tree_" + cname)
    meta = host_tree(tree, fam, shapes, car["tail"], seed, hver)
    res = {}
    lin = os.path.join(outdir, cname + "_linear.img")
    with open(lin, "wb") as f:
        f.truncate(car["kb"] * 1024)
    cmd = [os.path.join(build, "misc", "mke2fs"), "-q", "-F", "-U", mkbase.UUID, "-E", "hash_seed=" + mkbase.HASH_SEED] + car["args"].split() + ["-d", tree, lin]
    rc, out, err = run(cmd, env=env, timeout=600)
    if rc != 0:
        raise RuntimeError("mke2fs -d failed for family carrier %s: %s" % (cname, err.decode("utf8", "replace")[-400:]))
    dbg = os.path.join(build, "debugfs", "debugfs")
    # unwritten extents exist only in the extent format (on a block-mapped file debugfs' fallocate leaves i_size behind: C09's subject)
    cmds = ("fallocate /maps/ext_uninit 2 9\n" if cname == "e4" else "") + "punch /maps/ext_collapsible 5\n"
    rc, out, err = run([dbg, "-w", "-f", "-", lin], env=env, timeout=120, input=cmds.encode())
    shutil.rmtree(tree, ignore_errors=True)
    imgs = [("linear", lin)]
    reh = os.path.join(outdir, cname + "_rehashed.img")
    shutil.copyfile(lin, reh)
    rc, out, err = run([os.path.join(build, "e2fsck", "e2fsck"), "-fyD", reh], env=env, timeout=600)
    res["rehash_rc"] = rc
    imgs.append(("rehashed", reh))
    gro = os.path.join(outdir, cname + "_rehashed_then_grown.img")
    shutil.copyfile(reh, gro)
    grow_src = os.path.join(outdir, "grow_src")
    with open(grow_src, "wb") as f:
        f.write(b"grown\n")
    cmds = []
    for dn, info in sorted(meta.items()):
        n = info["n"]
        cmds.append("cd /fam/%s" % dn)
        if n == 1:
            extra = ["~"] if info["names"] < len(ALPHA1) else []
            extra = [x for x in extra if x not in [name_of(1, i) for i in range(info["names"])]]
        else:
            extra = [("g%d" % k).ljust(n, "G")[:n] for k in range(5)]
        for x in extra:
            cmds.append("write %s %s" % (grow_src, x))
        for x in extra[1::2]:
            cmds.append("rm %s" % x)
    rc, out, err = run([dbg, "-w", "-f", "-", gro], env=env, timeout=600, input=("\n".join(cmds) + "\n").encode())
    res["grow_rc"] = rc
    imgs.append(("rehashed_then_grown", gro))
    outl = []
    for lay, p in imgs:
        rc, tail = _fsck_n(build, p)
        m = measure(p)
        outl.append({"name": "%s_%s" % (cname, lay), "img": p, "carrier": cname, "layout": lay, "fsck_n": rc, "fsck_tail": tail if rc else "",
                     "measured": summarise(m), "dirs": meta if lay == "linear" else None})
    return outl


def family_images(build, univ, tier):
    """-> ([{"name", "img", "carrier", "layout", "measured"}], note).  Every image is returned; what `e2fsck -fn` of the tree under
    test says about it is recorded as information only.  (An earlier version dropped the images that -fn did not pass: that made the
    program under test the judge of its own universe -- a change that makes e2fsck complain about a healthy image removed exactly
    the input that shows it.  Whether a start is consistent is decided by TLC on the reader's projection: BaseConsistent.)"""
    stamp = open(os.path.join(build, ".verif_stamp")).read().strip()[:16]
    famlist = univ["dirfamily"] if tier == "thorough" else univ["quickdirfamily"]
    gen_h = hashlib.sha256(open(os.path.abspath(__file__), "rb").read() + json.dumps([famlist, univ["mapshapes"], univ["extstatefamily"], univ["cfdirfamily"],
                                                                                     univ["invalidnamekinds"], univ["twinnamekinds"], univ["sizefamily"], univ["sizelimits"]], sort_keys=True).encode()).hexdigest()[:8]
    outdir = os.path.join(build, "verif-c05fam-%s-%s" % (stamp, gen_h))
    metaf = os.path.join(outdir, "meta.json")
    with Lock(os.path.join(build, "verif-c05fam.lock")):
        if os.path.exists(metaf):
            allimgs = json.load(open(metaf))
        else:
            for d in os.listdir(build):
                if d.startswith("verif-c05fam-") and not d.startswith("verif-c05fam-%s-" % stamp):
                    shutil.rmtree(os.path.join(build, d), ignore_errors=True)
            os.makedirs(outdir)
            fam = [tuple(x) for x in famlist]
            shapes = sorted(univ["mapshapes"])
            unknown = [s for s in shapes if s not in MAP_SHAPES]
            if unknown:
                raise RuntimeError("mapping shapes of the specification without a generator: %s" % unknown)
            allimgs = []
            for cname in ("e4", "e3"):
                allimgs += build_carrier(build, outdir, cname, fam, shapes)
            # upgraded carrier: ext3 content, extent feature switched on (files stay block mapped until bmap2extent)
            for lay in ("linear", "rehashed_then_grown"):
                src = os.path.join(outdir, "e3_%s.img" % lay)
                dst = os.path.join(outdir, "up_%s.img" % lay)
                shutil.copyfile(src, dst)
                rc, out, err = run([os.path.join(build, "misc", "tune2fs"), "-O", "extent,uninit_bg", dst], env=tool_env(build, {"E2FSPROGS_UNDO_DIR": "none"}), timeout=120)
                rc2, out2, err2 = run([os.path.join(build, "e2fsck", "e2fsck"), "-fy", dst], env=tool_env(build), timeout=300)
                rc3, tail = _fsck_n(build, dst)
                allimgs.append({"name": "up_%s" % lay, "img": dst, "carrier": "up", "layout": lay, "fsck_n": rc3 if rc == 0 else 100 + rc,
                                "fsck_tail": tail if rc3 else "", "measured": summarise(measure(dst)), "dirs": None})
            # written / unwritten extent states and casefold directories: small carriers of their own
            stfam = sorted((t, tuple(p), a) for t, p, a in univ["extstatefamily"])
            allimgs += build_st_carrier(build, outdir, stfam)
            unknown = sorted({k for m, f, k, z in univ["cfdirfamily"]} - set(NAME_KINDS))
            if unknown:
                raise RuntimeError("name kinds of the specification without a generator: %s" % unknown)
            for mode in sorted(CF_CARRIERS):
                allimgs += build_cf_carrier(build, outdir, mode, [tuple(x) for x in univ["cfdirfamily"] if x[0] == mode], univ)
            # i_size boundaries: one carrier per (mapping format, block size)
            lims = {x["bs"]: x for x in univ["sizelimits"]}
            szfam = [tuple(x) for x in univ["sizefamily"]]
            for m, bs in sorted({(x[1], x[2]) for x in szfam}):
                if (m, bs) not in SZ_CARRIERS or bs not in lims:
                    raise RuntimeError("size family of the specification without a carrier: %s %s" % (m, bs))
                allimgs += build_sz_carrier(build, outdir, m, bs, [x for x in szfam if x[1] == m and x[2] == bs], lims[bs])
            with open(metaf, "w") as f:
                json.dump(allimgs, f, indent=1)
    ok = list(allimgs)
    bad = [(x["name"], x["fsck_n"], x["fsck_tail"][-200:]) for x in allimgs if x["fsck_n"] != 0]
    if tier == "quick":
        ok = [x for x in ok if x["name"] in ("e4_linear", "e4_rehashed_then_grown", "e3_linear", "up_linear", "st_shaped",
                                             "cf_linear", "cf_rehashed", "cfs_linear", "cfs_rehashed") or x["carrier"] == "sz"]
    note = {"images": {x["name"]: x["measured"] for x in ok}, "fsck_n_of_tree_under_test_not_clean": bad,
            "entry_counts_e4": {"%s/%d" % (e, n): entry_count(e, n, 12) for e, n, c in sorted(set((e, n, "x") for e, n, c in map(tuple, famlist)))}}
    return ok, note


if __name__ == "__main__":
    sys.path.insert(0, os.path.join(VERIF, "lib"))
    import build as B
    b = B.build()
    u = json.load(open(sys.argv[1]))
    t0 = time.time()
    imgs, note = family_images(b, u, sys.argv[2] if len(sys.argv) > 2 else "thorough")
    print("%.1fs" % (time.time() - t0))
    print(json.dumps(note, indent=1)[:6000])
