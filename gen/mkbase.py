"""Base images: one small filesystem per feature profile, populated with a rich, deterministic content recipe
(DESIGN.md section 3.4).  Built with the scratch-built mke2fs + debugfs of the CURRENT working tree and cached next
to that build (regenerated whenever the tree changes).  Every image must pass `e2fsck -fn`; profiles that do not are
reported by the caller (and are themselves C07/C18 material)."""
import os, sys, json, shutil, subprocess, hashlib, concurrent.futures as cf
from common import run, tool_env, Lock, SCRATCH, VERIF

UUID = "11112222-3333-4444-5555-666677778888"
HASH_SEED = "aaaabbbb-cccc-dddd-eeee-ffff00001111"

# name -> dict(mkfs args, size in KiB, populate: "d" (mke2fs -d) or "debugfs", notes)
PROFILES = {
    "ext2_1k":      dict(args="-t ext2 -b 1024 -g 2048 -N 1024", kb=8192),
    "ext3_1k":      dict(args="-t ext3 -b 1024 -g 2048 -N 1024 -J size=1", kb=8192),
    "ext4_1k":      dict(args="-t ext4 -b 1024 -g 2048 -N 1024 -O metadata_csum,64bit,orphan_file,^uninit_bg -J size=1", kb=8192),
    "ext4_4k":      dict(args="-t ext4 -b 4096 -g 2048 -N 1024 -O metadata_csum,64bit -J size=4", kb=32768, bs=4096),
    "ext4_old":     dict(args="-t ext4 -b 1024 -g 2048 -N 1024 -J size=1", kb=8192),             # uninit_bg (crc16), no metadata_csum
    "bigalloc":     dict(args="-t ext4 -b 1024 -N 1024 -O bigalloc,metadata_csum,^resize_inode -C 4096 -J size=1", kb=16384),
    "meta_bg":      dict(args="-t ext4 -b 1024 -g 1024 -N 1024 -O 64bit,meta_bg,^resize_inode,metadata_csum -J size=1", kb=8192),
    "noflex":       dict(args="-t ext4 -b 1024 -g 2048 -N 1024 -O ^flex_bg,metadata_csum -J size=1", kb=8192),
    "inline":       dict(args="-t ext4 -b 1024 -g 2048 -N 1024 -O inline_data,metadata_csum -J size=1", kb=8192),
    "ea_inode":     dict(args="-t ext4 -b 1024 -g 2048 -N 1024 -O ea_inode,metadata_csum -J size=1", kb=8192, huge=True, finish_fsck=True),
    "quota":        dict(args="-t ext4 -b 1024 -g 2048 -N 1024 -O quota,project,metadata_csum -J size=1", kb=8192, finish_fsck=True),
    "sparse2":      dict(args="-t ext4 -b 1024 -g 1024 -N 1024 -O sparse_super2,^resize_inode,metadata_csum -J size=1", kb=8192),
    "ino128":       dict(args="-t ext3 -b 1024 -g 2048 -N 1024 -I 128 -J size=1", kb=8192),
    # like ext4_1k, then 14 files removed again: free inodes and blocks inside the first groups (resize2fs must move the
    # inodes of a dropped group into those holes; the last inode of the last kept group is in use)
    "holes":        dict(args="-t ext4 -b 1024 -g 2048 -N 1024 -O metadata_csum,64bit -J size=1", kb=8192, holes=True),
    "nojournal":    dict(args="-t ext4 -b 2048 -g 2048 -N 1024 -O ^has_journal,metadata_csum", kb=16384, bs=2048),
}


def host_tree(root, huge=False):
    """Deterministic host tree with every object type the properties name."""
    if os.path.exists(root):
        shutil.rmtree(root)
    os.makedirs(root)
    T = 1500000000

    def w(path, data, mode=0o644, mtime=T):
        p = os.path.join(root, path)
        os.makedirs(os.path.dirname(p), exist_ok=True)
        with open(p, "wb") as f:
            f.write(data)
        os.chmod(p, mode)
        os.utime(p, (mtime, mtime))
        return p
    w("hello.txt", b"hello world\n")
    w("empty", b"")
    w("tiny20", b"01234567890123456789")                    # fits inline on inline_data profiles
    w("oneblock", bytes((i * 7) & 255 for i in range(1024)))
    w("blockp1", bytes((i * 11) & 255 for i in range(1025)))
    w("medium", bytes((i * 13 + (i >> 8)) & 255 for i in range(40000)), mode=0o4755)      # setuid
    w("big300k", bytes((i * 17 + (i >> 10)) & 255 for i in range(300 * 1024)), mtime=946684800)   # > 12+256 1k blocks: double indirect
    # sparse file with 7 separated data islands (more than 4 extents -> extent tree depth 1) and holes at head/middle/tail
    p = os.path.join(root, "sparse7")
    with open(p, "wb") as f:
        for k in range(7):
            f.seek(65536 * (k + 1))
            f.write(bytes((k * 31 + i) & 255 for i in range(5000)))
        f.truncate(65536 * 9)
    os.utime(p, (T, T))
    os.makedirs(os.path.join(root, "lin"))
    for i in range(5):
        w("lin/f%d" % i, b"x" * (i * 100))
    os.makedirs(os.path.join(root, "lin/sub/subsub"))
    w("lin/sub/subsub/leaf", b"leaf\n", mode=0o600)
    # large directory: 255-byte names, 1 KiB blocks hold 3 entries -> many leaves, two index levels at 1k
    os.makedirs(os.path.join(root, "deep"))
    for i in range(420):
        name = ("n%04d_" % i) + "y" * 244
        open(os.path.join(root, "deep", name), "wb").close()
    os.makedirs(os.path.join(root, "mid"))
    for i in range(60):
        w("mid/%s" % (("m%03d" % i) + "z" * (i % 50)), b"m" * (i % 7))
    # 20 distinct owners / groups: more than one quota-tree data block holds (14 entries per 1 KiB block)
    os.makedirs(os.path.join(root, "owners"))
    for i in range(20):
        q = w("owners/u%02d" % i, b"o" * (37 * i))
        os.chown(q, 3000 + i, 4000 + i)
    os.symlink("hello.txt", os.path.join(root, "fastlink"))
    os.symlink("lin/sub/subsub/" + "a" * 80, os.path.join(root, "slowlink"))
    os.link(os.path.join(root, "hello.txt"), os.path.join(root, "hardlink1"))
    os.link(os.path.join(root, "hello.txt"), os.path.join(root, "lin/hardlink2"))
    os.mkfifo(os.path.join(root, "fifo"))
    try:
        os.mknod(os.path.join(root, "chr"), 0o020644, os.makedev(1, 3))
        os.mknod(os.path.join(root, "blk"), 0o060600, os.makedev(7, 0))
    except OSError:
        pass
    try:
        import socket
        s = socket.socket(socket.AF_UNIX)
        s.bind(os.path.join(root, "sock"))
        s.close()
    except OSError:
        pass
    try:
        os.setxattr(os.path.join(root, "hello.txt"), "user.small", b"v1")
        os.setxattr(os.path.join(root, "medium"), "user.blockattr", b"B" * 300)       # too big for a 256-byte inode body -> xattr block
        os.setxattr(os.path.join(root, "medium"), "user.small", b"v2")
        os.setxattr(os.path.join(root, "lin"), "user.dirattr", b"D" * 40)
        if huge:      # > 1 block: only storable with ea_inode (mke2fs -d aborts otherwise)
            os.setxattr(os.path.join(root, "oneblock"), "user.huge", b"H" * 3000)
    except OSError:
        pass
    os.chown(os.path.join(root, "lin/f1"), 1000, 100)
    for d, ds, fs in os.walk(root):
        os.utime(d, (T, T))
    return root


def make_one(build, name, outdir, tree):
    prof = PROFILES[name]
    if prof.get("huge"):
        tree = tree + "_huge"
    env = tool_env(build)
    img = os.path.join(outdir, name + ".img")
    if os.path.exists(img):
        os.unlink(img)
    with open(img, "wb") as f:
        f.truncate(prof["kb"] * 1024)
    mk = os.path.join(build, "misc", "mke2fs")
    cmd = [mk, "-q", "-F", "-U", UUID, "-E", "hash_seed=" + HASH_SEED] + prof["args"].split() + ["-d", tree, img]
    rc, out, err = run(cmd, env=env, timeout=120)
    info = {"profile": name, "mke2fs_rc": rc, "mke2fs_err": err.decode("utf8", "replace")[-400:]}
    if rc != 0:
        info["ok"] = False
        return info
    fsck = os.path.join(build, "e2fsck", "e2fsck")
    if prof.get("finish_fsck"):
        rc, out, err = run([fsck, "-fy", img], env=env, timeout=120)
        info["finish_fsck_rc"] = rc
    if prof.get("holes"):
        cmds = "".join("rm /deep/%s\n" % (("n%04d_" % i) + "y" * 244) for i in range(3, 40, 3)) + "rm /mid/m000\nrm /lin/f2\n"
        rc, out, err = run([os.path.join(build, "debugfs", "debugfs"), "-w", "-f", "-", img], env=env, timeout=120, input=cmds.encode())
        info["holes_rc"] = rc
    # mke2fs -d builds linear directories; -D re-indexes them so that the images contain real htree directories
    rc, out, err = run([fsck, "-fyD", img], env=env, timeout=120)
    info["rehash_rc"] = rc
    rc, out, err = run([fsck, "-fn", img], env=env, timeout=120)
    info["fsck_rc"] = rc
    info["ok"] = (rc == 0)
    if rc != 0:
        info["fsck_out"] = out.decode("utf8", "replace")[-600:]
    info["sha256"] = hashlib.sha256(open(img, "rb").read()).hexdigest()
    return info


def base_images(build, profiles=None):
    """Returns (dir, {profile: info}).  Cached by the build stamp."""
    stamp = open(os.path.join(build, ".verif_stamp")).read().strip()[:16]
    gen_h = hashlib.sha256(open(os.path.abspath(__file__), "rb").read()).hexdigest()[:8]
    outdir = os.path.join(build, "verif-base-%s-%s" % (stamp, gen_h))
    meta = os.path.join(outdir, "meta.json")
    with Lock(os.path.join(build, "verif-base.lock")):
        if os.path.exists(meta):
            return outdir, json.load(open(meta))
        for d in os.listdir(build):
            if d.startswith("verif-base-"):
                shutil.rmtree(os.path.join(build, d), ignore_errors=True)
        os.makedirs(outdir)
        tree = host_tree(os.path.join(outdir, "tree"))
        host_tree(os.path.join(outdir, "tree_huge"), huge=True)
        with cf.ThreadPoolExecutor(max_workers=8) as ex:
            infos = list(ex.map(lambda n: make_one(build, n, outdir, tree), list(PROFILES)))
        res = {i["profile"]: i for i in infos}
        with open(meta, "w") as f:
            json.dump(res, f, indent=1)
        return outdir, res


if __name__ == "__main__":
    sys.path.insert(0, os.path.join(VERIF, "lib"))
    import build as B
    b = B.build()
    d, res = base_images(b)
    print(d)
    for k, v in res.items():
        print(k, "ok" if v["ok"] else "FAIL", v.get("mke2fs_rc"), v.get("fsck_rc"), v.get("mke2fs_err", "")[-200:] if not v["ok"] else "", v.get("fsck_out", "")[-300:])
