"""C08 helpers: (1) facts(P) -- the abstract filesystem of spec/ResizeOps.tla extracted from a projection of the independent
reader (reader/ext4read.py); only facts are read off here, every decision about them (Marks, MustMoveIt) is TLC's.
(2) build(b, row, path, rng) -- realises one witness of the boundary catalogue (Emit_Resize) as a real image with mke2fs +
debugfs (setb / freeb / seti / freei / write) of the tree under test."""
import os, re, bisect, json
from common import run as sh, tool_env

BS = 1024
BPG = 256


# ---------------------------------------------------------------------------------------------------------------- facts
class _Ranges:
    def __init__(self, rs):
        self.rs = sorted((a, b) for a, b in rs)
        self.lo = [a for a, b in self.rs]

    def has(self, x):
        i = bisect.bisect_right(self.lo, x) - 1
        return i >= 0 and self.rs[i][0] <= x <= self.rs[i][1]

    def any_in(self, a, b):
        """some element of [a, b] is covered"""
        if a > b:
            return False
        i = bisect.bisect_right(self.lo, a) - 1
        if i >= 0 and self.rs[i][1] >= a:
            return True
        j = bisect.bisect_left(self.lo, a)
        return j < len(self.rs) and self.rs[j][0] <= b

    def count_in(self, a, b):
        n = 0
        for x, y in self.rs:
            lo, hi = max(a, x), min(b, y)
            if lo <= hi:
                n += hi - lo + 1
        return n


class Facts:
    """facts of one image; .rec is the record handed to TLC, .cls(b) the occupancy class of a block"""
    def __init__(self, P):
        geo = P["geo"]
        self.geo = geo
        self.fixed = _Ranges([(a, b) for a, b, _ in P["fixed_list"]])
        self.claimed = _Ranges([(c[0], c[1]) for c in P["claims"]])
        cr, fst = geo.get("cr", 1), geo["first"]          # the reader's block bitmap is in cluster indexes relative to the first data block
        self.inuse = _Ranges([(fst + a * cr, fst + (b + 1) * cr - 1) for a, b in P["bbitmap"]])
        self.iuse = _Ranges([(a, b) for a, b in P["ibitmap"]])
        sbs = _Ranges([(a, b) for a, b in P["fixed"]["sb"]])
        first, bpg, ipg, ng, blocks = geo["first"], geo["bpg"], geo["ipg"], geo["gdc"], geo["blocks"]
        feats = set(geo["features"])
        dsize = geo["dsize"]
        grs = []
        for k in range(ng):
            gf = first + k * bpg
            ge = min(gf + bpg, blocks) - 1
            gd = P["gd"][k]
            i_lo, i_hi = k * ipg + 1, (k + 1) * ipg
            others = self.iuse.count_in(i_lo + 1, i_hi - 1)
            grs.append({"bu": "BLOCK_UNINIT" in gd["flags"], "hs": sbs.has(gf),
                        "fb": self.cls(gf), "lb": self.cls(ge),
                        "mb": "data" if self.claimed.any_in(gf + 1, ge - 1) else "free",
                        "i1": self.iuse.has(i_lo), "il": self.iuse.has(i_hi),
                        "io": "none" if others == 0 else ("all" if others == ipg - 2 else "some"),
                        "it": gd["it"]})
        self.rec = {"bpg": bpg, "first": first, "blocks": blocks, "ipg": ipg, "ng": ng,
                    "csum": bool("uninit_bg" in feats or "metadata_csum" in feats), "flex": "flex_bg" in feats,
                    "metabg": "meta_bg" in feats, "rsz": "resize_inode" in feats, "rsv": geo["rsvgdt"],
                    "dpb": geo["bs"] // dsize, "dpbo": geo["bs"] // (64 if dsize == 32 else 32),
                    "fmb": geo["first_meta_bg"], "itb": geo["itb"], "g": grs}

    def cls(self, b):
        if self.fixed.has(b):
            return "meta"
        if self.claimed.has(b):
            return "data"
        return "other" if self.inuse.has(b) else "free"

    def target(self, kind, nb):
        f = self.rec
        if kind != "size":
            return {"kind": kind, "nb": f["blocks"], "nng": f["ng"], "cnb": "free"}
        nng = -(-(nb - f["first"]) // f["bpg"])
        return {"kind": "size", "nb": nb, "nng": nng, "cnb": self.cls(nb) if nb < f["blocks"] else "free"}


# ---------------------------------------------------------------------------------------------------------------- build
def _free_ranges(txt, key):
    """{group: [(lo, hi)]} from dumpe2fs ('Free blocks: a-b, c' / 'Free inodes: ...')"""
    out, g = {}, None
    for ln in txt.splitlines():
        m = re.match(r"Group (\d+):", ln)
        if m:
            g = int(m.group(1)); out[g] = []
        elif ln.strip().startswith(key) and g is not None:
            for part in ln.split(":", 1)[1].split(","):
                part = part.strip()
                if part:
                    a, _, b = part.partition("-")
                    out[g].append((int(a), int(b or a)))
    return out


def _except(ranges, keep):
    """ranges minus the single number `keep`"""
    out = []
    for a, b in ranges:
        if a <= keep <= b:
            if a < keep: out.append((a, keep - 1))
            if keep < b: out.append((keep + 1, b))
        else:
            out.append((a, b))
    return out


def build(b, row, path, rng):
    """Returns dict(kind, val, notes) -- the request to run on the image at `path` -- or raises RuntimeError."""
    env = tool_env(b)
    mk, dbg, dump = os.path.join(b, "misc", "mke2fs"), os.path.join(b, "debugfs", "debugfs"), os.path.join(b, "misc", "dumpe2fs")
    f, t = row["f"], row["t"]
    scan = f["bpg"] == 3                      # scan witness (3 abstract blocks per group) or table-layout witness (16)
    is64 = (f["dpb"] < f["dpbo"])
    feats = ["extent", "^has_journal", "flex_bg" if f["flex"] else "^flex_bg", "meta_bg" if f["metabg"] else "^meta_bg", "64bit" if (is64 and not scan) else "^64bit"]
    if scan and len(f["g"]) >= 2 and not f["g"][1]["hs"]:       # no backup in group 1: sparse_super2 without backups
        feats.append("sparse_super2"); extra_sb = ["-E", "num_backup_sb=0"]
    else:
        extra_sb = []
    if f["csum"]:
        feats.append("metadata_csum" if rng.random() < 0.5 else "uninit_bg")
    else:
        feats += ["^uninit_bg", "^metadata_csum"]
    extra = []
    if scan:
        ng, ipg = f["ng"], 32
        feats.append("^resize_inode")
    else:
        ng, ipg = 16 * f["ng"], 16
        if f["rsz"] and f["rsv"] > 0 and not f["metabg"]:
            feats.append("resize_inode"); extra = ["-E", "resize=%d" % (3 * (1 + ng * BPG))]
        else:
            feats.append("^resize_inode")
    blocks = 1 + ng * BPG
    if os.path.exists(path):
        os.unlink(path)
    cmd = [mk, "-q", "-F", "-t", "ext4", "-b", str(BS), "-g", str(BPG), "-N", str(ipg * ng), "-I", "256", "-O", ",".join(feats),
           "-U", "11112222-3333-4444-5555-666677778888", "-E", "lazy_itable_init=0"] + extra + extra_sb + [path, str(blocks)]
    rc, out, err = sh(cmd, env=env, timeout=120)
    if rc != 0:
        raise RuntimeError("mke2fs %s: %s" % (" ".join(cmd[1:]), err.decode("utf8", "replace")[-300:]))
    work = os.path.dirname(path)
    tag = os.path.basename(path)
    srcs = {}

    def src(name, data):
        p = os.path.join(work, tag + "." + name)
        with open(p, "wb") as fh:
            fh.write(data)
        srcs[name] = p
        return p
    # a small tree every image carries (group 0): directory, files with one / several blocks, hole, symlinks
    cmds = ["mkdir d", "write %s d/small" % src("small", b"small file\n" * 20),
            "write %s multi" % src("multi", bytes((i * 7 + (i >> 9)) & 255 for i in range(5 * BS + 17))),
            "symlink d/fast small", "symlink slow %s" % ("x" * 100),
            "set_inode_field d/small mode 0100640", "set_inode_field multi uid 1234"]
    rc, out, err = sh([dbg, "-w", "-f", "-", path], env=env, timeout=120, input=("\n".join(cmds) + "\n").encode())
    if rc != 0:
        raise RuntimeError("debugfs populate failed: %s" % err.decode("utf8", "replace")[-300:])
    nfile = [0]

    def place(what, number):
        """one new file whose (single) data block / whose inode is exactly `number`: everything else that is free is marked in use
        in the in-memory bitmap of this one debugfs session, the file is written, the marks are released again.  The allocator
        initialises an INODE_UNINIT group (dropping the marks) the first time it enters it: the result is verified and the
        placement repeated once the group is initialised"""
        for attempt in range(3):
            rc, o, e = sh([dump, path], env=env, timeout=120)
            fr = _free_ranges(o.decode("utf8", "replace"), "Free blocks" if what == "block" else "Free inodes")
            allr = [r for g in sorted(fr) for r in fr[g]]
            if not any(a <= number <= c for a, c in allr):
                raise RuntimeError("%s %d is not free" % (what, number))
            rest = _except(allr, number)
            nfile[0] += 1
            name = "p%d" % nfile[0]
            data = bytes((nfile[0] * 31 + i) & 255 for i in range(BS if what == "block" else 100))
            mark, unmark = ("setb", "freeb") if what == "block" else ("seti", "freei")
            spec = (lambda a: str(a)) if what == "block" else (lambda a: "<%d>" % a)
            cm = ["%s %s %d" % (mark, spec(a), c - a + 1) for a, c in rest]
            cm.append("write %s %s" % (src(name, data), name))
            cm += ["%s %s %d" % (unmark, spec(a), c - a + 1) for a, c in rest]
            rc, o, e = sh([dbg, "-w", "-f", "-", path], env=env, timeout=300, input=("\n".join(cm) + "\n").encode())
            if rc != 0:
                raise RuntimeError("debugfs place %s %d failed: %s" % (what, number, e.decode("utf8", "replace")[-300:]))
            rc, o, e = sh([dbg, "-R", ("bmap %s 0" if what == "block" else "stat %s") % name, path], env=env, timeout=60)
            txt = o.decode("utf8", "replace")
            m = re.search(r"^(\d+)\s*$", txt, re.M) if what == "block" else re.search(r"Inode:\s*(\d+)", txt)
            if m and int(m.group(1)) == number:
                return
            sh([dbg, "-w", "-R", "rm %s" % name, path], env=env, timeout=60)
        raise RuntimeError("could not place a file at %s %d" % (what, number))
    notes = []
    if scan:
        for k, gr in enumerate(f["g"]):
            gf = 1 + k * BPG
            for fld, blk in (("fb", gf), ("mb", gf + 180), ("lb", gf + BPG - 1)):
                if gr[fld] == "data":
                    place("block", blk); notes.append("block %d" % blk)
            want = ([k * ipg + 1] if gr["i1"] and k > 0 else []) + (list(range(k * ipg + 2, (k + 1) * ipg)) if gr["io"] == "all" else []) + ([(k + 1) * ipg] if gr["il"] else [])
            for ino in want:
                if ino >= 12:
                    rc, o, e = sh([dbg, "-R", "testi <%d>" % ino, path], env=env, timeout=60)
                    if b"marked in use" in o:
                        continue
                    place("inode", ino); notes.append("inode %d" % ino)
        q, r = divmod(t["nb"], 3)
        val = 1 + q * BPG + {0: 0, 1: 180, 2: BPG - 1}[r]      # the first block that no longer fits is the first / middle / last block of the group
        kind = "size"
    elif t["kind"] == "size":
        kind, val = "size", 1 + 16 * t["nng"] * BPG
    else:
        kind, val = t["kind"], 0
    for p in srcs.values():
        os.unlink(p)
    rc, out, err = sh([os.path.join(b, "e2fsck", "e2fsck"), "-fn", path], env=env, timeout=120)
    if rc != 0:
        raise RuntimeError("built image is not clean (e2fsck -fn exit %d): %s" % (rc, out.decode("utf8", "replace")[-400:]))
    return {"kind": kind, "val": val, "notes": notes}
