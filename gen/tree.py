"""Concretiser of the C18 tree universe (spec/TreeGen.tla): materialises an abstract tree emitted by TLC on the host.

Every number comes from the catalogue JSON that Emit_TreeGen writes (sizes, data/hole ranges, mode bits, owners, mtimes,
xattr value lengths, symlink target lengths, device numbers, name lengths): this module only chooses the BYTES (names,
file content, link targets, xattr values), all derived from the node id, all reproducible.

    probe_host(dir)                      -> dict of host capabilities (SEEK_HOLE, user xattrs, mknod, tmpfs mounts)
    materialise(tree, cat, root, probe)  -> list of per-node concretisation records (what was really put on the host, re-read
                                            through lstat / readlink / listxattr after everything was written)
    debugfs_script(tree, conc, root)     -> text of a `debugfs -w -f` script that builds the same tree with
                                            mkdir / write / symlink / mknod / ln
    debugfs_links(tree, conc)            -> the `ln` requests of that script and the closing `sif ... links_count` lines
    listing(root)                        -> structural listing of a host directory (used on the output of debugfs rdump)
    cleanup(root)                        -> unmount what materialise mounted, remove the tree
"""
import os, stat, hashlib, shutil, subprocess, errno

M31 = (1 << 31) - 1
# access time given to every node: later than every mtime of the catalogue and than "now", so that the kernel's relatime rule
# (update when atime <= mtime or atime <= ctime or older than a day) never changes it when the tools read the tree -- the
# source tree, atime included, is an input of the reproducibility clause (set_inode_extra copies st_atime)
ATIME_FUT = 4102444800


def sha(b):
    return "sha256:" + hashlib.sha256(b).hexdigest()


# ---------------------------------------------------------------------------------------------------- host probe
def probe_host(d):
    os.makedirs(d, exist_ok=True)
    res = {"seek_hole": False, "user_xattr": False, "big_xattr": False, "mknod": False, "sock": False, "tmpfs": False, "chown": False,
           "link_symlink": False}
    p = os.path.join(d, "probe_sparse")
    try:
        with open(p, "wb") as f:
            f.seek(65536)
            f.write(b"x" * 5000)
            f.truncate(262144)
        fd = os.open(p, os.O_RDONLY)
        try:
            data = os.lseek(fd, 0, os.SEEK_DATA)
            hole = os.lseek(fd, 65536, os.SEEK_HOLE)
            res["seek_hole"] = (data == 65536 and 65536 + 5000 <= hole <= 65536 + 8192)
        finally:
            os.close(fd)
        try:
            os.setxattr(p, "user.probe", b"v")
            res["user_xattr"] = os.getxattr(p, "user.probe") == b"v"
            os.setxattr(p, "user.big", b"v" * 3900)
            res["big_xattr"] = True
        except OSError:
            pass
        try:
            os.chown(p, 1000, 100)
            res["chown"] = os.lstat(p).st_uid == 1000
        except OSError:
            pass
    except OSError:
        pass
    finally:
        if os.path.exists(p):
            os.unlink(p)
    for name, mode, key in (("probe_chr", stat.S_IFCHR | 0o600, "mknod"), ("probe_sock", stat.S_IFSOCK | 0o600, "sock")):
        q = os.path.join(d, name)
        try:
            os.mknod(q, mode, os.makedev(1, 3) if key == "mknod" else 0)
            res[key] = True
        except OSError:
            pass
        finally:
            if os.path.lexists(q):
                os.unlink(q)
    # does link(2) give a symlink itself a second name here (Linux: yes; POSIX leaves it to the implementation)?
    q, q2 = os.path.join(d, "probe_sl"), os.path.join(d, "probe_sl2")
    try:
        os.symlink("nowhere", q)
        os.link(q, q2, follow_symlinks=False)
        st = os.lstat(q2)
        res["link_symlink"] = stat.S_ISLNK(st.st_mode) and st.st_nlink == 2 and st.st_ino == os.lstat(q).st_ino
    except (OSError, NotImplementedError):
        pass
    finally:
        for x in (q, q2):
            if os.path.lexists(x):
                os.unlink(x)
    # two tmpfs mounts number their inodes alike: the only way to get two hard-link groups with equal st_ino on different devices
    m = os.path.join(d, "probe_mnt")
    os.makedirs(m, exist_ok=True)
    try:
        if subprocess.run(["mount", "-t", "tmpfs", "-o", "size=4m", "c18probe", m], stdout=subprocess.DEVNULL, stderr=subprocess.DEVNULL).returncode == 0:
            res["tmpfs"] = True
            subprocess.run(["umount", m], stdout=subprocess.DEVNULL, stderr=subprocess.DEVNULL)
    except OSError:
        pass
    try:
        os.rmdir(m)
    except OSError:
        pass
    return res


# ---------------------------------------------------------------------------------------------------- bytes from ids
def pattern(nid, salt, n):
    """n non-zero bytes depending on (node id, salt)"""
    if n <= 0:
        return b""
    base = bytes(((j * 7 + nid * 13 + salt * 29) % 251) + 1 for j in range(251))
    return (base * (n // 251 + 1))[:n]


def name_of(nid, ln):
    if ln == 1:
        return "abcdefghijklmnopqrstuvwxyzABCDEFGHIJKLMNOPQRSTUVWXYZ"[nid - 1]
    s = "f%02d" % nid
    pad = "_-.+=~xyzw"
    k = 0
    while len(s) < ln:
        s += pad[(k + nid) % len(pad)]
        k += 1
    return s[:ln]


def target_of(nid, ln):
    s = "../t%02d/" % nid
    alpha = "abcdefghijklmnopqrstuvwxyz0123456789"
    k = 0
    while len(s) < ln:
        s += "/" if (k % 50 == 49) else alpha[(k * 5 + nid) % len(alpha)]
        k += 1
    return s[:ln]


def file_bytes(nid, sz):
    """the whole logical content of a regular file of size class record sz (holes read as zeros)"""
    out = bytearray(sz["size"])
    for k, (lo, hi) in enumerate(sz["data"]):
        out[lo:hi] = pattern(nid, k, hi - lo)
    return bytes(out)


# ---------------------------------------------------------------------------------------------------- materialise
def materialise(tree, cat, root, probe):
    """Builds the tree under `root` (which must not exist).  Returns conc records; raises RuntimeError when the host did not
    take what was asked (then the case cannot be decided: the caller reports a broken check, never a violation)."""
    os.makedirs(root)
    by_id = {n["id"]: n for n in tree}
    path = {0: ""}
    names = {}
    mounted = []
    try:
        for n in tree:
            nm = name_of(n["id"], cat["names"][n["nlen"]])
            names[n["id"]] = nm
            rel = path[n["parent"]] + "/" + nm
            path[n["id"]] = rel
            p = root + rel
            k = n["kind"]
            if k == "dir":
                os.mkdir(p)
                if n["mnt"]:
                    r = subprocess.run(["mount", "-t", "tmpfs", "-o", "size=16m", "c18tree", p], stdout=subprocess.PIPE, stderr=subprocess.PIPE)
                    if r.returncode != 0:
                        raise RuntimeError("mount tmpfs on %s failed: %s" % (p, r.stderr.decode()[-200:]))
                    mounted.append(p)
            elif k == "reg":
                sz = cat["sizes"][n["content"]]
                with open(p, "wb") as f:
                    for j, (lo, hi) in enumerate(sz["data"]):
                        f.seek(lo)
                        f.write(pattern(n["id"], j, hi - lo))
                    f.truncate(sz["size"])
            elif k == "lnk":
                os.symlink(target_of(n["id"], cat["targets"][n["content"]]), p)
            elif k in ("chr", "blk"):
                mj, mi = cat["devs"][n["content"]]
                os.mknod(p, (stat.S_IFCHR if k == "chr" else stat.S_IFBLK) | 0o600, os.makedev(mj, mi))
            elif k == "fifo":
                os.mkfifo(p, 0o600)
            elif k == "sock":
                os.mknod(p, stat.S_IFSOCK | 0o600, 0)       # bind() would limit the path to 107 bytes
            elif k == "hard":
                os.link(root + path[n["link"]], p, follow_symlinks=False)       # the node itself, also when it is a symlink
            else:
                raise RuntimeError("unknown kind %r" % k)
        # attributes: owner first (chown clears setuid/setgid), then mode, xattrs, times last; directories bottom-up
        for n in tree:
            if n["kind"] == "hard":
                continue
            p = root + path[n["id"]]
            u, g = cat["owners"][n["owner"]]
            os.lchown(p, u, g)
            if n["kind"] != "lnk":
                os.chmod(p, cat["modes"][n["mode"]])
            for tag, ln in cat["xattrs"][n["xattr"]]:
                os.setxattr(p, "user." + tag, pattern(n["id"], ord(tag[0]), ln))
        for n in reversed(tree):
            if n["kind"] == "hard":
                continue
            p = root + path[n["id"]]
            t = cat["mtimes"][n["mtime"]]
            os.utime(p, (ATIME_FUT, t), follow_symlinks=False)
    except OSError as ex:
        for m in reversed(mounted):
            subprocess.run(["umount", m], stdout=subprocess.DEVNULL, stderr=subprocess.DEVNULL)
        raise RuntimeError("host refused part of the tree: %s" % ex)
    # read back what is really there
    devs = {}
    conc = []
    for n in tree:
        p = root + path[n["id"]]
        st = os.lstat(p)
        src = by_id[n["link"]] if n["kind"] == "hard" else n
        rec = {"id": n["id"], "path": path[n["id"]], "name_len": len(names[n["id"]]), "digest": "", "size": 0, "target": "", "target_len": 0,
               "xattrs": [], "sdev": devs.setdefault(st.st_dev, len(devs)), "sino": st.st_ino % M31, "snlink": st.st_nlink,
               "mode": stat.S_IMODE(st.st_mode), "uid": st.st_uid, "gid": st.st_gid, "mtime": int(st.st_mtime), "host_holes": 1}
        if stat.S_ISREG(st.st_mode):
            sz = cat["sizes"][src["content"]]
            want = file_bytes(src["id"], sz)
            with open(p, "rb") as f:
                got = f.read()
            if got != want:
                raise RuntimeError("host content of %s differs from the generator's" % p)
            rec["digest"] = sha(got)
            rec["size"] = st.st_size
            # are the catalogue's holes really holes on this host?
            if sz["holes"]:
                fd = os.open(p, os.O_RDONLY)
                try:
                    for lo, hi in sz["holes"]:
                        try:
                            d = os.lseek(fd, lo, os.SEEK_DATA)
                        except OSError as ex:
                            if ex.errno != errno.ENXIO:
                                rec["host_holes"] = 0
                                break
                            d = st.st_size
                        if d < hi:
                            rec["host_holes"] = 0
                finally:
                    os.close(fd)
        elif stat.S_ISLNK(st.st_mode):
            rec["target"] = os.readlink(p)
            rec["target_len"] = len(rec["target"])
            rec["size"] = st.st_size
        if stat.S_ISREG(st.st_mode) or stat.S_ISDIR(st.st_mode):
            for a in sorted(os.listxattr(p, follow_symlinks=False)):
                rec["xattrs"].append([a, sha(os.getxattr(p, a, follow_symlinks=False))])
        rec["rdev"] = [os.major(st.st_rdev), os.minor(st.st_rdev)] if (stat.S_ISCHR(st.st_mode) or stat.S_ISBLK(st.st_mode)) else [0, 0]
        conc.append(rec)
    return conc


def cleanup(root):
    """unmount everything mounted below root (deepest first), then remove it"""
    try:
        mnts = []
        with open("/proc/self/mounts") as f:
            for ln in f:
                mp = ln.split()[1].replace("\\040", " ")
                if mp == root or mp.startswith(root.rstrip("/") + "/"):
                    mnts.append(mp)
        for m in sorted(mnts, key=len, reverse=True):
            subprocess.run(["umount", m], stdout=subprocess.DEVNULL, stderr=subprocess.DEVNULL)
    except OSError:
        pass
    shutil.rmtree(root, ignore_errors=True)


# ---------------------------------------------------------------------------------------------------- debugfs front end
def _sockish(tree):
    """ids of the names this front end cannot create: sockets (debugfs mknod has no socket type) and further names of sockets"""
    by_id = {n["id"]: n for n in tree}
    return {n["id"] for n in tree if (by_id[n["link"]] if n["kind"] == "hard" else n)["kind"] == "sock"}


def debugfs_links(tree, conc):
    """The hard-link part of the debugfs front end.  `ln` adds a name and nothing else (it neither grows a full directory nor
    touches the link count -- both documented), so the user of debugfs runs `expand_dir` when ln reports
    "No free space in the directory" and stores the count with `sif`.  Returns (lns, sifs):
    lns = [{"dir", "src", "name"}] in script order, sifs = ["sif <first name> links_count <n>"] for every group with n > 1."""
    cpath = {c["id"]: c["path"] for c in conc}
    skip = _sockish(tree)
    lns, cnt = [], {}
    for n in tree:
        if n["kind"] != "hard" or n["id"] in skip:
            continue
        d, nm = os.path.split(cpath[n["id"]])
        lns.append({"dir": d or "/", "src": cpath[n["link"]], "name": nm})
        cnt[n["link"]] = cnt.get(n["link"], 1) + 1
    return lns, ["sif %s links_count %d" % (cpath[i], c) for i, c in sorted(cnt.items())]


def debugfs_script(tree, conc, root):
    """mkdir / write / symlink / mknod / ln, each issued from the target directory (debugfs mknod does not split paths).
    A "hard" node is `ln <first name of the group> <name>`; see debugfs_links for what follows the script."""
    cpath = {c["id"]: c["path"] for c in conc}
    skip = _sockish(tree)
    L = []
    for n in tree:
        if n["id"] in skip:
            continue                          # debugfs mknod has no socket type
        p = cpath[n["id"]]
        d, nm = os.path.split(p)
        L.append("cd %s" % (d or "/"))
        k = n["kind"]
        if k == "hard":
            L.append("ln %s %s" % (cpath[n["link"]], nm))
        elif k == "dir":
            L.append("mkdir %s" % nm)
        elif k == "reg":
            L.append("write %s %s" % (root + p, nm))
        elif k == "lnk":
            L.append("symlink %s %s" % (nm, next(c["target"] for c in conc if c["id"] == n["id"])))
        elif k in ("chr", "blk"):
            mj, mi = next(c["rdev"] for c in conc if c["id"] == n["id"])
            L.append("mknod %s %s %d %d" % (nm, "c" if k == "chr" else "b", mj, mi))
        elif k == "fifo":
            L.append("mknod %s p" % nm)
    return "\n".join(L) + "\n"


# ---------------------------------------------------------------------------------------------------- listing of a host tree
def listing(root):
    out = []
    for d, ds, fs in os.walk(root):
        for nm in sorted(ds + fs):
            p = os.path.join(d, nm)
            st = os.lstat(p)
            rel = p[len(root):]
            rec = {"path": rel, "type": "other", "size": 0, "digest": "", "target": "", "perm": stat.S_IMODE(st.st_mode) & 0o777,
                   "xmode": stat.S_IMODE(st.st_mode), "uid": st.st_uid, "gid": st.st_gid, "mtime": min(int(st.st_mtime), M31)}
            if stat.S_ISREG(st.st_mode):
                rec["type"] = "reg"
                rec["size"] = min(st.st_size, M31)
                h = hashlib.sha256()
                with open(p, "rb") as f:
                    while True:
                        b = f.read(1 << 20)
                        if not b:
                            break
                        h.update(b)
                rec["digest"] = "sha256:" + h.hexdigest()
            elif stat.S_ISDIR(st.st_mode):
                rec["type"] = "dir"
            elif stat.S_ISLNK(st.st_mode):
                rec["type"] = "lnk"
                rec["target"] = os.readlink(p)
                rec["size"] = len(rec["target"])
            out.append(rec)
    out.sort(key=lambda r: r["path"])
    return out
