"""C14: pre-state images of clause (a) -- one small filesystem per element of the geometry catalogue of
spec/CsumUniverse.tla (descriptor size x inode size x checksum kind x flex_bg), populated so that every object shape of
CsumUniverse!Shapes exists AND lives where the operations of CsumUniverse!Ops reach it:

  * a directory /hi whose inode lies in the LAST block group (all inodes of the lower groups are taken by fifos while
    it is made, and released again afterwards), so resize2fs shrinking by one group renumbers it and everything below it;
  * below /hi (inodes of the last group, and without flex_bg blocks of the last group as well):
      ht      two-level htree directory (dx root + interior dx nodes + leaves; 420 hard links with 250-byte names,
              indexed by e2fsck -fyD)
      lin     linear directory of two blocks whose second block holds only unused dirents (fifos made and removed again)
      xd      directory with an xattr block;  xf  regular file with an xattr block
      ex      sparse file with 7 separated extents (extent tree of depth 1: one extent block)
      slow    symlink with a data block
  * with metadata_csum the (empty) journal carries checksum v3: a checksummed journal superblock (debugfs jo -c; jc).
Built with the scratch-built tools only (mke2fs, debugfs -w, e2fsck -fyD); the e2fsck -fn status is recorded.

census(P, raw, new_inodes, new_blocks): how many live objects of each shape a projection holds whose checksum inputs
an operation changes: objects owned by an inode number above new_inodes / blocks at or above new_blocks (0, 0 = all)."""
import os, sys, struct, shutil
from common import VERIF, tool_env
from common import run as sh

UUID = "c14c14c1-4c14-4c14-8c14-c14c14c14c14"
HASH_SEED = "aaaabbbb-cccc-dddd-eeee-ffff00001111"
GROUPS, BPG, IPG = 8, 1024, 48
LONG = "y" * 244


def name_of(g):
    return "g%d_i%d_%s_%s" % (g["dsize"], g["isize"], g["kind"], "flex" if g["flex"] else "noflex")


def mkfs_args(g):
    o = ["extent", "dir_index", "ext_attr", "has_journal"]
    if g["kind"] == "crc32c":
        o += ["metadata_csum", "orphan_file"]
    else:
        o += ["^metadata_csum", "uninit_bg"]
    o.append("flex_bg" if g["flex"] else "^flex_bg")
    e = ["hash_seed=" + HASH_SEED, "lazy_itable_init=0"]
    if g["dsize"] == 32:
        o.append("^64bit")
    else:
        o.append("64bit"); e.append("desc_size=%d" % g["dsize"])
    return ["-q", "-F", "-t", "ext4", "-b", "1024", "-g", str(BPG), "-N", str(GROUPS * IPG), "-I", str(g["isize"]), "-O", ",".join(o),
            "-E", ",".join(e), "-J", "size=1", "-U", UUID]


def sources(outdir):
    """host files the images are populated from (call once before building in parallel)"""
    src = os.path.join(outdir, "c14_src")
    if not os.path.exists(src + ".sparse"):
        with open(src + ".small", "wb") as f:
            f.write(b"c14 target\n")
        tmp = "%s.sparse.%d.tmp" % (src, os.getpid())
        with open(tmp, "wb") as f:
            for k in range(7):
                f.seek(8192 * (2 * k + 1)); f.write(bytes((k * 31 + i) & 255 for i in range(3000)))
            f.truncate(8192 * 16)
        os.rename(tmp, src + ".sparse")
    return src


def build(b, g, outdir):
    """-> (path, info dict); info["ok"] False when a step failed (info says which)"""
    env = tool_env(b)
    img = os.path.join(outdir, name_of(g) + ".img")
    info = {"geom": name_of(g), "ok": False}
    if os.path.exists(img):
        os.unlink(img)
    rc, out, err = sh([os.path.join(b, "misc", "mke2fs")] + mkfs_args(g) + [img, str(GROUPS * BPG)], env=env, timeout=120)
    if rc != 0:
        info["step"] = "mke2fs rc=%d %s" % (rc, err.decode("utf8", "replace")[-300:]); return img, info
    src = sources(outdir)
    dbg = os.path.join(b, "debugfs", "debugfs"); fsck = os.path.join(b, "e2fsck", "e2fsck")
    # how many inodes are free below the last group: first_ino .. (GROUPS-1)*IPG minus what mke2fs used (lost+found, orphan file)
    rc, out, err = sh([os.path.join(b, "misc", "dumpe2fs"), "-h", img], env=env, timeout=60)
    free = None
    for l in out.decode("utf8", "replace").splitlines():
        if l.startswith("Free inodes:"):
            free = int(l.split()[-1])
    if free is None:
        info["step"] = "dumpe2fs"; return img, info
    nfill = free - IPG
    c1 = ["mknod fill%d p" % i for i in range(nfill)]
    c1 += ["mkdir hi", "cd hi", "mkdir ht", "write %s.small ht/target" % src]
    c1 += ["expand_dir ht"] * 142          # debugfs ln does not grow the directory
    c1 += ["ln ht/target ht/n%04d_%s" % (i, LONG) for i in range(420)]
    c1 += ["write %s.sparse ex" % src, "write %s.small xf" % src, "ea_set xf user.c14blk " + "B" * 600, "mkdir xd", "ea_set xd user.c14dir " + "D" * 600,
           "symlink slow /" + "s" * 90, "sif ht/target links_count 421", "cd /"]
    c1 += ["rm fill%d" % i for i in range(nfill)]
    rc, out, err = sh([dbg, "-w", "-f", "-", img], env=env, timeout=300, input=("\n".join(c1) + "\n").encode())
    if rc != 0:
        info["step"] = "debugfs 1 rc=%d" % rc; return img, info
    rc, out, err = sh([fsck, "-fyD", img], env=env, timeout=300)
    info["rehash_rc"] = rc
    if rc not in (0, 1):
        info["step"] = "e2fsck -fyD rc=%d %s" % (rc, out.decode("utf8", "replace")[-300:]); return img, info
    # the linear directory with an emptied second block is made after the re-index (which would compact it)
    c2 = ["cd hi", "mkdir lin", "cd lin"] + ["mknod l%d_%s p" % (i, LONG) for i in range(6)] + ["rm l5_" + LONG, "rm l4_" + LONG, "rm l3_" + LONG]
    if g["kind"] == "crc32c":
        c2 += ["jo -c", "jc"]         # the journal superblock gets the v3 checksum feature and a checksum of its own
    rc, out, err = sh([dbg, "-w", "-f", "-", img], env=env, timeout=300, input=("\n".join(c2) + "\n").encode())
    if rc != 0:
        info["step"] = "debugfs 2 rc=%d" % rc; return img, info
    rc, out, err = sh([fsck, "-fn", img], env=env, timeout=300)
    info["fsck_rc"] = rc
    if rc != 0:
        # the image is still what the tools wrote: the caller lets the independent reader judge its checksums
        info["fsck_out"] = out.decode("utf8", "replace")[-400:]
    info["ok"] = True
    return img, info


SHAPES = ("sb", "gd", "bb", "ib", "inode", "extblk", "dirleaf_live", "dirleaf_empty", "dxroot", "dxnode", "xblk", "mmp", "orphanblk", "jsb")


def dirblock_shape(raw, off, bs, indexed, lblk):
    """classify one directory block from its bytes"""
    ino0, rl0 = struct.unpack_from("<IH", raw, off)
    if indexed and lblk == 0:
        return "dxroot"
    if indexed and ino0 == 0 and rl0 == bs:
        return "dxnode"
    p, live = 0, 0
    while p + 8 <= bs:
        ino, rl, nl, ft = struct.unpack_from("<IHBB", raw, off + p)
        if rl < 8 or p + rl > bs:
            break
        if ino != 0:
            live += 1
        p += rl
    return "dirleaf_live" if live else "dirleaf_empty"


def census(P, raw, new_inodes=0, new_blocks=0):
    geo, loc = P["geo"], P["loc"]
    bs = geo["bs"]
    c = {s: 0 for s in SHAPES}
    if geo["csum"] == "none":
        return c
    meta = geo["csum"] == "crc32c"
    c["gd"] = len(P["gd"])
    if not meta:
        return c
    c["sb"] = 1
    for g in P["gd"]:
        if "BLOCK_UNINIT" not in g["flags"]: c["bb"] += 1
        if "INODE_UNINIT" not in g["flags"]: c["ib"] += 1
    inodes = {i["ino"]: i for i in P["inodes"]}
    owner = {}
    for i in P["inodes"]:
        if i["ino"] > new_inodes:
            c["inode"] += 1
        for a, z in i["own"]["index"]:
            for blk in range(a, z + 1):
                owner[blk] = i["ino"]
    for blk in loc.get("extblk", {}):
        if owner.get(int(blk), 0) > new_inodes:
            c["extblk"] += 1
    for key, off in loc.get("dirblk", {}).items():
        ino, l = (int(x) for x in key.split(":"))
        I = inodes.get(ino)
        if I is None or I.get("inline") or ino <= new_inodes:
            continue
        c[dirblock_shape(raw, off, bs, "INDEX" in I["flags"], l)] += 1
    for x in P["xblocks"]:
        if x["blk"] >= new_blocks and x["referrers"]:
            c["xblk"] += 1
    if P["mmp"].get("present"):
        c["mmp"] = 1
    c["orphanblk"] = len(loc.get("orphanblk", {}))
    if P["journal"].get("present") and set(P["journal"].get("incompat", [])) & {"csum_v2", "csum_v3"}:
        c["jsb"] = 1
    return c
