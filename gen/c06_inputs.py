"""C06 input universe: byte strings presented to the tools as file system image, journal, undo file or qcow2 image.

An input is a JSON-able recipe
    {"id", "family", "base": <base id>, "target": "img"|"undo"|"qcow"|"jdev", "pokes": [[offset, hex], ...], "trunc": n|-1, "what"}
applied to the base artefact's file named by `target`.  Bases are deterministic given (tree, VERIF_SEED):

  fs:<profile>        the 15 rich images of gen/mkbase.py (+ the independent reader's location map)
  c13:<state id>      the image states of gen/c13_images.py (7 profiles x journal / orphan / MMP / quota / ~40 corruption recipes)
  jrn:<profile>:<k>   an mkbase image whose internal journal holds abstract journal k of gen/jbd2sample.py (all damage kinds),
                      encoded by gen/jbd2write.py
  undo:<profile>:<op> undo file written by tune2fs / e2fsck / resize2fs / debugfs -z + the image after the operation
  qcow:<profile>      e2image -Q output of an mkbase image
  extj                a file system with an EXTERNAL journal (journal device image with two committed transactions)
  raw:<name>          arbitrary bytes (empty, zeros, random, random with the ext2 magic) presented as every kind of input
  ring:<profile>:<csum>:<fill>:<ring>   an mkbase image whose internal journal is a degenerate ring of spec/C06Readers.tla Part R

Reader-bound families (spec/C06Readers.tla, catalogue handed over as JSON; symbolic values evaluated here on the base):
  uhdr   one or two undo header fields (block_size, fs_block_size, num_keys, key_offset) at / around the reader's bounds,
         header checksum recomputed
  ukey   one field of the first key (size, fsblk) at / around / between every bound the reader derives from the header,
         under header variants that pull the bounds apart; header and key block checksums recomputed
  qhdr1 / qhdr2   one / two qcow2 header fields at / around the converter's bounds (end of file, table limits, cluster_bits)
  sum    summary counters (superblock and per-group free counts) that put the derived quantities of resize2fs -P on their
         boundaries, every checksum recomputed

Structured corruptions = (object class of the location map) x (field of the on-disk format) x (value class), optionally with
the object's checksum recomputed (superblock, group descriptor, inode, directory block tail) so that the damage reaches
the code behind the checksum test; multi-field = 2..3 of them in one image.  Unstructured = random bit flips, byte runs,
block garbage, block swaps and truncations, in metadata blocks (location map) and anywhere in the file.
The universe is CLOSED: thorough enumerates the whole structured catalogue for the selected objects and a fixed number of
seeded unstructured mutations per base; quick is a seeded stratified sample of the same universe."""
import os, sys, struct, random, hashlib, json, shutil, subprocess, threading
import concurrent.futures as cf
from collections import namedtuple, OrderedDict

from ext4read import crc32c
import ext4read

MASK = 0xFFFFFFFF
Base = namedtuple("Base", "id kind files loc names info")


class GenError(RuntimeError):
    pass


# ------------------------------------------------------------------------------------------------ raw access
def rd(path, off, n):
    with open(path, "rb") as f:
        f.seek(off)
        return f.read(n)


def sparse_copy(src, dst):
    """copy keeping holes: data extents of the (sparse) source are found with SEEK_DATA / SEEK_HOLE and copied in the
    kernel; falls back to reading and skipping zero blocks"""
    size = os.path.getsize(src)
    try:
        fi = os.open(src, os.O_RDONLY)
        fo = os.open(dst, os.O_WRONLY | os.O_CREAT | os.O_TRUNC, 0o644)
        try:
            os.ftruncate(fo, size)
            off = 0
            while off < size:
                try:
                    a = os.lseek(fi, off, os.SEEK_DATA)
                except OSError:
                    break                           # ENXIO: no data behind off
                e = os.lseek(fi, a, os.SEEK_HOLE)
                pos = a
                while pos < e:
                    n = os.copy_file_range(fi, fo, e - pos, pos, pos)
                    if n <= 0:
                        raise OSError("short copy")
                    pos += n
                off = e
            return
        finally:
            os.close(fi)
            os.close(fo)
    except (OSError, AttributeError):
        pass
    with open(src, "rb") as fi, open(dst, "wb") as fo:
        while True:
            buf = fi.read(1 << 16)
            if not buf:
                break
            if buf.count(0) == len(buf):
                fo.seek(len(buf), 1)
            else:
                fo.write(buf)
        fo.truncate(size)


def apply_recipe(path, pokes, trunc=-1):
    with open(path, "r+b") as f:
        for off, hx in pokes:
            f.seek(off)
            f.write(bytes.fromhex(hx))
        if trunc >= 0:
            f.truncate(trunc)


# ------------------------------------------------------------------------------------------------ field catalogue
# (name, offset, size); little-endian unless the class is in BIG
SB_FIELDS = [("inodes_count", 0, 4), ("blocks_count_lo", 4, 4), ("r_blocks_count", 8, 4), ("free_blocks", 12, 4), ("free_inodes", 16, 4),
             ("first_data_block", 20, 4), ("log_block_size", 24, 4), ("log_cluster_size", 28, 4), ("blocks_per_group", 32, 4),
             ("clusters_per_group", 36, 4), ("inodes_per_group", 40, 4), ("magic", 56, 2), ("state", 58, 2), ("rev_level", 76, 4),
             ("first_ino", 84, 4), ("inode_size", 88, 2), ("feature_compat", 92, 4), ("feature_incompat", 96, 4),
             ("feature_ro_compat", 100, 4), ("reserved_gdt_blocks", 206, 2), ("journal_inum", 224, 4), ("journal_dev", 228, 4),
             ("last_orphan", 232, 4), ("def_hash_version", 252, 1), ("jnl_backup_type", 253, 1), ("desc_size", 254, 2),
             ("first_meta_bg", 260, 4), ("jnl_blocks0", 268, 4), ("jnl_blocks_size", 268 + 64, 4), ("blocks_count_hi", 336, 4),
             ("min_extra_isize", 348, 2), ("want_extra_isize", 350, 2), ("mmp_interval", 358, 2), ("mmp_block", 360, 8),
             ("log_groups_per_flex", 372, 1), ("checksum_type", 373, 1), ("usr_quota_inum", 576, 4), ("grp_quota_inum", 580, 4),
             ("overhead", 584, 4), ("backup_bgs0", 588, 4), ("backup_bgs1", 592, 4), ("prj_quota_inum", 620, 4),
             ("checksum_seed", 624, 4), ("encoding", 636, 2), ("orphan_file_inum", 640, 4)]
GD_FIELDS = [("block_bitmap_lo", 0, 4), ("inode_bitmap_lo", 4, 4), ("inode_table_lo", 8, 4), ("free_blocks_lo", 12, 2),
             ("free_inodes_lo", 14, 2), ("used_dirs_lo", 16, 2), ("flags", 18, 2), ("exclude_bitmap_lo", 20, 4),
             ("block_bitmap_csum_lo", 24, 2), ("inode_bitmap_csum_lo", 26, 2), ("itable_unused_lo", 28, 2), ("checksum", 30, 2),
             ("block_bitmap_hi", 32, 4), ("inode_table_hi", 40, 4)]
INODE_FIELDS = [("mode", 0, 2), ("size_lo", 4, 4), ("links_count", 26, 2), ("blocks_lo", 28, 4), ("flags", 32, 4),
                ("iblock0_lo16", 40, 2), ("iblock0_hi16", 42, 2), ("iblock1_lo16", 44, 2), ("iblock1_hi16", 46, 2),
                ("iblock2", 48, 4), ("iblock3", 52, 4), ("iblock4_lo16", 56, 2), ("iblock4_hi16", 58, 2), ("iblock5", 60, 4),
                ("iblock12_ind", 88, 4), ("iblock13_dind", 92, 4), ("iblock14_tind", 96, 4), ("generation", 100, 4),
                ("file_acl_lo", 104, 4), ("size_high", 108, 4), ("extra_isize", 128, 2), ("ibody_xattr_magic", 160, 4),
                ("ibody_e_name_len", 164, 1), ("ibody_e_name_index", 165, 1), ("ibody_e_value_offs", 166, 2),
                ("ibody_e_value_inum", 168, 4), ("ibody_e_value_size", 172, 4)]
EXTBLK_FIELDS = [("eh_magic", 0, 2), ("eh_entries", 2, 2), ("eh_max", 4, 2), ("eh_depth", 6, 2), ("e0_block", 12, 4),
                 ("e0_len_or_leaf_lo", 16, 2), ("e0_start_hi", 18, 2), ("e0_start_lo", 20, 4), ("e1_block", 24, 4)]
XBLK_FIELDS = [("h_magic", 0, 4), ("h_refcount", 4, 4), ("h_blocks", 8, 4), ("h_hash", 12, 4), ("e_name_len", 32, 1),
               ("e_name_index", 33, 1), ("e_value_offs", 34, 2), ("e_value_inum", 36, 4), ("e_value_size", 40, 4), ("e_hash", 44, 4)]
DIRBLK_FIELDS = [("d0_inode", 0, 4), ("d0_rec_len", 4, 2), ("d0_name_len", 6, 1), ("d0_file_type", 7, 1), ("d1_inode", 12, 4),
                 ("d1_rec_len", 16, 2), ("d1_name_len", 18, 1), ("dxnode_limit", 8, 2), ("dxnode_count", 10, 2), ("dxnode_block0", 12, 4),
                 ("dxroot_hash_version", 28, 1), ("dxroot_info_length", 29, 1), ("dxroot_indirect_levels", 30, 1),
                 ("dxroot_limit", 32, 2), ("dxroot_count", 34, 2), ("dxroot_block0", 36, 4), ("dxroot_e1_hash", 40, 4),
                 ("dxroot_e1_block", 44, 4), ("tail_rec_len", -8, 2), ("tail_name_len_type", -6, 2), ("tail_csum", -4, 4)]
INDBLK_FIELDS = [("p0", 0, 4), ("p1", 4, 4), ("p_last", -4, 4)]
BITMAP_FIELDS = [("b0", 0, 4), ("b_mid", 64, 4), ("b_last", -4, 4)]
ORPHAN_FIELDS = [("o0", 0, 4), ("o1", 4, 4), ("tail_magic", -8, 4), ("tail_csum", -4, 4)]
MMP_FIELDS = [("magic", 0, 4), ("seq", 4, 4), ("time", 8, 8), ("check_interval", 112, 2), ("csum", 1020, 4)]
# journal superblock / blocks: big-endian
JSB_FIELDS = [("h_magic", 0, 4), ("h_blocktype", 4, 4), ("h_sequence", 8, 4), ("s_blocksize", 12, 4), ("s_maxlen", 16, 4), ("s_first", 20, 4),
              ("s_sequence", 24, 4), ("s_start", 28, 4), ("s_errno", 32, 4), ("s_feature_compat", 36, 4), ("s_feature_incompat", 40, 4),
              ("s_feature_ro_compat", 44, 4), ("s_nr_users", 64, 4), ("s_max_transaction", 72, 4), ("s_checksum_type", 80, 1),
              ("s_num_fc_blocks", 84, 4), ("s_checksum", 252, 4)]
JREV_FIELDS = [("h_blocktype", 4, 4), ("h_sequence", 8, 4), ("r_count", 12, 4), ("r0", 16, 4), ("r1", 20, 4)]
JDESC_FIELDS = [("h_blocktype", 4, 4), ("h_sequence", 8, 4), ("t0_blocknr", 12, 4), ("t0_w16", 16, 4), ("t0_w20", 20, 4), ("t0_w24", 24, 4),
                ("t1_w28", 28, 4), ("tail", -4, 4)]
JCOMMIT_FIELDS = [("h_blocktype", 4, 4), ("h_sequence", 8, 4), ("h_chksum_type", 12, 1), ("h_chksum_size", 13, 1), ("h_chksum0", 16, 4),
                  ("commit_sec_hi", 48, 4), ("commit_sec", 52, 4), ("commit_nsec", 56, 4)]
JBLK_FIELDS = [("h_magic", 0, 4), ("h_blocktype", 4, 4), ("h_sequence", 8, 4), ("w12", 12, 4), ("w16", 16, 4), ("w20", 20, 4), ("w24", 24, 4),
               ("w28", 28, 4), ("tail", -4, 4)]
UNDO_HDR_FIELDS = [("magic", 0, 8), ("num_keys", 8, 8), ("super_offset", 16, 8), ("key_offset", 24, 8), ("block_size", 32, 4),
                   ("fs_block_size", 36, 4), ("sb_crc", 40, 4), ("state", 44, 4), ("f_compat", 48, 4), ("f_incompat", 52, 4),
                   ("f_rocompat", 56, 4), ("fs_offset", 64, 8), ("header_crc", 508, 4)]
UNDO_KEY_FIELDS = [("kb_magic", 0, 4), ("kb_crc", 4, 4), ("kb_reserved", 8, 8), ("k0_fsblk", 16, 8), ("k0_blk_crc", 24, 4), ("k0_size", 28, 4),
                   ("k1_fsblk", 32, 8), ("k1_size", 44, 4)]
QCOW_HDR_FIELDS = [("magic", 0, 4), ("version", 4, 4), ("backing_file_offset", 8, 8), ("backing_file_size", 16, 4), ("cluster_bits", 20, 4),
                   ("size", 24, 8), ("crypt_method", 32, 4), ("l1_size", 36, 4), ("l1_table_offset", 40, 8), ("refcount_table_offset", 48, 8),
                   ("refcount_table_clusters", 56, 4), ("nb_snapshots", 60, 4), ("snapshots_offset", 64, 8)]
QCOW_TBL_FIELDS = [("t0", 0, 8), ("t1", 8, 8), ("t2", 16, 8)]
BIG = {"jsb", "jblk", "jrev", "jdesc", "jcommit", "qcow_hdr", "qcow_l1", "qcow_l2", "qcow_rt", "qcow_rb"}
FIELDS = {"sb": SB_FIELDS, "sb_backup": SB_FIELDS, "gd": GD_FIELDS, "inode": INODE_FIELDS, "extblk": EXTBLK_FIELDS, "xblk": XBLK_FIELDS,
          "dirblk": DIRBLK_FIELDS, "indblk": INDBLK_FIELDS, "bb": BITMAP_FIELDS, "ib": BITMAP_FIELDS, "orphanblk": ORPHAN_FIELDS,
          "mmp": MMP_FIELDS, "jsb": JSB_FIELDS, "jblk": JBLK_FIELDS, "jrev": JREV_FIELDS, "jdesc": JDESC_FIELDS, "jcommit": JCOMMIT_FIELDS, "undo_hdr": UNDO_HDR_FIELDS, "undo_key": UNDO_KEY_FIELDS,
          "qcow_hdr": QCOW_HDR_FIELDS, "qcow_l1": QCOW_TBL_FIELDS, "qcow_l2": QCOW_TBL_FIELDS, "qcow_rt": QCOW_TBL_FIELDS,
          "qcow_rb": [("r0", 0, 2), ("r1", 2, 2)]}
REPAIRABLE = ("sb", "gd", "inode", "undo_hdr", "undo_key")        # classes whose checksum fix_csum / structured() can recompute
VALUE_CLASSES = ["zero", "one", "ones", "msb", "max_signed", "inc", "dec", "dbl", "half", "flip_lo", "flip_hi", "rnd_a", "rnd_b"]


def new_value(vc, cur, size, rng):
    top = (1 << (8 * size)) - 1
    v = {"zero": 0, "one": 1, "ones": top, "msb": 1 << (8 * size - 1), "max_signed": (1 << (8 * size - 1)) - 1,
         "inc": cur + 1, "dec": cur - 1, "dbl": cur * 2 + 2, "half": cur // 2, "flip_lo": cur ^ 1,
         "flip_hi": cur ^ (1 << (8 * size - 2))}.get(vc)
    if v is None:
        v = rng.getrandbits(8 * size)
    return v & top


# ------------------------------------------------------------------------------------------------ checksum repair
def _seed_of(sb):
    inc = struct.unpack_from("<I", sb, 96)[0]
    if inc & 0x2000:
        return struct.unpack_from("<I", sb, 0x270)[0]
    return crc32c(MASK, sb[104:120])


def fix_csum(path, objclass, objoff, bs, isize, key, extra_pokes):
    """Return extra pokes that make the checksum of the damaged object valid again (metadata_csum images only);
    [] when the class has no repair implemented or the image has no metadata_csum."""
    sb = bytearray(rd(path, 1024, 1024))
    for off, hx in extra_pokes:                      # the superblock may itself be the damaged object
        b = bytes.fromhex(hx)
        if 1024 <= off < 2048:
            sb[off - 1024:off - 1024 + len(b)] = b[:2048 - off]
    ro = struct.unpack_from("<I", sb, 100)[0]
    if not ro & 0x400:
        return []

    def patched(off, n):
        buf = bytearray(rd(path, off, n))
        for o, hx in extra_pokes:
            b = bytes.fromhex(hx)
            lo, hi = max(o, off), min(o + len(b), off + n)
            if lo < hi:
                buf[lo - off:hi - off] = b[lo - o:hi - o]
        return buf
    seed = _seed_of(bytes(sb))
    if objclass == "sb":
        return [[1024 + 1020, struct.pack("<I", crc32c(MASK, bytes(sb[:1020]))).hex()]]
    if objclass == "gd":
        g = int(key)
        dsz = struct.unpack_from("<H", sb, 254)[0] if struct.unpack_from("<I", sb, 96)[0] & 0x80 else 32
        dsz = max(dsz, 32)
        d = patched(objoff, dsz)
        d[30:32] = b"\0\0"
        c = crc32c(crc32c(seed, struct.pack("<I", g)), bytes(d)) & 0xFFFF
        return [[objoff + 30, struct.pack("<H", c).hex()]]
    if objclass == "inode":
        ino = int(key)
        raw = patched(objoff, isize)
        gen = struct.unpack_from("<I", raw, 100)[0]
        raw[124:126] = b"\0\0"
        has_hi = isize > 128 and struct.unpack_from("<H", raw, 128)[0] >= 4
        if has_hi:
            raw[130:132] = b"\0\0"
        c = crc32c(crc32c(crc32c(seed, struct.pack("<I", ino)), struct.pack("<I", gen)), bytes(raw))
        out = [[objoff + 124, struct.pack("<H", c & 0xFFFF).hex()]]
        if has_hi:
            out.append([objoff + 130, struct.pack("<H", c >> 16).hex()])
        return out
    return []


# ------------------------------------------------------------------------------------------------ base artefacts
NAMES_MKBASE = dict(big="/big300k", dir="/deep", dir2="/mid", small="/hello.txt", sparse="/sparse7", xattr="/medium", xname="user.blockattr",
                    inl="/tiny20", slow="/slowlink", sub="/lin")
NAMES_C13 = dict(big="/file_big", dir="/bigdir", dir2="/dir1", small="/file_small", sparse="/file_mid", xattr="/file_big", xname="user.big",
                 inl="/tiny", slow="/sl_long", sub="/dir1")


def _run(argv, env, cwd, ok=(0,), timeout=120, input=None):
    try:
        p = subprocess.run(argv, stdout=subprocess.PIPE, stderr=subprocess.STDOUT, env=env, cwd=cwd, timeout=timeout, input=input)
    except subprocess.TimeoutExpired:
        raise GenError("generator command timed out: %s" % " ".join(argv))
    if ok is not None and p.returncode not in ok:
        raise GenError("generator command failed rc=%d: %s\n%s" % (p.returncode, " ".join(argv), p.stdout.decode("utf8", "replace")[-1200:]))
    return p.returncode, p.stdout.decode("utf8", "replace")


def _fs_loc(path):
    P = ext4read.project(path)
    if "fatal" in P or "loc" not in P:
        raise GenError("the independent reader cannot parse base image %s: %s" % (path, P.get("fatal")))
    geo = P.get("geo", {})
    sb = rd(path, 1024, 1024)
    bs = 1024 << struct.unpack_from("<I", sb, 24)[0]
    isize = struct.unpack_from("<H", sb, 88)[0]
    return P["loc"], bs, isize


def classify_inodes(path, loc, isize):
    """ino -> class label, from the raw inode only (mode, flags): the structured catalogue picks inodes of every class."""
    out = {}
    for k, off in loc.get("inode", {}).items():
        raw = rd(path, off, min(isize, 256))
        mode, flags, links = struct.unpack_from("<H", raw, 0)[0], struct.unpack_from("<I", raw, 32)[0], struct.unpack_from("<H", raw, 26)[0]
        size = struct.unpack_from("<I", raw, 4)[0]
        acl = struct.unpack_from("<I", raw, 104)[0]
        ino = int(k)
        t = mode & 0xF000
        if ino in (2, 3, 4, 7, 8):
            c = "special%d" % ino
        elif mode == 0 and links == 0:
            continue
        elif t == 0x4000:
            c = "dir_htree" if flags & 0x1000 else ("dir_inline" if flags & 0x10000000 else "dir_linear")
        elif t == 0x8000:
            if flags & 0x10000000:
                c = "file_inline"
            elif flags & 0x200000:
                c = "ea_inode"
            elif flags & 0x80000:
                depth = struct.unpack_from("<H", raw, 46)[0]
                c = "file_extent_d%d" % min(depth, 2)
            else:
                c = "file_ind" if size > 12 * 1024 else "file_direct"
            if acl:
                c += "+xblk"
        elif t == 0xA000:
            c = "symlink_fast" if size < 60 else "symlink_slow"
        else:
            c = "devnode"
        out[ino] = c
    return out


def build_bases(b, env, outdir, tier, seed, want=None, rings=None):
    """Build (or reuse) every base artefact.  want: optional set of base ids (replay).  Returns OrderedDict id -> Base."""
    import mkbase, c13_images as G, jbd2write as J, jbd2sample as S
    os.makedirs(outdir, exist_ok=True)
    bases = OrderedDict()
    env = dict(env)
    env.pop("LD_PRELOAD", None)
    env.setdefault("ASAN_OPTIONS", "detect_leaks=0")       # generation is not under test (leak reports would fail it)
    bin_ = lambda rel: os.path.join(b, rel)

    def wanted(prefix):
        return want is None or any(w == prefix or w.startswith(prefix) for w in want)
    # ---- fs:<profile>
    mdir, meta = mkbase.base_images(b)
    bad = [k for k, v in meta.items() if not v.get("ok")]
    if bad:
        raise GenError("mkbase profiles not clean under the current tree: %s" % bad)
    fs = {}
    for prof in mkbase.PROFILES:
        p = os.path.join(mdir, prof + ".img")
        loc, bs, isize = _fs_loc(p)
        info = dict(profile=prof, bs=bs, isize=isize, classes=classify_inodes(p, loc, isize))
        fs[prof] = Base("fs:" + prof, "fs", {"img": p}, loc, NAMES_MKBASE, info)
        if wanted("fs:" + prof):
            bases["fs:" + prof] = fs[prof]
    # ---- jrn:<profile>:<k>
    njrn = {"quick": 14, "thorough": 28}[tier]
    for prof in ("ext3_1k", "ext4_1k"):
        if not wanted("jrn:" + prof):
            continue
        src = fs[prof].files["img"]
        im = J.Image(src)
        jmap = im.journal_map()
        free = [x for x in im.free_blocks(0) if x not in set(jmap)]
        tb = {1: free[10], 2: free[11], 3: free[40], 4: free[-5]}
        ks = list(range(njrn))
        if want is not None:      # replay / regression inputs may name a journal beyond this tier's range
            ks = sorted(set(int(w.split(":")[2]) for w in want if w.startswith("jrn:%s:" % prof) and w.count(":") == 2))
        for k in ks:
            bid = "jrn:%s:%d" % (prof, k)
            rng = random.Random(seed * 1000003 + k)
            j = S.sample(rng, k)
            dst = os.path.join(outdir, "jrn_%s_%d.img" % (prof, k))
            sparse_copy(src, dst)
            with open(dst, "r+b") as f:
                for i in range(1, j["cfg"]["nb"] + 1):
                    f.seek(tb[i] * im.bs)
                    f.write(J.payload(j["fs0"][i - 1], j["fs0esc"][i - 1], im.bs))
            c = j["conc"]
            w = J.write_journal(dst, j, tb, first=c["first"], uuid_mode=c["uuid_mode"], junk_mode=c["junk_mode"], needs_recovery=j["nr"])
            loc = {"jsb": w["jsb_block"] * w["bs"]}
            for i, blk in enumerate(w["jmap"]):
                if i < 1:
                    continue
                h = rd(dst, blk * w["bs"], 8)
                bt = struct.unpack(">I", h[4:8])[0] if h[:4] == b"\xc0\x3b\x39\x98" else 0
                loc.setdefault({1: "jdesc", 2: "jcommit", 5: "jrev"}.get(bt, "jblk"), {})[str(i)] = blk * w["bs"]
            bases[bid] = Base(bid, "jrn", {"img": dst}, loc, NAMES_MKBASE, dict(profile=prof, bs=w["bs"], isize=fs[prof].info["isize"],
                                                                               stratum=j["stratum"]))
    # ---- undo:<profile>:<op>
    UNDO_OPS = [("tune_L", "ext4_1k", lambda u, i: [bin_("misc/tune2fs"), "-z", u, "-L", "relabelled", "-c", "25", i], (0,)),
                ("tune_nojournal", "ext3_1k", lambda u, i: [bin_("misc/tune2fs"), "-z", u, "-O", "^has_journal", i], (0,)),
                ("fsck_D", "ext2_1k", lambda u, i: [bin_("e2fsck/e2fsck"), "-fyD", "-z", u, i], (0, 1)),
                ("resize_6M", "ext4_1k", lambda u, i: [bin_("resize/resize2fs"), "-z", u, i, "6M"], (0,)),
                ("debugfs_rm", "ext4_4k", lambda u, i: [bin_("debugfs/debugfs"), "-w", "-z", u, "-R", "rm /big300k", i], (0,))]
    for op, prof, mk, okc in UNDO_OPS:
        bid = "undo:%s:%s" % (prof, op)
        if not wanted(bid):
            continue
        img = os.path.join(outdir, "undo_%s_%s.img" % (prof, op))
        und = os.path.join(outdir, "undo_%s_%s.undo" % (prof, op))
        sparse_copy(fs[prof].files["img"], img)
        if os.path.exists(und):
            os.unlink(und)
        _run(mk(und, img), env, outdir, ok=okc)
        if not os.path.exists(und) or os.path.getsize(und) < 1024:
            raise GenError("no undo file written by %s" % op)
        hdr = rd(und, 0, 512)
        if hdr[:8] != b"E2UNDO02":
            raise GenError("undo file of %s has no E2UNDO02 magic" % op)
        key_off = struct.unpack_from("<Q", hdr, 24)[0]
        super_off = struct.unpack_from("<Q", hdr, 16)[0]
        ubs = struct.unpack_from("<I", hdr, 32)[0]
        # key_offset / super_offset are in undo-file blocks
        loc = {"undo_hdr": 0, "undo_key": {"0": key_off * ubs}, "undo_sb": super_off * ubs}
        bases[bid] = Base(bid, "undo", {"img": img, "undo": und}, loc, NAMES_MKBASE, dict(profile=prof, bs=ubs, op=op))
    # ---- qcow:<profile>
    for prof in ("ext4_1k", "ext2_1k", "ext4_4k"):
        bid = "qcow:" + prof
        if not wanted(bid):
            continue
        q = os.path.join(outdir, "qcow_%s.qcow2" % prof)
        if os.path.exists(q):
            os.unlink(q)
        _run([bin_("misc/e2image"), "-Q", fs[prof].files["img"], q], env, outdir)
        h = rd(q, 0, 72)
        if h[:4] != b"QFI\xfb":
            raise GenError("e2image -Q output has no qcow2 magic")
        cbits = struct.unpack_from(">I", h, 20)[0]
        l1_off = struct.unpack_from(">Q", h, 40)[0]
        rt_off = struct.unpack_from(">Q", h, 48)[0]
        l2_off = struct.unpack_from(">Q", rd(q, l1_off, 8), 0)[0] & 0x3FFFFFFFFFFFFFFF
        rb_off = struct.unpack_from(">Q", rd(q, rt_off, 8), 0)[0]
        loc = {"qcow_hdr": 0, "qcow_l1": {"0": l1_off}, "qcow_l2": {"0": l2_off}, "qcow_rt": {"0": rt_off}, "qcow_rb": {"0": rb_off}}
        loc = {k: v for k, v in loc.items() if not isinstance(v, dict) or 0 < list(v.values())[0] < os.path.getsize(q)}
        bases[bid] = Base(bid, "qcow", {"qcow": q}, loc, NAMES_MKBASE, dict(profile=prof, bs=1 << cbits))
    # ---- extj: file system with an external journal holding two transactions
    if wanted("extj"):
        jdev = os.path.join(outdir, "extj.jnl")
        img = os.path.join(outdir, "extj.img")
        for p in (jdev, img):
            with open(p, "wb") as f:
                f.truncate(8 << 20 if p == img else 2 << 20)
        U = "1db3f677-6832-4adb-bafc-8e4059c30a34"
        _run([bin_("misc/mke2fs"), "-q", "-F", "-b", "1024", "-O", "journal_dev", "-T", "ext4", "-U", U, jdev, "2048"], env, outdir)
        _run([bin_("misc/mke2fs"), "-q", "-F", "-b", "1024", "-O", "^has_journal", "-T", "ext4", "-U", mkbase.UUID, img, "8192"], env, outdir)
        _run([bin_("debugfs/debugfs"), "-w", "-f", "-", img], env, outdir, ok=None,
             input=("feature has_journal\nssv journal_dev 0x9999\nssv journal_uuid %s\n" % U).encode())
        _run([bin_("e2fsck/e2fsck"), "-fy", "-j", jdev, img], env, outdir, ok=(0, 1))
        _run([bin_("debugfs/debugfs"), "-w", "-f", "-", img], env, outdir, ok=None,
             input=("jo -f %s\njw -b 333,334 /dev/zero\njc\njo -f %s\njw -b 400 -r 333 /dev/zero\njc\n" % (jdev, jdev)).encode())
        loc = {"sb": 1024, "jsb": 2048, "jblk": {str(i): (2 + i) * 1024 for i in range(1, 10)}}
        bases["extj"] = Base("extj", "extj", {"img": img, "jdev": jdev}, loc, NAMES_MKBASE, dict(profile="extj", bs=1024))
    # ---- ring:<profile>:<csum>:<fill>:<ring>  (degenerate journal rings of spec/C06Readers.tla Part R)
    ring_ids = [r for r in (rings or []) if wanted(r)]
    if want is not None:
        ring_ids += [w for w in want if w.startswith("ring:") and w not in ring_ids]
    for bid in ring_ids:
        try:
            _, prof, csum, fill, ringtxt = bid.split(":")
            syms = ringtxt.split(",")
            csum = int(csum)
        except ValueError:
            raise GenError("malformed ring base id %s" % bid)
        if prof not in fs:
            raise GenError("ring base %s: unknown profile" % bid)
        src = fs[prof].files["img"]
        im = J.Image(src)
        jmap = im.journal_map()
        free = [x for x in im.free_blocks(0) if x not in set(jmap)]
        tb = {1: free[10], 2: free[11], 3: free[40], 4: free[-5]}
        L, seq0 = len(syms), 7
        log = []
        for p_, sy in enumerate(syms):
            k, _, so = sy.partition(".")
            sq = seq0 + int(so or 0)
            if k in ("D1", "D2", "DW"):
                nt = {"D1": 1, "D2": 2, "DW": L - 1}[k]
                log.append({"t": "desc", "seq": sq, "ok": 1, "id": p_ + 1,
                            "tags": [{"blk": 1 + (i % 4), "v": 1 + i, "cs": 1 + i, "esc": 0} for i in range(nt)]})
            elif k == "R":
                log.append({"t": "revoke", "seq": sq, "ok": 1, "blks": [1 + p_ % 4]})
            elif k == "C":
                log.append({"t": "commit", "seq": sq, "ok": 1, "time": 100 + p_, "hassum": 0, "sum": []})
            elif k == "X":
                log.append({"t": "junk"})
            else:
                raise GenError("ring base %s: unknown block kind %s" % (bid, sy))
        firstd = next((r for r in log if r["t"] == "desc"), None)
        if fill == "desc" and firstd is not None:       # blocks the scan never reads: copies of the ring's first descriptor
            log = [dict(firstd) if r["t"] == "junk" else r for r in log]
        j = {"cfg": {"csum": csum, "b64": 0, "async": 0, "L": L, "nb": 4}, "jsb": {"start": 1, "seq": seq0}, "log": log}
        dst = os.path.join(outdir, "ring_%s.img" % hashlib.sha1(bid.encode()).hexdigest()[:12])
        sparse_copy(src, dst)
        try:
            w = J.write_journal(dst, j, tb, first=1, needs_recovery=1)
        except ValueError as e:
            raise GenError("ring base %s: %s" % (bid, e))
        loc = {"jsb": w["jsb_block"] * w["bs"]}
        bases[bid] = Base(bid, "ring", {"img": dst}, loc, NAMES_MKBASE, dict(profile=prof, bs=w["bs"], isize=fs[prof].info["isize"],
                                                                          stratum={"csum": csum, "fill": fill, "ring": ringtxt}))
    # ---- raw:<name>
    rr = random.Random(seed * 7919 + 5)
    RAW = OrderedDict()
    RAW["empty"] = b""
    RAW["zeros1k"] = b"\0" * 1024
    RAW["zeros64k"] = b"\0" * 65536
    RAW["ff64k"] = b"\xff" * 65536
    RAW["rand2k"] = bytes(rr.getrandbits(8) for _ in range(2048))
    RAW["rand64k"] = bytes(rr.getrandbits(8) for _ in range(65536))
    m = bytearray(rr.getrandbits(8) for _ in range(65536))
    m[1024 + 56:1024 + 58] = b"\x53\xef"
    RAW["rand64k_magic"] = bytes(m)
    m = bytearray(65536)
    m[1024 + 56:1024 + 58] = b"\x53\xef"
    RAW["zeros_magic"] = bytes(m)
    m = bytearray(rr.getrandbits(8) for _ in range(4096))
    m[:8] = b"E2UNDO02"
    RAW["rand_undo_magic"] = bytes(m)
    m = bytearray(rr.getrandbits(8) for _ in range(4096))
    m[:4] = b"QFI\xfb"
    m[4:8] = struct.pack(">I", 2)
    RAW["rand_qcow_magic"] = bytes(m)
    m = bytearray(rd(fs["ext4_1k"].files["img"], 0, 65536))
    RAW["head64k_ext4"] = bytes(m)                      # a valid head, everything behind it missing
    for n, data in RAW.items():
        bid = "raw:" + n
        if not wanted(bid):
            continue
        p = os.path.join(outdir, "raw_%s.bin" % n)
        with open(p, "wb") as f:
            f.write(data)
        bases[bid] = Base(bid, "raw", {"img": p, "undo": p, "qcow": p, "jdev": p}, {}, NAMES_MKBASE, dict(profile="raw", bs=1024))
    # ---- c13:<state>
    if wanted("c13:"):
        only = None if want is None else [w[4:] for w in want if w.startswith("c13:")]
        try:
            states, skipped = G.build_states(b, env, os.path.join(outdir, "c13"), tier, seed, only=only)
        except G.GenError as e:
            raise GenError("c13 image generator: %s" % e)
        for s in states:
            if s.variant == "clean":
                continue
            bases["c13:" + s.id] = Base("c13:" + s.id, "c13", {"img": s.path, "undo": s.undo}, {}, NAMES_C13,
                                        dict(profile=s.profile, variant=s.variant, kind=s.kind, bs=1024))
    return bases


# ------------------------------------------------------------------------------------------------ the universe
def _objects(base, rng, tier):
    """(class, key, offset) of the objects of a base that the structured catalogue damages: every object class of the
    location map; of the numerous classes (inodes, directory blocks) a seeded choice covering every inode class."""
    loc, out = base.loc, []
    per = 1 if tier == "quick" else 2
    for k, v in loc.items():
        if k in ("sb", "jsb", "mmp", "undo_hdr", "qcow_hdr"):
            out.append((k, "0", v))
        elif k.startswith("gd") and k[2:].isdigit():
            if int(k[2:]) in (0, 1):
                out.append(("gd", k[2:], v))
        elif k[:2] in ("bb", "ib") and k[2:].isdigit():
            if int(k[2:]) == 0:
                out.append((k[:2], k[2:], v))
        elif k.startswith("sb_backup"):
            if k == "sb_backup1":
                out.append(("sb_backup", "1", v))
        elif k == "inode":
            byc = {}
            for ino, c in sorted(base.info.get("classes", {}).items()):
                byc.setdefault(c, []).append(ino)
            for c, inos in sorted(byc.items()):
                for ino in (inos if c.startswith("special") else rng.sample(inos, min(per, len(inos)))):
                    out.append(("inode", str(ino), v[str(ino)]))
        elif k == "dirblk":
            keys = sorted(v, key=lambda s: tuple(int(x) for x in s.split(":")))
            byino = {}
            for s in keys:
                byino.setdefault(s.split(":")[0], []).append(s)
            pick = []
            for ino, ss in byino.items():
                pick.append(ss[0])                       # block 0 of every directory (dx_root / "." and "..")
            big = max(byino.values(), key=len)
            pick += [big[1], big[len(big) // 2], big[-1]] if len(big) > 3 else []
            cl = base.info.get("classes", {})
            seen = set()
            for s in pick:
                c = cl.get(int(s.split(":")[0]), "?")
                lb = s.split(":")[1]
                tag = (c, "0" if lb == "0" else "n")
                if c.startswith("dir_linear") and tag in seen and tier == "quick":
                    continue
                seen.add(tag)
                out.append(("dirblk", s, v[s]))
        elif isinstance(v, dict):
            ks = sorted(v, key=lambda s: int(s) if s.isdigit() else 0)
            for s in ks[:2 if tier == "quick" else (4 if k.startswith("j") else 2)]:
                out.append((k, s, v[s]))
    return out


def _field_pokes(path, cls, objoff, bs, fields, vc, rng):
    name, off, size = fields
    o = objoff + (off if off >= 0 else bs + off)
    cur_b = rd(path, o, size)
    if len(cur_b) != size:
        return None
    be = cls in BIG
    cur = int.from_bytes(cur_b, "big" if be else "little")
    nv = new_value(vc, cur, size, rng)
    if nv == cur:
        return None
    return [[o, nv.to_bytes(size, "big" if be else "little").hex()]]


def _target_of(base, cls):
    if cls.startswith("undo"):
        return "undo"
    if cls.startswith("qcow"):
        return "qcow"
    if base.kind == "extj" and cls in ("jsb", "jblk", "jrev", "jdesc", "jcommit"):
        return "jdev"
    return "img"


NONCSUM_PROFILES = {"ext2_1k", "ext3_1k", "ext4_old", "ino128"}          # mkbase profiles without metadata_csum
CSUM_CLASSES = {"sb", "sb_backup", "gd", "inode", "extblk", "xblk", "dirblk", "bb", "ib", "orphanblk", "mmp"}


def _shielded(base, cls, fix):
    """True when a checksum of the format protects the damaged object in this base and the recipe does not repair it:
    most readers then stop at the checksum test (e2fsck goes on).  The quick sample prefers unshielded recipes."""
    if fix:
        return False
    if base.kind == "fs":
        return base.info.get("profile") not in NONCSUM_PROFILES and cls in CSUM_CLASSES
    if base.kind == "jrn":
        return base.info.get("stratum", {}).get("csum", 0) in (2, 3) and cls in ("jdesc", "jrev", "jcommit", "jsb", "jblk")
    return False


def structured(base, seed, tier, limit=None):
    """Single-field corruptions of the catalogue for this base (list of input recipes).  The abstract catalogue
    (object, field, value class, checksum repaired or not) is enumerated first; `limit` = at most that many items per
    object CLASS, chosen by a seeded shuffle (None = the whole catalogue)."""
    out = []
    rng0 = random.Random("%d/obj/%s" % (seed, base.id))
    bs = base.info.get("bs", 1024)
    isize = base.info.get("isize", 256)
    cat = OrderedDict()
    for cls, key, off in _objects(base, rng0, tier):
        for fld in FIELDS.get(cls, []):
            if cls == "inode" and fld[1] + fld[2] > isize:
                continue
            if cls == "dirblk" and fld[0].startswith("dxroot") and key.split(":")[1] != "0":
                continue
            for vc in VALUE_CLASSES:
                for fix in ((0, 1) if cls in REPAIRABLE else (0,)):
                    cat.setdefault(cls, []).append((cls, key, off, fld, vc, fix))
    for cls, items in cat.items():
        if limit is not None and len(items) > limit:
            random.Random("%d/lim/%s/%s" % (seed, base.id, cls)).shuffle(items)
            items = items[:limit]
        target = _target_of(base, cls)
        path = base.files[target]
        obs = 512 if cls == "undo_hdr" else (1024 if cls in ("sb", "sb_backup", "mmp", "qcow_hdr") else bs)
        for (cls, key, off, fld, vc, fix) in items:
            rng = random.Random("%d/%s/%s/%s/%s/%s" % (seed, base.id, cls, key, fld[0], vc))
            pk = _field_pokes(path, cls, off, obs, fld, vc, rng)
            if not pk:
                continue
            pokes = list(pk)
            if fix:
                if cls == "undo_hdr":
                    if fld[0] == "header_crc":
                        continue
                    h = bytearray(rd(path, 0, 512))
                    b_ = bytes.fromhex(pk[0][1])
                    h[pk[0][0]:pk[0][0] + len(b_)] = b_
                    pokes.append([508, struct.pack("<I", crc32c(MASK, bytes(h[:508]))).hex()])
                elif cls == "undo_key":
                    if fld[0] == "kb_crc":
                        continue
                    kb = bytearray(rd(path, off, bs))
                    b_ = bytes.fromhex(pk[0][1])
                    kb[pk[0][0] - off:pk[0][0] - off + len(b_)] = b_
                    kb[4:8] = b"\0\0\0\0"
                    pokes.append([off + 4, struct.pack("<I", crc32c(MASK, bytes(kb))).hex()])
                else:
                    fx = fix_csum(path, cls, off, bs, isize, key, pk)
                    if not fx or (fld[0] == "checksum" and cls == "gd"):
                        continue
                    pokes += fx
            iid = "%s|%s:%s.%s=%s%s" % (base.id, cls, key, fld[0], vc, "+csum" if fix else "")
            out.append(dict(id=iid, family="struct1:" + cls, base=base.id, target=target, pokes=pokes, trunc=-1, field=fld[0], vc=vc,
                            shielded=_shielded(base, cls, fix),
                            what="%s %s field %s <- %s%s" % (cls, key, fld[0], vc, " (checksum recomputed)" if fix else "")))
    return out


def multi_field(singles, seed, base_id, n):
    """n inputs that combine 2..3 single-field corruptions of the same base and target."""
    rng = random.Random("%d/multi/%s" % (seed, base_id))
    out = []
    by_t = {}
    for s in singles:
        by_t.setdefault(s["target"], []).append(s)
    for t, ss in sorted(by_t.items()):
        if len(ss) < 3:
            continue
        for k in range(n):
            parts = rng.sample(ss, rng.choice([2, 2, 3]))
            pokes = []
            for p in parts:
                pokes += p["pokes"]
            iid = "%s|multi%d:%s" % (base_id, k, "&".join(p["id"].split("|", 1)[1] for p in parts))
            out.append(dict(id=iid, family="structN", base=base_id, target=t, pokes=pokes, trunc=-1,
                            what="multi-field: " + "; ".join(p["what"] for p in parts)))
    return out


def unstructured(base, seed, n):
    """n seeded byte-level mutations of every target file of the base."""
    out = []
    targets = sorted(set(base.files) - {"img"}) if base.kind in ("undo", "qcow") else (["jdev", "img"] if base.kind == "extj" else ["img"])
    # metadata block offsets from the location map
    meta = []
    for k, v in base.loc.items():
        if isinstance(v, dict):
            meta += [o for o in v.values() if isinstance(o, int)]
        elif isinstance(v, int):
            meta.append(v)
    bs = base.info.get("bs", 1024)
    for t in targets:
        path = base.files[t]
        size = os.path.getsize(path)
        if size == 0:
            continue
        for k in range(n):
            rng = random.Random("%d/unstruct/%s/%s/%d" % (seed, base.id, t, k))
            kind = ["flips_meta", "bytes_meta", "garbage_block_meta", "flips_any", "run_any", "zero_block_meta", "swap_blocks", "truncate",
                    "ff_block_meta", "dense_head"][k % 10]
            pokes, trunc = [], -1
            mt = meta if (meta and t != "undo" and t != "qcow") else [rng.randrange(0, max(1, min(size, 1 << 20))) // bs * bs for _ in range(8)]
            if t in ("undo", "qcow"):
                mt = [0, bs] + mt
            if kind == "flips_meta":
                for _ in range(rng.choice([1, 2, 4, 8])):
                    o = rng.choice(mt) + rng.randrange(bs)
                    if o < size:
                        pokes.append([o, bytes([rd(path, o, 1)[0] ^ (1 << rng.randrange(8))]).hex()])
            elif kind == "bytes_meta":
                for _ in range(rng.choice([1, 3, 6])):
                    o = rng.choice(mt) + rng.randrange(bs)
                    pokes.append([o, bytes(rng.getrandbits(8) for _ in range(rng.choice([1, 2, 4, 8, 16]))).hex()])
            elif kind == "garbage_block_meta":
                o = rng.choice(mt)
                pokes.append([o, bytes(rng.getrandbits(8) for _ in range(bs)).hex()])
            elif kind == "flips_any":
                for _ in range(rng.choice([4, 16, 64])):
                    o = rng.randrange(size)
                    pokes.append([o, bytes([rd(path, o, 1)[0] ^ (1 << rng.randrange(8))]).hex()])
            elif kind == "run_any":
                o = rng.randrange(size)
                pokes.append([o, bytes(rng.getrandbits(8) for _ in range(rng.choice([32, 256, 4096]))).hex()])
            elif kind == "zero_block_meta":
                pokes.append([rng.choice(mt), (b"\0" * bs).hex()])
            elif kind == "ff_block_meta":
                pokes.append([rng.choice(mt), (b"\xff" * bs).hex()])
            elif kind == "swap_blocks":
                a, c = rng.choice(mt), rng.choice(mt)
                if a != c and a + bs <= size and c + bs <= size:
                    pokes += [[a, rd(path, c, bs).hex()], [c, rd(path, a, bs).hex()]]
            elif kind == "truncate":
                trunc = rng.choice([0, 1, 1023, 1024, 1536, 2048, 4096, size // 2, size - 1, size - bs, rng.randrange(size)])
            elif kind == "dense_head":
                for _ in range(24):
                    o = 1024 + rng.randrange(min(size - 1024, 16 * 1024)) if size > 2048 else rng.randrange(size)
                    pokes.append([o, bytes([rng.getrandbits(8)]).hex()])
            pokes = [p for p in pokes if p[0] < size]
            if not pokes and trunc < 0:
                continue
            out.append(dict(id="%s|u:%s:%s:%d" % (base.id, t, kind, k), family="unstruct:" + kind, base=base.id, target=t, pokes=pokes,
                            trunc=trunc, what="unstructured %s #%d of the %s" % (kind, k, t)))
    return out


# ------------------------------------------------------------------------------------------------ reader-bound families
# (spec/C06Readers.tla; `cat` = the JSON catalogue TLC wrote)
P2 = {"p28": 1 << 28, "p31": 1 << 31, "p32": 1 << 32, "p40": 1 << 40, "p62": 1 << 62, "p63": 1 << 63, "max32": (1 << 32) - 1, "max64": (1 << 64) - 1}
E2UNDO_MIN_BS, E2UNDO_MAX_BS, E2UNDO_MAX_EXT, UNDO_KEY_INFO = 1024, 1048576, 512, 24
# offsets and widths come from the field tables above (one source for both parts of the structured universe)
UNDO_HDR_AT = {n: (o, w) for n, o, w in UNDO_HDR_FIELDS if n in ("num_keys", "key_offset", "block_size", "fs_block_size")}
UNDO_KEY_AT = {n[3:]: (o - 16, w) for n, o, w in UNDO_KEY_FIELDS if n in ("k0_fsblk", "k0_size")}           # relative to the key
QCOW_AT = {n: (o, w) for n, o, w in QCOW_HDR_FIELDS if n in ("cluster_bits", "size", "l1_size", "l1_table_offset", "refcount_table_offset",
                                                              "refcount_table_clusters")}
QCOW_ORDER = ["cluster_bits", "size", "l1_table_offset", "l1_size", "refcount_table_offset", "refcount_table_clusters"]


def ev(e, env):
    """value of a symbolic expression of the catalogue in env; None = the element does not exist on this base (a name
    without a value here, a midpoint of two equal or adjacent bounds)"""
    if e["of"] == "none":
        return None
    if e["hi"]:
        lo, hi = env.get(e["of"]), env.get(e["hi"])
        if lo is None or hi is None:
            return None
        lo, hi = min(lo, hi), max(lo, hi)
        return (lo + hi) // 2 if hi - lo >= 2 else None
    v = env.get(e["of"])
    if v is None:
        return None
    return e["m"] * v // e["d"] + e["a"]


def etxt(e):
    if e["hi"]:
        return "mid(%s,%s)" % (e["of"], e["hi"])
    if e["of"] == "c":
        return str(e["m"] // e["d"] + e["a"])
    t = e["of"] if e["m"] == 1 else "%d*%s" % (e["m"], e["of"])
    if e["d"] != 1:
        t += "/%d" % e["d"]
    return t + ("%+d" % e["a"] if e["a"] else "")


def _fits(v, size):
    return v is not None and 0 <= v < (1 << (8 * size))


class _Mem:
    """a file held in memory with pokes applied on top (for the checksums of multi-field elements)"""

    def __init__(self, path):
        self.data = bytearray(_file(path))
        self.pokes = []

    def poke(self, off, b):
        if off < 0:
            return
        if off + len(b) > len(self.data):
            self.data.extend(bytes(off + len(b) - len(self.data)))
        self.data[off:off + len(b)] = b
        self.pokes.append([off, bytes(b).hex()])


_FILES = {}


def _file(path):
    if path not in _FILES:
        with open(path, "rb") as f:
            _FILES[path] = f.read()
    return _FILES[path]


def _undo_env0(base):
    d = _file(base.files["undo"])
    nk, so, ko = struct.unpack_from("<QQQ", d, 8)
    bs, fsbs = struct.unpack_from("<II", d, 32)
    env = dict(P2, c=1, bs0=bs, fsbs0=fsbs, nk0=nk, ko0=ko, so0=so, fb0=(len(d) + bs - 1) // bs, kpb0=bs // 16 - 1,
               alloc=(1 << 64) // UNDO_KEY_INFO + 1, minbs=E2UNDO_MIN_BS, maxbs=E2UNDO_MAX_BS)
    return d, env


def _undo_apply_hdr(m, assign, env0):
    """poke the header fields of `assign` (field -> expression); returns {field: value} or None when a value does not fit"""
    vals = {}
    for f in sorted(assign):
        v = ev(assign[f], env0)
        if v is None:
            continue
        off, size = UNDO_HDR_AT[f]
        if not _fits(v, size):
            return None
        m.poke(off, v.to_bytes(size, "little"))
        vals[f] = v
    return vals


def _undo_hdr_crc(m):
    m.poke(508, struct.pack("<I", crc32c(MASK, bytes(m.data[:508]))))


def undo_hdr_family(base, cat):
    out = []
    d, env0 = _undo_env0(base)
    for a in cat["undo_hdr"]:
        m = _Mem(base.files["undo"])
        vals = _undo_apply_hdr(m, a, env0)
        if not vals or all(struct.unpack_from("<Q" if UNDO_HDR_AT[f][1] == 8 else "<I", d, UNDO_HDR_AT[f][0])[0] == v for f, v in vals.items()):
            continue
        _undo_hdr_crc(m)
        txt = "&".join("%s=%s" % (f, etxt(a[f])) for f in sorted(vals))
        out.append(dict(id="%s|uh:%s" % (base.id, txt), family="uhdr", base=base.id, target="undo", pokes=m.pokes, trunc=-1, nfields=len(vals),
                        what="undo header " + ", ".join("%s <- %s (= %d)" % (f, etxt(a[f]), vals[f]) for f in sorted(vals)) + "; header checksum recomputed"))
    return out


def undo_key_family(base, cat):
    """one field of the first key at every value of the key catalogue, under every header variant"""
    out = []
    d, env0 = _undo_env0(base)
    devsize = os.path.getsize(base.files["img"])
    for e in cat["undo_key"]:
        sc = cat["undo_scalings"][e["scaling"]]
        m = _Mem(base.files["undo"])
        hv = _undo_apply_hdr(m, sc, env0)
        if hv is None:
            continue
        bs, fsbs, ko = hv.get("block_size", env0["bs0"]), hv.get("fs_block_size", env0["fsbs0"]), env0["ko0"]
        if bs < E2UNDO_MIN_BS or bs > E2UNDO_MAX_BS or fsbs == 0:
            continue
        if bs != env0["bs0"]:
            # keep the layout readable: the first key block stays where it is when the offset can be expressed in the new unit
            if (ko * env0["bs0"]) % bs == 0:
                ko = ko * env0["bs0"] // bs
                m.poke(UNDO_HDR_AT["key_offset"][0], ko.to_bytes(8, "little"))
            if (env0["so0"] * env0["bs0"]) % bs == 0:
                m.poke(16, (env0["so0"] * env0["bs0"] // bs).to_bytes(8, "little"))
        _undo_hdr_crc(m)
        kb = ko * bs                                        # the first key block; its first key at +16
        if kb + bs > len(m.data) or struct.unpack_from("<I", m.data, kb)[0] != 0xCADECADE:
            continue
        size0 = struct.unpack_from("<I", m.data, kb + 16 + 12)[0]
        dev = devsize // fsbs
        env = dict(P2, c=1, bs=bs, fsbs=fsbs, ext_bs=E2UNDO_MAX_EXT * bs, ext_fsbs=E2UNDO_MAX_EXT * fsbs, rest=max(0, len(m.data) - (kb + bs)),
                   dev=dev, dev_ext=dev - (size0 + fsbs - 1) // fsbs, ovf=(1 << 63) // fsbs)
        v = ev(e["val"], env)
        off, size = UNDO_KEY_AT[e["field"]]
        if not _fits(v, size) or int.from_bytes(m.data[kb + 16 + off:kb + 16 + off + size], "little") == v:
            continue
        m.poke(kb + 16 + off, v.to_bytes(size, "little"))
        blk = bytearray(m.data[kb:kb + bs])
        blk[4:8] = b"\0\0\0\0"
        m.poke(kb + 4, struct.pack("<I", crc32c(MASK, bytes(blk))))
        out.append(dict(id="%s|uk:%s:%s=%s" % (base.id, e["scaling"], e["field"], etxt(e["val"])), family="ukey", base=base.id, target="undo",
                        pokes=m.pokes, trunc=-1,
                        what="undo header variant %s (block_size %d, fs_block_size %d), key 0 %s <- %s (= %d); header and key block checksums recomputed"
                             % (e["scaling"], bs, fsbs, e["field"], etxt(e["val"]), v)))
    return out


def qcow_hdr_family(base, cat):
    out = []
    path = base.files["qcow"]
    d = _file(path)
    cb0, = struct.unpack_from(">I", d, 20)
    size0, = struct.unpack_from(">Q", d, 24)
    n0, = struct.unpack_from(">I", d, 36)
    l10, = struct.unpack_from(">Q", d, 40)
    eof = len(d)
    for a in cat["qcow_hdr"]:
        env = dict(P2, c=1, cbmin=9, cbmax=31, cb0=cb0, size0=size0, l10=l10, n0=n0)
        cur = {"cluster_bits": cb0, "size": size0, "l1_table_offset": l10, "l1_size": n0}
        vals, ok = {}, True
        for f in QCOW_ORDER:
            cb = cur["cluster_bits"]
            cl = 1 << (cb if 0 <= cb <= 40 else cb0)
            env.update(cl=cl, eof_dn=eof // cl * cl, eof_up=(eof + cl - 1) // cl * cl, max64al=(1 << 64) - cl)
            sh = 2 * cb - 3
            env["maxl1"] = ((cur["size"] >> sh) if 0 <= sh < 64 else 0) + cl if 0 <= cb <= 31 else None
            env["fit"] = max(0, eof - cur["l1_table_offset"]) // 8
            v = ev(a[f], env)
            if v is None:
                if a[f]["of"] != "none":
                    ok = False
                continue
            off, size = QCOW_AT[f]
            if not _fits(v, size):
                ok = False
                break
            vals[f] = v
            if f in cur:
                cur[f] = v
        if not ok or not vals:
            continue
        pokes, same = [], True
        for f, v in sorted(vals.items()):
            off, size = QCOW_AT[f]
            b = v.to_bytes(size, "big")
            same = same and d[off:off + size] == b
            pokes.append([off, b.hex()])
        if same:
            continue
        txt = "&".join("%s=%s" % (f, etxt(a[f])) for f in sorted(vals))
        out.append(dict(id="%s|qh:%s" % (base.id, txt), family="qhdr%d" % len(vals), base=base.id, target="qcow", pokes=pokes, trunc=-1,
                        what="qcow2 header " + ", ".join("%s <- %s (= %d)" % (f, etxt(a[f]), vals[f]) for f in sorted(vals))))
    return out


def summary_family(base, cat):
    """summary counters on the boundaries of the quantities resize2fs -P derives from them (C06Readers Part S)"""
    path = base.files["img"]
    R = ext4read.Reader(path)
    try:
        R.read_super()
        R.read_gds()
        fx = R.layout()
    except Exception as e:                                   # the reader cannot parse a base image: generator failure
        raise GenError("summary family: reader failed on %s: %s" % (base.id, e))

    def ovh(g):                                              # fixed metadata of group g: superblock + descriptors, bitmaps, inode table
        lo, hi = R.group_first(g), R.group_last(g)
        n, has_sb = 0, 0
        for c in ("sb", "gdt", "rsvgdt"):
            for a, b_ in fx[c]:
                a2, b2 = max(a, lo), min(b_, hi)
                if a2 <= b2:
                    if c == "sb":
                        has_sb = 1                        # one block, also where the boot block lies inside the file system (bigalloc, 1 KiB)
                    else:
                        n += b2 - a2 + 1
        return n + has_sb + 2 + R.itb
    total = R.blocks - sum(ovh(g) for g in range(R.gdc))     # SUM of the group counts at which the data need is 0
    wide = R.has64 and R.dsize >= 64
    out = []
    for e in cat["summary"]:
        free_i = {"asis": None, "used0": R.inodes, "used1": R.inodes - 1, "usedall": 0, "over": R.inodes + 1}[e["ino"]]
        need = e["need"]
        counts = None
        if need in ("neg", "zero", "one"):
            want = total - {"neg": -1, "zero": 0, "one": 1}[need]
            counts, rem = [], want
            for g in range(R.gdc):
                n = max(0, min(R.bpg, rem))
                counts.append(n)
                rem -= n
            if rem != 0 or want < 0:
                continue
        elif need == "full":
            counts = [0] * R.gdc
        elif need == "bpg":
            counts = [R.bpg] * R.gdc
        elif need == "ones":
            counts = [(1 << 32) - 1 if wide else 0xFFFF] * R.gdc
        m_pokes = []
        sb = bytearray(R.sbraw)
        if free_i is not None:
            struct.pack_into("<I", sb, 16, free_i & MASK)
        if counts is not None and sum(counts) <= R.blocks:
            struct.pack_into("<I", sb, 12, sum(counts) & MASK)
        if bytes(sb) != bytes(R.sbraw):
            if R.meta_csum:
                struct.pack_into("<I", sb, 1020, crc32c(MASK, bytes(sb[:1020])))
            m_pokes.append([1024, bytes(sb).hex()])
        if counts is not None:
            for g in range(R.gdc):
                raw = bytearray(R.gdraw[g])
                struct.pack_into("<H", raw, 12, counts[g] & 0xFFFF)
                if wide:
                    struct.pack_into("<H", raw, 0x2C, (counts[g] >> 16) & 0xFFFF)
                if R.csum_kind != "none":
                    struct.pack_into("<H", raw, 0x1E, R.gd_csum(g, bytes(raw)))
                if bytes(raw) != bytes(R.gdraw[g]):
                    m_pokes.append([R.loc["gd%d" % g], bytes(raw).hex()])
        if not m_pokes:
            continue
        out.append(dict(id="%s|sum:ino=%s&need=%s" % (base.id, e["ino"], need), family="sum", base=base.id, target="img", pokes=m_pokes, trunc=-1,
                        what="summary counters: used inodes %s, data need %s (s_free_inodes_count %s, group free counts %s); checksums recomputed"
                             % (e["ino"], need, free_i if free_i is not None else "as is",
                                ("%s..." % counts[:4]) if counts is not None else "as is")))
    return out


def ring_ids(cat, tier, seed):
    """base ids of the degenerate rings of this tier: thorough = the whole catalogue on ext3_1k (no checksums) with both
    fills and on ext4_1k with v3 checksums; quick = a seeded choice of 2 rings (one of them descriptors only, the other on ext4_1k with v3 checksums)"""
    rings = sorted(",".join(r) for r in cat["rings"])
    fills = sorted(cat["ring_fill"])
    if tier == "thorough":
        return (["ring:ext3_1k:0:%s:%s" % (f, r) for r in rings for f in fills] + ["ring:ext4_1k:3:junk:%s" % r for r in rings])
    rng = random.Random("%d/rings" % seed)
    donly = [r for r in rings if set(x.split(".")[0] for x in r.split(",")) <= {"D1", "X"}]
    pick = [rng.choice(donly)] + rng.sample([r for r in rings if r not in donly], 1)
    out = []
    for i, r in enumerate(pick):
        if i == 1:
            out.append("ring:ext4_1k:3:junk:%s" % r)
        else:
            out.append("ring:ext3_1k:0:%s:%s" % (fills[(seed + i) % len(fills)], r))
    return out


PAIR_CAP = {"uhdr": 300, "qhdr2": 400}


def reader_families(bases, cat, tier, seed):
    """The reader-bound part of the universe.  thorough: every element on every undo / qcow2 base and every file system
    profile.  quick: the key catalogue, the single-field qcow2 catalogue and the summary catalogue on ONE base each
    (rotating with the seed), the pair catalogues on all bases (sampled by sample_quick).  Of the pair catalogues both
    tiers use the same seeded subset of PAIR_CAP elements per base."""
    U = []
    names = set(f for a in cat["undo_hdr"] for f in a) | set(f for a in cat["undo_scalings"].values() for f in a)
    if names != set(UNDO_HDR_AT) or set(e["field"] for e in cat["undo_key"]) != set(UNDO_KEY_AT) or \
            set(f for a in cat["qcow_hdr"] for f in a) != set(QCOW_AT) or set(QCOW_ORDER) != set(QCOW_AT):
        raise GenError("the field names of spec/C06Readers.tla and the concretiser's tables differ")
    undo = [b for b in bases.values() if b.kind == "undo"]
    qcow = [b for b in bases.values() if b.kind == "qcow"]
    fs = [b for b in bases.values() if b.kind == "fs"]
    def capped(pairs, n, tag):
        # the pair catalogues are large: both tiers work on the same seeded subset of n pairs per base (quick samples from it)
        if len(pairs) <= n:
            return pairs
        pairs = sorted(pairs, key=lambda u: u["id"])
        random.Random("%d/paircap/%s" % (seed, tag)).shuffle(pairs)
        return sorted(pairs[:n], key=lambda u: u["id"])
    for i, b in enumerate(undo):
        h = undo_hdr_family(b, cat)
        U += [u for u in h if u["nfields"] == 1] + capped([u for u in h if u["nfields"] == 2], PAIR_CAP["uhdr"], b.id)
        if tier == "thorough" or i == seed % len(undo):
            U += undo_key_family(b, cat)
    for i, b in enumerate(qcow):
        q = qcow_hdr_family(b, cat)
        U += capped([u for u in q if u["family"] == "qhdr2"], PAIR_CAP["qhdr2"], b.id)
        if tier == "thorough" or i == seed % len(qcow):
            U += [u for u in q if u["family"] == "qhdr1"]
    for i, b in enumerate(fs):
        if tier == "thorough" or i == seed % len(fs):
            U += summary_family(b, cat)
    for b in bases.values():
        if b.kind == "ring":
            U.append(dict(id="%s|asis" % b.id, family="ring", base=b.id, target="img", pokes=[], trunc=-1,
                          what="degenerate journal ring %s (fill %s, checksums v%d), needs_recovery set"
                               % (b.info["stratum"]["ring"], b.info["stratum"]["fill"], b.info["stratum"]["csum"])))
    return U


def asis(base):
    return dict(id="%s|asis" % base.id, family="asis:" + base.kind, base=base.id, target="img", pokes=[], trunc=-1, what="base artefact as generated")


# items per (base, object class) taken from the structured catalogue, per tier and base kind
LIMIT = {"quick": {"fs": 8, "jrn": 6, "undo": 40, "qcow": 40, "extj": 16},
         "thorough": {"fs": 12, "jrn": 3, "undo": 150, "qcow": 400, "extj": 120}}


def universe(bases, tier, seed):
    """The closed universe of this tier: list of input recipes (deterministic order)."""
    U = []
    nun = {"quick": 4, "thorough": 30}[tier]
    for bid, base in bases.items():
        if base.kind in ("c13", "raw"):
            U.append(asis(base))
            if base.kind == "c13":
                continue
        if base.kind in ("jrn", "undo", "qcow", "extj"):
            U.append(asis(base))
        if base.kind not in ("raw", "ring"):           # the rings are elements of the reader-bound catalogue (reader_families)
            S1 = structured(base, seed, tier, limit=LIMIT[tier].get(base.kind))
            U += S1
            U += multi_field(S1, seed, bid, {"quick": 3, "thorough": 24 if base.kind != "jrn" else 4}[tier])
            U += unstructured(base, seed, nun if base.kind != "jrn" else max(2, nun // 8))
    return U


VGROUP = {"zero": "small", "one": "small", "inc": "small", "dec": "small", "half": "small", "flip_lo": "small",
          "ones": "large", "msb": "large", "max_signed": "large", "flip_hi": "large", "dbl": "small", "rnd_a": "random", "rnd_b": "random"}


def sample_quick(U, seed, per_family):
    """Seeded stratified sample: per (family, base kind) stratum at most `per_family[family prefix]` inputs.  In the
    single-field strata the choice rotates over (field, value group) buckets, so that every field of a small object class
    is damaged with a small, a large and a random value before any bucket is used twice."""
    rng = random.Random(seed * 31 + 7)
    strata = OrderedDict()
    for u in U:
        strata.setdefault((u["family"], u["base"].split(":")[0]), []).append(u)
    out = []
    for (fam, kind), lst in strata.items():
        n = per_family.get(fam.split(":")[0], 4)
        if fam.startswith("asis"):
            n = per_family.get("asis:" + kind, n)
        if len(lst) <= n:
            out += lst
            continue
        if fam.startswith("struct1:"):
            buckets = OrderedDict()
            for u in lst:
                buckets.setdefault((VGROUP[u["vc"]], u["field"]), []).append(u)
            keys = sorted(buckets, key=lambda k: ({"large": 0, "random": 1, "small": 2}[k[0]], k[1]))
            for b_ in buckets.values():
                rng.shuffle(b_)
                b_.sort(key=lambda u: not u.get("shielded", False))      # pop() takes from the end: unshielded first (stable)
            pick = []
            while len(pick) < n:
                progressed = False
                for k in keys:
                    if buckets[k] and len(pick) < n:
                        pick.append(buckets[k].pop())
                        progressed = True
                if not progressed:
                    break
            out += pick
        else:
            out += rng.sample(lst, n)
    return out
