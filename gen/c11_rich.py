"""C11's own starting images and observers.

(1) rich_images(): COPIES of the base images of gen/mkbase.py (which stay untouched: other checks key their known findings
    on their exact content) enriched with the boundary content the catalogue of spec/Tune.tla names (Emit_Tune writes
    it: Tune!Catalogue), so that every checksummed object class of the rewrite obligation exists at every depth and the
    quota trees tune2fs has to write span several data blocks:
      /c11/own/oNNN     one file per catalogue owner (uid, gid, project id from Tune!OwnerIdSeq; three size classes)
      /c11/deepext      a file with Tune!DeepExtents(bs) extents: extent tree of depth >= 2 (interior index blocks)
      /c11/fullroot     an htree directory whose dx ROOT is exactly full (count = limit): Tune!FullRootEntries names
      /c11/fragdir      a directory with Tune!DirExtents discontiguous blocks: extent tree of depth >= 1
    and, per profile, the variants of Tune!CatVariants: "<profile>+i11" = the same image with lost+found re-created in
    another inode, so that the first ordinary inode (s_first_ino = 11) is FREE (catalogue element FirstInoFree).
    Built with the scratch-built debugfs / e2fsck of the tree under test, cached next to the build.
(2) census(): what of that content really is in an image (through the independent reader) -- TLC decides with
    Tune!UniverseOK whether the universe contains every catalogue element; if it does not the check is broken.
(3) observe(): the independent observation of an image after a request: object classes whose stored checksum differs
    from the recomputed one (reader), and for every quota type the usage records parsed from the quota file (own parser of
    the v2r1 quota tree, written from the format definition) next to the per-inode facts the accounting rule of
    Tune!RealUsage is applied to by TLC."""
import os, sys, json, struct, shutil, hashlib, time, concurrent.futures as cf
from common import run as sh, tool_env, Lock, VERIF
import ext4read

M31 = (1 << 31) - 1


# ----------------------------------------------------------------------------------------------------------------------
# (3) quota tree parser (format: Linux quota_tree / quotaio_v2, version r1)
# ----------------------------------------------------------------------------------------------------------------------
QT_BLK = 1024           # the quota tree always works in 1 KiB blocks, whatever the filesystem block size is
QT_MAGIC = {"usr": 0xD9C01F11, "grp": 0xD9C01927, "prj": 0xD9C03F14}
QT_ENTRY = 72
QT_HDR = 16


def quota_parse(R, kind, ino):
    """-> {"entries": [[id, space, inodes], ...] sorted, "err": [...]}.  An entry counts only if the radix-tree path of
    its own id leads to the data block that holds it (what a lookup by id would find)."""
    out = {"entries": [], "err": []}
    err = out["err"]
    I = R.get_inode(ino) if 0 < ino <= R.inodes else None
    if I is None:
        err.append("inode_unreadable")
        return out
    R.finish_inode(I)
    if I["type"] != "reg":
        err.append("not_regular")
        return out
    size = I["size"]
    if size < 2 * QT_BLK or size > (1 << 24):
        err.append("bad_size_%d" % min(size, M31))
        return out
    data = R.file_bytes(I, size)
    nblk = size // QT_BLK
    magic, ver = struct.unpack_from("<II", data, 0)
    if magic != QT_MAGIC[kind] or ver != 1:
        err.append("bad_header")
        return out
    found = {}          # id -> (space, inodes)
    seen_tree, blocks = set(), {}      # blocks: data block -> {id: (space, inodes)} of its non-empty slots

    def data_block(blk):
        if blk in blocks:
            return blocks[blk]
        b = data[blk * QT_BLK:(blk + 1) * QT_BLK]
        n_hdr = struct.unpack_from("<H", b, 8)[0]
        ents = {}
        n = 0
        for k in range((QT_BLK - QT_HDR) // QT_ENTRY):
            e = b[QT_HDR + k * QT_ENTRY:QT_HDR + (k + 1) * QT_ENTRY]
            if not any(e):
                continue
            n += 1
            qid = struct.unpack_from("<I", e, 0)[0]
            ih, isf, cur_i, bh, bsf, cur_s, bt, it = struct.unpack_from("<8Q", e, 8)
            if qid in ents:
                err.append("duplicate_id_%d_in_block_%d" % (min(qid, M31), blk))
            ents[qid] = (cur_s, cur_i)
        if n_hdr != n:
            err.append("entry_count_%d_header_%d_block_%d" % (n, n_hdr, blk))
        if any(b[QT_HDR + ((QT_BLK - QT_HDR) // QT_ENTRY) * QT_ENTRY:]):
            err.append("bytes_after_last_slot_block_%d" % blk)
        blocks[blk] = ents
        return ents

    def tree(blk, depth, prefix):
        if blk in seen_tree:
            err.append("tree_block_shared_%d" % blk)
            return
        seen_tree.add(blk)
        b = data[blk * QT_BLK:(blk + 1) * QT_BLK]
        for k in range(256):
            ref = struct.unpack_from("<I", b, 4 * k)[0]
            if ref == 0:
                continue
            if ref >= nblk or ref <= 1:
                err.append("bad_reference_d%d_%d" % (depth, min(ref, M31)))
                continue
            qid = (prefix << 8) | k
            if depth == 3:                       # the path spells the id; the data block must hold an entry for it
                ents = data_block(ref)
                if qid not in ents:
                    err.append("path_without_entry_%d" % min(qid, M31))
                elif qid in found:
                    err.append("duplicate_id_%d" % min(qid, M31))
                else:
                    found[qid] = ents[qid]
            else:
                tree(ref, depth + 1, qid)
    tree(1, 0, 0)
    for blk, ents in sorted(blocks.items()):
        if blk in seen_tree:
            err.append("data_block_is_tree_block_%d" % blk)
        for qid in sorted(ents):
            if qid not in found:
                err.append("entry_not_reachable_%d" % min(qid, M31))
    for qid, (s, i) in sorted(found.items()):
        if s > M31 or i > M31 or qid > M31:
            err.append("value_out_of_range_%d" % min(qid, M31))
            continue
        out["entries"].append([qid, s, i])
    return out


# ----------------------------------------------------------------------------------------------------------------------
# reader-based facts
# ----------------------------------------------------------------------------------------------------------------------
def _reader(path):
    # The observers here read checksums, owners and quota files; the reader's verification that every name of an htree leaf
    # hashes into the leaf's range (half_md4 / tea in python, a third of the run time on the catalogue directories) is not
    # part of them: switched off for this process only (a hash of None means "not verified" to the reader).
    ext4read.dirhash = lambda version, name, seed=None: None
    R = ext4read.Reader(path, 0)
    P = R.project()
    return R, P


def _extent_depth(I):
    if I.get("map") != "extent":
        return -1
    magic, entries, mx, depth = struct.unpack_from("<HHHH", bytes(I["iblock"]), 0)
    return depth if magic == 0xF30A else -1


def _dx_nodes(R, I):
    """[(kind 'root'|'interior', count, limit)] of an htree directory, [] for any other directory"""
    if not (I["flagbits"] & 0x1000) or not R.dir_index or I.get("map") in ("inline", "none", None):
        return []
    lmap = {}
    for lblk, ln, pblk, un in I["runs"]:
        for k in range(min(ln, 1 << 16)):
            lmap.setdefault(lblk + k, pblk + k)
    if 0 not in lmap:
        return []
    root = R.blk(lmap[0])
    levels = root[30]
    out = []
    limit, count = struct.unpack_from("<HH", root, 32)
    out.append(("root", count, limit))
    if levels >= 1:
        for k in range(min(count, 1024)):
            b = struct.unpack_from("<I", root, 32 + 8 * k + 4)[0] & 0x0FFFFFFF
            if b in lmap:
                nb = R.blk(lmap[b])
                l2, c2 = struct.unpack_from("<HH", nb, 8)
                out.append(("interior", c2, l2))
    return out


def inode_facts(R, P):
    """Per in-use inode the facts Tune!RealUsage reads: [ino, uid, gid, prj, bytes, ea, sys].  bytes = i_blocks in bytes;
    sys = 1 for the inodes the accounting never charges (reserved inodes other than the root directory, a project quota
    inode or orphan file that lives above the reserved range)."""
    first_ino = R.first_ino
    bs = R.bs
    sb = R.img[1024:2048]
    prj_ino = struct.unpack_from("<I", sb, 0x26C)[0]
    orph_ino = struct.unpack_from("<I", sb, 0x280)[0]
    out = []
    for rec in P.get("inodes", ()):
        ino = rec["ino"]
        I = R.inodes_by_no.get(ino)
        if I is None or I["links"] == 0:
            continue
        sysino = 1 if ((ino < first_ino and ino != 2) or ino in (prj_ino, orph_ino)) else 0
        units = bs if (R.huge_file and (I["flagbits"] & 0x40000)) else 512
        nbytes = I["iblocks_raw"] * units
        out.append([ino, min(I["uid"], M31), min(I["gid"], M31), min(I.get("projid", 0), M31), min(nbytes, M31),
                    1 if (I["flagbits"] & 0x200000) else 0, sysino])
    return out


def stale_classes(R, P):
    """Object classes with at least one stored checksum that differs from the reader's recomputation: the conjunct
    `Csums` of spec/Ext4Abs.tla, reported per object class of Tune!ObjClasses."""
    bad = set()
    first_ino = R.first_ino
    if not P["sb"]["csum_ok"]:
        bad.add("sb")
    for g in P["gd"]:
        if not g["csum_ok"]:
            bad.add("gd")
        if not (g["bbcsum_ok"] and g["ibcsum_ok"]):
            bad.add("bitmap")
    for rec in P["inodes"]:
        if not (rec["links"] > 0 or rec["ino"] < first_ino):
            continue
        if not rec["csum_ok"]:
            bad.add("inode")
        if rec["csum_err"]:
            bad.add("extent")
    if P["free_inode_csum_err"]:
        bad.add("inode")
    for d in P["dirs"]:
        for e in d["csum_err"]:
            bad.add("dxnode" if e.startswith("csum:dx_node") else "dirleaf")
    for x in P["xblocks"]:
        if x["xlo"] <= x["xhi"] and not x["csum_ok"]:
            bad.add("xattrblk")
    if not P["journal"]["csum_ok"]:
        bad.add("jsb")
    if P["orphans"]["file"]["csum_err"]:
        bad.add("orphanblk")
    if not (P["mmp"]["csum_ok"] and P["mmp"]["magic_ok"]):
        bad.add("mmp")
    return sorted(bad)


def census(path, variant=""):
    """The catalogue-relevant content of an image: numbers for Tune!UniverseOK."""
    R, P = _reader(path)
    if "fatal" in P or "reader_err" in P:
        return {"fatal": str(P.get("fatal", P.get("reader_err")))[:300]}
    facts = inode_facts(R, P)
    ids = {"usr": set(), "grp": set(), "prj": set()}
    for ino, u, g, p, nb, ea, sysino in facts:
        if sysino:
            continue
        ids["usr"].add(u); ids["grp"].add(g); ids["prj"].add(p)
    fdepth = ddepth = -1
    dx = {"root_full": 0, "interior_full": 0, "root_notfull": 0, "interior_notfull": 0}
    nxattrblk = 0
    for rec in P["inodes"]:
        I = R.inodes_by_no.get(rec["ino"])
        if I is None or I["links"] == 0 or rec.get("special"):
            continue
        d = _extent_depth(I)
        if I["type"] == "reg":
            fdepth = max(fdepth, d)
        elif I["type"] == "dir":
            ddepth = max(ddepth, d)
            for kind, c, l in _dx_nodes(R, I):
                dx["%s_%s" % (kind, "full" if c == l else "notfull")] += 1
        if rec.get("file_acl"):
            nxattrblk += 1
    first_free = 0 if any(a <= R.first_ino <= b for a, b in P["ibitmap"]) else 1
    return {"variant": variant, "first_ino_free": first_free,
            "nusr": len(ids["usr"]), "ngrp": len(ids["grp"]), "nprj": len(ids["prj"]), "file_depth": fdepth, "dir_depth": ddepth,
            "dx_root_full": dx["root_full"], "dx_interior_full": dx["interior_full"], "dx_root_notfull": dx["root_notfull"],
            "dx_interior_notfull": dx["interior_notfull"], "xattr_blocks": nxattrblk, "stale": stale_classes(R, P)}


def observe(path, want_quota):
    """-> {"stale": [...], "qfile": [{t, entries, err}], "inodes": [...]}   (`inodes` only when a quota file exists)"""
    R, P = _reader(path)
    if "fatal" in P or "reader_err" in P:
        return {"fatal": str(P.get("fatal", P.get("reader_err")))[:300]}
    out = {"stale": stale_classes(R, P), "qfile": [], "inodes": []}
    if want_quota:
        sb = R.img[1024:2048]
        for t, off in (("usr", 0x240), ("grp", 0x244), ("prj", 0x26C)):
            ino = struct.unpack_from("<I", sb, off)[0]
            if ino:
                q = quota_parse(R, t, ino)
                out["qfile"].append({"t": t, "entries": q["entries"], "err": q["err"]})
        if out["qfile"]:
            out["inodes"] = inode_facts(R, P)
    return out


# ----------------------------------------------------------------------------------------------------------------------
# (1) the images
# ----------------------------------------------------------------------------------------------------------------------
def _sources(outdir, rows):
    for bs in sorted({r["bs"] for r in rows}):
        n = [r["deep"] for r in rows if r["bs"] == bs][0]
        with open(os.path.join(outdir, "deep_%d.src" % bs), "wb") as f:
            for i in range(n):                       # every other block is a hole: one extent per data block
                f.seek(i * 2 * bs)
                f.write(bytes((((i * 13 + j) & 255) or 1) for j in range(1024)) * (bs // 1024))
    for k, size in enumerate((0, 700, 2500)):
        with open(os.path.join(outdir, "own_%d.src" % k), "wb") as f:
            f.write(bytes(((k * 29 + j) & 255) or 7 for j in range(size)))
    with open(os.path.join(outdir, "pad.src"), "wb") as f:
        f.write(b"P" * 600)


def _phase1(outdir, prm, cat, row):
    c = ["mkdir /c11", "cd /c11", "mkdir own", "cd own"]
    own = cat["owners"]
    for i in range(len(own["usr"])):
        name = "o%03d" % i
        c.append("write %s %s" % (os.path.join(outdir, "own_%d.src" % (i % 3)), name))
        c.append("sif %s uid %d" % (name, own["usr"][i]))
        c.append("sif %s gid %d" % (name, own["grp"][i]))
        if prm["isz"] > 128:
            c.append("sif %s projid %d" % (name, own["prj"][i]))
    c.append("cd /c11")
    if prm["extent"]:
        c.append("write %s deepext" % os.path.join(outdir, "deep_%d.src" % prm["bs"]))
    n = row["fullroot"]
    if prm["dir_index"] and n:
        per = max(1, row["leafcap"])
        c.append("mkdir fullroot")
        c += ["expand fullroot"] * (n // per + 2)
        c += ["cd fullroot", "mknod target p"]
        for i in range(n - 1):
            c.append("ln target %s" % (("h%04d_" % i) + "x" * (row["namelen"] - 6)))
        c.append("sif target links_count %d" % n)
        c.append("cd /c11")
    return c


def _phase2(outdir, prm, cat, row):
    """a directory whose blocks are allocated alternately with the blocks of other files, cluster by cluster, and then
    filled with names (e2fsck compacts a directory when it indexes it: the blocks that stay are the first ones)"""
    if not prm["extent"]:
        return []
    c = ["cd /c11", "mkdir fragdir", "cd fragdir", "mknod target p"]
    ratio = max(1, prm["cluster"] // prm["bs"])
    for k in range(row["fragdir"] + 2):      # the interleaved objects are subdirectories: libext2fs allocates their inode in the
        c += ["expand ."] * ratio            # parent's group and their first block from that group's start, like the parent's blocks
        c += ["mkdir pad%02d" % k, "expand pad%02d" % k]    # (expand: an inline_data directory has no block of its own yet)
    n = (row["fragdir"] + 1) * ratio * row["leafcap255"]
    for i in range(n):
        c.append("ln target %s" % (("g%04d_" % i) + "w" * 249))
    c.append("sif target links_count %d" % (n + 1))
    return c


def _build_one(b, basedir, outdir, p, prm, cat):
    env = tool_env(b)
    dbg = os.path.join(b, "debugfs", "debugfs")
    fsck = os.path.join(b, "e2fsck", "e2fsck")
    img = os.path.join(outdir, p + ".img")
    shutil.copyfile(os.path.join(basedir, p + ".img"), img)
    row = [r for r in cat["rows"] if r["bs"] == prm["bs"] and r["csum"] == prm["csum"]]
    info = {"profile": p, "ok": False}
    if not row:
        info["why"] = "no catalogue row for bs=%d csum=%d" % (prm["bs"], prm["csum"])
        return info
    row = row[0]
    # one e2fsck -fyD: indexes the new directories (mke2fs -d and debugfs build linear ones) and brings the quota files of a
    # quota profile up to date with the added owners
    for phase, cmds, fs_args in ((1, _phase1(outdir, prm, cat, row) + _phase2(outdir, prm, cat, row), "-fyD"),):
        if cmds:
            rc, out, err = sh([dbg, "-w", "-f", "-", img], env=env, timeout=300, input=("\n".join(cmds) + "\n").encode())
            bad = [l for l in err.decode("utf8", "replace").splitlines() if l and not l.startswith("debugfs ")]
            if rc != 0 or bad:
                info["why"] = "debugfs phase %d: rc %d %s" % (phase, rc, " | ".join(bad[:4])[:400])
                return info
        rc, out, err = sh([fsck, fs_args, img], env=env, timeout=300)
        if rc not in (0, 1):
            info["why"] = "e2fsck %s after phase %d: exit %d %s" % (fs_args, phase, rc, out.decode("utf8", "replace")[-300:])
            return info
    rc, out, err = sh([fsck, "-fn", img], env=env, timeout=300)
    if rc != 0:
        info["why"] = "e2fsck -fn of the enriched image: exit %d %s" % (rc, out.decode("utf8", "replace")[-400:])
        return info
    info["content"] = census(img)
    info["ok"] = "fatal" not in info["content"]
    if not info["ok"]:
        info["why"] = "reader: " + info["content"]["fatal"]
    return info


def _build_variant(b, outdir, p, variant):
    """<p>+i11: lost+found is removed, a scratch file takes the freed first ordinary inode, lost+found is made again (in the
    next free inode), the scratch file is removed: s_first_ino is free.  e2fsck -fy brings quota files up to date."""
    env = tool_env(b)
    dbg = os.path.join(b, "debugfs", "debugfs")
    fsck = os.path.join(b, "e2fsck", "e2fsck")
    name = "%s+%s" % (p, variant)
    img = os.path.join(outdir, name + ".img")
    info = {"profile": name, "ok": False}
    if variant != "i11":
        info["why"] = "unknown catalogue variant %s" % variant
        return info
    shutil.copyfile(os.path.join(outdir, p + ".img"), img)
    cmds = ["rmdir lost+found", "write %s c11_scratch_first_ino" % os.path.join(outdir, "pad.src"), "mkdir lost+found"] + \
           ["expand lost+found"] * 3 + ["rm c11_scratch_first_ino"]
    rc, out, err = sh([dbg, "-w", "-f", "-", img], env=env, timeout=300, input=("\n".join(cmds) + "\n").encode())
    bad = [l for l in err.decode("utf8", "replace").splitlines() if l and not l.startswith("debugfs ")]
    if rc != 0 or bad:
        info["why"] = "debugfs (variant): rc %d %s" % (rc, " | ".join(bad[:4])[:400])
        return info
    rc, out, err = sh([fsck, "-fy", img], env=env, timeout=300)
    if rc not in (0, 1):
        info["why"] = "e2fsck -fy (variant): exit %d %s" % (rc, out.decode("utf8", "replace")[-300:])
        return info
    rc, out, err = sh([fsck, "-fn", img], env=env, timeout=300)
    if rc != 0:
        info["why"] = "e2fsck -fn of the variant image: exit %d %s" % (rc, out.decode("utf8", "replace")[-400:])
        return info
    info["content"] = census(img, variant)
    info["ok"] = "fatal" not in info["content"]
    if not info["ok"]:
        info["why"] = "reader: " + info["content"]["fatal"]
    return info


def rich_images(b, basedir, profiles, params, cat):
    """Returns (dir, {profile: info}); info["content"] = census.  Cached by build stamp + base directory + catalogue + this file."""
    stamp = open(os.path.join(b, ".verif_stamp")).read().strip()[:16]
    h = hashlib.sha256()
    h.update(open(os.path.abspath(__file__), "rb").read())
    h.update(open(ext4read.__file__, "rb").read())
    h.update(json.dumps([cat, params, sorted(profiles), os.path.basename(basedir)], sort_keys=True).encode())
    outdir = os.path.join(b, "verif-c11-%s-%s" % (stamp, h.hexdigest()[:10]))
    meta = os.path.join(outdir, "meta.json")
    with Lock(os.path.join(b, "verif-c11.lock")):
        if os.path.exists(meta):
            return outdir, json.load(open(meta))
        for d in os.listdir(b):          # stale sets of another tree / catalogue (not one a concurrent run may still be reading)
            if d.startswith("verif-c11-") and time.time() - os.path.getmtime(os.path.join(b, d)) > 7200:
                shutil.rmtree(os.path.join(b, d), ignore_errors=True)
        os.makedirs(outdir)
        _sources(outdir, cat["rows"])
        with cf.ThreadPoolExecutor(max_workers=8) as ex:
            infos = list(ex.map(lambda p: _build_one(b, basedir, outdir, p, params[p], cat), profiles))
        res = {i["profile"]: i for i in infos}
        with open(meta, "w") as f:
            json.dump(res, f, indent=1)
        return outdir, res


def variant_images(b, outdir, wanted):
    """Builds (once; cached in `outdir` next to the images of rich_images) the catalogue variants `wanted` = ["<profile>+<variant>", ...];
    returns {name: info}."""
    vmeta = os.path.join(outdir, "variants.json")
    with Lock(os.path.join(b, "verif-c11.lock")):
        have = json.load(open(vmeta)) if os.path.exists(vmeta) else {}
        todo = [w for w in wanted if w not in have]
        if todo:
            with cf.ThreadPoolExecutor(max_workers=8) as ex:
                for i in ex.map(lambda w: _build_variant(b, outdir, w.split("+")[0], w.split("+")[1]), todo):
                    have[i["profile"]] = i
            tmp = vmeta + ".tmp"
            with open(tmp, "w") as f:
                json.dump(have, f, indent=1)
            os.replace(tmp, vmeta)
        return {w: have[w] for w in wanted}


if __name__ == "__main__":
    if len(sys.argv) == 4 and sys.argv[1] == "--observe":
        sys.stdout.write(json.dumps(observe(sys.argv[2], sys.argv[3] == "1"), separators=(",", ":")))
        sys.exit(0)
    if len(sys.argv) == 2 and sys.argv[1] == "--serve":
        # one request per line: <0|1 want_quota> <tab> <image path>; one JSON answer per line
        for ln in sys.stdin:
            ln = ln.rstrip("\n")
            if not ln:
                continue
            want, path = ln.split("\t", 1)
            try:
                o = observe(path, want == "1")
            except Exception as ex:
                o = {"fatal": "observer exception %s: %s" % (type(ex).__name__, str(ex)[:200])}
            sys.stdout.write(json.dumps(o, separators=(",", ":")) + "\n")
            sys.stdout.flush()
        sys.exit(0)
    print(json.dumps(census(sys.argv[1]), indent=1))
    if len(sys.argv) > 2:
        o = observe(sys.argv[1], True)
        o["inodes"] = o["inodes"][:5]
        print(json.dumps(o)[:3000])

