"""C05 universe (b): corruptions confined to allocation summaries and checksum fields.

The KINDS are enumerated by the specification (FsckPreserve!SummaryKinds x GdCsumVariants, written out by
Emit_FsckPreserve); this module instantiates each kind on concrete targets of one image, using nothing but the
independent reader (reader/ext4read.py): its location map (`loc`: byte address of every object), its own descriptor /
bitmap / superblock checksum code, and the projected ownership facts to pick targets by role.

    r, P = load(image)                          reader object + projection
    recs = recipes(r, P, kinds, per_kind=1)     [{"id", "kind", "val", "csum", "patches": [[offset, hex], ...], "note"}]
    apply(image, recipe)                        patch the bytes in place

A recipe only ever rewrites: bitmap bits, free/used counts of a descriptor or of the superblock, descriptor flags,
bg_itable_unused, or a stored checksum field (never the checksummed content).  `csum` says whether the checksum that
COVERS a patched count/flag/bit was recomputed ("recomputed": only the field is wrong) or left alone ("stale").
Whether the damaged image still has every file intact and fails only summary conjuncts of Consistent is NOT assumed
here: the check lets TLC evaluate exactly that on the damaged image (Trace_FsckPreserve!DamageConfined)."""
import os, struct, sys
sys.path.insert(0, os.path.join(os.path.dirname(os.path.dirname(os.path.abspath(__file__))), "reader"))
import ext4read
from ext4read import crc32c

u16 = lambda b, o: struct.unpack_from("<H", b, o)[0]
u32 = lambda b, o: struct.unpack_from("<I", b, o)[0]


def load(image):
    r = ext4read.Reader(image)
    P = r.project()
    return r, P


def apply(image, recipe):
    with open(image, "r+b") as f:
        for off, hx in recipe["patches"]:
            f.seek(off)
            f.write(bytes.fromhex(hx))


# ---------------------------------------------------------------------------------------------------------------
class Ctx:
    def __init__(self, r, P):
        self.r, self.P = r, P
        self.img = bytes(r.img) if not isinstance(r.img, (bytes, bytearray)) else r.img
        self.bs = r.bs
        self.loc = r.loc
        self.csum = P["geo"]["csum"]                    # "crc32c" | "crc16" | "none"
        self.meta = self.csum == "crc32c"
        self.ino = {i["ino"]: i for i in P["inodes"]}
        self.first_ino = P["geo"]["first_ino"]
        self.dirs = {d["dir"]: d for d in P["dirs"]}

    def rd(self, off, n):
        return self.img[off:off + n]

    # ---- descriptors
    def gd_raw(self, g):
        return bytearray(self.rd(self.loc["gd%d" % g], self.r.dsize))

    def gd_patch(self, g, raw, variant):
        """patches that store descriptor `raw` for group g; its checksum recomputed or left as it was"""
        if variant == "recomputed" and self.csum != "none":
            struct.pack_into("<H", raw, 0x1E, self.r.gd_csum(g, bytes(raw)) & 0xFFFF)
        return [[self.loc["gd%d" % g], bytes(raw).hex()]]

    def gd_set(self, raw, field, v):
        lo = {"free_b": 0x0C, "free_i": 0x0E, "dirs": 0x10, "unused": 0x1C, "bbcsum": 0x18, "ibcsum": 0x1A}[field]
        hi = {"free_b": 0x2C, "free_i": 0x2E, "dirs": 0x30, "unused": 0x32, "bbcsum": 0x38, "ibcsum": 0x3A}[field]
        struct.pack_into("<H", raw, lo, v & 0xFFFF)
        if self.r.has64 and len(raw) >= 64:
            struct.pack_into("<H", raw, hi, (v >> 16) & 0xFFFF)

    # ---- superblock
    def sb_patch(self, sb, variant):
        if variant == "recomputed" and self.meta:
            struct.pack_into("<I", sb, 0x3FC, crc32c(0xFFFFFFFF, bytes(sb[:0x3FC])))
        return [[self.loc["sb"], bytes(sb).hex()]]

    # ---- bitmaps
    def bit_patch(self, which, g, bit, value, variant):
        """set/clear one bit of the block ('bb') or inode ('ib') bitmap of group g; with variant 'recomputed' the bitmap
        checksum in the descriptor and the descriptor checksum follow"""
        key = "%s%d" % (which, g)
        if key not in self.loc:
            return None
        base = self.loc[key]
        blk = bytearray(self.rd(base, self.bs))
        old = (blk[bit >> 3] >> (bit & 7)) & 1
        if old == value:
            return None
        blk[bit >> 3] ^= 1 << (bit & 7)
        patches = [[base + (bit >> 3), bytes([blk[bit >> 3]]).hex()]]
        if variant == "recomputed" and self.meta:
            n = (self.r.cpg if which == "bb" else self.r.ipg) // 8
            c = crc32c(self.r.seed, bytes(blk[:n]))
            raw = self.gd_raw(g)
            self.gd_set(raw, "bbcsum" if which == "bb" else "ibcsum", c)
            patches += self.gd_patch(g, raw, "recomputed")
        return patches

    def blk_bit(self, b):
        c = (b - self.r.first) // self.r.cr
        return c // self.r.cpg, c % self.r.cpg

    def ino_bit(self, ino):
        return (ino - 1) // self.r.ipg, (ino - 1) % self.r.ipg

    def uninit(self, g, mask):
        return self.csum != "none" and bool(self.r.gd[g]["flagbits"] & mask)

    # ---- targets by role
    def files(self, pred):
        return [i for i in self.P["inodes"] if i["ino"] >= self.first_ino and i["links"] > 0 and pred(i)]

    def role_inodes(self):
        """role -> list of inode numbers, deterministic order"""
        R = {}
        add = lambda k, i: R.setdefault(k, []).append(i["ino"])
        for i in self.P["inodes"]:
            if i["ino"] == 2:
                add("inode_root", i)
            if i["ino"] == self.P["sb"]["journal_inum"] and i["ino"]:
                add("inode_journal", i)
            if i["ino"] < self.first_ino or i["links"] == 0:
                continue
            fl = i["flags"]
            if i["type"] == "dir":
                add("inode_dir_htree" if "INDEX" in fl else "inode_dir_linear", i)
            elif i["type"] == "reg":
                if i["map"] == "extent":
                    add("inode_reg_extent", i)
                elif i["map"] == "ind":
                    add("inode_reg_ind", i)
            elif i["type"] == "lnk":
                add("inode_symlink", i)
            elif i["type"] in ("chr", "blk", "fifo", "sock"):
                add("inode_special", i)
        # deepest / largest first where it matters
        deep = lambda n: (-len(self.ino[n]["own"]["index"]) - len(self.ino[n]["own"]["ind"]), -len(self.ino[n]["own"]["data"]), n)
        for k in ("inode_reg_extent", "inode_reg_ind", "inode_dir_htree", "inode_dir_linear"):
            if k in R:
                R[k].sort(key=deep)
        return R


def _flip(ctx, off, n):
    """patch that changes an n-byte stored checksum field (never equal to the old value)"""
    old = ctx.rd(off, n)
    return [[off, bytes(b ^ 0x5A for b in old).hex()]]


def _spread(lst, k):
    """k elements of lst, spread over it (first, last, middle ...), deterministic"""
    if len(lst) <= k:
        return list(lst)
    if k == 1:
        return [lst[0]]
    idx = sorted({round(j * (len(lst) - 1) / (k - 1)) for j in range(k)})
    return [lst[i] for i in idx]


def recipes(r, P, kinds, per_kind=1, variants=("recomputed", "stale")):
    """kinds: list of [field, value-class] pairs (FsckPreserve!SummaryKinds).  Returns the concrete recipes for this image;
    kinds that have no target on this image (no extent block, no checksums ...) yield nothing."""
    ctx = Ctx(r, P)
    out = []
    roles = ctx.role_inodes()
    ngroups = r.gdc
    has_csum = ctx.csum != "none"
    vs = [v for v in variants] if has_csum else ["stale"]

    def emit(kind, val, variant, target, patches, note=""):
        if not patches:
            return
        out.append({"id": "%s.%s.%s.%s" % (kind, val, target, variant), "kind": kind, "val": val, "csum": variant,
                    "patches": patches, "note": note})

    def bit_targets_blocks(blocks, which_val):
        res = []
        for b in blocks:
            g, bit = ctx.blk_bit(b)
            if ctx.uninit(g, 2):
                continue
            res.append((b, g, bit))
        return res

    used_groups_b = [g for g in range(ngroups) if not ctx.uninit(g, 2)]
    used_groups_i = [g for g in range(ngroups) if not ctx.uninit(g, 1)]
    bbset = set()
    for a, b in P["bbitmap"]:
        bbset.update(range(a, b + 1))
    ibset = set()
    for a, b in P["ibitmap"]:
        ibset.update(range(a, b + 1))

    for kind, val in kinds:
        if kind == "bb":
            if val == "clear_data":
                blocks = []
                for role in ("inode_reg_extent", "inode_reg_ind"):
                    for n in roles.get(role, [])[:per_kind]:
                        d = ctx.ino[n]["own"]["data"]
                        if d:
                            blocks += [d[0][0], d[-1][1]]
                tg = bit_targets_blocks(blocks, 0)
            elif val == "clear_index":
                blocks = []
                for i in P["inodes"]:
                    if i["ino"] >= ctx.first_ino and i["links"] > 0:
                        blocks += [x[0] for x in i["own"]["index"]] + [x[0] for x in i["own"]["ind"]]
                tg = bit_targets_blocks(_spread(blocks, 2 * per_kind), 0)
            elif val == "clear_dirblock":
                blocks = []
                for role in ("inode_dir_htree", "inode_dir_linear", "inode_root"):
                    for n in roles.get(role, [])[:per_kind]:
                        d = ctx.ino[n]["own"]["data"]
                        if d:
                            blocks.append(d[0][0])
                tg = bit_targets_blocks(blocks, 0)
            elif val == "clear_fixed":
                blocks = []
                for cls in ("it", "bb", "ib", "gdt", "sb"):
                    rs = P["fixed"].get(cls, [])
                    if rs:
                        blocks.append(rs[0][0] if cls != "it" else rs[0][1])
                blocks = [b for b in blocks if b >= r.first]
                tg = bit_targets_blocks(_spread(blocks, 2 * per_kind), 0)
            elif val == "set_free":
                tg = []
                for g in _spread(used_groups_b, 2 * per_kind):
                    lo, hi = g * r.cpg, min((g + 1) * r.cpg, P["geo"]["ncl"]) - 1
                    free = [c for c in range(hi, lo - 1, -1) if c not in bbset][:1]
                    for c in free:
                        tg.append((r.first + c * r.cr, g, c - g * r.cpg))
            elif val == "clear_padding":
                tg = []
                g = ngroups - 1
                if P["geo"]["ncl"] < ngroups * r.cpg and not ctx.uninit(g, 2):
                    tg.append((-1, g, r.cpg - 1))
            else:
                raise ValueError("unknown bb value class %r" % val)
            want = 1 if val == "set_free" else 0
            for b, g, bit in tg:
                for v in vs if ctx.meta else ["stale"]:
                    emit(kind, val, v, "g%d.b%d" % (g, b), ctx.bit_patch("bb", g, bit, want, v))
        elif kind == "ib":
            if val == "clear_used":
                inos = []
                for role in ("inode_reg_extent", "inode_reg_ind", "inode_dir_htree", "inode_dir_linear", "inode_symlink", "inode_special"):
                    inos += roles.get(role, [])[:1]
                inos = _spread(inos, 3 * per_kind)
                want = 0
            elif val == "clear_reserved":
                inos = [x for x in (1, 5, 7, 8) if x < ctx.first_ino][:2 * per_kind]
                want = 0
            elif val == "set_free":
                inos = []
                for g in _spread(used_groups_i, 2 * per_kind):
                    free = [n for n in range((g + 1) * r.ipg, g * r.ipg, -1) if n not in ibset and n >= ctx.first_ino][:1]
                    inos += free
                want = 1
            else:
                raise ValueError("unknown ib value class %r" % val)
            for n in inos:
                g, bit = ctx.ino_bit(n)
                if ctx.uninit(g, 1):
                    continue
                for v in vs if ctx.meta else ["stale"]:
                    emit(kind, val, v, "ino%d" % n, ctx.bit_patch("ib", g, bit, want, v))
        elif kind in ("gd_free_blocks", "gd_free_inodes", "gd_used_dirs"):
            fld = {"gd_free_blocks": "free_b", "gd_free_inodes": "free_i", "gd_used_dirs": "dirs"}[kind]
            for g in _spread(list(range(ngroups)), 2 * per_kind):
                cur = r.gd[g][fld]
                new = {"plus1": cur + 1, "minus1": cur - 1, "zero": 0}[val]
                if new < 0 or new == cur:
                    continue
                for v in vs:
                    raw = ctx.gd_raw(g)
                    ctx.gd_set(raw, fld, new)
                    emit(kind, val, v, "g%d" % g, ctx.gd_patch(g, raw, v))
        elif kind in ("sb_free_blocks", "sb_free_inodes"):
            sb0 = bytearray(ctx.rd(ctx.loc["sb"], 1024))
            if kind == "sb_free_blocks":
                cur = u32(sb0, 0x0C) | ((u32(sb0, 0x158) << 32) if r.has64 else 0)
            else:
                cur = u32(sb0, 0x10)
            new = {"plus1": cur + 1, "minus1": cur - 1, "zero": 0}[val]
            if new < 0 or new == cur:
                continue
            for v in (vs if ctx.meta else ["stale"]):
                sb = bytearray(sb0)
                if kind == "sb_free_blocks":
                    struct.pack_into("<I", sb, 0x0C, new & 0xFFFFFFFF)
                    if r.has64:
                        struct.pack_into("<I", sb, 0x158, new >> 32)
                else:
                    struct.pack_into("<I", sb, 0x10, new)
                emit(kind, val, v, "sb", ctx.sb_patch(sb, v))
        elif kind == "gd_flags":
            for g in _spread(list(range(ngroups)), 2 * per_kind):
                raw = ctx.gd_raw(g)
                fl = u16(raw, 0x12)
                mask = {"set_block_uninit": 2, "set_inode_uninit": 1, "flip_itable_zeroed": 4}[val]
                new = fl ^ 4 if val == "flip_itable_zeroed" else fl | mask
                if new == fl:
                    continue
                for v in vs:
                    raw = ctx.gd_raw(g)
                    struct.pack_into("<H", raw, 0x12, new)
                    emit(kind, val, v, "g%d" % g, ctx.gd_patch(g, raw, v))
        elif kind == "gd_itable_unused":
            for g in _spread(list(range(ngroups)), 2 * per_kind):
                cur = r.gd[g]["unused"]
                used = [n for n in range(g * r.ipg + 1, (g + 1) * r.ipg + 1) if n in ibset]
                if val == "zero":
                    new = 0
                elif val == "ipg":
                    new = r.ipg
                elif val == "plus1":
                    new = cur + 1
                elif val == "hide_used":
                    if not used:
                        continue
                    new = r.ipg - ((used[-1] - 1) % r.ipg)          # exactly the highest in-use inode falls into the unused tail
                else:
                    raise ValueError("unknown itable_unused class %r" % val)
                if new == cur or new > 0xFFFF and not r.has64:
                    continue
                for v in vs:
                    raw = ctx.gd_raw(g)
                    ctx.gd_set(raw, "unused", new)
                    emit(kind, val, v, "g%d" % g, ctx.gd_patch(g, raw, v))
        elif kind == "csum":
            o = val
            if o == "gd":
                if has_csum:
                    for g in _spread(list(range(ngroups)), 2 * per_kind):
                        emit(kind, o, "-", "g%d" % g, _flip(ctx, ctx.loc["gd%d" % g] + 0x1E, 2))
                continue
            if not ctx.meta:
                continue
            if o == "sb":
                emit(kind, o, "-", "sb", _flip(ctx, ctx.loc["sb"] + 0x3FC, 4))
            elif o in ("bbitmap", "ibitmap"):
                fld, mask = ("bbcsum", 2) if o == "bbitmap" else ("ibcsum", 1)
                for g in _spread([g for g in range(ngroups) if not ctx.uninit(g, mask)], 2 * per_kind):
                    raw = ctx.gd_raw(g)
                    off = 0x18 if o == "bbitmap" else 0x1A
                    struct.pack_into("<H", raw, off, u16(raw, off) ^ 0x5A5A)
                    emit(kind, o, "-", "g%d" % g, ctx.gd_patch(g, raw, "recomputed"))       # only the bitmap checksum is wrong
            elif o.startswith("inode_"):
                if o == "inode_free_initialised":
                    cand = []
                    isz = r.isize
                    for g in range(ngroups):
                        if ctx.uninit(g, 1):
                            continue
                        for n in range(g * r.ipg + 1, (g + 1) * r.ipg + 1 - min(r.gd[g]["unused"], r.ipg)):
                            if n in ibset or n < ctx.first_ino:
                                continue
                            off = r.inode_off(n)
                            if off is not None and any(ctx.rd(off, isz)):
                                cand.append(n)
                    inos = _spread(cand, per_kind)
                else:
                    inos = roles.get(o, [])[:per_kind]
                for n in inos:
                    off = r.inode_off(n)
                    if off is None:
                        continue
                    emit(kind, o, "-", "ino%d" % n, _flip(ctx, off + 0x7C, 2))
            elif o == "extent_block":
                for k in _spread(sorted(ctx.loc.get("extblk", {}), key=int), 2 * per_kind):
                    base = ctx.loc["extblk"][k]
                    emax = u16(ctx.rd(base, 12), 4)
                    off = 12 + 12 * emax
                    if u16(ctx.rd(base, 2), 0) == 0xF30A and off + 4 <= ctx.bs:
                        emit(kind, o, "-", "blk" + k, _flip(ctx, base + off, 4))
            elif o in ("dir_leaf", "dir_linear_block", "dx_root", "dx_node"):
                done = 0
                for key in sorted(ctx.loc.get("dirblk", {}), key=lambda s: tuple(int(x) for x in s.split(":"))):
                    ino, l = (int(x) for x in key.split(":"))
                    D = ctx.dirs.get(ino)
                    I = ctx.ino.get(ino)
                    if D is None or I is None or I["links"] == 0:
                        continue
                    base = ctx.loc["dirblk"][key]
                    blk = ctx.rd(base, ctx.bs)
                    htree = D["kind"] == "htree"
                    has_tail = blk[ctx.bs - 12:ctx.bs - 4] == b"\0\0\0\0\x0c\0\0\xde"
                    interior = htree and l > 0 and u32(blk, 0) == 0 and u16(blk, 4) == ctx.bs
                    if o == "dx_root" and htree and l == 0:
                        lim = u16(blk, 0x20)
                        off = 0x20 + lim * 8 + 4
                    elif o == "dx_node" and interior:
                        lim = u16(blk, 8)
                        off = 8 + lim * 8 + 4
                    elif o == "dir_leaf" and htree and l > 0 and not interior and has_tail:
                        off = ctx.bs - 4
                    elif o == "dir_linear_block" and not htree and D["kind"] != "inline" and has_tail:
                        off = ctx.bs - 4
                    else:
                        continue
                    if off + 4 > ctx.bs:
                        continue
                    emit(kind, o, "-", "ino%d.l%d" % (ino, l), _flip(ctx, base + off, 4))
                    done += 1
                    if done >= 2 * per_kind:
                        break
            elif o == "xattr_block":
                for k in _spread(sorted(ctx.loc.get("xblk", {}), key=int), 2 * per_kind):
                    base = ctx.loc["xblk"][k]
                    if u32(ctx.rd(base, 4), 0) == 0xEA020000:
                        emit(kind, o, "-", "blk" + k, _flip(ctx, base + 0x10, 4))
            elif o == "orphan_block":
                for k in _spread(sorted(ctx.loc.get("orphanblk", {}), key=int), per_kind):
                    base = ctx.loc["orphanblk"][k]
                    emit(kind, o, "-", "l" + k, _flip(ctx, base + ctx.bs - 4, 4))
            elif o == "journal_sb":
                if "jsb" in ctx.loc:
                    base = ctx.loc["jsb"]
                    jsb = ctx.rd(base, 1024)
                    if struct.unpack_from(">I", jsb, 0)[0] == 0xC03B3998 and struct.unpack_from(">I", jsb, 0x28)[0] & 0x18:
                        emit(kind, o, "-", "jsb", _flip(ctx, base + 0xFC, 4))
            else:
                raise ValueError("unknown checksum object %r" % o)
        else:
            raise ValueError("unknown summary kind %r" % kind)
    # one id, one recipe
    seen, uniq = set(), []
    for x in out:
        if x["id"] not in seen:
            seen.add(x["id"])
            uniq.append(x)
    return uniq


if __name__ == "__main__":
    import json
    r, P = load(sys.argv[1])
    kinds = json.load(open(sys.argv[2])) if len(sys.argv) > 2 else []
    for x in recipes(r, P, kinds, per_kind=1):
        print(x["id"], x["patches"][0][0], len(x["patches"]))
