"""Independent JBD2 journal encoder / decoder for C03 and C04 (shares no code with e2fsprogs).

Written from the on-disk format description only (lib/ext2fs/kernel-jbd.h struct layouts, ext2_fs.h superblock /
group descriptor / inode / extent layouts).  Own crc32c (Castagnoli, reflected) and big-endian crc32.

Abstract journal (what spec/Jbd2.tla calls the log) -> bytes in the journal inode's blocks of an ext2/3/4 image:

  absj = {"cfg": {"csum": 0|1|2|3, "b64": 0|1, "async": 0|1, "L": n [, "tb": {"hi": h, "lo": l}]},
          "jsb": {"start": 0..L, "seq": s},
          "log": [rec_1 .. rec_L]}           ring position p (1-based) <-> journal block first + p - 1
  rec  = {"t": "junk"}
       | {"t": "desc",   "seq": s, "ok": 0|1, "id": n, "tags": [{"blk": b, "v": v, "cs": v | -1, "esc": 0|1}, ...]}
       | {"t": "data",   "v": v, "esc": 0|1}                    payload of version v
       | {"t": "revoke", "seq": s, "ok": 0|1, "blks": [b, ...]}
       | {"t": "commit", "seq": s, "ok": 0|1, "time": t, "hassum": 0|1, "sum": [rec, ...]}

Transaction identifiers: every "seq" is an OFFSET from the journal's tid base cfg["tb"] (two 16-bit halves; absent = 0);
the 32-bit tid on disk is (base + seq) mod 2^32 (spec/Jbd2.tla Conc) -- in block headers, in s_sequence and in the
sequence number that the v2/v3 tag checksum covers.

Target blocks are abstract indices 1..NB mapped to physical block numbers by the caller.  The escape bit travels in
the tag ("esc") and in the data record; an escaped version's true content begins with the JBD2 magic, its image in
the log has those four bytes zeroed."""
import struct, os, sys, json

MAGIC = 0xC03B3998
T_DESC, T_COMMIT, T_SBV1, T_SBV2, T_REVOKE = 1, 2, 3, 4, 5
F_ESCAPE, F_SAME_UUID, F_DELETED, F_LAST = 1, 2, 4, 8
COMPAT_CHECKSUM = 1
INCOMPAT_REVOKE, INCOMPAT_64BIT, INCOMPAT_ASYNC, INCOMPAT_CSUM2, INCOMPAT_CSUM3 = 1, 2, 4, 8, 16

# ------------------------------------------------------------------ checksums (own implementation)
_C = []
for _i in range(256):
    _c = _i
    for _ in range(8):
        _c = (_c >> 1) ^ 0x82F63B78 if _c & 1 else _c >> 1
    _C.append(_c)
_B = []
for _i in range(256):
    _c = _i << 24
    for _ in range(8):
        _c = ((_c << 1) ^ 0x04C11DB7) & 0xFFFFFFFF if _c & 0x80000000 else (_c << 1) & 0xFFFFFFFF
    _B.append(_c)


def crc32c_raw(crc, data):
    """Reflected CRC-32C register update, no pre/post inversion (callers seed with ~0 as the format says)."""
    for b in data:
        crc = _C[(crc ^ b) & 0xFF] ^ (crc >> 8)
    return crc


def crc32_be_raw(crc, data):
    """MSB-first CRC-32 (poly 0x04C11DB7) register update, no inversion."""
    for b in data:
        crc = ((crc << 8) & 0xFFFFFFFF) ^ _B[((crc >> 24) ^ b) & 0xFF]
    return crc


assert crc32c_raw(0xFFFFFFFF, b"123456789") ^ 0xFFFFFFFF == 0xE3069283
assert crc32_be_raw(0xFFFFFFFF, b"123456789") ^ 0xFFFFFFFF == 0xFC891918     # CRC-32/BZIP2 check value

# ------------------------------------------------------------------ minimal ext2/3/4 image parsing
class Image:
    def __init__(self, path):
        self.path = path
        with open(path, "rb") as f:
            f.seek(1024)
            sb = f.read(1024)
        if struct.unpack_from("<H", sb, 56)[0] != 0xEF53:
            raise ValueError("not an ext2/3/4 image: " + path)
        self.sb = sb
        self.bs = 1024 << struct.unpack_from("<I", sb, 24)[0]
        self.first_data_block = struct.unpack_from("<I", sb, 20)[0]
        self.blocks_count = struct.unpack_from("<I", sb, 4)[0]
        self.bpg = struct.unpack_from("<I", sb, 32)[0]
        self.ipg = struct.unpack_from("<I", sb, 40)[0]
        self.inode_size = struct.unpack_from("<H", sb, 88)[0] if struct.unpack_from("<I", sb, 76)[0] >= 1 else 128
        self.f_compat, self.f_incompat, self.f_rocompat = struct.unpack_from("<III", sb, 92)
        self.desc_size = struct.unpack_from("<H", sb, 254)[0] if self.f_incompat & 0x80 else 32
        if self.desc_size < 32:
            self.desc_size = 32
        self.journal_inum = struct.unpack_from("<I", sb, 224)[0]
        self.ngroups = (self.blocks_count - self.first_data_block + self.bpg - 1) // self.bpg

    def rd(self, blk, n=1):
        with open(self.path, "rb") as f:
            f.seek(blk * self.bs)
            return f.read(n * self.bs)

    def wr(self, blk, data):
        with open(self.path, "r+b") as f:
            f.seek(blk * self.bs)
            f.write(data)

    def gd(self, g):
        per = self.bs // self.desc_size
        blk = self.first_data_block + 1 + g // per
        raw = self.rd(blk)[(g % per) * self.desc_size:(g % per + 1) * self.desc_size]
        bb, ib, it = struct.unpack_from("<III", raw, 0)
        flags = struct.unpack_from("<H", raw, 18)[0]
        if self.desc_size >= 64:
            hb, hi, ht = struct.unpack_from("<III", raw, 32)
            bb |= hb << 32; ib |= hi << 32; it |= ht << 32
        return dict(block_bitmap=bb, inode_bitmap=ib, inode_table=it, flags=flags)

    def inode_raw(self, ino):
        g, idx = (ino - 1) // self.ipg, (ino - 1) % self.ipg
        off = self.gd(g)["inode_table"] * self.bs + idx * self.inode_size
        with open(self.path, "rb") as f:
            f.seek(off)
            return f.read(self.inode_size)

    def _extents(self, node, out):
        magic, entries, _mx, depth = struct.unpack_from("<HHHH", node, 0)
        if magic != 0xF30A:
            raise ValueError("bad extent magic")
        for i in range(entries):
            o = 12 + 12 * i
            if depth == 0:
                lblk, ln, hi, lo = struct.unpack_from("<IHHI", node, o)
                if ln > 32768:
                    ln -= 32768
                for k in range(ln):
                    out[lblk + k] = ((hi << 32) | lo) + k
            else:
                _lblk, lo, hi = struct.unpack_from("<IIH", node, o)
                self._extents(self.rd((hi << 32) | lo), out)

    def file_blocks(self, ino):
        """logical -> physical map of an inode (extent-mapped or block-mapped up to double indirect)."""
        raw = self.inode_raw(ino)
        flags = struct.unpack_from("<I", raw, 32)[0]
        iblock = raw[40:100]
        out = {}
        if flags & 0x80000:
            self._extents(iblock, out)
        else:
            ptrs = struct.unpack("<15I", iblock)
            per = self.bs // 4
            for i in range(12):
                if ptrs[i]:
                    out[i] = ptrs[i]
            if ptrs[12]:
                ind = struct.unpack("<%dI" % per, self.rd(ptrs[12]))
                for i, p in enumerate(ind):
                    if p:
                        out[12 + i] = p
            if ptrs[13]:
                d = struct.unpack("<%dI" % per, self.rd(ptrs[13]))
                for j, q in enumerate(d):
                    if q:
                        ind = struct.unpack("<%dI" % per, self.rd(q))
                        for i, p in enumerate(ind):
                            if p:
                                out[12 + per + j * per + i] = p
        size = struct.unpack_from("<I", raw, 4)[0] | (struct.unpack_from("<I", raw, 108)[0] << 32)
        return out, size

    def journal_map(self):
        m, size = self.file_blocks(self.journal_inum)
        n = size // self.bs
        return [m[i] for i in range(n)]

    def free_blocks(self, g=0):
        d = self.gd(g)
        if d["flags"] & 0x1:       # BLOCK_UNINIT: the bitmap block is not meaningful
            return []
        bm = self.rd(d["block_bitmap"])
        base = self.first_data_block + g * self.bpg
        n = min(self.bpg, self.blocks_count - base)
        return [base + i for i in range(n) if not (bm[i >> 3] >> (i & 7)) & 1]

    def metadata_blocks(self):
        """Blocks the front-ends may legitimately rewrite (superblock, descriptors, bitmaps, inode tables, backups)."""
        s = set(range(0, self.first_data_block + 1))
        gdb = (self.ngroups * self.desc_size + self.bs - 1) // self.bs
        rsv = struct.unpack_from("<H", self.sb, 206)[0]
        itb = (self.ipg * self.inode_size + self.bs - 1) // self.bs
        for g in range(self.ngroups):
            base = self.first_data_block + g * self.bpg
            s.update(range(base, base + 1 + gdb + rsv))          # (possible) superblock + descriptor copies
            d = self.gd(g)
            s.add(d["block_bitmap"]); s.add(d["inode_bitmap"]); s.update(range(d["inode_table"], d["inode_table"] + itb))
        return s

    def needs_recovery(self):
        with open(self.path, "rb") as f:
            f.seek(1024 + 96)
            return 1 if struct.unpack("<I", f.read(4))[0] & 0x4 else 0

    def set_needs_recovery(self, on):
        """Flip EXT3_FEATURE_INCOMPAT_RECOVER in the primary superblock; refresh the sb checksum when metadata_csum."""
        with open(self.path, "r+b") as f:
            f.seek(1024)
            sb = bytearray(f.read(1024))
            v = struct.unpack_from("<I", sb, 96)[0]
            v = (v | 0x4) if on else (v & ~0x4)
            struct.pack_into("<I", sb, 96, v)
            if struct.unpack_from("<I", sb, 100)[0] & 0x400:          # metadata_csum: crc32c over the first 1020 bytes
                struct.pack_into("<I", sb, 1020, crc32c_raw(0xFFFFFFFF, bytes(sb[:1020])))
            f.seek(1024)
            f.write(sb)


# ------------------------------------------------------------------ payloads of target-block versions
def payload(v, esc, bs):
    """Full true content of a target block holding version v (v = 0: the original content written at image creation)."""
    head = struct.pack(">I", MAGIC) if esc else b"VERI"
    body = struct.pack(">II", v, 0x5EED0000 | (v & 0xFFFF)) + (b"v%05d." % v)
    fill = bytes(((v * 37 + i * 11) & 0xFF) for i in range(64))
    blk = head + body + fill * ((bs - len(head) - len(body)) // 64 + 1)
    return blk[:bs]


def log_image(v, esc, bs):
    """What the journal holds for that version: the escaped form has its first four bytes zeroed."""
    p = payload(v, esc, bs)
    return (b"\0\0\0\0" + p[4:]) if esc else p


STALE_V = 9000      # data blocks "from an earlier life of the log" use versions >= STALE_V (never the image of any tag)


def tid_base(cfg):
    """The tid base of a journal configuration as a 32-bit value."""
    tb = cfg.get("tb")
    return ((tb["hi"] << 16) | tb["lo"]) if tb else 0


def halves(x):
    return {"hi": (x >> 16) & 0xFFFF, "lo": x & 0xFFFF}


class Encoder:
    def __init__(self, cfg, bs, uuid, tblk, uuid_mode="first", junk_mode="zero"):
        """cfg: csum/b64/async; tblk: abstract block index -> physical fs block."""
        self.cfg, self.bs, self.uuid, self.tblk = cfg, bs, uuid, tblk
        self.uuid_mode, self.junk_mode = uuid_mode, junk_mode
        self.csum = cfg["csum"]
        self.tbase = tid_base(cfg)
        self.v23 = self.csum in (2, 3)
        self.seed = crc32c_raw(0xFFFFFFFF, uuid) if self.v23 else 0

    def tid(self, seq):
        """On-disk transaction identifier of offset seq."""
        return (self.tbase + seq) & 0xFFFFFFFF

    def tag_bytes(self):
        if self.csum == 3:
            return 16
        n = 12 + (2 if self.csum == 2 else 0)
        return n if self.cfg["b64"] else n - 4

    def features(self):
        inc = INCOMPAT_REVOKE
        if self.cfg["b64"]: inc |= INCOMPAT_64BIT
        if self.cfg["async"]: inc |= INCOMPAT_ASYNC
        if self.csum == 2: inc |= INCOMPAT_CSUM2
        if self.csum == 3: inc |= INCOMPAT_CSUM3
        return (COMPAT_CHECKSUM if self.csum == 1 else 0), inc

    def superblock(self, first, maxlen, seq, start, errno=0):
        b = bytearray(1024)
        struct.pack_into(">III", b, 0, MAGIC, T_SBV2, 0)
        struct.pack_into(">III", b, 12, self.bs, maxlen, first)
        struct.pack_into(">II", b, 24, self.tid(seq), start)
        struct.pack_into(">i", b, 32, errno)
        comp, inc = self.features()
        struct.pack_into(">III", b, 36, comp, inc, 0)
        b[48:64] = self.uuid
        struct.pack_into(">I", b, 64, 1)                      # s_nr_users
        if self.v23:
            b[80] = 4                                         # JBD2_CRC32C_CHKSUM
            struct.pack_into(">I", b, 0xFC, crc32c_raw(0xFFFFFFFF, bytes(b)))
        return bytes(b) + b"\0" * (self.bs - 1024)

    def data(self, rec):
        return log_image(rec["v"], rec.get("esc", 0), self.bs)

    def _tagcsum(self, seq, v, esc):
        c = crc32c_raw(self.seed, struct.pack(">I", self.tid(seq)))
        return crc32c_raw(c, log_image(v, esc, self.bs))

    def desc(self, rec):
        b = bytearray(self.bs)
        struct.pack_into(">III", b, 0, MAGIC, T_DESC, self.tid(rec["seq"]))
        off = 12
        n = len(rec["tags"])
        for i, t in enumerate(rec["tags"]):
            fl = 0
            if t.get("esc"): fl |= F_ESCAPE
            with_uuid = (i == 0) or self.uuid_mode == "all"
            if not with_uuid: fl |= F_SAME_UUID
            if i == n - 1: fl |= F_LAST
            pb = self.tblk[t["blk"]]
            cs = 0
            if self.v23:
                # cs = version whose log image the stored checksum matches; -1 = a corrupted checksum field
                e = t.get("esc", 0)
                cs = self._tagcsum(rec["seq"], t["cs"], e) if t["cs"] >= 0 else (self._tagcsum(rec["seq"], t["v"], e) ^ 0x00010001)
            if self.csum == 3:
                struct.pack_into(">IIII", b, off, pb & 0xFFFFFFFF, fl, pb >> 32, cs)
            else:
                struct.pack_into(">IHH", b, off, pb & 0xFFFFFFFF, cs & 0xFFFF, fl)
                if self.cfg["b64"]:
                    struct.pack_into(">I", b, off + 8, pb >> 32)
                # csum v2: two further (unused) bytes belong to the tag -- the 32-bit checksum never fitted
            off += self.tag_bytes()
            if with_uuid:
                b[off:off + 16] = self.uuid
                off += 16
            if off + self.tag_bytes() > self.bs - (4 if self.v23 else 0) and i != n - 1:
                raise ValueError("descriptor overflow")
        # the descriptor's identity (distinguishes two writes of otherwise equal descriptors under checksum v1)
        struct.pack_into(">I", b, self.bs - 12, rec.get("id", 0))
        if self.v23:
            c = crc32c_raw(self.seed, bytes(b))
            if not rec["ok"]: c ^= 0x5A5A5A5A
            struct.pack_into(">I", b, self.bs - 4, c)
        return bytes(b)

    def revoke(self, rec):
        b = bytearray(self.bs)
        rs = 8 if self.cfg["b64"] else 4
        struct.pack_into(">IIII", b, 0, MAGIC, T_REVOKE, self.tid(rec["seq"]), 16 + rs * len(rec["blks"]))
        off = 16
        for x in rec["blks"]:
            pb = self.tblk[x]
            if rs == 8: struct.pack_into(">Q", b, off, pb)
            else: struct.pack_into(">I", b, off, pb)
            off += rs
        if self.v23:
            c = crc32c_raw(self.seed, bytes(b))
            if not rec["ok"]: c ^= 0x5A5A5A5A
            struct.pack_into(">I", b, self.bs - 4, c)
        return bytes(b)

    def commit(self, rec):
        b = bytearray(self.bs)
        struct.pack_into(">III", b, 0, MAGIC, T_COMMIT, self.tid(rec["seq"]))
        struct.pack_into(">QI", b, 48, rec["time"], 0)
        if self.csum == 1 and rec.get("hassum", 0):
            c = 0xFFFFFFFF
            for r in rec["sum"]:
                c = crc32_be_raw(c, self.block(r))
            b[12], b[13] = 1, 4                                # JBD2_CRC32_CHKSUM, JBD2_CRC32_CHKSUM_SIZE
            struct.pack_into(">I", b, 16, c)
        if self.v23:
            c = crc32c_raw(self.seed, bytes(b))
            if not rec["ok"]: c ^= 0x5A5A5A5A
            struct.pack_into(">I", b, 16, c)
        return bytes(b)

    def junk(self, pos):
        if self.junk_mode == "zero":
            return b"\0" * self.bs
        return bytes(((pos * 131 + i * 7 + 1) & 0xFF) | 1 for i in range(self.bs))     # never starts with the magic

    def block(self, rec, pos=0):
        t = rec["t"]
        if t == "junk": return self.junk(pos)
        if t == "data": return self.data(rec)
        if t == "desc": return self.desc(rec)
        if t == "revoke": return self.revoke(rec)
        if t == "commit": return self.commit(rec)
        raise ValueError("unknown record " + t)


def write_journal(img_path, absj, tblk, first=1, uuid=None, uuid_mode="first", junk_mode="zero",
                  needs_recovery=1, jdev=None):
    """Encode absj into the journal of img_path (internal journal inode, or external device image jdev)."""
    im = Image(img_path)
    cfg = absj["cfg"]
    uuid = uuid or bytes(range(0x10, 0x20))
    enc = Encoder(cfg, im.bs, uuid, tblk, uuid_mode, junk_mode)
    jmap = im.journal_map()
    L = cfg["L"]
    maxlen = first + L
    if maxlen > len(jmap):
        raise ValueError("ring does not fit the journal inode")
    start = absj["jsb"]["start"]
    im.wr(jmap[0], enc.superblock(first, maxlen, absj["jsb"]["seq"], 0 if start == 0 else first + start - 1))
    for p in range(1, L + 1):
        im.wr(jmap[first + p - 1], enc.block(absj["log"][p - 1], p))
    im.set_needs_recovery(needs_recovery)
    return dict(jsb_block=jmap[0], jmap=jmap[:maxlen], bs=im.bs, first=first)


def restart_journal(img_path, absj2, tblk, first=1, uuid=None, uuid_mode="first", junk_mode="zero"):
    """Second life of the log on an image whose journal was replayed (spec/Jbd2Gen.tla Restart): only the ring positions
    in absj2["written"] are encoded and written; every other log block, and every field of the journal superblock except
    s_sequence / s_start (and its checksum), stays as the front-end left it.  needs_recovery is set."""
    im = Image(img_path)
    cfg = absj2["cfg"]
    uuid = uuid or bytes(range(0x10, 0x20))
    enc = Encoder(cfg, im.bs, uuid, tblk, uuid_mode, junk_mode)
    jmap = im.journal_map()
    for p in absj2["written"]:
        im.wr(jmap[first + p - 1], enc.block(absj2["log"][p - 1], p))
    b = bytearray(im.rd(jmap[0]))
    start = absj2["jsb"]["start"]
    struct.pack_into(">II", b, 24, enc.tid(absj2["jsb"]["seq"]), 0 if start == 0 else first + start - 1)
    if struct.unpack_from(">I", b, 40)[0] & (INCOMPAT_CSUM2 | INCOMPAT_CSUM3):
        struct.pack_into(">I", b, 0xFC, 0)
        struct.pack_into(">I", b, 0xFC, crc32c_raw(0xFFFFFFFF, bytes(b[:1024])))
    im.wr(jmap[0], bytes(b))
    im.set_needs_recovery(1)
    return dict(jsb_block=jmap[0], bs=im.bs, first=first)


def read_jsb(img_path, jsb_block=None):
    im = Image(img_path)
    if jsb_block is None:
        jsb_block = im.journal_map()[0]
    b = im.rd(jsb_block)
    magic, btype, _ = struct.unpack_from(">III", b, 0)
    bsz, maxlen, first, seq, start = struct.unpack_from(">IIIII", b, 12)
    errno = struct.unpack_from(">i", b, 32)[0]
    comp, inc, ro = struct.unpack_from(">III", b, 36)
    csum_ok = 1
    if inc & (INCOMPAT_CSUM2 | INCOMPAT_CSUM3):
        bb = bytearray(b[:1024]); stored = struct.unpack_from(">I", bb, 0xFC)[0]
        struct.pack_into(">I", bb, 0xFC, 0)
        csum_ok = 1 if crc32c_raw(0xFFFFFFFF, bytes(bb)) == stored else 0
    return dict(magic_ok=1 if magic == MAGIC else 0, type=btype, blocksize=bsz, maxlen=maxlen, first=first,
                seq=seq, start=start, errno=errno, compat=comp, incompat=inc, csum_ok=csum_ok)


def decode_block(b, cfg_inc, cfg_comp):
    """Decode one log block written by anyone (used to cross-check the encoder against debugfs's writer)."""
    magic, btype, seq = struct.unpack_from(">III", b, 0)
    if magic != MAGIC:
        return {"t": "nomagic"}
    if btype == T_COMMIT:
        return {"t": "commit", "seq": seq, "ctype": b[12], "csize": b[13], "chk0": struct.unpack_from(">I", b, 16)[0],
                "time": struct.unpack_from(">Q", b, 48)[0]}
    if btype == T_REVOKE:
        cnt = struct.unpack_from(">I", b, 12)[0]
        rs = 8 if cfg_inc & INCOMPAT_64BIT else 4
        blks = [struct.unpack_from(">Q" if rs == 8 else ">I", b, o)[0] for o in range(16, cnt, rs)]
        return {"t": "revoke", "seq": seq, "blks": blks, "count": cnt}
    if btype == T_DESC:
        if cfg_inc & INCOMPAT_CSUM3: tb = 16
        else:
            tb = 12 + (2 if cfg_inc & INCOMPAT_CSUM2 else 0)
            if not cfg_inc & INCOMPAT_64BIT: tb -= 4
        tail = 4 if cfg_inc & (INCOMPAT_CSUM2 | INCOMPAT_CSUM3) else 0
        off, tags = 12, []
        while off + tb <= len(b) - tail:
            if cfg_inc & INCOMPAT_CSUM3:
                lo, fl, hi, cs = struct.unpack_from(">IIII", b, off)
            else:
                lo, cs, fl = struct.unpack_from(">IHH", b, off)
                hi = struct.unpack_from(">I", b, off + 8)[0] if cfg_inc & INCOMPAT_64BIT else 0
            tags.append({"blk": (hi << 32) | lo, "flags": fl & 0xF, "cs": cs})
            off += tb
            if not fl & F_SAME_UUID: off += 16
            if fl & F_LAST: break
        return {"t": "desc", "seq": seq, "tags": tags}
    return {"t": "other", "type": btype, "seq": seq}


if __name__ == "__main__":
    im = Image(sys.argv[1])
    print(json.dumps(dict(bs=im.bs, journal=im.journal_map()[:20], jsb=read_jsb(sys.argv[1]), free=im.free_blocks()[:10],
                          needs_recovery=im.needs_recovery())))
