"""Seeded, stratified sampler of abstract journals inside the universe of spec/Jbd2.tla (same block records, same
transaction layout TxnBlocks, same damage catalogue DamagedBlocks).  Trace_Jbd2 re-checks every sampled journal
against the spec's own definitions (GroundTruthSound), so a slip here is a rejected trace, not a wrong verdict.

Transaction identifiers ("seq" everywhere) are OFFSETS from the journal's tid base cfg["tb"] = {hi, lo} (absent: base 0), as in
the spec: the 32-bit tid on disk is (base + seq) mod 2^32.  The base is a stratum of its own (TID_KINDS x TID_POS, the boundary
catalogue BaseWrapU / BaseWrapS / BaseSmall of Jbd2.tla): tid 0 (unsigned wrap) or tid 0x80000000 (signed boundary) lands on
the transaction  s_sequence + d,  d = -1 .. 9: in front of the log, on each live transaction, on the transaction the replay
stops at, on the s_sequence the replay leaves, and on each transaction of the second life of the log.

A journal = {"cfg": {L, csum, b64, async, nb [, tb]}, "jsb": {start, seq}, "nr": 1, "fs0": [v per block], "log": [...],
             "hist": [{seq, chunks, tags, rev, valid, at, len, wr, time, hassum}], "conc": {first, uuid_mode, junk_mode},
             "stratum": {...}}"""
import random, copy

STALEV = 9000
BADCS = -2
JUNK = {"t": "junk"}

DAMAGE_KINDS = ["none", "partial", "ctl_junk", "ctl_stale", "ctl_wrongseq", "ctl_badcsum", "tag_badcsum", "data_junk",
                "data_stale", "v1_badsum", "v1_descid", "oldtime_badcsum", "two_commit_badcsum", "two_mixed"]
TID_KINDS = ["small", "u", "s"]
TID_POS = list(range(-1, 10))       # 3 x 11 = 33 strata: co-prime with the 14 x 16 of damage kind x feature configuration


def tid_stratum(t, seq0):
    """Stratum number t -> (label, base as a 32-bit value) for a journal whose journal superblock announces offset seq0."""
    kind = TID_KINDS[t % len(TID_KINDS)]
    d = TID_POS[(t // len(TID_KINDS)) % len(TID_POS)]
    if kind == "small":
        b = max(0, d - 4)
        return "small%d" % b, b
    z = seq0 + d
    return "%s%+d" % (kind, d), ((0 if kind == "u" else 0x80000000) - z) & 0xFFFFFFFF


CONFIGS = [dict(csum=c, b64=b, **{"async": a}) for c in (0, 1, 2, 3) for b in (0, 1) for a in (0, 1)]


def adv(L, p, n):
    return (p - 1 + n) % L + 1


def desc_of(seq, chunk, idx):
    return {"t": "desc", "seq": seq, "ok": 1, "id": 10 * seq + idx,
            "tags": [{"blk": t["blk"], "v": t["v"], "cs": t["v"], "esc": t["esc"]} for t in chunk["tags"]]}


def data_of(chunk):
    return [{"t": "data", "v": t["v"], "esc": t["esc"]} for t in chunk["tags"]]


def txn_blocks(csum, seq, chunks, time, hassum):
    out, cov = [], []
    for i, c in enumerate(chunks, 1):
        if c["t"] == "d":
            d = [desc_of(seq, c, i)] + data_of(c)
            out += d; cov += d
        else:
            out.append({"t": "revoke", "seq": seq, "ok": 1, "blks": list(c["blks"])})
    out.append({"t": "commit", "seq": seq, "ok": 1, "time": time, "hassum": hassum,
                "sum": copy.deepcopy(cov) if (csum == 1 and hassum == 1) else []})
    return out


class Gen:
    def __init__(self, rng, cfg, L, nb):
        self.rng, self.cfg, self.L, self.nb = rng, cfg, L, nb
        self.log = [dict(JUNK) for _ in range(L)]
        self.head = rng.randint(1, L)
        self.nseq = rng.choice([1, 2, 7, 100, 4000, 65535, 1000000])
        self.ver = 0
        self.fs = [0] * nb
        self.fsesc = [0] * nb
        self.hist = []
        self.jsb = {"start": 0, "seq": self.nseq}
        self.time = rng.randint(5, 50)

    def used(self):
        return sum(h["wr"] for h in self.hist)

    def make_chunks(self, maxblocks):
        """Random transaction content that fits into maxblocks log blocks (incl. the commit block)."""
        rng = self.rng
        for _ in range(50):
            ntag = rng.choice([0, 1, 1, 2, 2, 3])
            tb = rng.sample(range(1, self.nb + 1), min(ntag, self.nb))
            rv = sorted(rng.sample(range(1, self.nb + 1), rng.choice([0, 0, 1, 1, 2])))
            if not tb and not rv:
                continue
            tags = [{"blk": b, "v": self.ver + i + 1, "esc": 1 if rng.random() < 0.25 else 0} for i, b in enumerate(tb)]
            chunks = []
            if tags:
                if len(tags) >= 2 and rng.random() < 0.35:
                    k = rng.randint(1, len(tags) - 1)
                    chunks = [{"t": "d", "tags": tags[:k]}, {"t": "d", "tags": tags[k:]}]
                else:
                    chunks = [{"t": "d", "tags": tags}]
            if rv:
                chunks.insert(rng.randint(0, len(chunks)), {"t": "r", "blks": rv})
            n = sum(1 + len(c["tags"]) if c["t"] == "d" else 1 for c in chunks) + 1
            if n <= maxblocks:
                return chunks
        return None

    def chunks_of_size(self, n):
        """Transaction content that takes exactly n log blocks (incl. the commit block), or None."""
        rng = self.rng
        opts = []
        for ndesc in (1, 2):
            for nrev in (0, 1):
                ntag = n - 1 - ndesc - nrev
                if ntag < ndesc or ntag > self.nb or (ndesc == 0 and nrev == 0):
                    continue
                opts.append((ndesc, nrev, ntag))
        if n == 2:
            opts.append((0, 1, 0))
        if not opts:
            return None
        ndesc, nrev, ntag = rng.choice(opts)
        tb = rng.sample(range(1, self.nb + 1), ntag)
        tags = [{"blk": b, "v": self.ver + i + 1, "esc": 1 if rng.random() < 0.25 else 0} for i, b in enumerate(tb)]
        chunks = []
        if ndesc == 1:
            chunks = [{"t": "d", "tags": tags}]
        elif ndesc == 2:
            k = rng.randint(1, ntag - 1)
            chunks = [{"t": "d", "tags": tags[:k]}, {"t": "d", "tags": tags[k:]}]
        if nrev:
            rv = sorted(rng.sample(range(1, self.nb + 1), rng.choice([1, 1, 2])))
            chunks.insert(rng.randint(0, len(chunks)), {"t": "r", "blks": rv})
        return chunks

    def write_txn(self, partial=False, oldtime=False, size=None):
        room = self.L - self.used()
        chunks = self.make_chunks(room) if size is None else (self.chunks_of_size(size) if size <= room else None)
        if chunks is None:
            return False
        hassum = 0
        if self.cfg["csum"] == 1:
            hassum = 0 if self.rng.random() < 0.15 else 1
        self.time += self.rng.randint(0, 3)
        time = self.rng.randint(0, 3) if oldtime else self.time
        bl = txn_blocks(self.cfg["csum"], self.nseq, chunks, time, hassum)
        full = len(bl)
        upto = self.rng.randint(1, full - 1) if partial else full
        p = self.head
        for b in bl[:upto]:
            self.log[p - 1] = b
            p = adv(self.L, p, 1)
        if self.jsb["start"] == 0:
            self.jsb = {"start": self.head, "seq": self.nseq}
        tags = [t for c in chunks if c["t"] == "d" for t in c["tags"]]
        rev = [b for c in chunks if c["t"] == "r" for b in c["blks"]]
        self.hist.append({"seq": self.nseq, "chunks": chunks, "tags": tags, "rev": rev, "valid": 1 if upto == full else 0,
                          "at": self.head, "len": full, "wr": upto, "time": time, "hassum": hassum})
        self.head = adv(self.L, self.head, upto)
        self.nseq += 1
        self.ver += len(tags)
        return True

    def checkpoint(self):
        T = self.hist.pop(0)
        for t in T["tags"]:
            self.fs[t["blk"] - 1] = t["v"]
            self.fsesc[t["blk"] - 1] = t["esc"]
        if not self.hist:
            self.jsb = {"start": 0, "seq": self.nseq}
        else:
            self.jsb = {"start": self.hist[0]["at"], "seq": self.hist[0]["seq"]}

    # ---- damage (mirrors DamagedBlocks of Jbd2.tla)
    def positions(self, k, pred):
        h = self.hist[k]
        out = []
        for off in range(h["wr"]):
            p = adv(self.L, h["at"], off)
            if off not in h.setdefault("_dmg", set()) and pred(self.log[p - 1]):
                out.append((off, p))
        return out

    def damage(self, kind, k=None):
        rng, cs = self.rng, self.cfg["csum"]
        ks = list(range(len(self.hist))) if k is None else [k]
        rng.shuffle(ks)
        ctl = lambda b: b["t"] in ("desc", "revoke", "commit")
        for k in ks:
            h = self.hist[k]
            sc = h["hassum"] == 1 or h["valid"] == 0
            cand = []
            if kind == "ctl_junk":
                cand = [(o, p, dict(JUNK)) for o, p in self.positions(k, ctl)]
            elif kind == "ctl_stale":
                cand = [(o, p, dict(self.log[p - 1], seq=rng.choice([0, max(0, self.log[p - 1]["seq"] - self.L)]))) for o, p in self.positions(k, ctl)]
                cand = [c for c in cand if c[2]["seq"] != self.log[c[1] - 1]["seq"]]
            elif kind == "ctl_wrongseq":
                cand = [(o, p, dict(self.log[p - 1], seq=self.log[p - 1]["seq"] + rng.choice([1, 2]))) for o, p in self.positions(k, ctl)]
            elif kind == "ctl_badcsum" and cs in (2, 3):
                cand = [(o, p, dict(self.log[p - 1], ok=0)) for o, p in self.positions(k, ctl)]
            elif kind == "commit_badcsum" and cs in (2, 3):
                cand = [(o, p, dict(self.log[p - 1], ok=0)) for o, p in self.positions(k, lambda b: b["t"] == "commit")]
            elif kind == "descrev_badcsum" and cs in (2, 3):
                cand = [(o, p, dict(self.log[p - 1], ok=0)) for o, p in self.positions(k, lambda b: b["t"] in ("desc", "revoke"))]
            elif kind == "tag_badcsum" and cs in (2, 3):
                for o, p in self.positions(k, lambda b: b["t"] == "desc"):
                    b = copy.deepcopy(self.log[p - 1])
                    i = rng.randrange(len(b["tags"]))
                    b["tags"][i]["cs"] = BADCS
                    cand.append((o, p, b))
            elif kind in ("data_junk", "data_stale") and (cs in (2, 3) or (cs == 1 and sc)):
                for o, p in self.positions(k, lambda b: b["t"] == "data"):
                    nb = dict(JUNK) if kind == "data_junk" else {"t": "data", "v": STALEV + self.log[p - 1]["v"], "esc": 0}
                    cand.append((o, p, nb))
            elif kind == "v1_badsum" and cs == 1:
                cand = [(o, p, dict(self.log[p - 1], sum=self.log[p - 1]["sum"] + [dict(JUNK)]))
                        for o, p in self.positions(k, lambda b: b["t"] == "commit" and b["hassum"] == 1)]
            elif kind == "v1_descid" and cs == 1 and sc:
                cand = [(o, p, dict(self.log[p - 1], id=self.log[p - 1]["id"] + 5)) for o, p in self.positions(k, lambda b: b["t"] == "desc")]
            if cand:
                o, p, nb = rng.choice(cand)
                self.log[p - 1] = nb
                h["_dmg"].add(o)
                h["valid"] = 0
                return True
        return False


def sample(rng, index, tid=None):
    """Journal number `index` of the stratified stream: feature configuration x damage kind cycle deterministically,
    everything else is drawn from rng.  tid = None: tid base 0 (offsets are the tids); tid = t: stratum t of the tid base."""
    kind = DAMAGE_KINDS[index % len(DAMAGE_KINDS)]
    cfg = dict(CONFIGS[(index // len(DAMAGE_KINDS)) % len(CONFIGS)])
    # steer the configuration towards one in which the damage kind exists
    if kind in ("ctl_badcsum", "tag_badcsum", "oldtime_badcsum", "two_commit_badcsum") and cfg["csum"] not in (2, 3):
        cfg["csum"] = 2 + (index // 7) % 2
    if kind in ("v1_badsum", "v1_descid") and cfg["csum"] != 1:
        cfg["csum"] = 1
    if kind in ("data_junk", "data_stale") and cfg["csum"] == 0:
        cfg["csum"] = 1 + (index // 5) % 3
    if kind == "two_commit_badcsum":
        cfg["async"] = 1
    L = rng.choice([6, 7, 8, 9, 10, 12])
    nb = 4
    cfg["L"], cfg["nb"] = L, nb
    g = Gen(rng, cfg, L, nb)
    # an earlier life of the log: transactions that were checkpointed (stale blocks stay in the ring, fs0 moves on)
    for _ in range(rng.choice([0, 0, 1, 2, 3])):
        if g.write_txn():
            g.checkpoint()
    nlive = rng.choice([1, 2, 2, 3, 3])
    for i in range(nlive):
        last = i == nlive - 1
        g.write_txn(partial=(kind == "partial" and last), oldtime=(kind == "oldtime_badcsum" and i > 0 and rng.random() < 0.7))
    if not g.hist:
        g.write_txn()
    done = True
    if kind in ("none", "partial"):
        pass
    elif kind == "oldtime_badcsum":
        done = g.damage("descrev_badcsum") or g.damage("ctl_badcsum")
    elif kind == "two_commit_badcsum":
        done = g.damage("commit_badcsum")
        g.damage("commit_badcsum")
    elif kind == "two_mixed":
        ks = [x for x in DAMAGE_KINDS if x.startswith(("ctl_", "tag_", "data_", "v1_"))]
        done = g.damage(rng.choice(ks)) | g.damage(rng.choice(ks))
    else:
        done = g.damage(kind)
    hist = []
    for h in g.hist:
        h = {k: v for k, v in h.items() if not k.startswith("_")}
        hist.append(h)
    tidlabel = "base0"
    if tid is not None:
        tidlabel, b = tid_stratum(tid, g.jsb["seq"])
        cfg["tb"] = {"hi": b >> 16, "lo": b & 0xFFFF}
    return {"cfg": cfg, "jsb": g.jsb, "nr": 1, "fs0": list(g.fs), "fs0esc": list(g.fsesc), "log": g.log, "hist": hist,
            "conc": {"first": rng.choice([1, 1, 2, 5]), "uuid_mode": rng.choice(["first", "first", "all"]),
                     "junk_mode": rng.choice(["zero", "noise"])},
            "stratum": {"kind": kind if done else kind + "(n/a)", "csum": cfg["csum"], "b64": cfg["b64"], "async": cfg["async"], "tid": tidlabel}}


# ------------------------------------------------------------------ second life of the log (spec/Jbd2Gen.tla)
GEN2_KINDS = ["none", "none", "partial", "none", "ctl_junk", "partial", "ctl_wrongseq", "ctl_badcsum", "data_stale", "ctl_stale", "tag_badcsum", "v1_badsum"]
GEN2_ALIGN = ["tid", "commit", "free"]


def ring_tids(log):
    return [r["seq"] for r in log if r["t"] in ("desc", "revoke", "commit")]


def next_tid(j):
    """Tid following the last transaction of the valid prefix (NextTidOf of Jbd2.tla)."""
    if j["jsb"]["start"] == 0:
        return j["jsb"]["seq"]
    n = 0
    for h in j["hist"]:
        if not h["valid"]:
            break
        n += 1
    return j["jsb"]["seq"] + n


def sequential_ring(j):
    """The ring-part of RestartableOf (Jbd2Gen.tla): no control block carries a tid beyond the transaction the replay
    stops at.  Only used to avoid tool runs TLC would skip anyway; TLC decides (TRestart / TSkipRestart)."""
    return all(t < next_tid(j) + 1 for t in ring_tids(j["log"]))


def continue_journal(rng, j, obs, jsb_seen, index):
    """The journal j was replayed: target blocks now hold versions `obs`, the journal superblock found on the image is
    jsb_seen = {start: 0, seq}.  Continue like Restart / Overwrite / WriteTxn / Damage of Jbd2Gen.tla: the log restarts
    at ring position 1 with tid jsb_seen.seq + skew, the old blocks stay in the ring.  Strata cycle with `index`:
    skew 0/1 x alignment (boundary catalogue below / anywhere) x damage kind."""
    cfg = dict(j["cfg"])
    L, nb = cfg["L"], cfg["nb"]
    skew = index % 2
    align = GEN2_ALIGN[(index // 2) % len(GEN2_ALIGN)]
    kind = GEN2_KINDS[(index // 6) % len(GEN2_KINDS)]
    escof = dict(versions(j))
    g = Gen.__new__(Gen)
    g.rng, g.cfg, g.L, g.nb = rng, cfg, L, nb
    g.log = copy.deepcopy(j["log"])
    g.head = 1
    g.nseq = jsb_seen["seq"] + skew
    g.ver = max([v for v in escof if v < STALEV] + [0])
    g.fs = list(obs)
    g.fsesc = [escof.get(v, 0) for v in obs]
    g.hist = []
    g.jsb = {"start": 0, "seq": jsb_seen["seq"]}
    g.time = max([r["time"] for r in j["log"] if r["t"] == "commit"] + [5]) + rng.randint(0, 3)
    # in-place rewrites (not journalled), preferably of blocks that transactions of the first life logged
    logged = sorted({t["blk"] for h in j["hist"] for t in h["tags"]})
    over = []
    for _ in range(rng.choice([0, 1, 1, 2])):
        b = rng.choice(logged) if logged and rng.random() < 0.8 else rng.randint(1, nb)
        if b in over:
            continue
        g.ver += 1
        g.fs[b - 1] = g.ver
        g.fsesc[b - 1] = 1 if rng.random() < 0.2 else 0
        over.append(b)
    # new transactions from ring position 1.  Boundary catalogue of the mechanism "sequence numbers keep old blocks dead":
    # the new log runs into an old control block at ring position p whose tid t continues the new log's numbering IF the new
    # log had been numbered from a stale base (the old s_sequence, or the tid the replay stopped at):
    #   "tid"     k complete new transactions fill positions 1..p-1 and an old descriptor/revoke block with t = base + skew + k sits at p
    #   "commit"  the last of k new transactions is cut short, and where its commit block belongs sits an old commit block
    #             with t = base + skew + k - 1
    # With a correctly advanced s_sequence none of these blocks is sequence-consistent; the second replay must stop in front of them.
    S0, NT = j["jsb"]["seq"], next_tid(j)
    cands = {"tid": [], "commit": []}
    for p in range(2, L + 1):
        r = j["log"][p - 1]
        if r["t"] not in ("desc", "revoke", "commit"):
            continue
        for base in {S0, NT}:
            k = r["seq"] - base - skew + (1 if r["t"] == "commit" else 0)
            n = p if r["t"] == "commit" else p - 1          # log blocks the k transactions take (incl. the missing commit block)
            if k >= 1 and 2 * k <= n <= k * (nb + 4):
                cands["commit" if r["t"] == "commit" else "tid"].append((k, n))
    sizes = None
    order = [align] + [a for a in ("tid", "commit") if a != align] if align != "free" else []
    for a in order:
        if cands[a]:
            k, n = rng.choice(sorted(set(cands[a])))
            sizes = [2] * k                                 # random composition of n into k parts of 2..nb+4
            for _ in range(n - 2 * k):
                sizes[rng.choice([x for x in range(k) if sizes[x] < nb + 4])] += 1
            rng.shuffle(sizes)
            if a != align:
                align = a + "(for " + align + ")"
            if a == "commit":
                kind = "partial"
            break
    if sizes is None:
        if align != "free":
            align = "free(n/a)"
        sizes = [None] * rng.choice([1, 1, 2, 2, 3])
    for i, sz in enumerate(sizes):
        last = i == len(sizes) - 1
        if not g.write_txn(partial=(kind == "partial" and last), size=sz) and sz is not None:
            g.write_txn(partial=(kind == "partial" and last))
    if not g.hist:
        return None
    done = True
    if kind not in ("none", "partial"):
        done = g.damage(kind)
    hist = [{k: v for k, v in h.items() if not k.startswith("_")} for h in g.hist]
    written = sorted({adv(L, h["at"], o) for h in hist for o in range(h["wr"])})
    return {"cfg": cfg, "jsb": g.jsb, "nr": 1, "fs0": list(g.fs), "fs0esc": list(g.fsesc), "log": g.log, "hist": hist,
            "skew": skew, "over": over, "written": written, "conc": j["conc"],
            "stratum": {"kind": kind if done else kind + "(n/a)", "align": align, "skew": skew,
                        "csum": cfg["csum"], "b64": cfg["b64"], "async": cfg["async"]}}


def versions(j):
    """(v, esc) pairs that may legitimately appear in a target block of journal j (for reading results back)."""
    out = {(0, 0)}
    for v, e in zip(j["fs0"], j["fs0esc"]):
        out.add((v, e))
    def walk(rec):
        if rec["t"] == "data":
            out.add((rec["v"], rec["esc"]))
        if rec["t"] == "desc":
            for t in rec["tags"]:
                out.add((t["v"], t["esc"]))
    for r in j["log"]:
        walk(r)
    for h in j["hist"]:
        for t in h["tags"]:
            out.add((t["v"], t["esc"]))
    return out
