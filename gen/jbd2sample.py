"""Seeded, stratified sampler of abstract journals inside the universe of spec/Jbd2.tla (same block records, same
transaction layout TxnBlocks, same damage catalogue DamagedBlocks).  Trace_Jbd2 re-checks every sampled journal
against the spec's own definitions (GroundTruthSound), so a slip here is a rejected trace, not a wrong verdict.

A journal = {"cfg": {L, csum, b64, async, nb}, "jsb": {start, seq}, "nr": 1, "fs0": [v per block], "log": [...],
             "hist": [{seq, chunks, tags, rev, valid, at, len, wr, time, hassum}], "conc": {first, uuid_mode, junk_mode},
             "stratum": {...}}"""
import random, copy

STALEV = 9000
BADCS = -2
JUNK = {"t": "junk"}

DAMAGE_KINDS = ["none", "partial", "ctl_junk", "ctl_stale", "ctl_wrongseq", "ctl_badcsum", "tag_badcsum", "data_junk",
                "data_stale", "v1_badsum", "v1_descid", "oldtime_badcsum", "two_commit_badcsum", "two_mixed"]
CONFIGS = [dict(csum=c, b64=b, **{"async": a}) for c in (0, 1, 2, 3) for b in (0, 1) for a in (0, 1)]


def adv(L, p, n):
    return (p - 1 + n) % L + 1


def desc_of(seq, chunk, idx):
    return {"t": "desc", "seq": seq, "ok": 1, "id": 10 * seq + idx,
            "tags": [{"blk": t["blk"], "v": t["v"], "cs": t["v"], "esc": t["esc"]} for t in chunk["tags"]]}


def data_of(chunk):
    return [{"t": "data", "v": t["v"], "esc": t["esc"]} for t in chunk["tags"]]


def txn_blocks(csum, seq, chunks, time, hassum):
    out, cov = [], []
    for i, c in enumerate(chunks, 1):
        if c["t"] == "d":
            d = [desc_of(seq, c, i)] + data_of(c)
            out += d; cov += d
        else:
            out.append({"t": "revoke", "seq": seq, "ok": 1, "blks": list(c["blks"])})
    out.append({"t": "commit", "seq": seq, "ok": 1, "time": time, "hassum": hassum,
                "sum": copy.deepcopy(cov) if (csum == 1 and hassum == 1) else []})
    return out


class Gen:
    def __init__(self, rng, cfg, L, nb):
        self.rng, self.cfg, self.L, self.nb = rng, cfg, L, nb
        self.log = [dict(JUNK) for _ in range(L)]
        self.head = rng.randint(1, L)
        self.nseq = rng.choice([1, 2, 7, 100, 4000, 65535, 1000000])
        self.ver = 0
        self.fs = [0] * nb
        self.fsesc = [0] * nb
        self.hist = []
        self.jsb = {"start": 0, "seq": self.nseq}
        self.time = rng.randint(5, 50)

    def used(self):
        return sum(h["wr"] for h in self.hist)

    def make_chunks(self, maxblocks):
        """Random transaction content that fits into maxblocks log blocks (incl. the commit block)."""
        rng = self.rng
        for _ in range(50):
            ntag = rng.choice([0, 1, 1, 2, 2, 3])
            tb = rng.sample(range(1, self.nb + 1), min(ntag, self.nb))
            rv = sorted(rng.sample(range(1, self.nb + 1), rng.choice([0, 0, 1, 1, 2])))
            if not tb and not rv:
                continue
            tags = [{"blk": b, "v": self.ver + i + 1, "esc": 1 if rng.random() < 0.25 else 0} for i, b in enumerate(tb)]
            chunks = []
            if tags:
                if len(tags) >= 2 and rng.random() < 0.35:
                    k = rng.randint(1, len(tags) - 1)
                    chunks = [{"t": "d", "tags": tags[:k]}, {"t": "d", "tags": tags[k:]}]
                else:
                    chunks = [{"t": "d", "tags": tags}]
            if rv:
                chunks.insert(rng.randint(0, len(chunks)), {"t": "r", "blks": rv})
            n = sum(1 + len(c["tags"]) if c["t"] == "d" else 1 for c in chunks) + 1
            if n <= maxblocks:
                return chunks
        return None

    def write_txn(self, partial=False, oldtime=False):
        room = self.L - self.used()
        chunks = self.make_chunks(room)
        if chunks is None:
            return False
        hassum = 0
        if self.cfg["csum"] == 1:
            hassum = 0 if self.rng.random() < 0.15 else 1
        self.time += self.rng.randint(0, 3)
        time = self.rng.randint(0, 3) if oldtime else self.time
        bl = txn_blocks(self.cfg["csum"], self.nseq, chunks, time, hassum)
        full = len(bl)
        upto = self.rng.randint(1, full - 1) if partial else full
        p = self.head
        for b in bl[:upto]:
            self.log[p - 1] = b
            p = adv(self.L, p, 1)
        if self.jsb["start"] == 0:
            self.jsb = {"start": self.head, "seq": self.nseq}
        tags = [t for c in chunks if c["t"] == "d" for t in c["tags"]]
        rev = [b for c in chunks if c["t"] == "r" for b in c["blks"]]
        self.hist.append({"seq": self.nseq, "chunks": chunks, "tags": tags, "rev": rev, "valid": 1 if upto == full else 0,
                          "at": self.head, "len": full, "wr": upto, "time": time, "hassum": hassum})
        self.head = adv(self.L, self.head, upto)
        self.nseq += 1
        self.ver += len(tags)
        return True

    def checkpoint(self):
        T = self.hist.pop(0)
        for t in T["tags"]:
            self.fs[t["blk"] - 1] = t["v"]
            self.fsesc[t["blk"] - 1] = t["esc"]
        if not self.hist:
            self.jsb = {"start": 0, "seq": self.nseq}
        else:
            self.jsb = {"start": self.hist[0]["at"], "seq": self.hist[0]["seq"]}

    # ---- damage (mirrors DamagedBlocks of Jbd2.tla)
    def positions(self, k, pred):
        h = self.hist[k]
        out = []
        for off in range(h["wr"]):
            p = adv(self.L, h["at"], off)
            if off not in h.setdefault("_dmg", set()) and pred(self.log[p - 1]):
                out.append((off, p))
        return out

    def damage(self, kind, k=None):
        rng, cs = self.rng, self.cfg["csum"]
        ks = list(range(len(self.hist))) if k is None else [k]
        rng.shuffle(ks)
        ctl = lambda b: b["t"] in ("desc", "revoke", "commit")
        for k in ks:
            h = self.hist[k]
            sc = h["hassum"] == 1 or h["valid"] == 0
            cand = []
            if kind == "ctl_junk":
                cand = [(o, p, dict(JUNK)) for o, p in self.positions(k, ctl)]
            elif kind == "ctl_stale":
                cand = [(o, p, dict(self.log[p - 1], seq=rng.choice([0, max(0, self.log[p - 1]["seq"] - self.L)]))) for o, p in self.positions(k, ctl)]
                cand = [c for c in cand if c[2]["seq"] != self.log[c[1] - 1]["seq"]]
            elif kind == "ctl_wrongseq":
                cand = [(o, p, dict(self.log[p - 1], seq=self.log[p - 1]["seq"] + rng.choice([1, 2]))) for o, p in self.positions(k, ctl)]
            elif kind == "ctl_badcsum" and cs in (2, 3):
                cand = [(o, p, dict(self.log[p - 1], ok=0)) for o, p in self.positions(k, ctl)]
            elif kind == "commit_badcsum" and cs in (2, 3):
                cand = [(o, p, dict(self.log[p - 1], ok=0)) for o, p in self.positions(k, lambda b: b["t"] == "commit")]
            elif kind == "descrev_badcsum" and cs in (2, 3):
                cand = [(o, p, dict(self.log[p - 1], ok=0)) for o, p in self.positions(k, lambda b: b["t"] in ("desc", "revoke"))]
            elif kind == "tag_badcsum" and cs in (2, 3):
                for o, p in self.positions(k, lambda b: b["t"] == "desc"):
                    b = copy.deepcopy(self.log[p - 1])
                    i = rng.randrange(len(b["tags"]))
                    b["tags"][i]["cs"] = BADCS
                    cand.append((o, p, b))
            elif kind in ("data_junk", "data_stale") and (cs in (2, 3) or (cs == 1 and sc)):
                for o, p in self.positions(k, lambda b: b["t"] == "data"):
                    nb = dict(JUNK) if kind == "data_junk" else {"t": "data", "v": STALEV + self.log[p - 1]["v"], "esc": 0}
                    cand.append((o, p, nb))
            elif kind == "v1_badsum" and cs == 1:
                cand = [(o, p, dict(self.log[p - 1], sum=self.log[p - 1]["sum"] + [dict(JUNK)]))
                        for o, p in self.positions(k, lambda b: b["t"] == "commit" and b["hassum"] == 1)]
            elif kind == "v1_descid" and cs == 1 and sc:
                cand = [(o, p, dict(self.log[p - 1], id=self.log[p - 1]["id"] + 5)) for o, p in self.positions(k, lambda b: b["t"] == "desc")]
            if cand:
                o, p, nb = rng.choice(cand)
                self.log[p - 1] = nb
                h["_dmg"].add(o)
                h["valid"] = 0
                return True
        return False


def sample(rng, index):
    """Journal number `index` of the stratified stream: feature configuration x damage kind cycle deterministically,
    everything else is drawn from rng."""
    kind = DAMAGE_KINDS[index % len(DAMAGE_KINDS)]
    cfg = dict(CONFIGS[(index // len(DAMAGE_KINDS)) % len(CONFIGS)])
    # steer the configuration towards one in which the damage kind exists
    if kind in ("ctl_badcsum", "tag_badcsum", "oldtime_badcsum", "two_commit_badcsum") and cfg["csum"] not in (2, 3):
        cfg["csum"] = 2 + (index // 7) % 2
    if kind in ("v1_badsum", "v1_descid") and cfg["csum"] != 1:
        cfg["csum"] = 1
    if kind in ("data_junk", "data_stale") and cfg["csum"] == 0:
        cfg["csum"] = 1 + (index // 5) % 3
    if kind == "two_commit_badcsum":
        cfg["async"] = 1
    L = rng.choice([6, 7, 8, 9, 10, 12])
    nb = 4
    cfg["L"], cfg["nb"] = L, nb
    g = Gen(rng, cfg, L, nb)
    # an earlier life of the log: transactions that were checkpointed (stale blocks stay in the ring, fs0 moves on)
    for _ in range(rng.choice([0, 0, 1, 2, 3])):
        if g.write_txn():
            g.checkpoint()
    nlive = rng.choice([1, 2, 2, 3, 3])
    for i in range(nlive):
        last = i == nlive - 1
        g.write_txn(partial=(kind == "partial" and last), oldtime=(kind == "oldtime_badcsum" and i > 0 and rng.random() < 0.7))
    if not g.hist:
        g.write_txn()
    done = True
    if kind in ("none", "partial"):
        pass
    elif kind == "oldtime_badcsum":
        done = g.damage("descrev_badcsum") or g.damage("ctl_badcsum")
    elif kind == "two_commit_badcsum":
        done = g.damage("commit_badcsum")
        g.damage("commit_badcsum")
    elif kind == "two_mixed":
        ks = [x for x in DAMAGE_KINDS if x.startswith(("ctl_", "tag_", "data_", "v1_"))]
        done = g.damage(rng.choice(ks)) | g.damage(rng.choice(ks))
    else:
        done = g.damage(kind)
    hist = []
    for h in g.hist:
        h = {k: v for k, v in h.items() if not k.startswith("_")}
        hist.append(h)
    return {"cfg": cfg, "jsb": g.jsb, "nr": 1, "fs0": list(g.fs), "fs0esc": list(g.fsesc), "log": g.log, "hist": hist,
            "conc": {"first": rng.choice([1, 1, 2, 5]), "uuid_mode": rng.choice(["first", "first", "all"]),
                     "junk_mode": rng.choice(["zero", "noise"])},
            "stratum": {"kind": kind if done else kind + "(n/a)", "csum": cfg["csum"], "b64": cfg["b64"], "async": cfg["async"]}}


def versions(j):
    """(v, esc) pairs that may legitimately appear in a target block of journal j (for reading results back)."""
    out = {(0, 0)}
    for v, e in zip(j["fs0"], j["fs0esc"]):
        out.add((v, e))
    def walk(rec):
        if rec["t"] == "data":
            out.add((rec["v"], rec["esc"]))
        if rec["t"] == "desc":
            for t in rec["tags"]:
                out.add((t["v"], t["esc"]))
    for r in j["log"]:
        walk(r)
    for h in j["hist"]:
        for t in h["tags"]:
            out.add((t["v"], t["esc"]))
    return out
