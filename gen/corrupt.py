"""Concretiser of the corruption catalogue (spec/Corrupt.tla, DESIGN.md Appendix A.3).

    universe(work)                -> {"catalogue": [recipe...], "pairseeds": [...]}   enumerated by TLC (Emit_Corrupt)
    Base(path)                    -> a base image: bytes + the reader's projection + role bindings
    Base.patches(recipe)          -> list of (offset, bytes) or None when the recipe does not bind on this image
                                     (role absent in the profile, field absent in the object, new value = old value)
    Base.apply(recipes, out_path) -> writes the corrupted copy; returns False if a recipe does not bind

A recipe is {"role","field","vc","csum"}; a multi-field corruption is a list of recipes applied in order.
Every object is located through the reader's location map (`loc`); field offsets inside an object come from the format
headers (ext2_fs.h, ext3_extents.h, ext2_ext_attr.h, kernel-jbd.h); "csum":"fix" recomputes the object's stored checksum
with the reader's own crc32c/crc16 (self-tested by selftest(): recomputing on the pristine object is the identity).
Nothing of libext2fs is used.
"""
import os, sys, json, struct, hashlib
HERE = os.path.dirname(os.path.abspath(__file__))
VERIF = os.path.dirname(HERE)
for p in (os.path.join(VERIF, "lib"), os.path.join(VERIF, "reader")):
    if p not in sys.path:
        sys.path.insert(0, p)
import ext4read
from ext4read import crc32c, crc16

MASK = 0xFFFFFFFF
SPEC = os.path.join(VERIF, "spec")


def universe(work):
    """Ask TLC for the catalogue (cached in `work` by the hash of the specification)."""
    import tlc as T
    h = hashlib.sha256(open(os.path.join(SPEC, "Corrupt.tla"), "rb").read() +
                       open(os.path.join(SPEC, "Emit_Corrupt.tla"), "rb").read()).hexdigest()[:12]
    out = os.path.join(work, "catalogue-%s.json" % h)
    r = None
    if not os.path.exists(out):
        tmp = out + ".%d" % os.getpid()
        r = T.tlc(os.path.join(SPEC, "Emit_Corrupt.tla"), os.path.join(SPEC, "Emit_Corrupt.cfg"), workers=1, timeout=300,
                  env={"OUT": tmp}, xmx="2g")
        if r.rc != 0 or not os.path.exists(tmp):
            raise RuntimeError("TLC could not enumerate the catalogue: %s" % r.out[-1500:])
        os.replace(tmp, out)
    d = json.load(open(out))
    d["catalogue"].sort(key=rkey)
    d["pairseeds"].sort(key=lambda s: (s["role"], s["field"], s["vc"]))
    return d, r


def rkey(r):
    return (r["role"], r["field"], r["vc"], r.get("csum", "fix"))


def rname(r):
    if isinstance(r, (list, tuple)):
        return "+".join(rname(x) for x in r)
    return "%s.%s.%s.%s" % (r["role"], r["field"], r["vc"], r.get("csum", "fix"))


def triples(U):
    return [[dict(x, csum="fix") for x in t] for t in U.get("triples", [])]


def relocs(U):
    """Corrupt.tla!C02Closed: bitmap pointer of an unread group redirected onto fixed metadata + bookkeeping (Relocs), and the
    entries of the resize inode's reserved-GDT map (ResizeMap); checksums recomputed"""
    out = [[dict(x, csum="fix") for x in t] for t in U.get("c02_closed", [])]
    out.sort(key=lambda t: [rkey(x) for x in t])
    return out


def bounds(U):
    """Corrupt.tla!C02Bounds: high halves and exact range boundaries, single fields, checksum recomputed (C02 only)"""
    return sorted(([dict(x, csum="fix")] for x in U.get("c02_bounds", [])), key=lambda t: rkey(t[0]))


def extra_recipes(U):
    """Corrupt.tla!ExtraHashRecipes / ExtraSbRecipes: superblock recipes bound on C02's tool-built htree images
    -> (image names, mandatory recipes, sampled recipes), checksum recomputed"""
    x = U.get("c02_extras", {})
    mand = sorted(([dict(r, csum="fix")] for r in x.get("hash", [])), key=lambda t: rkey(t[0]))
    rest = sorted(([dict(r, csum="fix")] for r in x.get("sb", [])), key=lambda t: rkey(t[0]))
    return sorted(x.get("images", [])), mand, rest


def pairs(pairseeds):
    """one order per unordered pair of the seeds of Corrupt.tla!Pairs, checksum recomputed"""
    out = []
    for i, a in enumerate(pairseeds):
        for b in pairseeds[i + 1:]:
            out.append([dict(a, csum="fix"), dict(b, csum="fix")])
    return out


# ------------------------------------------------------------------------------------------------
# field tables: name -> (offset in object, width)
# ------------------------------------------------------------------------------------------------
INODE_F = {"mode": (0, 2), "size_lo": (4, 4), "dtime": (0x14, 4), "links": (0x1A, 2), "blocks_lo": (0x1C, 4), "flags": (0x20, 4),
           "generation": (0x64, 4), "file_acl": (0x68, 4), "size_hi": (0x6C, 4), "blocks_hi": (0x74, 2), "csum_lo": (0x7C, 2),
           "extra_isize": (0x80, 2), "csum_hi": (0x82, 2),
           # high parts in osd2 (linux2): Corrupt.tla!InodeHi
           "file_acl_hi": (0x76, 2), "uid_hi": (0x78, 2), "gid_hi": (0x7A, 2)}
IB = 0x28
EXT_F = {"eh_magic": (0, 2), "eh_entries": (2, 2), "eh_max": (4, 2), "eh_depth": (6, 2)}
FLAG_BITS = {"tog_extents": 0x80000, "tog_index": 0x1000, "tog_inline": 0x10000000, "tog_ea_inode": 0x200000, "tog_huge": 0x40000,
             "tog_immutable": 0x10, "tog_casefold": 0x40000000}
MODE_T = {"t_dir": 0o040000, "t_reg": 0o100000, "t_lnk": 0o120000, "t_chr": 0o020000, "t_fifo": 0o010000, "t_zero": 0, "t_bad": 0o150000}
SB_F = {"s_inodes_count": (0, 4), "s_blocks_count": (4, 4), "s_free_blocks": (0xC, 4), "s_free_inodes": (0x10, 4),
        "s_first_data_block": (0x14, 4), "s_log_block_size": (0x18, 4), "s_log_cluster_size": (0x1C, 4), "s_blocks_per_group": (0x20, 4),
        "s_inodes_per_group": (0x28, 4), "s_magic": (0x38, 2), "s_state": (0x3A, 2), "s_rev_level": (0x4C, 4), "s_first_ino": (0x54, 4),
        "s_inode_size": (0x58, 2), "s_feature_compat": (0x5C, 4), "s_feature_incompat": (0x60, 4), "s_feature_ro_compat": (0x64, 4),
        "s_reserved_gdt_blocks": (0xCE, 2), "s_journal_inum": (0xE0, 4), "s_last_orphan": (0xE8, 4), "s_desc_size": (0xFE, 2),
        "s_first_meta_bg": (0x104, 4), "s_min_extra_isize": (0x15C, 2), "s_mmp_block": (0x168, 4), "s_log_groups_per_flex": (0x174, 1),
        "s_checksum_type": (0x175, 1), "s_usr_quota_inum": (0x240, 4), "s_grp_quota_inum": (0x244, 4), "s_backup_bgs0": (0x24C, 4),
        "s_checksum_seed": (0x270, 4), "s_orphan_file_inum": (0x280, 4), "s_checksum": (0x3FC, 4),
        # the fields that select the directory hash (Corrupt.tla!HashSelect)
        "s_def_hash_version": (0xFC, 1), "s_flags": (0x160, 4)}
HASH_VERSION_V = {"hv_legacy": 0, "hv_half_md4": 1, "hv_tea": 2, "hv_legacy_unsigned": 3, "hv_half_md4_unsigned": 4, "hv_tea_unsigned": 5,
                  "hv_siphash": 6, "hv_beyond": 7, "max": 255}
SB_BITS = {"s_feature_compat": {"tog_has_journal": 0x4, "tog_ext_attr": 0x8, "tog_resize_inode": 0x10, "tog_dir_index": 0x20,
                                "tog_sparse_super2": 0x200, "tog_orphan_file": 0x1000, "tog_unknown": 0x40000000},
           "s_feature_incompat": {"tog_filetype": 0x2, "tog_recover": 0x4, "tog_meta_bg": 0x10, "tog_extents": 0x40, "tog_64bit": 0x80,
                                  "tog_flex_bg": 0x200, "tog_ea_inode": 0x400, "tog_csum_seed": 0x2000, "tog_inline_data": 0x8000,
                                  "tog_unknown": 0x40000000},
           "s_feature_ro_compat": {"tog_sparse_super": 0x1, "tog_large_file": 0x2, "tog_huge_file": 0x8, "tog_gdt_csum": 0x10,
                                   "tog_dir_nlink": 0x20, "tog_extra_isize": 0x40, "tog_quota": 0x100, "tog_bigalloc": 0x200,
                                   "tog_metadata_csum": 0x400, "tog_project": 0x2000, "tog_orphan_present": 0x10000,
                                   "tog_unknown": 0x40000000},
           "s_state": {"tog_error": 2, "tog_orphan": 4},
           "s_flags": {"tog_signed_hash": 1, "tog_unsigned_hash": 2, "tog_both_hash": 3, "tog_test_fs": 4, "tog_unknown": 0x40000000}}
GD_F = {"bg_block_bitmap": (0, 4), "bg_inode_bitmap": (4, 4), "bg_inode_table": (8, 4), "bg_free_blocks": (0xC, 2),
        "bg_free_inodes": (0xE, 2), "bg_used_dirs": (0x10, 2), "bg_flags": (0x12, 2), "bg_bb_csum": (0x18, 2), "bg_ib_csum": (0x1A, 2),
        "bg_itable_unused": (0x1C, 2), "bg_checksum": (0x1E, 2)}
# the second half of a 64-byte descriptor (64bit only): Corrupt.tla!GroupDescHi
GD_HI_F = {"bg_block_bitmap_hi": (0x20, 4), "bg_inode_bitmap_hi": (0x24, 4), "bg_inode_table_hi": (0x28, 4), "bg_free_blocks_hi": (0x2C, 2),
           "bg_free_inodes_hi": (0x2E, 2), "bg_used_dirs_hi": (0x30, 2), "bg_itable_unused_hi": (0x32, 2), "bg_bb_csum_hi": (0x38, 2),
           "bg_ib_csum_hi": (0x3A, 2)}
BLK_BOUND_V = ("last_valid", "first_invalid", "first_data", "below_first_data")
INO_BOUND_V = ("inodes_count", "inodes_count_p1", "first_ino_m1")
GD_BITS = {"tog_inode_uninit": 1, "tog_block_uninit": 2, "tog_zeroed": 4, "tog_unknown": 0x80}
JSB_F = {"j_magic": (0, 4), "j_blocktype": (4, 4), "j_blocksize": (0xC, 4), "j_maxlen": (0x10, 4), "j_first": (0x14, 4),
         "j_sequence": (0x18, 4), "j_start": (0x1C, 4), "j_errno": (0x20, 4), "j_feature_incompat": (0x28, 4), "j_feature_ro": (0x2C, 4),
         "j_nr_users": (0x40, 4), "j_checksum": (0xFC, 4)}
JSB_BITS = {"tog_unknown": 0x40000000, "tog_csum_v3": 0x10, "tog_64bit": 0x2}
X_F = {"x_magic": (0, 4), "x_refcount": (4, 4), "x_blocks": (8, 4), "x_hash": (12, 4), "x_csum": (16, 4)}
XE_F = {"name_len": (0, 1), "name_index": (1, 1), "value_offs": (2, 2), "value_inum": (4, 4), "value_size": (8, 4), "hash": (12, 4)}


class NoBind(Exception):
    pass


def intval(vc, old, width):
    m = (1 << (8 * width)) - 1
    if vc == "zero": return 0
    if vc == "one": return 1
    if vc == "plus1": return (old + 1) & m
    if vc == "plus4": return (old + 4) & m
    if vc == "minus1": return (old - 1) & m
    if vc == "minus4": return (old - 4) & m
    if vc == "max": return m
    if vc == "times2": return (old * 2) & m
    if vc == "odd": return old | 1
    if vc == "eight": return 8
    raise NoBind("value class %s" % vc)


class Base:
    def __init__(self, path, P=None):
        self.path = path
        self.raw = bytearray(open(path, "rb").read())      # bind() patches in place and restores
        self.P = P if P is not None else ext4read.project(path)
        if "fatal" in self.P:
            raise RuntimeError("base image %s unreadable: %s" % (path, self.P["fatal"]))
        P = self.P
        self.geo = P["geo"]
        self.bs = self.geo["bs"]
        self.loc = P["loc"]
        self.ino = {i["ino"]: i for i in P["inodes"]}
        self.meta_csum = "metadata_csum" in self.geo["features"]
        self.gdt_csum = "uninit_bg" in self.geo["features"] or "gdt_csum" in self.geo["features"]
        self.has64 = "64bit" in self.geo["features"]
        self.dsize = self.geo["dsize"] if self.has64 else 32
        self.seed = int(P["sb"]["seed"], 16) if self.meta_csum else 0
        self.uuid = bytes.fromhex(P["sb"]["uuid"])
        self.path_ino = {}
        for t in P["tree"]:
            self.path_ino.setdefault(t["path"], t["ino"])
        self.dirs = {d["dir"]: d for d in P["dirs"]}
        self._roles()

    # ---- role binding -------------------------------------------------------------------------------
    def _roles(self):
        P, pi = self.P, self.path_ino
        R = {"root": 2}
        for role, path in (("lpf", "/lost+found"), ("dir_htree", "/deep"), ("dir_lin", "/lin"), ("dir_small", "/lin/sub/subsub"),
                           ("file_big", "/big300k"), ("file_sparse", "/sparse7"), ("file_small", "/hello.txt"), ("file_xattr", "/medium"),
                           ("lnk_fast", "/fastlink"), ("lnk_slow", "/slowlink"), ("chr", "/chr"), ("fifo", "/fifo")):
            if path in pi:
                R[role] = pi[path]
        if "/tiny20" in pi and self.ino[pi["/tiny20"]].get("inline"):
            R["file_inline"] = pi["/tiny20"]
        sb = P["sb"]
        if sb.get("journal_inum"): R["journal"] = sb["journal_inum"]
        if "resize_inode" in self.geo["features"] and 7 in self.ino and self.ino[7]["links"]: R["resize"] = 7
        if sb.get("usr_quota"): R["quota_usr"] = sb["usr_quota"]
        if sb.get("grp_quota"): R["quota_grp"] = sb["grp_quota"]
        if sb.get("orphan_file_ino"): R["orphan_file"] = sb["orphan_file_ino"]
        ea = [i["ino"] for i in P["inodes"] if i.get("ea_inode") and i["links"]]
        if ea: R["ea_inode"] = ea[0]
        used = set(i["ino"] for i in P["inodes"] if i["links"] or i["ino"] < self.geo["first_ino"])
        free = [n for n in range(self.geo["first_ino"], self.geo["inodes"] + 1) if n not in used and str(n) in self.loc.get("inode", {})]
        self.free_ino = None
        for n in range(self.geo["inodes"], self.geo["first_ino"], -1):
            if n not in used:
                self.free_ino = n; break
        # a free inode whose slot lies in an initialised part of the table (the reader located it) -- else the first free one
        allfree = [n for n in range(self.geo["first_ino"], self.geo["inodes"] + 1) if n not in used]
        if allfree: R["free_inode"] = allfree[0]
        self.R = R
        self.used_inos = used

    # ---- helpers ------------------------------------------------------------------------------------
    def rd(self, buf, off, w):
        return int.from_bytes(buf[off:off + w], "little")

    def inode_off(self, ino):
        o = self.loc.get("inode", {}).get(str(ino))
        if o is None:
            g = (ino - 1) // self.geo["ipg"]; idx = (ino - 1) % self.geo["ipg"]
            o = self.P["gd"][g]["it"] * self.bs + idx * self.geo["isize"]
        return o

    def inode_seed(self, buf, ino):
        off = self.inode_off(ino)
        c = crc32c(self.seed, struct.pack("<I", ino))
        return crc32c(c, bytes(buf[off + 100:off + 104]))

    def some_block_of(self, ino, skip=0):
        i = self.ino.get(ino)
        if not i: return None
        bl = [b for lo, hi in i["own"]["data"] for b in range(lo, min(hi, lo + 4) + 1)]
        return bl[skip] if len(bl) > skip else None

    def blockval(self, vc, old, owner):
        """value classes of a block-number field owned by inode `owner`"""
        if vc == "zero": return 0
        if vc == "plus1": return old + 1
        if vc in BLK_BOUND_V: return self.blkbound(vc)
        if vc == "beyond": return self.geo["blocks"] + 7
        if vc == "alias_meta": return self.P["gd"][0]["it"] + 1
        if vc == "alias_other":
            for p in ("/oneblock", "/blockp1", "/medium", "/hello.txt"):
                n = self.path_ino.get(p)
                if n and n != owner:
                    b = self.some_block_of(n)
                    if b and b != old: return b
            raise NoBind("no other owner")
        if vc == "alias_self":
            for k in range(0, 6):
                b = self.some_block_of(owner, k)
                if b and b != old: return b
            raise NoBind("no second own block")
        raise NoBind(vc)

    def blkbound(self, vc):
        """exact boundaries of the range test first_data_block <= b < blocks_count (Corrupt.tla!BlkBoundV)"""
        geo = self.geo
        if geo["blocks"] >= 1 << 32: raise NoBind("block count beyond 32 bits")
        if vc == "last_valid": return geo["blocks"] - 1
        if vc == "first_invalid": return geo["blocks"]
        if vc == "first_data": return geo["first"]
        if vc == "below_first_data":
            if geo["first"] == 0: raise NoBind("first_data_block = 0")
            return geo["first"] - 1
        raise NoBind(vc)

    def inobound(self, vc):
        """exact boundaries of the range test first_ino <= n <= inodes_count (Corrupt.tla!InoBoundV)"""
        if vc == "inodes_count": return self.geo["inodes"]
        if vc == "inodes_count_p1": return self.geo["inodes"] + 1
        if vc == "first_ino_m1": return self.geo["first_ino"] - 1
        raise NoBind(vc)

    def unread_group(self, kind):
        """lowest-numbered group (not group 0) whose inode / block bitmap the tools do not read: *_UNINIT flag set, descriptor
        checksum valid, checksum feature present"""
        if not (self.meta_csum or self.gdt_csum): raise NoBind("no uninit_bg")
        flag = "INODE_UNINIT" if kind == "ib" else "BLOCK_UNINIT"
        for d in self.P["gd"][1:]:
            if flag in d["flags"] and d["csum_ok"]:
                return d["g"]
        raise NoBind("no %s group" % flag)

    def fixed_target(self, vc, g):
        """block of a piece of fixed metadata (kind_where, Corrupt.tla!FixedTarget) seen from group g: sb / gdt / rsvgdt /
        bb / ib / it  of group 0 ("first"), of the nearest earlier group that has one, or of the nearest later group"""
        kind, where = vc.rsplit("_", 1)
        fx = self.P["fixed"].get(kind)
        if not fx: raise NoBind("no %s" % kind)
        geo = self.geo
        if kind in ("bb", "ib", "it"):
            cand = [(d["g"], d[kind]) for d in self.P["gd"]]            # the object of group h, wherever flex_bg put it
        else:
            cand = [((lo - geo["first"]) // geo["bpg"] if lo >= geo["first"] else 0, lo) for lo, hi in fx]
        if where == "first": c = [b for h, b in cand if h == 0]
        elif where == "earlier": c = [b for h, b in sorted(cand, reverse=True) if 0 < h < g]
        elif where == "later": c = [b for h, b in sorted(cand) if h > g]
        else: raise NoBind(where)
        if not c: raise NoBind("no %s group with %s" % (where, kind))
        return c[0]

    # ---- checksum fixers: each returns list of (off, bytes) computed on `buf` (already patched) -------------
    def fix_inode(self, buf, ino):
        if not self.meta_csum: return []
        off = self.inode_off(ino); isz = self.geo["isize"]
        raw = bytearray(buf[off:off + isz])
        c = crc32c(self.seed, struct.pack("<I", ino))
        c = crc32c(c, bytes(raw[100:104]))
        extra = self.rd(raw, 0x80, 2) if isz > 128 else 0
        hi = isz > 128 and extra >= 4 and 128 + extra <= isz
        raw[124:126] = b"\0\0"
        if hi: raw[130:132] = b"\0\0"
        c = crc32c(c, bytes(raw))
        out = [(off + 124, struct.pack("<H", c & 0xFFFF))]
        if hi: out.append((off + 130, struct.pack("<H", c >> 16)))
        return out

    def fix_sb(self, buf, _=None):
        # the feature bit as patched decides, like a writer that believes the (corrupted) superblock
        if not (self.rd(buf, 1024 + 0x64, 4) & 0x400): return []
        return [(1024 + 0x3FC, struct.pack("<I", crc32c(MASK, bytes(buf[1024:1024 + 0x3FC]))))]

    def fix_gd(self, buf, g):
        off = self.loc["gd%d" % g]; ds = self.dsize
        raw = bytes(buf[off:off + ds]); grp = struct.pack("<I", g)
        if self.meta_csum:
            c = crc32c(self.seed, grp); c = crc32c(c, raw[:0x1E]); c = crc32c(c, b"\0\0")
            if ds > 0x20: c = crc32c(c, raw[0x20:])
            return [(off + 0x1E, struct.pack("<H", c & 0xFFFF))]
        if self.gdt_csum:
            c = crc16(0xFFFF, self.uuid); c = crc16(c, grp); c = crc16(c, raw[:0x1E])
            if self.has64 and ds > 0x20: c = crc16(c, raw[0x20:])
            return [(off + 0x1E, struct.pack("<H", c))]
        return []

    def fix_bitmap(self, buf, key):
        kind, g = key
        if not self.meta_csum: return []
        o = self.loc.get("%s%d" % (kind, g))
        if o is None: return []
        n = (self.geo["cpg"] if kind == "bb" else self.geo["ipg"]) // 8
        c = crc32c(self.seed, bytes(buf[o:o + n]))
        goff = self.loc["gd%d" % g]
        lo = 0x18 if kind == "bb" else 0x1A
        hi = 0x38 if kind == "bb" else 0x3A
        out = [(goff + lo, struct.pack("<H", c & 0xFFFF))]
        if self.dsize >= 64: out.append((goff + hi, struct.pack("<H", c >> 16)))
        saved = [(a, bytes(buf[a:a + len(b)])) for a, b in out]      # the descriptor checksum covers the bitmap checksum
        for a, b in out: buf[a:a + len(b)] = b
        try:
            return out + self.fix_gd(buf, g)
        finally:
            for a, b in saved: buf[a:a + len(b)] = b

    def fix_extblk(self, buf, key):
        blk, ino = key
        if not self.meta_csum: return []
        o = blk * self.bs
        mx = self.rd(buf, o + 4, 2)
        t = 12 + 12 * mx
        if t + 4 > self.bs: return []
        return [(o + t, struct.pack("<I", crc32c(self.inode_seed(buf, ino), bytes(buf[o:o + t]))))]

    def fix_dirleaf(self, buf, key):
        o, ino = key
        if not self.meta_csum: return []
        bs = self.bs
        return [(o + bs - 4, struct.pack("<I", crc32c(self.inode_seed(buf, ino), bytes(buf[o:o + bs - 12]))))]

    def fix_dx(self, buf, key):
        o, ino, cl = key            # cl = offset of the count/limit header in the block
        if not self.meta_csum: return []
        limit = self.rd(buf, o + cl, 2); count = self.rd(buf, o + cl + 2, 2)
        t = cl + limit * 8
        if t + 8 > self.bs or cl + count * 8 > self.bs: return []
        c = crc32c(self.inode_seed(buf, ino), bytes(buf[o:o + cl + count * 8]))
        c = crc32c(c, bytes(buf[o + t:o + t + 4]) + b"\0\0\0\0")
        return [(o + t + 4, struct.pack("<I", c))]

    def fix_xblk(self, buf, blk):
        if not self.meta_csum: return []
        o = blk * self.bs
        b = bytes(buf[o:o + self.bs])
        c = crc32c(self.seed, struct.pack("<Q", blk)); c = crc32c(c, b[:16] + b"\0\0\0\0" + b[20:])
        return [(o + 16, struct.pack("<I", c))]

    def fix_jsb(self, buf, _=None):
        o = self.loc["jsb"]
        j = bytes(buf[o:o + 1024])
        if not (int.from_bytes(j[0x28:0x2C], "big") & 0x18): return []
        c = crc32c(MASK, j[:0xFC] + b"\0\0\0\0" + j[0x100:])
        return [(o + 0xFC, struct.pack(">I", c))]

    def fix_orphan(self, buf, key):
        o, ino = key
        if not self.meta_csum: return []
        bs = self.bs
        c = crc32c(self.inode_seed(buf, ino), struct.pack("<Q", o // bs)); c = crc32c(c, bytes(buf[o:o + bs - 8]))
        return [(o + bs - 4, struct.pack("<I", c))]

    def has_csum(self, fixer):
        if fixer in ("gd",): return self.meta_csum or self.gdt_csum
        if fixer == "jsb":
            o = self.loc.get("jsb")
            return o is not None and bool(int.from_bytes(self.raw[o + 0x28:o + 0x2C], "big") & 0x18)
        return self.meta_csum

    # ---- directory blocks ---------------------------------------------------------------------------
    def dirents(self, buf, o, start=0, end=None):
        end = self.bs if end is None else end
        out = []; p = start
        while p + 8 <= end:
            ino, rl, nl, ft = struct.unpack_from("<IHBB", buf, o + p)
            if rl < 8 or rl % 4 or p + rl > end: break
            out.append((p, ino, rl, nl, ft))
            p += rl
        return out

    def dirent_patch(self, buf, o, dino, field, vc, start=0, end=None):
        """field = d<k>_<what>; returns [(off, bytes)]"""
        k, what = field.split("_", 1)
        ents = self.dirents(buf, o, start, end)
        tail = self.meta_csum and ents and ents[-1][1] == 0 and ents[-1][2] == 12 and ents[-1][4] == 0xDE
        real = ents[:-1] if tail else ents
        if not real: raise NoBind("no entries")
        idx = {"d0": 0, "d1": 1, "d2": 2, "dlast": len(real) - 1}[k]
        if idx >= len(real) or (k == "dlast" and idx <= 2): raise NoBind("entry %s absent" % k)
        p, ino, rl, nl, ft = real[idx]
        if what == "inode":
            if vc == "zero": new = 0
            elif vc == "free_ino": new = self.free_ino
            elif vc == "wrongtype_ino":
                cand = self.R.get("chr") if ft != 3 else self.R.get("file_small")
                if not cand: raise NoBind("no inode of another type")
                new = cand
            elif vc == "parent": new = self.dirs[dino]["dotdot"] if dino in self.dirs else 2
            elif vc == "self": new = dino
            elif vc == "beyond": new = self.geo["inodes"] + 3
            elif vc == "reserved_ino": new = 5
            elif vc in INO_BOUND_V: new = self.inobound(vc)
            else: raise NoBind(vc)
            if new is None or new == ino: raise NoBind("same inode")
            return [(o + p, struct.pack("<I", new))]
        if what == "rec_len":
            if vc == "beyond": new = rl + (end if end else self.bs)
            elif vc == "unaligned": new = rl + 2
            else: new = intval(vc, rl, 2)
            if new > 0xFFFF: raise NoBind("rec_len overflow")
            return [(o + p + 4, struct.pack("<H", new))]
        if what == "name_len":
            return [(o + p + 6, struct.pack("<B", 0 if vc == "zero" else 255))]
        if what == "file_type":
            if "filetype" not in self.geo["features"]: raise NoBind("no filetype feature")
            new = 7 + 1 if vc == "seven" else (2 if ft != 2 else 1)
            return [(o + p + 7, struct.pack("<B", new))]
        if what == "name0":
            if nl == 0: raise NoBind("empty name")
            if vc == "slash": return [(o + p + 8, b"/")]
            if vc == "nul": return [(o + p + 8, b"\0")]
            if vc == "dup":
                # make this entry's name equal to a sibling's of the same length
                name = bytes(buf[o + p + 8:o + p + 8 + nl])
                for q, ino2, rl2, nl2, ft2 in real:
                    if q != p and nl2 == nl and ino2:
                        return [(o + p + 8, bytes(buf[o + q + 8:o + q + 8 + nl]))]
                raise NoBind("no sibling with the same name length")
        raise NoBind(what)

    # ---- recipe -> patches --------------------------------------------------------------------------
    def patches(self, rec, buf=None):
        """-> (list of (off, bytes), fixer name, fixer key, object has a checksum) ; raises NoBind"""
        buf = self.raw if buf is None else buf
        role, field, vc = rec["role"], rec["field"], rec["vc"]
        geo, bs, loc, R = self.geo, self.bs, self.loc, self.R

        def setint(base, off, w, new=None, bits=None):
            old = self.rd(buf, base + off, w)
            if bits is not None: new = old ^ bits
            elif new is None: new = intval(vc, old, w)
            new &= (1 << (8 * w)) - 1
            if new == old: raise NoBind("value unchanged")
            return [(base + off, new.to_bytes(w, "little"))]

        # ---------------- inodes
        if role in ("root", "lpf", "dir_htree", "dir_lin", "dir_small", "file_big", "file_sparse", "file_small", "file_xattr", "file_inline",
                    "lnk_fast", "lnk_slow", "chr", "fifo", "journal", "resize", "quota_usr", "quota_grp", "orphan_file", "ea_inode",
                    "free_inode") or role.startswith("ino@"):
            # "ino@<n>": an inode addressed by number (boundary roles of gen/c01_extras.py resolve to this form)
            if role.startswith("ino@"): R = dict(R, **{role: int(role[4:])})
            if role not in R: raise NoBind("role absent")
            ino = R[role]; I = self.ino.get(ino)
            o = self.inode_off(ino); isz = geo["isize"]
            fx = ("inode", ino)
            if field in INODE_F:
                off, w = INODE_F[field]
                if off >= 128 and isz <= 128: raise NoBind("128-byte inode")
                if field == "mode":
                    old = self.rd(buf, o, 2)
                    return setint(o, 0, 2, new=(old & 0o7777) | MODE_T[vc]), fx
                if field == "flags": return setint(o, off, 4, bits=FLAG_BITS[vc]), fx
                if field == "file_acl":
                    old = self.rd(buf, o + off, 4)
                    return setint(o, off, 4, new=self.blockval(vc, old, ino)), fx
                if field in ("csum_lo", "csum_hi") and not self.meta_csum: raise NoBind("no checksum")
                if field == "extra_isize" and vc == "max": return setint(o, off, 2, new=isz), fx
                return setint(o, off, w), fx
            if field == "ibody_magic" or field.startswith("ie_"):
                if isz <= 128: raise NoBind("128-byte inode")
                extra = self.rd(buf, o + 0x80, 2)
                m = o + 128 + extra
                if self.rd(buf, m, 4) != 0xEA020000: raise NoBind("no ibody xattrs")
                if field == "ibody_magic": return setint(m, 0, 4), fx
                off, w = XE_F[field[3:]]
                if field == "ie_value_inum" and vc == "alias_other":
                    return setint(m + 4, off, w, new=R.get("file_small", 12)), fx
                if vc in INO_BOUND_V: return setint(m + 4, off, w, new=self.inobound(vc)), fx
                return setint(m + 4, off, w), fx
            extent = bool(self.rd(buf, o + 0x20, 4) & 0x80000)
            if field.startswith("eh_") or field.startswith("ee"):
                if not extent or (I and I.get("inline")): raise NoBind("not extent mapped")
                if self.rd(buf, o + IB, 2) != 0xF30A: raise NoBind("no extent header")
                return self.extent_patch(buf, o + IB, field, vc, ino, setint), fx
            if field.startswith("ib"):
                if extent or (I and (I.get("inline") or I["map"] not in ("indirect", "resize"))):
                    raise NoBind("not block mapped")
                k = {"ib0": 0, "ib11": 11, "ib_ind": 12, "ib_dind": 13, "ib_tind": 14}[field]
                old = self.rd(buf, o + IB + 4 * k, 4)
                if old == 0 and vc in ("zero", "plus1"): raise NoBind("slot empty")
                if old == 0 and field != "ib_tind": raise NoBind("slot empty")
                return setint(o + IB, 4 * k, 4, new=self.blockval(vc, old, ino)), fx
            raise NoBind("field")

        # ---------------- extent / indirect blocks
        if role == "ext_block" or role.startswith("extblk@"):
            if role.startswith("extblk@"):          # "extblk@<block>@<inode>": a tree block addressed by number
                blk, ino = (int(x) for x in role.split("@")[1:3])
            else:
                for r in ("file_sparse", "dir_htree", "file_big"):
                    ino = R.get(r)
                    if ino and self.ino[ino]["own"]["index"]:
                        blk = self.ino[ino]["own"]["index"][0][0]; break
                else: raise NoBind("no extent block")
            o = blk * bs
            if field == "tail_csum":
                if not self.meta_csum: raise NoBind("no checksum")
                t = 12 + 12 * self.rd(buf, o + 4, 2)
                return setint(o, t, 4), ("extblk", (blk, ino))
            return self.extent_patch(buf, o, field, vc, ino, setint), ("extblk", (blk, ino))
        if role in ("ind_block", "dind_block"):
            ino = R.get("file_big")
            if not ino: raise NoBind("role absent")
            io = self.inode_off(ino)
            if self.rd(buf, io + 0x20, 4) & 0x80000: raise NoBind("extent mapped")
            blk = self.rd(buf, io + IB + 4 * (12 if role == "ind_block" else 13), 4)
            if not blk: raise NoBind("no such block")
            k = {"slot0": 0, "slot1": 1, "slot_last": bs // 4 - 1}[field]
            old = self.rd(buf, blk * bs + 4 * k, 4)
            if old == 0 and vc in ("zero", "plus1"): raise NoBind("slot empty")
            return setint(blk * bs, 4 * k, 4, new=self.blockval(vc, old, ino)), ("none", None)

        # ---------------- directory blocks
        if role in ("dirblk_root", "dirblk_lin", "dx_leaf", "dx_root", "dx_node"):
            dino = {"dirblk_root": 2, "dirblk_lin": R.get("dir_lin"), "dx_leaf": R.get("dir_htree"), "dx_root": R.get("dir_htree"),
                    "dx_node": R.get("dir_htree")}[role]
            if not dino or dino not in self.dirs: raise NoBind("role absent")
            D = self.dirs[dino]
            if self.ino[dino].get("inline"): raise NoBind("inline directory")
            dl = loc.get("dirblk", {})
            if role in ("dirblk_root", "dirblk_lin"):
                if D["kind"] != "linear": raise NoBind("not linear")
                o = dl.get("%d:0" % dino)
                if o is None: raise NoBind("no block")
                return self.dirblock_patch(buf, o, dino, field, vc, setint)
            if D["kind"] != "htree": raise NoBind("not htree")
            o0 = dl.get("%d:0" % dino)
            if o0 is None: raise NoBind("no block")
            # dx_root: '.' (12) '..' (rest) ; dx_root_info at 0x18; countlimit at 0x18 + info_length
            il = buf[o0 + 0x1D]; levels = buf[o0 + 0x1E]
            cl0 = 0x18 + il
            def child(o, cl, k=0):
                lb = self.rd(buf, o + cl + 4 + 8 * k, 4) & 0x0FFFFFFF
                return dl.get("%d:%d" % (dino, lb))
            if role == "dx_root":
                return self.dx_patch(buf, o0, dino, cl0, field, vc, setint, root=True)
            if role == "dx_node":
                if levels < 1: raise NoBind("single level htree")
                o1 = child(o0, cl0)
                if o1 is None: raise NoBind("node not located")
                return self.dx_patch(buf, o1, dino, 8, field, vc, setint, root=False)
            o = child(o0, cl0, 1 if self.rd(buf, o0 + cl0 + 2, 2) > 1 else 0)
            for _ in range(levels):
                if o is None: break
                o = child(o, 8)
            if o is None: raise NoBind("leaf not located")
            return self.dirblock_patch(buf, o, dino, field, vc, setint)

        if role == "xattr_block":
            ino = R.get("file_xattr")
            blk = self.ino[ino]["own"]["xattr"] if ino else 0
            if not blk: raise NoBind("no xattr block")
            o = blk * bs
            if field in X_F:
                if field == "x_csum" and not self.meta_csum: raise NoBind("no checksum")
                off, w = X_F[field]
                return setint(o, off, w), ("xblk", blk)
            off, w = XE_F[field[3:]]
            if field == "xe_value_inum" and vc == "alias_other":
                return setint(o + 32, off, w, new=R.get("file_small", 12)), ("xblk", blk)
            if vc in INO_BOUND_V: return setint(o + 32, off, w, new=self.inobound(vc)), ("xblk", blk)
            return setint(o + 32, off, w), ("xblk", blk)

        if role == "orphan_block":
            ino = R.get("orphan_file")
            o = loc.get("orphanblk", {}).get("0")
            if not ino or o is None: raise NoBind("no orphan file")
            fx = ("orphan", (o, ino))
            if field == "ob_magic": return setint(o, bs - 8, 4), fx
            if field == "ob_csum":
                if not self.meta_csum: raise NoBind("no checksum")
                return setint(o, bs - 4, 4), fx
            if vc in INO_BOUND_V: return setint(o, 0, 4, new=self.inobound(vc)), fx
            new = {"one": 1, "free_ino": self.free_ino, "used_ino": R.get("file_small"), "beyond": geo["inodes"] + 3}[vc]
            return setint(o, 0, 4, new=new), fx

        if role == "sb":
            o = 1024
            if field in SB_BITS: return setint(o, SB_F[field][0], SB_F[field][1], bits=SB_BITS[field][vc]) if vc.startswith("tog_") else setint(o, *SB_F[field]), ("sb", None)
            off, w = SB_F[field]
            if field in ("s_checksum", "s_checksum_type", "s_checksum_seed") and not self.meta_csum: raise NoBind("no checksum")
            if field == "s_def_hash_version": return setint(o, off, w, new=HASH_VERSION_V[vc]), ("sb", None)
            if vc in INO_BOUND_V or vc in BLK_BOUND_V:
                if self.rd(buf, o + off, w) == 0: raise NoBind("feature absent")
                return setint(o, off, w, new=self.inobound(vc) if vc in INO_BOUND_V else self.blkbound(vc)), ("sb", None)
            if vc == "alias_other": return setint(o, off, w, new=R.get("file_small")), ("sb", None)
            if vc == "beyond": return setint(o, off, w, new=geo["inodes"] + 3 if "inum" in field or "orphan" in field else geo["blocks"] + 7), ("sb", None)
            if vc == "free_ino": return setint(o, off, w, new=self.free_ino), ("sb", None)
            if vc == "used_ino": return setint(o, off, w, new=R.get("file_small")), ("sb", None)
            if vc == "dir_ino": return setint(o, off, w, new=R.get("dir_lin")), ("sb", None)
            if field in ("s_usr_quota_inum", "s_grp_quota_inum", "s_orphan_file_inum", "s_journal_inum") and self.rd(buf, o + off, w) == 0:
                raise NoBind("feature absent")
            return setint(o, off, w), ("sb", None)

        # ---------------- the reserved-GDT map in the double indirect block of the resize inode (Corrupt.tla!ResizeMap)
        if role == "resize_dind":
            if "resize" not in R: raise NoBind("role absent")
            blk = self.rd(buf, self.inode_off(7) + IB + 4 * 13, 4)
            rsv = geo["rsvgdt"]
            if not blk or not rsv or "meta_bg" in geo["features"]: raise NoBind("no reserved GDT map")
            k = {"rsv_first": 0, "rsv_quarter": rsv // 4, "rsv_last": rsv - 1}[field]
            idx = (geo["descblks"] + k) % (bs // 4)
            old = self.rd(buf, blk * bs + 4 * idx, 4)
            if old == 0: raise NoBind("slot empty")
            return setint(blk * bs, 4 * idx, 4, new=0 if vc == "zero" else old + 1), ("none", None)

        # ---------------- relocated bitmap of a group whose bitmap is not read (Corrupt.tla!Relocs)
        if role[:-2] in ("gd_unread_", "bb_old_", "gd_old_") and role[-2:] in ("ib", "bb"):
            kind = role[-2:]
            g = self.unread_group(kind)
            old = self.P["gd"][g][kind]
            if role.startswith("gd_unread_"):
                if field != {"ib": "bg_inode_bitmap", "bb": "bg_block_bitmap"}[kind]: raise NoBind("field")
                return setint(loc["gd%d" % g], GD_F[field][0], 4, new=self.fixed_target(vc, g)), ("gd", g)
            if not (geo["first"] <= old < geo["blocks"]): raise NoBind("old location out of range")
            og = (old - geo["first"]) // geo["bpg"]
            if role.startswith("gd_old_"):
                return setint(loc["gd%d" % og], *GD_F[field]), ("gd", og)
            o = loc.get("bb%d" % og)
            if o is None: raise NoBind("bitmap uninitialised")
            bit = (old - geo["first"]) // geo["cr"] - og * geo["cpg"]
            if not (buf[o + bit // 8] >> (bit % 8)) & 1: raise NoBind("old block not marked in use")
            if geo["cr"] > 1: raise NoBind("cluster shared with other metadata")
            return [(o + bit // 8, bytes([buf[o + bit // 8] ^ (1 << (bit % 8))]))], ("bitmap", ("bb", og))

        def small_group():
            b = self.some_block_of(R.get("file_small", 0))
            if b is None: raise NoBind("file_small has no block")
            return (b - geo["first"]) // geo["bpg"]
        if role in ("gd_first", "gd_mid", "gd_last", "gd_small") or role.startswith("gd@"):
            if role.startswith("gd@"):              # "gd@<g>": the descriptor of group g
                g = int(role[3:])
                if not 0 <= g < geo["gdc"]: raise NoBind("no such group")
            else:
                g = small_group() if role == "gd_small" else {"gd_first": 0, "gd_mid": geo["gdc"] // 2, "gd_last": geo["gdc"] - 1}[role]
                if role not in ("gd_first", "gd_small") and g == 0: raise NoBind("single group")
                if role == "gd_mid" and g == geo["gdc"] - 1: raise NoBind("two groups")
            o = loc["gd%d" % g]; fx = ("gd", g)
            if field in GD_HI_F:
                if not self.has64 or self.dsize < 64: raise NoBind("32-byte descriptors")
                if field in ("bg_bb_csum_hi", "bg_ib_csum_hi") and not self.meta_csum: raise NoBind("no checksum")
                if field == "bg_itable_unused_hi" and not (self.meta_csum or self.gdt_csum): raise NoBind("no uninit_bg")
                return setint(o, *GD_HI_F[field]), fx
            off, w = GD_F[field]
            if vc in ("grp_max", "grp_max_p1"):
                # the largest count a group can hold (objects per group) and the first impossible one
                m = geo["cpg"] if field == "bg_free_blocks" else geo["ipg"]
                if field == "bg_itable_unused" and not (self.meta_csum or self.gdt_csum): raise NoBind("no uninit_bg")
                return setint(o, off, w, new=m + (1 if vc == "grp_max_p1" else 0)), fx
            if field in ("bg_bb_csum", "bg_ib_csum") and not self.meta_csum: raise NoBind("no checksum")
            if field == "bg_checksum" and not (self.meta_csum or self.gdt_csum): raise NoBind("no checksum")
            if field in ("bg_itable_unused",) and not (self.meta_csum or self.gdt_csum): raise NoBind("no uninit_bg")
            if field == "bg_flags":
                if not (self.meta_csum or self.gdt_csum) and vc != "tog_unknown": raise NoBind("no uninit_bg")
                return setint(o, off, w, bits=GD_BITS[vc]), fx
            if field in ("bg_block_bitmap", "bg_inode_bitmap", "bg_inode_table"):
                old = self.rd(buf, o + off, 4); og = (g + 1) % geo["gdc"]
                key = {"bg_block_bitmap": "bb", "bg_inode_bitmap": "ib", "bg_inode_table": "it"}[field]
                if vc == "alias_group":
                    if geo["gdc"] < 2: raise NoBind("single group")
                    new = self.P["gd"][og][key]
                elif vc == "alias_itable": new = self.P["gd"][g]["it"] + 1
                elif vc in BLK_BOUND_V: new = self.blkbound(vc)
                elif vc == "beyond": new = geo["blocks"] + 7
                elif vc == "zero": new = 0
                else: new = old + 1
                return setint(o, off, 4, new=new), fx
            return setint(o, off, w), fx

        if role in ("bb_first", "bb_last", "ib_first", "ib_last", "bb_small") or role[:3] in ("bb@", "ib@"):
            kind = role[:2]
            if role[2] == "@":                      # "bb@<g>" / "ib@<g>": the bitmap of group g
                g = int(role[3:])
                if not 0 <= g < geo["gdc"]: raise NoBind("no such group")
            else:
                g = small_group() if role == "bb_small" else (0 if role.endswith("first") else geo["gdc"] - 1)
                if role.endswith("last") and g == 0: raise NoBind("single group")
            o = loc.get("%s%d" % (kind, g))
            if o is None: raise NoBind("bitmap uninitialised")
            if kind == "bb":
                cr, first, cpg = geo["cr"], geo["first"], geo["cpg"]
                glo = first + g * geo["bpg"]; ghi = min(glo + geo["bpg"], geo["blocks"]) - 1
                def in_g(b): return b is not None and glo <= b <= ghi
                cand = None
                def pick(blocks):
                    for b in blocks:
                        if in_g(b): return b
                    return None
                if vc == "flip_data":
                    cand = pick([self.some_block_of(R.get(r, 0)) for r in ("file_big", "file_sparse", "file_xattr", "file_small")] +
                                [lo for i in self.P["inodes"] if i["links"] and i["type"] == "reg" and not i["special"] for lo, hi in i["own"]["data"]])
                elif vc == "flip_small":
                    cand = pick([self.some_block_of(R.get("file_small", 0))])
                elif vc == "flip_index":
                    cand = pick([lo for i in self.P["inodes"] if i["links"] for lo, hi in i["own"]["index"] + i["own"]["ind"]])
                elif vc == "flip_dirblk":
                    cand = pick([lo for i in self.P["inodes"] if i["links"] and i["type"] == "dir" for lo, hi in i["own"]["data"]])
                elif vc == "flip_xattr":
                    cand = pick([i["own"]["xattr"] for i in self.P["inodes"] if i["links"] and i["own"]["xattr"]])
                elif vc == "flip_journal":
                    j = self.ino.get(R.get("journal", 0))
                    cand = pick([lo + 3 for lo, hi in j["own"]["data"]] if j else [])
                elif vc == "flip_fixed":
                    cand = pick([self.P["gd"][g]["it"] + 2])
                elif vc == "flip_free":
                    setb = set()
                    for lo, hi in self.P["bbitmap"]:
                        if hi >= g * cpg and lo < (g + 1) * cpg: setb.update(range(max(lo, g * cpg), min(hi, (g + 1) * cpg - 1) + 1))
                    ncl = geo["ncl"]
                    for c in range(min((g + 1) * cpg, ncl) - 1, g * cpg - 1, -1):
                        if c not in setb: cand = first + c * cr; break
                elif vc == "flip_padding":
                    ncl = geo["ncl"]
                    if g != geo["gdc"] - 1 or ncl >= (g + 1) * cpg: raise NoBind("no padding")
                    bit = ncl - g * cpg + 1
                    if bit >= cpg: raise NoBind("no padding")
                    return [(o + bit // 8, bytes([buf[o + bit // 8] ^ (1 << (bit % 8))]))], ("bitmap", (kind, g))
                if cand is None: raise NoBind("no such block in group")
                bit = (cand - first) // cr - g * cpg
            else:
                ipg = geo["ipg"]; lo = g * ipg + 1; hi = (g + 1) * ipg
                used = sorted(n for n in self.used_inos if lo <= n <= hi)
                cand = None
                if vc == "flip_used":
                    c = [n for n in used if n >= geo["first_ino"] and self.ino[n]["type"] == "reg"]
                    cand = c[len(c) // 2] if c else None
                elif vc == "flip_dir":
                    c = [n for n in used if n >= geo["first_ino"] and self.ino[n]["type"] == "dir"]
                    cand = c[-1] if c else None
                elif vc == "flip_reserved": cand = 5 if g == 0 else None
                elif vc == "flip_last": cand = hi
                elif vc == "flip_free":
                    for n in range(lo + (geo["first_ino"] if g == 0 else 0), hi):
                        if n not in self.used_inos: cand = n; break
                if cand is None: raise NoBind("no such inode in group")
                bit = cand - lo
            return [(o + bit // 8, bytes([buf[o + bit // 8] ^ (1 << (bit % 8))]))], ("bitmap", (kind, g))

        if role == "jsb":
            o = loc.get("jsb")
            if o is None or not self.P["journal"].get("present"): raise NoBind("no journal")
            off, w = JSB_F[field]
            old = int.from_bytes(buf[o + off:o + off + 4], "big")
            if field == "j_checksum" and not self.has_csum("jsb"): raise NoBind("no checksum")
            new = old ^ JSB_BITS[vc] if vc.startswith("tog_") else intval(vc, old, 4)
            if new == old: raise NoBind("value unchanged")
            return [(o + off, struct.pack(">I", new))], ("jsb", None)
        raise NoBind("role")

    def extent_patch(self, buf, o, field, vc, ino, setint):
        """o = offset of the extent header"""
        ent = self.rd(buf, o + 2, 2); depth = self.rd(buf, o + 6, 2)
        if field in EXT_F:
            return setint(o, *EXT_F[field])
        k = 1 if field.startswith("ee2_") else 0
        if ent <= k: raise NoBind("entry absent")
        e = o + 12 + 12 * k
        what = field.split("_", 1)[1]
        if what == "block":
            return setint(e, 0, 4)
        if depth == 0:
            if what == "len":
                if vc == "tog_uninit":
                    old = self.rd(buf, e + 4, 2)
                    return setint(e, 4, 2, new=(old - 32768) if old > 32768 else old + 32768)
                return setint(e, 4, 2)
            if what == "start_hi": return setint(e, 6, 2)
            if what == "start":
                old = self.rd(buf, e + 8, 4)
                return setint(e, 8, 4, new=self.blockval(vc, old, ino))
        else:
            if what == "len": raise NoBind("index entry has no length")
            if what == "start_hi": return setint(e, 8, 2)
            if what == "start":
                old = self.rd(buf, e + 4, 4)
                return setint(e, 4, 4, new=self.blockval(vc, old, ino))
        raise NoBind(field)

    def dirblock_patch(self, buf, o, dino, field, vc, setint):
        bs = self.bs
        fx = ("dirleaf", (o, dino))
        if field.startswith("tail_"):
            if not self.meta_csum: raise NoBind("no checksum")
            t = o + bs - 12
            if self.rd(buf, t + 4, 2) != 12 or buf[t + 7] != 0xDE: raise NoBind("no tail")
            if field == "tail_inode": return setint(t, 0, 4, new=1), fx
            if field == "tail_rec_len": return setint(t, 4, 2), fx
            if field == "tail_ft": return setint(t, 7, 1, new=0), fx
            return setint(t, 8, 4), fx
        return self.dirent_patch(buf, o, dino, field, vc), fx

    def dx_patch(self, buf, o, dino, cl, field, vc, setint, root):
        fx = ("dx", (o, dino, cl))
        limit = self.rd(buf, o + cl, 2); count = self.rd(buf, o + cl + 2, 2)
        if field in ("dx_hash_version", "dx_info_length", "dx_levels", "dx_unused_flags"):
            if not root: raise NoBind("interior node has no dx_root_info")
            off = {"dx_hash_version": 0x1C, "dx_info_length": 0x1D, "dx_levels": 0x1E, "dx_unused_flags": 0x1F}[field]
            return setint(o, off, 1), fx
        if field == "dx_limit": return setint(o, cl, 2), fx
        if field == "dx_count":
            return setint(o, cl + 2, 2, new=(limit + 1) if vc == "max" else None), fx
        if field in ("dx_block0", "dx_e1_block"):
            k = 0 if field == "dx_block0" else 1
            if count <= k: raise NoBind("entry absent")
            other = self.rd(buf, o + cl + 4 + 8 * (1 - k), 4) if count > 1 else None
            new = {"zero": 0, "beyond": 0x0FFFFF00, "dup": other}[vc]
            if new is None: raise NoBind("single entry")
            return setint(o, cl + 4 + 8 * k, 4, new=new), fx
        if field == "dx_e1_hash":
            if count < 3: raise NoBind("fewer than 3 entries")
            return setint(o, cl + 8, 4, new=0 if vc == "zero" else 0xFFFFFFFE), fx
        if field == "dx_tail_csum":
            if not self.meta_csum: raise NoBind("no checksum")
            return setint(o, cl + 8 * limit + 4, 4), fx
        if field.startswith("d0_") or field.startswith("d1_"):
            if not root:
                if field.startswith("d1_"): raise NoBind("interior node has one fake entry")
                return self.dirent_patch(buf, o, dino, field, vc, 0, None), fx
            return self.dirent_patch(buf, o, dino, field, vc, 0, None), fx
        raise NoBind(field)

    FIXERS = {"inode": "fix_inode", "sb": "fix_sb", "gd": "fix_gd", "bitmap": "fix_bitmap", "extblk": "fix_extblk", "dirleaf": "fix_dirleaf",
              "dx": "fix_dx", "xblk": "fix_xblk", "jsb": "fix_jsb", "orphan": "fix_orphan"}

    def object_has_csum(self, fx):
        kind = fx[0]
        if kind == "none": return False
        if kind == "gd": return self.meta_csum or self.gdt_csum
        if kind == "jsb": return self.has_csum("jsb")
        return self.meta_csum

    def bind(self, rec, buf=None):
        """-> list of (off, bytes) including the checksum repair when rec.csum = fix; None when the recipe does not bind.
        On objects without a checksum only the csum = "fix" variant binds (the two variants would be the same image)."""
        buf = self.raw if buf is None else buf
        try:
            pt, fx = self.patches(rec, buf)
        except NoBind:
            return None
        except (KeyError, IndexError, TypeError, struct.error):
            return None
        has = self.object_has_csum(fx)
        if rec.get("csum", "fix") == "stale":
            if not has: return None
            if rec["field"] in ("csum_lo", "csum_hi", "s_checksum", "bg_checksum", "bg_bb_csum", "bg_ib_csum", "tail_csum", "dx_tail_csum",
                                "x_csum", "ob_csum", "j_checksum"):
                pass
            return pt
        # csum = fix: a corruption OF the checksum field with the checksum recomputed is the identity -> does not bind
        if rec["field"] in ("csum_lo", "csum_hi", "s_checksum", "bg_checksum", "tail_csum", "dx_tail_csum", "x_csum", "ob_csum", "j_checksum"):
            return None
        if not has: return pt
        saved = [(o, bytes(buf[o:o + len(b)])) for o, b in pt]
        for o, b in pt:
            if o < 0 or o + len(b) > len(buf): return None
        for o, b in pt: buf[o:o + len(b)] = b
        try:
            extra = getattr(self, self.FIXERS[fx[0]])(buf, fx[1])
        finally:
            for o, b in reversed(saved): buf[o:o + len(b)] = b
        if rec["field"] in ("bg_bb_csum", "bg_ib_csum"):
            pass    # the bitmap checksum field is wrong, the descriptor checksum over it is right
        return pt + extra

    def apply(self, recipes, out_path):
        """apply a list of recipes in order (later ones see the earlier patches); -> list of all patches or None"""
        buf = bytearray(self.raw)
        allp = []
        for rec in recipes:
            pt = self.bind(rec, buf)
            if pt is None: return None
            for o, b in pt:
                if o < 0 or o + len(b) > len(buf): return None
                buf[o:o + len(b)] = b
            allp += pt
        if buf == self.raw: return None
        with open(out_path, "wb") as f:
            f.write(buf)
        return allp

    # ---- self test: every fixer reproduces the checksum the tools wrote -----------------------------------
    def selftest(self):
        """-> list of (fixer, key) whose recomputed checksum differs from the pristine image (must be empty)"""
        bad = []
        buf = self.raw
        def chk(name, key):
            for o, b in getattr(self, self.FIXERS[name])(buf, key):
                if bytes(buf[o:o + len(b)]) != b: bad.append((name, key)); return
        chk("sb", None)
        for g in range(self.geo["gdc"]):
            chk("gd", g)
            for k in ("bb", "ib"):
                if "%s%d" % (k, g) in self.loc: chk("bitmap", (k, g))
        for i in self.P["inodes"]:
            if i["links"] or i["special"]:
                if any(self.raw[self.inode_off(i["ino"]):self.inode_off(i["ino"]) + self.geo["isize"]]): chk("inode", i["ino"])
                for lo, hi in i["own"]["index"]:
                    for b in range(lo, hi + 1): chk("extblk", (b, i["ino"]))
                if i["own"]["xattr"]: chk("xblk", i["own"]["xattr"])
        if "jsb" in self.loc and self.P["journal"].get("present"): chk("jsb", None)
        dl = self.loc.get("dirblk", {})
        for d in self.P["dirs"]:
            if self.ino[d["dir"]].get("inline"): continue
            if d["kind"] == "linear":
                for k, o in dl.items():
                    if k.startswith("%d:" % d["dir"]): chk("dirleaf", (o, d["dir"]))
            else:
                o0 = dl.get("%d:0" % d["dir"])
                if o0 is not None: chk("dx", (o0, d["dir"], 0x18 + buf[o0 + 0x1D]))
        of = self.R.get("orphan_file")
        for k, o in self.loc.get("orphanblk", {}).items():
            chk("orphan", (o, of))
        return bad


# ------------------------------------------------------------------------------------------------
# running e2fsck on one universe element (shared by checks/c01.py and checks/c02.py)
# ------------------------------------------------------------------------------------------------
import re, subprocess, signal
_PROB = re.compile(r'<(problem|suppressed) ([^>]*)/>')
_ATTR = re.compile(r'(\w+)="([^"]*)"')


def parse_problem_log(path):
    """-> list of records {"code": "0x......", "answer": int, "fixed": 0|1, "ino","blk","group",...} (pass headers are
    logged as <header> by e2fsck and are not problems)"""
    out = []
    try:
        txt = open(path, "r", errors="replace").read()
    except OSError:
        return None
    for m in _PROB.finditer(txt):
        a = dict(_ATTR.findall(m.group(2)))
        a["kind"] = m.group(1)
        out.append(a)
    return out


def sig_of(rec):
    """failure-signature element of one problem record: code + inode/block/group (DESIGN.md section 5, C01)"""
    s = rec.get("code", "?")
    for k, t in (("ino", "i"), ("blk", "b"), ("group", "g")):
        if k in rec:
            s += ":%s%s" % (t, rec[k])
    return s


def run_fsck(fsck, mode, img, env, log, timeout=60):
    """mode "-fn" / "-fy"; -> (exit, problems) with exit = -1 for a signal / timeout"""
    if os.path.exists(log): os.unlink(log)
    try:
        p = subprocess.run([fsck, mode, "-E", "problem_log=" + log, img], stdout=subprocess.PIPE, stderr=subprocess.STDOUT, env=env, timeout=timeout)
        rc = p.returncode if p.returncode >= 0 else -1
        out = p.stdout
    except subprocess.TimeoutExpired as e:
        rc, out = -1, (e.stdout or b"") + b"\n[timeout]"
    probs = parse_problem_log(log)
    return rc, probs, out.decode("latin-1")[-3000:]


class _Alarm(Exception):
    pass


def project_guarded(path, seconds=90):
    """reader projection with a time limit; -> (P, None) or (None, reason)"""
    def h(sig, frm): raise _Alarm()
    old = signal.signal(signal.SIGALRM, h)
    signal.alarm(seconds)
    try:
        return ext4read.project(path), None
    except _Alarm:
        return None, "reader timeout"
    except Exception as ex:      # the reader promises not to raise; if it does that is a reader limitation, never a verdict
        return None, "reader exception %s: %s" % (type(ex).__name__, str(ex)[:200])
    finally:
        signal.alarm(0)
        signal.signal(signal.SIGALRM, old)

if __name__ == "__main__":
    # python3 corrupt.py IMAGE  -> how many recipes bind, self test of the checksum fixers
    import tempfile
    work = os.environ.get("VERIF_SCRATCH", "/var/tmp/verif-scratch")
    os.makedirs(work, exist_ok=True)
    U, _ = universe(work)
    for p in sys.argv[1:]:
        B = Base(p)
        n = sum(1 for r in U["catalogue"] if B.bind(r) is not None)
        np_ = 0
        print(p, "roles", sorted(B.R), "bind", n, "of", len(U["catalogue"]), "selftest-bad", B.selftest()[:5])
