"""C13 image states: profile x variant, 8 MiB, 1 KiB blocks, built with the scratch build's own mke2fs / debugfs /
e2fsck / tune2fs (so a broken tree breaks the generator -> check broken, never a verdict) plus direct byte writes
at offsets computed from the superblock / group descriptors.

A state id is "<profile>/<variant>".  Every state is deterministic given (tree, VERIF_SEED): fixed UUID, hash seed,
fake clocks (tool_env), seeded python RNG for garbage bytes.

  build_states(b, env, outdir, tier, seed) -> list of State(id, profile, variant, path, undo, kind)
     kind in {"clean", "journal", "orphan", "mmp", "quota", "corrupt", "undo", "undolog"}; everything but "clean" is non-trivial.
     kind "undolog": a (target, undo log) pair of the e2undo catalogue of spec/ToolRunUniv.tla (build_undo_catalogue);
     the journal x orphan axis points of that module are variants "ax_<j>_<o>" (axis_variant maps a point to its variant).
"""
import os, struct, random, subprocess, shutil, re, hashlib, threading
import concurrent.futures as cf
from collections import namedtuple

State = namedtuple("State", "id profile variant path undo kind jnl", defaults=("",))     # jnl: external journal device image

UUID = "11111111-2222-3333-4444-555555555555"
HSEED = "aaaaaaaa-bbbb-cccc-dddd-eeeeeeeeeeee"
BS = 1024
SIZE = 8 * 1024 * 1024

PROFILES = [
    ("ext2", ["-t", "ext2", "-g", "2048"]),
    ("ext3", ["-t", "ext3", "-g", "2048"]),
    ("ext4", ["-t", "ext4", "-g", "2048", "-O", "metadata_csum,64bit,orphan_file,metadata_csum_seed"]),
    ("quota", ["-t", "ext4", "-g", "2048", "-O", "metadata_csum,64bit,quota"]),
    ("mmp", ["-t", "ext4", "-g", "2048", "-O", "metadata_csum,64bit"]),      # + tune2fs -O mmp, see make_base
    ("bigalloc", ["-t", "ext4", "-O", "metadata_csum,64bit,bigalloc", "-C", "2048", "-g", "4096"]),
    ("inline", ["-t", "ext4", "-g", "2048", "-O", "metadata_csum,64bit,inline_data"]),
]
HAS_JOURNAL = {"ext3", "ext4", "quota", "mmp", "bigalloc", "inline"}
HAS_CSUM = {"ext4", "quota", "mmp", "bigalloc", "inline"}


class GenError(RuntimeError):
    pass


# ---------------------------------------------------------------- crc32c (Castagnoli), as ext2fs_crc32c_le
_T = []
for _i in range(256):
    _c = _i
    for _ in range(8):
        _c = (_c >> 1) ^ 0x82F63B78 if _c & 1 else _c >> 1
    _T.append(_c)


def crc32c(crc, data):
    for b in data:
        crc = _T[(crc ^ b) & 0xFF] ^ (crc >> 8)
    return crc & 0xFFFFFFFF


# ---------------------------------------------------------------- raw access
def rd(path, off, n):
    with open(path, "rb") as f:
        f.seek(off)
        return f.read(n)


def poke(path, off, data):
    with open(path, "r+b") as f:
        f.seek(off)
        f.write(data)


class Geom:
    """The handful of superblock / descriptor fields the corruption recipes need."""
    def __init__(self, path):
        sb = rd(path, 1024, 1024)
        self.sb = sb
        (self.inodes_count, self.blocks_count) = struct.unpack_from("<II", sb, 0)
        self.first_data_block = struct.unpack_from("<I", sb, 20)[0]
        self.log_bs = struct.unpack_from("<I", sb, 24)[0]
        self.bs = 1024 << self.log_bs
        self.bpg = struct.unpack_from("<I", sb, 32)[0]
        self.ipg = struct.unpack_from("<I", sb, 40)[0]
        self.inode_size = struct.unpack_from("<H", sb, 88)[0]
        self.compat, self.incompat, self.ro_compat = struct.unpack_from("<III", sb, 92)
        self.uuid = sb[104:120]
        self.desc_size = struct.unpack_from("<H", sb, 254)[0] if self.incompat & 0x80 else 32
        if self.desc_size < 32:
            self.desc_size = 32
        self.mmp_block = struct.unpack_from("<Q", sb, 0x168)[0]
        self.csum = bool(self.ro_compat & 0x400)
        self.csum_seed = struct.unpack_from("<I", sb, 0x270)[0] if self.incompat & 0x2000 else crc32c(0xFFFFFFFF, self.uuid)
        self.ngroups = (self.blocks_count - self.first_data_block + self.bpg - 1) // self.bpg
        self.gdt_block = 1024 // self.bs + 1          # the block after the one holding the primary superblock
        gdt = rd(path, self.gdt_block * self.bs, self.ngroups * self.desc_size)
        self.gd = []
        for g in range(self.ngroups):
            bb, ib, it = struct.unpack_from("<III", gdt, g * self.desc_size)
            self.gd.append(dict(block_bitmap=bb, inode_bitmap=ib, inode_table=it))

    def inode_off(self, ino):
        g, i = divmod(ino - 1, self.ipg)
        return self.gd[g]["inode_table"] * self.bs + i * self.inode_size


def fix_sb_csum(path):
    sb = bytearray(rd(path, 1024, 1024))
    ro_compat = struct.unpack_from("<I", sb, 100)[0]
    if ro_compat & 0x400:
        struct.pack_into("<I", sb, 1020, crc32c(0xFFFFFFFF, bytes(sb[:1020])))
        poke(path, 1024, bytes(sb))


def sb_set(path, off, fmt, val, fixcsum=True):
    poke(path, 1024 + off, struct.pack(fmt, val))
    if fixcsum:
        fix_sb_csum(path)


# ---------------------------------------------------------------- tools
class Ctx:
    def __init__(self, b, env, work, seed):
        self.b, self.env, self.work, self.seed = b, dict(env), work, seed
        self.env.pop("LD_PRELOAD", None)

    def run(self, argv, ok=(0,), timeout=60, input=None, env=None):
        try:
            p = subprocess.run(argv, stdout=subprocess.PIPE, stderr=subprocess.STDOUT, env=env or self.env, timeout=timeout,
                               cwd=self.work, input=input)
        except subprocess.TimeoutExpired:
            raise GenError("generator command timed out: %s" % " ".join(argv))
        if ok is not None and p.returncode not in ok:
            raise GenError("generator command failed rc=%d: %s\n%s" % (p.returncode, " ".join(argv), p.stdout.decode("utf8", "replace")[-1500:]))
        return p.returncode, p.stdout.decode("utf8", "replace")

    def dbg(self, img, cmds, write=True, ok=(0,), extra=(), env_extra=None, want_rc=False):
        script = os.path.join(self.work, "gen_%d_%d.dfs" % (os.getpid(), threading.get_ident()))
        with open(script, "w") as f:
            f.write("\n".join(cmds) + "\n")
        argv = [os.path.join(self.b, "debugfs", "debugfs")] + (["-w"] if write else []) + list(extra) + ["-f", script, img]
        # a read-write open of an MMP file system sleeps 2*interval+1 s in ext2fs_mmp_start: hide the feature bit
        # from the generator's own debugfs runs (the states are inputs; how they are made is not under test)
        inc = struct.unpack_from("<I", rd(img, 1024 + 96, 4))[0]
        hide = write and (inc & 0x100) and rd(img, 1024 + 56, 2) == b"\x53\xef"
        if hide:
            sb_set(img, 96, "<I", inc & ~0x100)
        env = None
        if env_extra:
            env = dict(self.env); env.update(env_extra)
        rc, out = self.run(argv, ok=None, env=env)
        if hide:
            inc2 = struct.unpack_from("<I", rd(img, 1024 + 96, 4))[0]
            sb_set(img, 96, "<I", inc2 | 0x100)
        return (rc, out) if want_rc else out

    def dbg1(self, img, cmd):
        return self.run([os.path.join(self.b, "debugfs", "debugfs"), "-R", cmd, img], ok=None)[1]

    def ino_of(self, img, name):
        m = re.search(r"Inode: (\d+)", self.dbg1(img, "stat " + name))
        return int(m.group(1)) if m else None

    def bmap(self, img, spec, lblk):
        out = self.dbg1(img, "bmap %s %d" % (spec, lblk))
        for ln in out.splitlines():
            ln = ln.strip()
            if ln.isdigit():
                return int(ln)
        return 0

    def rng(self, *key):
        h = hashlib.sha256(("%d/" % self.seed + "/".join(str(k) for k in key)).encode()).digest()
        return random.Random(int.from_bytes(h[:8], "little"))


def host_files(ctx):
    r = random.Random(12345)
    files = {"small": bytes(r.getrandbits(8) for _ in range(100)),
             "big": bytes(r.getrandbits(8) for _ in range(300 * 1024)),
             "tiny": b"hello inline\n",
             "mid": bytes(r.getrandbits(8) for _ in range(5000))}
    for n, d in files.items():
        with open(os.path.join(ctx.work, n), "wb") as f:
            f.write(d)


POPULATE = ["mkdir dir1", "mkdir dir1/sub", "write small file_small", "write big file_big", "write tiny tiny",
            "write mid file_mid", "write small dir1/a", "write small dir1/sub/b", "symlink sl_short file_small",
            "symlink sl_long /" + "a" * 100, "mknod pipe p", "mkdir bigdir",
            "ea_set file_small user.foo bar", "ea_set file_big user.big " + "0123456789" * 30,
            "write small doomed", "write big doomed_big", "write small orph_a", "write mid orph_b",
            "punch file_big 40 50"] + \
           ["write tiny bigdir/entry_with_a_long_name_%d" % i for i in range(1, 121)] + \
           ["rm doomed", "rm doomed_big"]


def make_base(ctx, prof, args, dst):
    mk = os.path.join(ctx.b, "misc", "mke2fs")
    if os.path.exists(dst):
        os.unlink(dst)
    # (-E can only be given once: merge extended options)
    ext = ["hash_seed=" + HSEED]
    rest = []
    it = iter(args)
    for a in it:
        if a == "-E":
            ext.append(next(it))
        else:
            rest.append(a)
    ctx.run([mk, "-q", "-F", "-b", str(BS), "-N", "256", "-U", UUID, "-E", ",".join(ext)] + rest + [dst, "8M"])
    out = ctx.dbg(dst, POPULATE)
    if "Allocated inode" not in out:
        raise GenError("populate failed on %s:\n%s" % (prof, out[-800:]))
    fsck = os.path.join(ctx.b, "e2fsck", "e2fsck")
    ctx.run([fsck, "-fyD", dst], ok=(0, 1))
    if prof == "mmp":
        # MMP is switched on last: every read-write open of an MMP file system sleeps 2 * check_interval + 1 = 11 s
        ctx.run([os.path.join(ctx.b, "misc", "tune2fs"), "-O", "mmp", "-E", "mmp_update_interval=1", dst])
        g = Geom(dst)
        if not (g.incompat & 0x100) or not g.mmp_block:
            raise GenError("tune2fs -O mmp did not enable MMP")
        _mmp(ctx, dst, g, 0xFF4D4D50, node=b"node\0\0\0\0\0")      # clean, with a fixed time stamp and node name
    rc, out = ctx.run([fsck, "-fn", dst], ok=None)
    if rc != 0:
        raise GenError("base image of profile %s is not clean after e2fsck -fyD (rc=%d):\n%s" % (prof, rc, out[-800:]))


# ---------------------------------------------------------------- variants
# each: (name, kind, applies(profile), fn(ctx, img, geom))   fn may raise Skip
class Skip(Exception):
    pass


def v_clean(ctx, img, g):
    pass


def v_orphan_list(ctx, img, g):
    a, b = ctx.ino_of(img, "orph_a"), ctx.ino_of(img, "orph_b")
    if not a or not b:
        raise GenError("orphan candidates missing")
    # on-disk orphan chain: s_last_orphan -> a, a.dtime -> b, b.dtime -> 0; both unlinked, links_count 0
    ctx.dbg(img, ["unlink orph_a", "unlink orph_b", "sif <%d> links_count 0" % a, "sif <%d> links_count 0" % b,
                  "sif <%d> dtime %d" % (a, b), "sif <%d> dtime 0" % b, "ssv last_orphan %d" % a])
    if struct.unpack_from("<I", rd(img, 1024 + 232, 4))[0] != a:
        raise GenError("s_last_orphan was not set")


def v_orphan_bad(ctx, img, g):
    sb_set(img, 232, "<I", g.inodes_count + 50)


def v_orphan_inuse(ctx, img, g):
    ino = ctx.ino_of(img, "file_mid")
    sb_set(img, 232, "<I", ino)


def v_sb_state_err(ctx, img, g):
    sb_set(img, 58, "<H", 2)


def v_sb_maxmnt(ctx, img, g):
    sb_set(img, 52, "<H", 40, fixcsum=False)
    sb_set(img, 54, "<h", 20)


def v_sb_future(ctx, img, g):
    sb_set(img, 44, "<I", 1900000000, fixcsum=False)
    sb_set(img, 48, "<I", 1900000000)


def v_sb_magic0(ctx, img, g):
    poke(img, 1024 + 56, b"\0\0")


def v_sb_zero(ctx, img, g):
    poke(img, 1024, b"\0" * 1024)


def v_sb_bpg0(ctx, img, g):
    sb_set(img, 32, "<I", 0)


def v_sb_inodes(ctx, img, g):
    sb_set(img, 0, "<I", 0x7fffff00)


def v_sb_badcsum(ctx, img, g):
    poke(img, 1024 + 120, b"corrupted-label\0")


def v_sb_free_wrong(ctx, img, g):
    sb_set(img, 12, "<I", 17, fixcsum=False)
    sb_set(img, 16, "<I", 3)


def v_sb_unknown_feature(ctx, img, g):
    sb_set(img, 96, "<I", g.incompat | 0x40000000)


def v_sb_first_ino(ctx, img, g):
    sb_set(img, 84, "<I", 3)


def v_gd_zero(ctx, img, g):
    poke(img, g.gdt_block * g.bs, b"\0" * (g.desc_size * min(2, g.ngroups)))


def v_gd_garbage(ctx, img, g):
    r = ctx.rng("gd_garbage")
    poke(img, g.gdt_block * g.bs, bytes(r.getrandbits(8) for _ in range(g.desc_size * g.ngroups)))


def v_gd_itable0(ctx, img, g):
    grp = 1 if g.ngroups > 1 else 0
    ctx.dbg(img, ["set_bg %d inode_table 0" % grp, "set_bg %d checksum calc" % grp])


def v_gd_bitmap_far(ctx, img, g):
    ctx.dbg(img, ["set_bg 0 block_bitmap 99999", "set_bg 0 checksum calc"])


def v_gd_uninit(ctx, img, g):
    ctx.dbg(img, ["set_bg 0 flags 7", "set_bg 0 checksum calc"])


def v_gd_badcsum(ctx, img, g):
    off = g.gdt_block * g.bs + 0x1E
    cur = rd(img, off, 2)
    poke(img, off, bytes([cur[0] ^ 0xFF, cur[1] ^ 0x5A]))


def v_itable_garbage(ctx, img, g):
    r = ctx.rng("itable_garbage")
    poke(img, g.gd[0]["inode_table"] * g.bs, bytes(r.getrandbits(8) for _ in range(g.bs)))


def v_itable_zero(ctx, img, g):
    # the table block holding the first non-reserved inodes (files of the populate script)
    off = g.inode_off(13) // g.bs * g.bs
    poke(img, off, b"\0" * g.bs)


def v_itable_flips(ctx, img, g):
    r = ctx.rng("itable_flips")
    base = g.gd[0]["inode_table"] * g.bs
    for _ in range(12):
        o = base + r.randrange(8 * g.bs)
        poke(img, o, bytes([rd(img, o, 1)[0] ^ (1 << r.randrange(8))]))


def v_root_notdir(ctx, img, g):
    ctx.dbg(img, ["sif <2> mode 0100644"])


def v_root_zero(ctx, img, g):
    poke(img, g.inode_off(2), b"\0" * g.inode_size)


def v_dir_garbage(ctx, img, g):
    blk = ctx.bmap(img, "<2>", 0)
    if not blk:
        raise Skip()
    r = ctx.rng("dir_garbage")
    poke(img, blk * g.bs, bytes(r.getrandbits(8) for _ in range(g.bs)))


def v_dir_reclen(ctx, img, g):
    blk = ctx.bmap(img, "<2>", 0)
    if not blk:
        raise Skip()
    poke(img, blk * g.bs + 4, struct.pack("<H", 5))          # rec_len of "." : not a multiple of 4, too small
    poke(img, blk * g.bs + 16, struct.pack("<H", 0xFFF0))    # rec_len of "..": runs past the block


def v_htree_garbage(ctx, img, g):
    blk = ctx.bmap(img, "bigdir", 0)
    if not blk:
        raise Skip()
    r = ctx.rng("htree_garbage")
    poke(img, blk * g.bs + 24, bytes(r.getrandbits(8) for _ in range(200)))


def v_htree_leaf_garbage(ctx, img, g):
    blk = ctx.bmap(img, "bigdir", 2)
    if not blk:
        raise Skip()
    r = ctx.rng("htree_leaf")
    poke(img, blk * g.bs, bytes(r.getrandbits(8) for _ in range(g.bs)))


def v_bbitmap_flip(ctx, img, g):
    r = ctx.rng("bbitmap")
    base = g.gd[0]["block_bitmap"] * g.bs
    for _ in range(10):
        o = base + r.randrange(g.bs // 4)
        poke(img, o, bytes([rd(img, o, 1)[0] ^ r.randrange(1, 256)]))


def v_ibitmap_flip(ctx, img, g):
    base = g.gd[0]["inode_bitmap"] * g.bs
    poke(img, base, bytes([rd(img, base, 1)[0] ^ 0xF6]))
    poke(img, base + 3, bytes([rd(img, base + 3, 1)[0] ^ 0xFF]))


def v_bitmap_zero(ctx, img, g):
    poke(img, g.gd[0]["block_bitmap"] * g.bs, b"\0" * g.bs)
    poke(img, g.gd[0]["inode_bitmap"] * g.bs, b"\0" * g.bs)


def v_map_garbage(ctx, img, g):
    ino = ctx.ino_of(img, "file_big")
    r = ctx.rng("map_garbage")
    poke(img, g.inode_off(ino) + 40, bytes(r.getrandbits(8) for _ in range(60)))   # i_block: extent header / pointers


def v_map_range(ctx, img, g):
    ctx.dbg(img, ["sif file_mid block[1] 4000000", "sif file_mid block[2] 1"])


def v_dup_blocks(ctx, img, g):
    blk = ctx.bmap(img, "file_big", 3)
    if not blk:
        raise Skip()
    ino = ctx.ino_of(img, "dir1/a")
    flags = struct.unpack_from("<I", rd(img, g.inode_off(ino) + 32, 4))[0]
    if flags & 0x10080000:              # extents / inline data: i_block is not a pointer array
        ctx.dbg(img, ["sif dir1/a flags 0", "sif dir1/a block[0] %d" % blk, "sif dir1/a size 100"])
    else:
        ctx.dbg(img, ["sif dir1/a block[0] %d" % blk])


def v_size_wrong(ctx, img, g):
    ctx.dbg(img, ["sif file_big size 17", "sif dir1 size 5", "sif file_small links_count 9", "sif sl_long size 9999"])


def v_xattr_garbage(ctx, img, g):
    ino = ctx.ino_of(img, "file_big")
    acl = struct.unpack_from("<I", rd(img, g.inode_off(ino) + 104, 4))[0]
    if not acl:
        raise Skip()
    r = ctx.rng("xattr")
    poke(img, acl * g.bs + 8, bytes(r.getrandbits(8) for _ in range(120)))


def v_resize_inode(ctx, img, g):
    poke(img, g.inode_off(7) + 28, struct.pack("<I", 1234))      # i_blocks of the resize inode
    poke(img, g.inode_off(7) + 40 + 13 * 4, struct.pack("<I", 77))   # its double-indirect pointer


def v_rand(n):
    def f(ctx, img, g):
        r = ctx.rng("rand", n)
        # metadata region: superblock, descriptors, reserved gdt, bitmaps, inode tables of the first group/flex group
        hi = (g.gd[0]["inode_table"] + g.ipg * g.inode_size // g.bs) * g.bs
        for _ in range(r.randint(1, 8)):
            o = r.randrange(1024, max(hi, 4096))
            if r.random() < 0.5:
                poke(img, o, bytes([rd(img, o, 1)[0] ^ (1 << r.randrange(8))]))
            else:
                poke(img, o, bytes(r.getrandbits(8) for _ in range(r.choice([1, 2, 4, 16, 64]))))
        if g.csum and r.random() < 0.5:
            fix_sb_csum(img)
    return f


# --- journal
def v_jrn_recover(ctx, img, g):
    out = ctx.dbg(img, ["jo", "jw -b 333,334 /dev/zero", "jc", "jo", "jw -b 400 -r 333 /dev/zero", "jc"])
    if not (struct.unpack_from("<I", rd(img, 1024 + 96, 4))[0] & 0x4):
        raise GenError("needs_recovery not set after journal writes:\n" + out[-600:])


def v_jrn_recover_meta(ctx, img, g):
    # a transaction that carries real metadata (group descriptor block + root directory block) and a revoke
    blk = ctx.bmap(img, "<2>", 0) or g.gd[0]["inode_bitmap"]
    out = ctx.dbg(img, ["jo", "jw -b %d,%d /dev/zero" % (g.gdt_block, blk), "jc", "jo", "jw -r 334 -b 600 /dev/zero", "jc"])
    if not (struct.unpack_from("<I", rd(img, 1024 + 96, 4))[0] & 0x4):
        raise GenError("needs_recovery not set after journal writes:\n" + out[-600:])


def v_jrn_recover_orphan(ctx, img, g):
    v_orphan_list(ctx, img, g)
    v_jrn_recover(ctx, img, g)


def _jsb_off(ctx, img, g):
    blk = ctx.bmap(img, "<8>", 0)
    if not blk:
        raise GenError("journal block 0 not mapped")
    return blk * g.bs


def v_jsb_magic(ctx, img, g):
    poke(img, _jsb_off(ctx, img, g), b"\0\0\0\0")


def v_jsb_garbage_nr(ctx, img, g):
    v_jrn_recover(ctx, img, g)
    r = ctx.rng("jsb")
    poke(img, _jsb_off(ctx, img, g) + 12, bytes(r.getrandbits(8) for _ in range(80)))


def v_jrn_txn_garbage(ctx, img, g):
    v_jrn_recover(ctx, img, g)
    r = ctx.rng("txn")
    blk = ctx.bmap(img, "<8>", 1)
    poke(img, blk * g.bs + 12, bytes(r.getrandbits(8) for _ in range(64)))      # first descriptor block's tags


def v_jrn_commit_garbage(ctx, img, g):
    v_jrn_recover(ctx, img, g)
    for l in range(1, 12):                      # find the first commit block (blocktype 2) and damage it
        blk = ctx.bmap(img, "<8>", l)
        h = rd(img, blk * g.bs, 12)
        if h[:4] == b"\xc0\x3b\x39\x98" and struct.unpack(">I", h[4:8])[0] == 2:
            poke(img, blk * g.bs + 16, b"\xde\xad\xbe\xef" * 8)
            return
    raise Skip()


def v_jrn_flag_only(ctx, img, g):
    sb_set(img, 96, "<I", g.incompat | 0x4)


def v_jrn_start_noflag(ctx, img, g):
    v_jrn_recover(ctx, img, g)
    inc = struct.unpack_from("<I", rd(img, 1024 + 96, 4))[0]
    sb_set(img, 96, "<I", inc & ~0x4)


def v_jrn_inode_zero(ctx, img, g):
    poke(img, g.inode_off(8), b"\0" * g.inode_size)


def v_jrn_inode_zero_nr(ctx, img, g):
    v_jrn_recover(ctx, img, g)
    poke(img, g.inode_off(8), b"\0" * g.inode_size)


# --- orphan file (ext4 profile)
def _orphan_file(ctx, img, g, good):
    ino = struct.unpack_from("<I", rd(img, 1024 + 0x280, 4))[0]          # s_orphan_file_inum
    if not ino:
        raise GenError("no orphan file inode")
    blk = ctx.bmap(img, "<%d>" % ino, 0)
    a = ctx.ino_of(img, "orph_a")
    ctx.dbg(img, ["unlink orph_a", "sif <%d> links_count 0" % a, "feature orphan_present"])
    buf = bytearray(rd(img, blk * g.bs, g.bs))
    struct.pack_into("<I", buf, 0, a)
    n = (g.bs - 8) // 4
    gen = struct.unpack_from("<I", rd(img, g.inode_off(ino) + 100, 4))[0]
    c = crc32c(g.csum_seed, struct.pack("<I", ino))
    c = crc32c(c, struct.pack("<I", gen))
    c = crc32c(c, struct.pack("<Q", blk))
    c = crc32c(c, bytes(buf[:n * 4]))
    struct.pack_into("<I", buf, g.bs - 4, c if good else c ^ 0x1111)
    poke(img, blk * g.bs, bytes(buf))


def v_orphan_file(ctx, img, g):
    _orphan_file(ctx, img, g, True)


def v_orphan_file_badcsum(ctx, img, g):
    _orphan_file(ctx, img, g, False)


def v_orphan_file_recover(ctx, img, g):
    _orphan_file(ctx, img, g, True)
    v_jrn_recover(ctx, img, g)


# --- MMP
def _mmp(ctx, img, g, seq, magic=0x004D4D50, goodcsum=True, node=b"othernode"):
    if not g.mmp_block:
        raise GenError("no MMP block")
    buf = bytearray(rd(img, g.mmp_block * g.bs, 1024))
    struct.pack_into("<II", buf, 0, magic, seq)
    struct.pack_into("<Q", buf, 8, 1600000000)
    buf[16:16 + 64] = node.ljust(64, b"\0")
    buf[80:80 + 32] = b"dev".ljust(32, b"\0")
    c = crc32c(g.csum_seed, bytes(buf[:1020]))
    struct.pack_into("<I", buf, 1020, c if goodcsum else c ^ 0xFFFF)
    poke(img, g.mmp_block * g.bs, bytes(buf))


def v_mmp_active(ctx, img, g):
    _mmp(ctx, img, g, 0x1234)


def v_mmp_fsck(ctx, img, g):
    _mmp(ctx, img, g, 0xE24D4D50)


def v_mmp_badmagic(ctx, img, g):
    _mmp(ctx, img, g, 0xFF4D4D50, magic=0xdeadbeef)


def v_mmp_badcsum(ctx, img, g):
    _mmp(ctx, img, g, 0xFF4D4D50, goodcsum=False)


def v_mmp_recover(ctx, img, g):
    v_jrn_recover(ctx, img, g)
    _mmp(ctx, img, g, 0x1234)


# --- quota
def v_quota_stale(ctx, img, g):
    ctx.dbg(img, ["write big unaccounted", "sif unaccounted uid 1000", "sif file_mid uid 1000", "sif file_mid gid 77"])


def v_quota_garbage(ctx, img, g):
    blk = ctx.bmap(img, "<3>", 1) or ctx.bmap(img, "<3>", 0)
    if not blk:
        raise Skip()
    r = ctx.rng("quota")
    poke(img, blk * g.bs, bytes(r.getrandbits(8) for _ in range(g.bs)))


def v_quota_inode_zero(ctx, img, g):
    poke(img, g.inode_off(4), b"\0" * g.inode_size)


# --- inline data
def v_inline_garbage(ctx, img, g):
    ino = ctx.ino_of(img, "tiny")
    r = ctx.rng("inline")
    poke(img, g.inode_off(ino) + 40, bytes(r.getrandbits(8) for _ in range(60)))
    poke(img, g.inode_off(ino) + 160, bytes(r.getrandbits(8) for _ in range(40)))   # in-inode xattr area


def v_inline_size(ctx, img, g):
    ctx.dbg(img, ["sif tiny size 70000", "sif bigdir/entry_with_a_long_name_5 size 61"])


# --- journal superblock s_errno (the journal recorded an error: e2fsck wants to clear it and flag the filesystem)
def _jsb_errno(ctx, img, g, val=-5):
    off = _jsb_off(ctx, img, g)
    jsb = bytearray(rd(img, off, 1024))
    magic, btype = struct.unpack_from(">II", jsb, 0)
    if magic != 0xC03B3998 or btype not in (3, 4):
        raise GenError("journal block 0 is not a journal superblock (magic %#x type %d)" % (magic, btype))
    struct.pack_into(">i", jsb, 0x20, val)
    if struct.unpack_from(">I", jsb, 0x28)[0] & 0x18:           # JBD2_FEATURE_INCOMPAT_CSUM_V2 | _V3: keep s_checksum valid
        jsb[0xFC:0x100] = b"\0\0\0\0"
        struct.pack_into(">I", jsb, 0xFC, crc32c(0xFFFFFFFF, bytes(jsb)))
    poke(img, off, bytes(jsb))


def _axis_fn(j, o):
    """State of the (journal, orphan) axes of spec/ToolRunUniv.tla, composed from the single recipes."""
    def f(ctx, img, g):
        if o == "list":
            v_orphan_list(ctx, img, g)
        elif o == "file":
            _orphan_file(ctx, img, g, True)
        if j in ("recover", "recover_errno"):
            v_jrn_recover(ctx, img, g)
        if j in ("errno", "recover_errno"):
            _jsb_errno(ctx, img, g)
    return f


# axis points that an older variant already realises (same recipe): no second image
AXIS_ALIAS = {("none", "none"): "clean", ("clean", "none"): "clean", ("none", "list"): "orphan_list", ("clean", "list"): "orphan_list",
              ("clean", "file"): "orphan_file", ("recover", "none"): "jrn_recover", ("recover", "list"): "jrn_recover_orphan",
              ("recover", "file"): "orphan_file_recover"}


def axis_variant(prof, j, o):
    """Variant name of axis point (j, o) on this profile, or None when the profile cannot be in it."""
    if (j == "none") != (prof not in HAS_JOURNAL):
        return None
    if o == "file" and prof != "ext4":              # the only profile made with orphan_file
        return None
    return AXIS_ALIAS.get((j, o), "ax_%s_%s" % (j, o))


def axis_variants(axes):
    out = []
    for a in axes:
        j, o = a["j"], a["o"]
        if (j, o) in AXIS_ALIAS:
            continue
        applies = (lambda jj, oo: lambda p: axis_variant(p, jj, oo) is not None)(j, o)
        out.append(("ax_%s_%s" % (j, o), "journal", applies, _axis_fn(j, o)))
    return out



ALL = lambda p: True
JRN = lambda p: p in HAS_JOURNAL
VARIANTS = [
    ("clean", "clean", ALL, v_clean),
    ("orphan_list", "orphan", ALL, v_orphan_list),
    ("orphan_bad", "orphan", ALL, v_orphan_bad),
    ("orphan_inuse", "orphan", ALL, v_orphan_inuse),
    ("jrn_recover", "journal", JRN, v_jrn_recover),
    ("jrn_recover_meta", "journal", JRN, v_jrn_recover_meta),
    ("jrn_recover_orphan", "journal", JRN, v_jrn_recover_orphan),
    ("jrn_flag_only", "journal", JRN, v_jrn_flag_only),
    ("jrn_start_noflag", "journal", JRN, v_jrn_start_noflag),
    ("jsb_magic", "corrupt", JRN, v_jsb_magic),
    ("jsb_garbage_nr", "corrupt", JRN, v_jsb_garbage_nr),
    ("jrn_txn_garbage", "corrupt", JRN, v_jrn_txn_garbage),
    ("jrn_commit_garbage", "corrupt", JRN, v_jrn_commit_garbage),
    ("jrn_inode_zero", "corrupt", JRN, v_jrn_inode_zero),
    ("jrn_inode_zero_nr", "corrupt", JRN, v_jrn_inode_zero_nr),
    ("orphan_file", "orphan", lambda p: p == "ext4", v_orphan_file),
    ("orphan_file_badcsum", "orphan", lambda p: p == "ext4", v_orphan_file_badcsum),
    ("orphan_file_recover", "orphan", lambda p: p == "ext4", v_orphan_file_recover),
    ("mmp_active", "mmp", lambda p: p == "mmp", v_mmp_active),
    ("mmp_fsck", "mmp", lambda p: p == "mmp", v_mmp_fsck),
    ("mmp_badmagic", "mmp", lambda p: p == "mmp", v_mmp_badmagic),
    ("mmp_badcsum", "mmp", lambda p: p == "mmp", v_mmp_badcsum),
    ("mmp_recover", "mmp", lambda p: p == "mmp", v_mmp_recover),
    ("quota_stale", "quota", lambda p: p == "quota", v_quota_stale),
    ("quota_garbage", "quota", lambda p: p == "quota", v_quota_garbage),
    ("quota_inode_zero", "quota", lambda p: p == "quota", v_quota_inode_zero),
    ("inline_garbage", "corrupt", lambda p: p == "inline", v_inline_garbage),
    ("inline_size", "corrupt", lambda p: p == "inline", v_inline_size),
    ("sb_state_err", "corrupt", ALL, v_sb_state_err),
    ("sb_maxmnt", "corrupt", ALL, v_sb_maxmnt),
    ("sb_future", "corrupt", ALL, v_sb_future),
    ("sb_magic0", "corrupt", ALL, v_sb_magic0),
    ("sb_zero", "corrupt", ALL, v_sb_zero),
    ("sb_bpg0", "corrupt", ALL, v_sb_bpg0),
    ("sb_inodes", "corrupt", ALL, v_sb_inodes),
    ("sb_badcsum", "corrupt", ALL, v_sb_badcsum),
    ("sb_free_wrong", "corrupt", ALL, v_sb_free_wrong),
    ("sb_unknown_feature", "corrupt", ALL, v_sb_unknown_feature),
    ("sb_first_ino", "corrupt", ALL, v_sb_first_ino),
    ("gd_zero", "corrupt", ALL, v_gd_zero),
    ("gd_garbage", "corrupt", ALL, v_gd_garbage),
    ("gd_itable0", "corrupt", ALL, v_gd_itable0),
    ("gd_bitmap_far", "corrupt", ALL, v_gd_bitmap_far),
    ("gd_uninit", "corrupt", lambda p: p not in ("ext2", "ext3"), v_gd_uninit),
    ("gd_badcsum", "corrupt", lambda p: p not in ("ext2", "ext3"), v_gd_badcsum),
    ("itable_garbage", "corrupt", ALL, v_itable_garbage),
    ("itable_zero", "corrupt", ALL, v_itable_zero),
    ("itable_flips", "corrupt", ALL, v_itable_flips),
    ("root_notdir", "corrupt", ALL, v_root_notdir),
    ("root_zero", "corrupt", ALL, v_root_zero),
    ("dir_garbage", "corrupt", ALL, v_dir_garbage),
    ("dir_reclen", "corrupt", ALL, v_dir_reclen),
    ("htree_garbage", "corrupt", ALL, v_htree_garbage),
    ("htree_leaf_garbage", "corrupt", ALL, v_htree_leaf_garbage),
    ("bbitmap_flip", "corrupt", ALL, v_bbitmap_flip),
    ("ibitmap_flip", "corrupt", ALL, v_ibitmap_flip),
    ("bitmap_zero", "corrupt", ALL, v_bitmap_zero),
    ("map_garbage", "corrupt", ALL, v_map_garbage),
    ("map_range", "corrupt", ALL, v_map_range),
    ("dup_blocks", "corrupt", ALL, v_dup_blocks),
    ("size_wrong", "corrupt", ALL, v_size_wrong),
    ("xattr_garbage", "corrupt", ALL, v_xattr_garbage),
    ("resize_inode", "corrupt", ALL, v_resize_inode),
]
# the states every tier uses; "rand_*" are added per tier
NRAND = {"quick": 2, "thorough": 16}


# ---------------------------------------------------------------- undo logs (catalogue of spec/ToolRunUniv.tla)
# File format (lib/ext2fs/undo_io.c): blocks of hdr.block_size; block 0 header (512 bytes used), block super_offset = copy
# of the superblock (s_magic inverted), from block key_offset: key block (magic, crc, reserved, 16-byte keys
# {fsblk, blk_crc, size}) followed by the data of its keys, then the next key block ...
UNDO_HDR = struct.Struct("<8sQQQIIIIIIIIQ")        # magic num_keys super_offset key_offset block_size fs_block_size sb_crc state
                                                   # f_compat f_incompat f_rocompat pad32 fs_offset ; header_crc at 508


class UndoLog:
    def __init__(self, data):
        self.data = bytearray(data)
        (self.magic, self.num_keys, self.super_off, self.key_off, self.bs, self.fs_bs, self.sb_crc, self.state,
         self.f_compat, self.f_incompat, self.f_rocompat, _pad, self.fs_offset) = UNDO_HDR.unpack_from(self.data, 0)
        if self.magic != b"E2UNDO02" or self.bs < 1024:
            raise GenError("recording did not leave an undo file (magic %r block size %d)" % (self.magic, self.bs))
        self.kpb = self.bs // 16 - 1
        self.keyblocks, self.keys = [], []          # block numbers of the key blocks; (keyblock, index, fsblk, crc, size, fileblk)
        lblk, i = self.key_off, 0
        while i < self.num_keys:
            kb = lblk
            self.keyblocks.append(kb)
            lblk += 1
            for j in range(min(self.kpb, self.num_keys - i)):
                fsblk, crc, size = struct.unpack_from("<QII", self.data, kb * self.bs + 16 + 16 * j)
                self.keys.append((kb, j, fsblk, crc, size, lblk))
                lblk += (size + self.bs - 1) // self.bs
            i += self.kpb
        self.end_blk = lblk

    def set_hdr(self, off, fmt, val, fix=True):
        struct.pack_into(fmt, self.data, off, val)
        if fix:
            struct.pack_into("<I", self.data, 508, crc32c(0xFFFFFFFF, bytes(self.data[:508])))

    def fix_keyblock(self, kb):
        o = kb * self.bs
        self.data[o + 4:o + 8] = b"\0\0\0\0"
        struct.pack_into("<I", self.data, o + 4, crc32c(0xFFFFFFFF, bytes(self.data[o:o + self.bs])))


def _undo_defect(log_bytes, defect, rng):
    """Apply one defect of the catalogue to a finished log; returns the bytes of the damaged log."""
    u = UndoLog(log_bytes)
    bs, d = u.bs, u.data
    first, last = u.keys[0], u.keys[-1]
    cut = {"trunc_empty": 0, "trunc_hdr": 100, "trunc_1blk": bs, "trunc_2blk": u.key_off * bs, "trunc_keyblock": u.key_off * bs + bs // 2,
           "trunc_data_first": (u.key_off + 1) * bs,
           "trunc_keyblock2": u.keyblocks[1] * bs if len(u.keyblocks) > 1 else None, "trunc_data_last": last[5] * bs}
    if defect in cut:
        if cut[defect] is None or cut[defect] >= len(d):
            raise GenError("undo log too small for defect %s (%d key blocks, %d bytes)" % (defect, len(u.keyblocks), len(d)))
        return bytes(d[:cut[defect]])
    if defect == "none":
        pass
    elif defect == "unfinished":
        u.set_hdr(44, "<I", u.state & ~1)
    elif defect == "hdr_magic":
        d[0] ^= 0xFF
    elif defect == "hdr_csum":
        d[100] ^= 0xFF                                  # padding byte, header_crc left stale
    elif defect == "hdr_bs0":
        u.set_hdr(32, "<I", 0)
    elif defect == "hdr_bs_small":
        u.set_hdr(32, "<I", 512)
    elif defect == "hdr_incompat":
        u.set_hdr(52, "<I", 1)
    elif defect == "hdr_numkeys_more":
        u.set_hdr(8, "<Q", u.num_keys + 200)
    elif defect == "hdr_fs_offset":
        u.set_hdr(48, "<I", u.f_compat | 1, fix=False)
        u.set_hdr(64, "<Q", 4096)
    elif defect == "key_magic":
        d[u.keyblocks[0] * bs] ^= 0xFF
    elif defect == "key_csum":
        d[u.keyblocks[0] * bs + 8] ^= 0xFF             # the reserved field: the keys themselves stay intact
    elif defect == "key_size_huge":
        struct.pack_into("<I", d, first[0] * bs + 16 + 16 * first[1] + 12, 0x40000000)
        u.fix_keyblock(first[0])
    elif defect == "key_fsblk_far":
        struct.pack_into("<Q", d, first[0] * bs + 16 + 16 * first[1], 0x7FFFFFFF)
        u.fix_keyblock(first[0])
    elif defect == "data_csum_first":
        d[first[5] * bs + 5] ^= 0xFF
    elif defect == "data_csum_last":
        d[last[5] * bs + 5] ^= 0xFF
    elif defect == "sb_copy":
        d[u.super_off * bs:u.super_off * bs + 1024] = bytes(rng.getrandbits(8) for _ in range(1024))
    else:
        raise GenError("no recipe for undo log defect %r of the catalogue" % defect)
    return bytes(d)


def matching_undo_file(img):
    """A finished undo file that MATCHES the image as it is (undo_open() re-opens such a file): header, superblock copy,
    one key block with one key (the last block of the image, before-image = its present content)."""
    bs = 1024
    sb = bytearray(rd(img, 1024, 1024))
    sb_crc = crc32c(0xFFFFFFFF, bytes(sb))
    nblk = os.path.getsize(img) // bs
    blk = rd(img, (nblk - 1) * bs, bs)
    hdr = bytearray(bs)
    UNDO_HDR.pack_into(hdr, 0, b"E2UNDO02", 1, 1, 2, bs, bs, sb_crc, 1, 0, 0, 0, 0, 0)
    struct.pack_into("<I", hdr, 508, crc32c(0xFFFFFFFF, bytes(hdr[:508])))
    struct.pack_into("<H", sb, 56, ~struct.unpack_from("<H", sb, 56)[0] & 0xFFFF)
    kb = bytearray(bs)
    struct.pack_into("<IIQ", kb, 0, 0xCADECADE, 0, 0)
    struct.pack_into("<QII", kb, 16, nblk - 1, crc32c(0xFFFFFFFF, blk), bs)
    struct.pack_into("<I", kb, 4, crc32c(0xFFFFFFFF, bytes(kb)))
    return bytes(hdr) + bytes(sb) + bytes(kb) + blk


def build_undo_catalogue(ctx, prof, base, outdir, catalogue, iotrace):
    """catalogue: list of {defect, rel} (spec).  One recording (debugfs -w -z: > keys-per-block scattered free blocks zapped,
    a directory and a file made) gives the finished log and the `recorded` target; `reverted` = the base image;
    `other_fs` = a fresh ext2 file system; killed_* = the same recording ended by _exit() after the n-th write-class call on
    the target (iotrace.so VERIF_CRASH_AFTER), with the target it left.  Returns [State] (id <prof>/undo:<defect>:<rel>)."""
    cand = list(range(5001, 5001 + 2 * 400, 2))
    out = ctx.dbg(base, ["testb %d" % n for n in cand], write=False)
    free = [int(m.group(1)) for m in re.finditer(r"Block (\d+) not in use", out)]
    if len(free) < 100:
        raise GenError("fewer than 100 free blocks among the candidates on %s" % prof)
    script = ["zap_block -p 0x5a %d" % n for n in free[:100]] + ["mkdir undo_dir", "write small undo_dir/f", "write mid undo_mid"]

    def record(tag, env_extra=None):
        img = os.path.join(outdir, "%s__undo_%s.img" % (prof, tag))
        log = os.path.join(outdir, "%s__undo_%s.log" % (prof, tag))
        sparse_copy(base, img)
        if os.path.exists(log):
            os.unlink(log)
        e = dict(env_extra or {})
        if e:
            e.update({"LD_PRELOAD": iotrace, "VERIF_IOTRACE_TARGET": img, "VERIF_IOTRACE_OUT": os.devnull})
        rc, o = ctx.dbg(img, script, extra=["-z", log], env_extra=e or None, want_rc=True)
        if e and rc != 97:
            raise GenError("recording on %s was not ended by the injected crash (rc=%d):\n%s" % (prof, rc, o[-500:]))
        if not os.path.exists(log) or os.path.getsize(log) == 0:
            raise GenError("recording on %s left no undo file:\n%s" % (prof, o[-500:]))
        return img, log
    rec_img, rec_log = record("rec")
    good = open(rec_log, "rb").read()
    if Geom(base).incompat & 0x100:
        # MMP profile: the generator's debugfs -w ran with the feature bit hidden (Ctx.dbg), so the superblock copy in the
        # log lacks it; `recorded` means "the log's superblock copy is the target's superblock": re-sync copy and sb_crc
        u = UndoLog(good)
        sb = bytearray(rd(rec_img, 1024, 1024))
        u.set_hdr(40, "<I", crc32c(0xFFFFFFFF, bytes(sb)))
        struct.pack_into("<H", sb, 56, ~struct.unpack_from("<H", sb, 56)[0] & 0xFFFF)
        u.data[u.super_off * u.bs:u.super_off * u.bs + 1024] = sb
        good = bytes(u.data)
        with open(rec_log, "wb") as f:
            f.write(good)
    u = UndoLog(good)
    if not (u.state & 1) or len(u.keyblocks) < 2 or u.end_blk * u.bs != len(good):
        raise GenError("recorded undo log of %s is not what the catalogue needs (state %d, %d key blocks, %d keys, end %d, size %d)"
                       % (prof, u.state, len(u.keyblocks), u.num_keys, u.end_blk * u.bs, len(good)))
    other = os.path.join(outdir, "%s__undo_other.img" % prof)
    ctx.run([os.path.join(ctx.b, "misc", "mke2fs"), "-q", "-F", "-t", "ext2", "-b", str(BS), "-U", "99999999-8888-7777-6666-555555555555",
             other, "8M"])
    targets = {"recorded": rec_img, "reverted": base, "other_fs": other}
    killed = {}
    states = []
    for c in catalogue:
        d, rel = c["defect"], c["rel"]
        sid = "%s/undo:%s:%s" % (prof, d, rel)
        if d in ("killed_early", "killed_late"):
            if d not in killed:
                killed[d] = record(d, {"VERIF_CRASH_AFTER": "2" if d == "killed_early" else "60"})
            img, log = killed[d]
            if rel != "recorded":
                img = targets[rel]
        else:
            log = os.path.join(outdir, "%s__undo_%s.log" % (prof, d))
            if not os.path.exists(log):
                with open(log, "wb") as f:
                    f.write(_undo_defect(good, d, ctx.rng("undo", d)))
            img = targets[rel]
        states.append(State(sid, prof, "undo:%s:%s" % (d, rel), img, log, "undolog"))
    return states, rec_log


# ---------------------------------------------------------------- external journal device (catalogue of spec/ToolRunUniv.tla, section 4)
JNL_UUID = "77777777-6666-5555-4444-333333333333"
JNL_BLOCKS = 4096
JSB_OFF = 2 * BS                    # ext2fs_journal_sb_start(1024) = 2: the block after the ext2 superblock of the journal device
EXTJ_PROFILES = {"plain": (["-t", "ext3", "-g", "2048", "-O", "^has_journal"], "journal_dev", []),
                 "csum": (["-t", "ext4", "-g", "2048", "-O", "metadata_csum,64bit,^has_journal"], "journal_dev,metadata_csum", ["-c"])}


def _jsb_patch(path, off, fn, fixcsum=True):
    """Apply fn(bytearray) to the journal superblock at byte offset `off` of `path`; keep s_checksum valid (v2 / v3)."""
    jsb = bytearray(rd(path, off, 1024))
    magic, btype = struct.unpack_from(">II", jsb, 0)
    if magic != 0xC03B3998 or btype not in (3, 4):
        raise GenError("no journal superblock at offset %d of %s (magic %#x type %d)" % (off, path, magic, btype))
    fn(jsb)
    if fixcsum and struct.unpack_from(">I", jsb, 0x28)[0] & 0x18:
        jsb[0xFC:0x100] = b"\0\0\0\0"
        struct.pack_into(">I", jsb, 0xFC, crc32c(0xFFFFFFFF, bytes(jsb)))
    poke(path, off, bytes(jsb))
    return jsb


def _xj_errno(jsb):
    struct.pack_into(">i", jsb, 0x20, -5)


def _xj_multi_user(jsb):
    struct.pack_into(">I", jsb, 0x40, 2)                       # s_nr_users
    jsb[0x100:0x110] = bytes.fromhex(UUID.replace("-", ""))
    jsb[0x110:0x120] = bytes.fromhex("99999999888877776666555555555555")


def build_extj_states(b, env, outdir, seed, catalogue, only=None):
    """catalogue: [{profile, jstate}] (ToolRunUniv!ExtJImages).  A filesystem image without an internal journal + a journal device
    image (mke2fs -O journal_dev), attached the way tests/j_ext_long_trans does it (debugfs: feature has_journal, ssv journal_uuid;
    mke2fs -J device= insists on a block special file).  Transactions are written with debugfs `jo -f <journal device>` (-c on
    the csum flavour: JBD2 checksum v3); `clean` = the same pair after e2fsck -fy -j replayed them.  The other states are byte
    edits of the journal device of the clean pair (journal superblock at block 2, ext2 superblock at byte 1024).
    -> [State(id "xj_<profile>/<jstate>", kind "extjournal", path = filesystem image, jnl = journal device image)]"""
    states = []
    fsck = os.path.join(b, "e2fsck", "e2fsck")
    for prof in sorted({c["profile"] for c in catalogue}):
        if prof not in EXTJ_PROFILES:
            raise GenError("no recipe for external-journal flavour %r of ToolRunUniv!ExtJProfiles" % prof)
        want = [c["jstate"] for c in catalogue if c["profile"] == prof and (not only or "xj_%s/%s" % (prof, c["jstate"]) in only)]
        if not want:
            continue
        args, jfeat, jo_opt = EXTJ_PROFILES[prof]
        work = os.path.join(outdir, "gen_xj_" + prof)
        os.makedirs(work, exist_ok=True)
        ctx = Ctx(b, env, work, seed)
        host_files(ctx)
        fs0, j0 = os.path.join(outdir, "xj_%s__base.img" % prof), os.path.join(outdir, "xj_%s__base.jnl" % prof)
        make_base(ctx, "xj_" + prof, args, fs0)
        if os.path.exists(j0):
            os.unlink(j0)
        ctx.run([os.path.join(b, "misc", "mke2fs"), "-q", "-F", "-b", str(BS), "-O", jfeat, "-U", JNL_UUID, j0, str(JNL_BLOCKS)])
        ctx.dbg(fs0, ["feature has_journal", "ssv journal_dev 0", "ssv journal_uuid " + JNL_UUID])
        sb = rd(fs0, 1024, 1024)
        if not struct.unpack_from("<I", sb, 92)[0] & 0x4 or struct.unpack_from("<I", sb, 224)[0] != 0 or sb[208:224].hex() != JNL_UUID.replace("-", ""):
            raise GenError("attaching the journal device failed on flavour %s" % prof)

        def pair(name):
            return os.path.join(outdir, "xj_%s__%s.img" % (prof, name)), os.path.join(outdir, "xj_%s__%s.jnl" % (prof, name))
        # recover: two committed transactions (data blocks + a revoke) on the journal device, needs_recovery on the filesystem
        rfs, rj = pair("recover")
        sparse_copy(fs0, rfs); sparse_copy(j0, rj)
        jo = "jo %s-f %s" % ("".join(o + " " for o in jo_opt), rj)
        out = ctx.dbg(rfs, [jo, "jw -b 333,334 /dev/zero", "jc", "jo -f " + rj, "jw -b 400 -r 333 /dev/zero", "jc"])
        if not struct.unpack_from("<I", rd(rfs, 1024 + 96, 4))[0] & 0x4 or struct.unpack_from(">I", rd(rj, JSB_OFF + 0x1C, 4))[0] == 0:
            raise GenError("writing transactions to the journal device failed on flavour %s:\n%s" % (prof, out[-600:]))
        if jo_opt and not struct.unpack_from(">I", rd(rj, JSB_OFF + 0x28, 4))[0] & 0x10:
            raise GenError("journal device of flavour %s has no checksum v3 after jo -c" % prof)
        # clean: replayed
        cfs, cj = pair("clean")
        sparse_copy(rfs, cfs); sparse_copy(rj, cj)
        ctx.run([fsck, "-fy", "-j", cj, cfs], ok=(0, 1))
        rc, out = ctx.run([fsck, "-fn", "-j", cj, cfs], ok=None)
        if rc != 0 or struct.unpack_from(">I", rd(cj, JSB_OFF + 0x1C, 4))[0] != 0 or struct.unpack_from("<I", rd(cfs, 1024 + 96, 4))[0] & 0x4:
            raise GenError("filesystem + journal device of flavour %s are not clean after the replay (rc=%d):\n%s" % (prof, rc, out[-600:]))

        def edit_dev_uuid(j):
            poke(j, 1024 + 104, bytes.fromhex("0123456789abcdef0123456789abcdef"))
            fix_sb_csum(j)
        recipes = {"clean": ("clean", None), "recover": ("recover", None),
                   "errno": ("clean", lambda j: _jsb_patch(j, JSB_OFF, _xj_errno)),
                   "recover_errno": ("recover", lambda j: _jsb_patch(j, JSB_OFF, _xj_errno)),
                   "multi_user": ("clean", lambda j: _jsb_patch(j, JSB_OFF, _xj_multi_user)),
                   "dev_uuid": ("clean", edit_dev_uuid),
                   "jsb_csum": ("clean", lambda j: poke(j, JSB_OFF + 0xFC, bytes(x ^ 0x5a for x in rd(j, JSB_OFF + 0xFC, 4)))),
                   "jsb_magic": ("clean", lambda j: poke(j, JSB_OFF, b"\0\0\0\0"))}
        for js in want:
            if js not in recipes:
                raise GenError("no recipe for journal device state %r of ToolRunUniv!ExtJStates" % js)
            src, fn = recipes[js]
            fs, j = pair(js)
            if fn:
                sfs, sj = pair(src)
                sparse_copy(sfs, fs); sparse_copy(sj, j)
                before = hashlib.sha256(open(j, "rb").read()).digest()
                fn(j)
                if hashlib.sha256(open(j, "rb").read()).digest() == before:
                    raise GenError("recipe %s left the journal device of flavour %s unchanged" % (js, prof))
            states.append(State("xj_%s/%s" % (prof, js), "xj_" + prof, js, fs, "", "extjournal", j))
    return states


def sparse_copy(src, dst):
    """Copy keeping holes (tmpfs-friendly): 8 MiB images occupy ~2.5 MiB."""
    with open(src, "rb") as fi, open(dst, "wb") as fo:
        while True:
            buf = fi.read(65536)
            if not buf:
                break
            if buf.count(0) == len(buf):
                fo.seek(len(buf), 1)
            else:
                fo.write(buf)
        fo.truncate(fo.tell() if fo.tell() > 0 else 0)
        fo.truncate(os.path.getsize(src))


def variant_table(tier, axes=()):
    v = list(VARIANTS) + axis_variants(axes)
    for n in range(NRAND[tier]):
        v.append(("rand_%02d" % n, "corrupt", ALL, v_rand(n)))
    return v


def _build_profile(b, env, outdir, tier, seed, prof, args, only, axes=(), undo_catalogue=(), iotrace=None):
    work = os.path.join(outdir, "gen_" + prof)
    os.makedirs(work, exist_ok=True)
    ctx = Ctx(b, env, work, seed)
    host_files(ctx)
    states, skipped = [], []
    base = os.path.join(outdir, "base_%s.img" % prof)
    make_base(ctx, prof, args, base)
    base_digest = hashlib.sha256(open(base, "rb").read()).digest()

    def one(v):
        name, kind, applies, fn = v
        sid = "%s/%s" % (prof, name)
        if not applies(prof) or (only and sid not in only):
            return None
        dst = os.path.join(outdir, "%s__%s.img" % (prof, name))
        sparse_copy(base, dst)
        try:
            fn(ctx, dst, Geom(dst))
        except Skip:
            os.unlink(dst)
            return (sid, "recipe not applicable")
        if name != "clean" and hashlib.sha256(open(dst, "rb").read()).digest() == base_digest:
            os.unlink(dst)
            return (sid, "recipe left the image unchanged")
        return State(sid, prof, name, dst, "", kind)
    # undo state: tune2fs -z on a copy of the clean image; the undo file is shared by every `e2undo` invocation of the
    # profile (e2undo checks the superblock against it; -f overrides)
    usid = "%s/post_tune_undo" % prof
    udst = os.path.join(outdir, "%s__post_tune_undo.img" % prof)
    undo = os.path.join(outdir, "%s.undo" % prof)

    def make_undo():
        sparse_copy(base, udst)
        if os.path.exists(undo):
            os.unlink(undo)
        inc = struct.unpack_from("<I", rd(udst, 1024 + 96, 4))[0]
        if inc & 0x100:       # MMP: tune2fs would sleep 2 x 11 s; made with the feature hidden, so that on this profile
            sb_set(udst, 96, "<I", inc & ~0x100)     # the undo file matches no state and only `e2undo -f` gets past the header
        ctx.run([os.path.join(b, "misc", "tune2fs"), "-z", undo, "-L", "relabelled", "-c", "25", "-e", "remount-ro", udst], ok=(0,))
        if inc & 0x100:
            sb_set(udst, 96, "<I", struct.unpack_from("<I", rd(udst, 1024 + 96, 4))[0] | 0x100)
        if not os.path.exists(undo) or os.path.getsize(undo) == 0:
            raise GenError("tune2fs -z wrote no undo file for %s" % prof)
    with cf.ThreadPoolExecutor(max_workers=5) as ex:
        fu = ex.submit(make_undo)
        for r in ex.map(one, variant_table(tier, axes)):
            if isinstance(r, State):
                states.append(r)
            elif r:
                skipped.append(r)
        fu.result()
    if not only or usid in only:
        states.append(State(usid, prof, "post_tune_undo", udst, undo, "undo"))
    else:
        os.unlink(udst)
    states = [s._replace(undo=undo) for s in states]
    cat = [c for c in undo_catalogue if not only or "%s/undo:%s:%s" % (prof, c["defect"], c["rel"]) in only or
           (c["defect"], c["rel"]) == ("none", "recorded")]        # (the finished log is also the FOREIGN -z file of the profile)
    if cat:
        ust, rec_log = build_undo_catalogue(ctx, prof, base, outdir, cat, iotrace)
        states += ust
    return states, skipped


def build_states(b, env, outdir, tier, seed, only=None, axes=(), undo_catalogue=(), iotrace=None, extj=()):
    """Build every state (profiles in parallel); returns (states, skipped) -- skipped = [(id, reason)] for recipes that
    do not apply to a profile.  `only` = list of state ids to build (replay)."""
    os.makedirs(outdir, exist_ok=True)
    profs = [(p, a) for p, a in PROFILES if not only or any(o.startswith(p + "/") for o in only)]
    states, skipped = [], []
    with cf.ThreadPoolExecutor(max_workers=(len(profs) or 1) + 1) as ex:
        xj = ex.submit(build_extj_states, b, env, outdir, seed, extj, only) if extj and (not only or any(o.startswith("xj_") for o in only)) else None
        for st, sk in ex.map(lambda pa: _build_profile(b, env, outdir, tier, seed, pa[0], pa[1], only, axes, undo_catalogue, iotrace), profs):
            states += st; skipped += sk
        if xj:
            states += xj.result()
    return states, skipped


def finished_log(outdir, prof):
    """Path of the finished undo log of the profile's recording (the FOREIGN undo file of every other image state)."""
    return os.path.join(outdir, "%s__undo_none.log" % prof)
