"""Independent parse of the extended-attribute storage of one inode, straight from the image file.

Shares nothing with libext2fs: the superblock, group descriptors, bitmaps, the raw inode, the in-inode xattr area,
the external xattr block and EA value inodes (extent tree or block map) are decoded here from the documented
on-disk layout, and every hash the kernel verifies is recomputed here (entry hash, block hash, EA-inode crc32c).

parse(path, ino) -> dict:
  ibody / block : list of entries in on-disk order, each
       {idx, name(bytes), vlen, off, inum, hash, hash_ok, val(bytes or None), ea: {...} or None}
  has_magic, extra, isz, file_acl, refcount, bhash_ok, bhash_zero, blocks_field, iblocks (512-byte sectors), i_flags, i_size
  layout_ok : names/values inside the area, values do not overlap the entry table nor one another, terminator present
  sorted_ok : block entries strictly increasing by (name_index, name_len, name bytes) -- ext4 xattr_find_entry(sorted=1)
  free_blocks / free_inodes : zero bits counted in the on-disk bitmaps ; gd_free_* : what the descriptors say
"""
import struct

EA_MAGIC = 0xEA020000
EA_INODE_FL = 0x200000
EXTENTS_FL = 0x80000
INLINE_DATA_FL = 0x10000000

_T = None


def _table():
    global _T
    if _T is None:
        t = []
        for i in range(256):
            c = i
            for _ in range(8):
                c = (c >> 1) ^ 0x82F63B78 if c & 1 else c >> 1
            t.append(c)
        _T = t
    return _T


def crc32c(seed, data):
    """The kernel's / ext4's crc32c_le(seed, data): no pre/post inversion."""
    t = _table()
    c = seed & 0xFFFFFFFF
    for b in data:
        c = t[(c ^ b) & 0xFF] ^ (c >> 8)
    return c


def rol(x, n):
    return ((x << n) | (x >> (32 - n))) & 0xFFFFFFFF


def entry_hash(name, value_words):
    """fs/ext4/xattr.c ext4_xattr_hash_entry (unsigned char variant)."""
    h = 0
    for ch in name:
        h = rol(h, 5) ^ ch
    for w in value_words:
        h = rol(h, 16) ^ w
    return h


def entry_hash_signed(name, value_words):
    h = 0
    for ch in name:
        s = ch - 256 if ch >= 128 else ch
        h = (rol(h, 5) ^ (s & 0xFFFFFFFF)) & 0xFFFFFFFF
    for w in value_words:
        h = rol(h, 16) ^ w
    return h


class Img:
    def __init__(self, path):
        self.f = open(path, "rb")
        sb = self.pread(1024, 1024)
        u32 = lambda o: struct.unpack_from("<I", sb, o)[0]
        u16 = lambda o: struct.unpack_from("<H", sb, o)[0]
        if u16(56) != 0xEF53:
            raise ValueError("bad superblock magic")
        self.inodes_count = u32(0)
        self.blocks_count = u32(4)
        self.first_data_block = u32(20)
        self.bs = 1024 << u32(24)
        self.cluster_bits = u32(28) - u32(24) if (u32(100) & 0x200) else 0   # bigalloc
        self.bpg = u32(32)
        self.ipg = u32(40)
        self.isz = u16(88) if u32(76) >= 1 else 128
        self.compat, self.incompat, self.rocompat = u32(92), u32(96), u32(100)
        self.desc_size = u16(254) if (self.incompat & 0x80) and u16(254) >= 64 else 32
        self.uuid = sb[104:120]
        self.sb_free_blocks = u32(12)
        self.sb_free_inodes = u32(16)
        self.want_extra = u16(350)
        if self.incompat & 0x2000:          # csum_seed
            self.csum_seed = u32(0x270)
        else:
            self.csum_seed = crc32c(0xFFFFFFFF, self.uuid)
        self.ngroups = (self.blocks_count - self.first_data_block + self.bpg - 1) // self.bpg

    def close(self):
        self.f.close()

    def pread(self, off, n):
        self.f.seek(off)
        b = self.f.read(n)
        if len(b) != n:
            raise ValueError("short read at %d" % off)
        return b

    def block(self, b):
        return self.pread(b * self.bs, self.bs)

    def gd(self, g):
        off = (self.first_data_block + 1) * self.bs + g * self.desc_size
        d = self.pread(off, self.desc_size)
        lo = struct.unpack_from("<IIIHHHH", d, 0)
        r = dict(block_bitmap=lo[0], inode_bitmap=lo[1], inode_table=lo[2], free_blocks=lo[3], free_inodes=lo[4], flags=lo[6])
        if self.desc_size >= 64:
            hi = struct.unpack_from("<IIIHH", d, 32)
            r["block_bitmap"] |= hi[0] << 32; r["inode_bitmap"] |= hi[1] << 32; r["inode_table"] |= hi[2] << 32
            r["free_blocks"] |= hi[3] << 16; r["free_inodes"] |= hi[4] << 16
        return r

    def raw_inode(self, ino):
        g, i = divmod(ino - 1, self.ipg)
        return self.pread(self.gd(g)["inode_table"] * self.bs + i * self.isz, self.isz)

    def free_counts(self):
        fb = fi = gfb = gfi = 0
        uninit = False
        for g in range(self.ngroups):
            d = self.gd(g)
            gfb += d["free_blocks"]; gfi += d["free_inodes"]
            nb = min(self.bpg, self.blocks_count - self.first_data_block - g * self.bpg)
            if d["flags"] & 0x2:       # BLOCK_UNINIT: bitmap not written
                uninit = True
            else:
                bm = self.block(d["block_bitmap"])
                nclu = (nb + (1 << self.cluster_bits) - 1) >> self.cluster_bits
                fb += sum(1 for k in range(nclu) if not (bm[k >> 3] >> (k & 7)) & 1) << self.cluster_bits
            if d["flags"] & 0x1:       # INODE_UNINIT
                fi += self.ipg
            else:
                bm = self.block(d["inode_bitmap"])
                fi += sum(1 for k in range(self.ipg) if not (bm[k >> 3] >> (k & 7)) & 1)
        return dict(free_blocks=fb, free_inodes=fi, gd_free_blocks=gfb, gd_free_inodes=gfi, uninit=uninit)

    def block_in_use(self, b):
        g, k = divmod(b - self.first_data_block, self.bpg)
        d = self.gd(g)
        bm = self.block(d["block_bitmap"])
        k >>= self.cluster_bits
        return (bm[k >> 3] >> (k & 7)) & 1

    def inode_in_use(self, ino):
        g, k = divmod(ino - 1, self.ipg)
        bm = self.block(self.gd(g)["inode_bitmap"])
        return (bm[k >> 3] >> (k & 7)) & 1

    # ---- file data of a (small) inode -------------------------------------------------------------------------
    def _extent_blocks(self, node, out):
        magic, entries, _max, depth = struct.unpack_from("<HHHH", node, 0)
        if magic != 0xF30A:
            raise ValueError("bad extent magic")
        for k in range(entries):
            o = 12 + 12 * k
            if depth == 0:
                lblk, ln, hi, lo = struct.unpack_from("<IHHI", node, o)
                if ln > 32768:
                    ln -= 32768     # unwritten
                for j in range(ln):
                    out[lblk + j] = ((hi << 32) | lo) + j
            else:
                lblk, lo, hi, _ = struct.unpack_from("<IIHH", node, o)
                out["_meta"] = out.get("_meta", 0) + 1
                self._extent_blocks(self.block((hi << 32) | lo), out)

    def file_blocks(self, raw):
        """logical -> physical map of the inode, plus the number of metadata (index / indirect) blocks."""
        flags = struct.unpack_from("<I", raw, 32)[0]
        out = {}
        if flags & EXTENTS_FL:
            self._extent_blocks(raw[40:100], out)
        else:
            ptr = struct.unpack_from("<15I", raw, 40)
            for k in range(12):
                if ptr[k]:
                    out[k] = ptr[k]
            n = self.bs // 4
            if ptr[12]:
                out["_meta"] = out.get("_meta", 0) + 1
                ind = struct.unpack("<%dI" % n, self.block(ptr[12]))
                for k in range(n):
                    if ind[k]:
                        out[12 + k] = ind[k]
            if ptr[13] or ptr[14]:
                raise ValueError("double indirect EA inode not supported by this parser")
        return out

    def file_data(self, raw):
        size = struct.unpack_from("<I", raw, 4)[0]
        m = self.file_blocks(raw)
        meta = m.pop("_meta", 0)
        data = bytearray()
        nblk = (size + self.bs - 1) // self.bs
        for l in range(nblk):
            data += self.block(m[l]) if l in m else b"\0" * self.bs
        return bytes(data[:size]), sorted(m.values()), meta


def _parse_entries(img, area, first, value_base, is_block, ino_gen=None):
    """area: bytes of the whole region (inode-body region after the magic, or the whole block);
    first: offset of the first entry inside `area`; value offsets are relative to `value_base` inside `area`."""
    ents = []
    o = first
    layout_ok = True
    used = []           # (start, end) of value byte ranges
    while True:
        if o + 4 > len(area):
            layout_ok = False      # no terminator inside the area
            break
        if area[o:o + 4] == b"\0\0\0\0":
            break
        if o + 16 > len(area):
            layout_ok = False
            break
        nlen, idx, voff, inum, vsize, h = struct.unpack_from("<BBHIII", area, o)
        name = bytes(area[o + 16:o + 16 + nlen])
        if o + 16 + nlen > len(area):
            layout_ok = False
            break
        e = dict(idx=idx, name=name, vlen=vsize, off=voff, inum=inum, hash=h, val=None, ea=None, hash_ok=False)
        if inum == 0:
            s = value_base + voff
            if vsize:
                if s + vsize > len(area):
                    layout_ok = False
                else:
                    e["val"] = bytes(area[s:s + vsize])
                    used.append((s, s + ((vsize + 3) & ~3)))
                    padded = bytes(area[s:s + ((vsize + 3) & ~3)])
                    if len(padded) % 4:
                        layout_ok = False
                        padded += b"\0" * (4 - len(padded) % 4)
                    words = struct.unpack("<%dI" % (len(padded) // 4), padded)
            else:
                e["val"] = b""
                words = ()
            if e["val"] is not None:
                want = entry_hash(name, words)
                if is_block:
                    e["hash_ok"] = (h == want)            # the kernel recomputes it for shared-block lookup; e2fsck verifies it
                else:
                    e["hash_ok"] = (h == 0 or h == want)   # in-inode entries: the kernel stores 0
        else:
            raw = img.raw_inode(inum)
            mode, = struct.unpack_from("<H", raw, 0)
            size, atime, ctime = struct.unpack_from("<III", raw, 4)
            links, = struct.unpack_from("<H", raw, 26)
            blocks_lo, flags, version = struct.unpack_from("<III", raw, 28)
            try:
                data, phys, meta = img.file_data(raw)
            except (ValueError, KeyError):
                data, phys, meta = None, [], 0
            ea = dict(ino=inum, size=size, links=links, ref=(ctime << 32) | version, stored_hash=atime, flags=flags,
                      mode=mode, sectors=blocks_lo, nphys=len(phys) + meta, meta=meta, in_use=img.inode_in_use(inum),
                      blocks_in_use=all(img.block_in_use(b) for b in phys))
            if data is not None:
                ea["crc_ok"] = (crc32c(img.csum_seed, data) == atime)
                e["val"] = data
            else:
                ea["crc_ok"] = False
            e["ea"] = ea
            want = rol(entry_hash(name, ()), 16) ^ atime
            e["hash_ok"] = (h == want) and voff == 0
        ents.append(e)
        o += (16 + nlen + 3) & ~3
    table_end = o + 4
    for (s, t) in used:
        if s < table_end or t > len(area):
            layout_ok = False
    used.sort()
    for a, b in zip(used, used[1:]):
        if a[1] > b[0]:
            layout_ok = False
    return ents, layout_ok


def sort_key(e):
    return (e["idx"], len(e["name"]), e["name"])


def parse(path, ino, img=None):
    own = img is None
    img = img or Img(path)
    try:
        raw = img.raw_inode(ino)
        r = dict(isz=img.isz, bs=img.bs)
        r["i_size"], = struct.unpack_from("<I", raw, 4)
        r["i_flags"], = struct.unpack_from("<I", raw, 32)
        blocks_lo, = struct.unpack_from("<I", raw, 28)
        blocks_hi, acl_hi = struct.unpack_from("<HH", raw, 116)
        r["iblocks"] = (blocks_hi << 32) | blocks_lo          # 512-byte units unless huge_file + EXT4_HUGE_FILE_FL
        r["file_acl"] = struct.unpack_from("<I", raw, 104)[0] | (acl_hi << 32)
        r["links"], = struct.unpack_from("<H", raw, 26)
        r["extra"] = 0; r["has_magic"] = False; r["ibody"] = []; r["ibody_layout_ok"] = True
        if img.isz > 128:
            extra, = struct.unpack_from("<H", raw, 128)
            r["extra"] = extra
            if extra >= 2 and 128 + extra + 4 < img.isz and extra % 4 == 0:
                magic, = struct.unpack_from("<I", raw, 128 + extra)
                if magic == EA_MAGIC:
                    r["has_magic"] = True
                    area = raw[128 + extra + 4:]
                    r["ibody"], r["ibody_layout_ok"] = _parse_entries(img, area, 0, 0, False)
        r["block"] = []; r["refcount"] = 0; r["bhash_ok"] = True; r["block_layout_ok"] = True; r["block_magic_ok"] = True
        r["block_in_use"] = True; r["h_blocks"] = 1
        if r["file_acl"]:
            blk = img.block(r["file_acl"])
            magic, refc, hblocks, hhash = struct.unpack_from("<IIII", blk, 0)
            r["block_magic_ok"] = (magic == EA_MAGIC)
            r["refcount"] = refc; r["h_blocks"] = hblocks
            r["block_in_use"] = bool(img.block_in_use(r["file_acl"]))
            if magic == EA_MAGIC:
                r["block"], r["block_layout_ok"] = _parse_entries(img, blk, 32, 0, True)
                h = 0
                for e in r["block"]:
                    if e["hash"] == 0:
                        h = 0
                        break
                    h = rol(h, 16) ^ e["hash"]
                # h_hash is only a lookup key for the kernel's block cache; 0 means "do not share" (ext4_xattr_rehash)
                r["bhash_ok"] = (hhash == h or hhash == 0)
                r["bhash_zero"] = (hhash == 0)
        ks = [sort_key(e) for e in r["block"]]
        r["sorted_ok"] = all(a < b for a, b in zip(ks, ks[1:]))
        r.update(img.free_counts())
        return r
    finally:
        if own:
            img.close()
