/*
 * xattrdrv -- steps extended-attribute histories through the public libext2fs API
 * (ext2fs_xattrs_open / _read / ext2fs_xattr_set / _remove / _get / ext2fs_xattrs_close) on one inode of an
 * image made by the built mke2fs, and prints one ndjson line per command.  After every command the filesystem
 * is flushed (ext2fs_flush), so that the caller can parse the image file independently before sending the
 * next command (the driver blocks on stdin).  Values are derived from (tag, length): see fill().
 *
 * Commands (one per line on stdin):
 *   open <image> <path> [<peerpath>]   open read-write, resolve the target (and an optional peer inode used by `share`)
 *   names <n1> <n2> ...                 the closed name universe: every line reports a get of each of them
 *   raw <0|1>                           XATTR_HANDLE_FLAG_RAW on every handle (needed to store non-ACL bytes in system.posix_acl_*)
 *   persist <0|1>                       1: keep ONE handle open across operations (as misc/create_inode.c does);
 *                                       0: a fresh handle per operation (as debugfs does)
 *   set <name> <len> <tag>              ext2fs_xattr_set
 *   rm <name>                           ext2fs_xattr_remove
 *   share                               make the peer inode reference the target's xattr block (h_refcount + 1,
 *                                       i_file_acl, i_blocks of the peer) -- the state the kernel's mbcache produces
 *   reopen                              ext2fs_close + ext2fs_open
 * Operations of OTHER subsystems that rewrite the attribute area of the same inode (inline data).  A persistent
 * handle is dropped first: no in-tree caller keeps an xattr handle open across them.
 *   write <len> <tag>                   ext2fs_file_open(WRITE) + ext2fs_file_write(len bytes at offset 0) + ext2fs_file_close
 *   trunc <len>                         ext2fs_file_open(WRITE) + ext2fs_file_set_size2(len) + ext2fs_file_close
 *   iset <len> <tag>                    ext2fs_inline_data_set(fs, ino, NULL, buf, len)   (only if the inode has
 *                                       EXT4_INLINE_DATA_FL, else the line is {"e":"skip","ret":5}; the same holds
 *                                       for `set system.data`)
 *   iexp                                ext2fs_inline_data_expand(fs, ino)
 *   punch                               ext2fs_punch(fs, ino, NULL, NULL, 0, ~0ULL)
 *   mkdirin <namelen>                   ext2fs_mkdir(fs, ino, 0, <fresh name of that length>); on EXT2_ET_DIR_NO_SPACE
 *                                       ext2fs_expand_dir + retry (misc/create_inode.c do_mkdir_internal)
 * File bytes: offset j < 60 -> pattern(tag)[j], j >= 60 -> pattern(tag)[j - 60] (the part kept in system.data is
 * the pattern from its own offset 0).
 *   close                               ext2fs_close
 * Output fields: e, ret (0 ok, 1 EXT2_ET_EA_NO_SPACE, 3 EXT2_ET_NO_INLINE_DATA, 4 EXT2_ET_INLINE_DATA_NO_SPACE, 5 skipped,
 * 2 any other error + "err"), gets = [[len, "fnv1a hex", nz] ...] read through a FRESH handle (len -1: key not found,
 * -2: error; nz = number of leading non-zero bytes, -1 if a non-zero byte follows a zero byte), ilen =
 * ext2fs_inline_data_size (-1: EXT2_ET_NO_INLINE_DATA, -2: other error), pgets = same through the persistent handle ([] if none),
 * peer = gets on the peer inode, cnt = ext2fs_xattrs_count, fb / fi = free blocks / inodes in the superblock, ino.
 */
#include <stdio.h>
#include <stdlib.h>
#include <string.h>
#include <errno.h>
#include "ext2fs/ext2_fs.h"
#include "ext2fs/ext2fs.h"
#include "ext2fs/ext2_ext_attr.h"

#define MAXN 16
static ext2_filsys fs;
static char image[512];
static ext2_ino_t ino, peer;
static char *names[MAXN];
static int nnames;
static int raw, persist;
static struct ext2_xattr_handle *ph;	/* persistent handle */

static void fill(unsigned char *buf, size_t len, int tag)
{
	size_t i;
	for (i = 0; i < len; i++)
		buf[i] = (unsigned char)(1 + (tag * 37 + i * 7 + (i >> 8) * 13) % 251);	/* never 0; tags differ everywhere */
}

static void fill_file(unsigned char *buf, size_t len, int tag)
{
	fill(buf, len < 60 ? len : 60, tag);
	if (len > 60)
		fill(buf + 60, len - 60, tag);
}

static long nzprefix(const unsigned char *p, size_t n)
{
	size_t k = 0, i;
	while (k < n && p[k]) k++;
	for (i = k; i < n; i++)
		if (p[i]) return -1;
	return (long) k;
}

static unsigned fnv(const unsigned char *p, size_t n)
{
	unsigned h = 2166136261u;
	while (n--) { h ^= *p++; h *= 16777619u; }
	return h;
}

static int code(errcode_t e)
{
	if (e == 0) return 0;
	if (e == EXT2_ET_EA_NO_SPACE) return 1;
	if (e == EXT2_ET_NO_INLINE_DATA) return 3;
	if (e == EXT2_ET_INLINE_DATA_NO_SPACE) return 4;
	return 2;
}

static errcode_t new_handle(ext2_ino_t i, struct ext2_xattr_handle **h)
{
	errcode_t r;
	unsigned int fl = raw ? XATTR_HANDLE_FLAG_RAW : 0;
	r = ext2fs_xattrs_open(fs, i, h);
	if (r) return r;
	r = ext2fs_xattrs_flags(*h, &fl, NULL);
	if (!r) r = ext2fs_xattrs_read(*h);
	if (r) { ext2fs_xattrs_close(h); *h = NULL; }
	return r;
}

static void print_gets_h(struct ext2_xattr_handle *h)
{
	int i;
	printf("[");
	for (i = 0; i < nnames; i++) {
		void *v = NULL; size_t l = 0;
		errcode_t r = ext2fs_xattr_get(h, names[i], &v, &l);
		if (i) printf(",");
		if (r == EXT2_ET_EA_KEY_NOT_FOUND) printf("[-1,\"\",0]");
		else if (r) printf("[-2,\"%ld\",0]", (long) r);
		else { printf("[%lu,\"%08x\",%ld]", (unsigned long) l, fnv(v, l), nzprefix(v, l)); ext2fs_free_mem(&v); }
	}
	printf("]");
}

static void print_gets(const char *key, ext2_ino_t i, long *cnt)
{
	struct ext2_xattr_handle *h = NULL;
	errcode_t r;
	printf(",\"%s\":", key);
	if (!i) { printf("[]"); return; }
	r = new_handle(i, &h);
	if (r) { printf("[[-2,\"read %ld\",0]]", (long) r); if (cnt) *cnt = -1; return; }
	if (cnt) { size_t c = 0; ext2fs_xattrs_count(h, &c); *cnt = (long) c; }
	print_gets_h(h);
	ext2fs_xattrs_close(&h);
}

static void finish_line(const char *e, errcode_t ret)
{
	long cnt = 0;
	errcode_t fr = 0;
	if (fs) fr = ext2fs_flush(fs);
	printf("{\"e\":\"%s\",\"ret\":%d", e, strcmp(e, "skip") ? code(ret) : 5);
	if (ret) printf(",\"err\":\"%s\"", error_message(ret));
	if (fr) printf(",\"flusherr\":\"%s\"", error_message(fr));
	if (fs) {
		print_gets("gets", ino, &cnt);
		printf(",\"pgets\":");
		if (ph) print_gets_h(ph); else printf("[]");
		print_gets("peer", peer, NULL);
		{
			size_t isz = 0;
			errcode_t ir = ext2fs_inline_data_size(fs, ino, &isz);
			printf(",\"ilen\":%ld", ir == 0 ? (long) isz : ir == EXT2_ET_NO_INLINE_DATA ? -1L : -2L);
		}
		printf(",\"cnt\":%ld,\"fb\":%llu,\"fi\":%u,\"ino\":%u,\"peerino\":%u", cnt,
		       (unsigned long long) ext2fs_free_blocks_count(fs->super), fs->super->s_free_inodes_count, ino, peer);
	}
	printf("}\n");
	fflush(stdout);
}

static errcode_t do_open(void)
{
	errcode_t r = ext2fs_open(image, EXT2_FLAG_RW | EXT2_FLAG_64BITS, 0, 0, unix_io_manager, &fs);
	if (r) { fs = NULL; return r; }
	r = ext2fs_read_bitmaps(fs);
	return r;
}

static void drop_ph(void)
{
	if (ph) ext2fs_xattrs_close(&ph);
	ph = NULL;
}

static errcode_t with_handle(struct ext2_xattr_handle **h)
{
	if (persist) {
		if (!ph) { errcode_t r = new_handle(ino, &ph); if (r) return r; }
		*h = ph;
		return 0;
	}
	return new_handle(ino, h);
}

static errcode_t do_share(void)
{
	struct ext2_inode_large a, b;
	errcode_t r;
	blk64_t blk;
	__u32 nc;
	if (!peer) return EINVAL;
	r = ext2fs_read_inode_full(fs, ino, EXT2_INODE(&a), sizeof(a));
	if (r) return r;
	r = ext2fs_read_inode_full(fs, peer, EXT2_INODE(&b), sizeof(b));
	if (r) return r;
	blk = ext2fs_file_acl_block(fs, EXT2_INODE(&a));
	if (!blk || ext2fs_file_acl_block(fs, EXT2_INODE(&b))) return EINVAL;
	r = ext2fs_adjust_ea_refcount3(fs, blk, NULL, 1, &nc, ino);
	if (r) return r;
	ext2fs_file_acl_block_set(fs, EXT2_INODE(&b), blk);
	r = ext2fs_iblk_add_blocks(fs, EXT2_INODE(&b), 1);
	if (r) return r;
	{	/* the kernel also charges the clusters of every value inode the block names to each owner */
		char *buf = malloc(fs->blocksize);
		struct ext2_ext_attr_entry *e;
		r = ext2fs_read_ext_attr3(fs, blk, buf, ino);
		if (r) { free(buf); return r; }
		for (e = (struct ext2_ext_attr_entry *)(buf + sizeof(struct ext2_ext_attr_header));
		     (char *) e < buf + fs->blocksize - 4 && !EXT2_EXT_IS_LAST_ENTRY(e); e = EXT2_EXT_ATTR_NEXT(e))
			if (e->e_value_inum) {
				r = ext2fs_iblk_add_blocks(fs, EXT2_INODE(&b), (e->e_value_size + fs->blocksize - 1) / fs->blocksize);
				if (r) { free(buf); return r; }
			}
		free(buf);
	}
	return ext2fs_write_inode_full(fs, peer, EXT2_INODE(&b), sizeof(b));
}

static int is_inline(void)
{
	struct ext2_inode in;
	if (ext2fs_read_inode(fs, ino, &in)) return 0;
	return (in.i_flags & EXT4_INLINE_DATA_FL) != 0;
}

static errcode_t do_write(size_t len, int tag)
{
	ext2_file_t f;
	unsigned int w = 0;
	unsigned char *buf = malloc(len + 1);
	errcode_t r, r2;
	fill_file(buf, len, tag);
	r = ext2fs_file_open(fs, ino, EXT2_FILE_WRITE, &f);
	if (r) { free(buf); return r; }
	r = ext2fs_file_write(f, buf, len, &w);
	if (!r && w != len) r = EIO;
	r2 = ext2fs_file_close(f);
	free(buf);
	return r ? r : r2;
}

static errcode_t do_trunc(unsigned long len)
{
	ext2_file_t f;
	errcode_t r, r2;
	r = ext2fs_file_open(fs, ino, EXT2_FILE_WRITE, &f);
	if (r) return r;
	r = ext2fs_file_set_size2(f, len);
	r2 = ext2fs_file_close(f);
	return r ? r : r2;
}

static int subno;
static errcode_t do_mkdirin(int nl)
{
	char name[300];
	errcode_t r;
	int k;
	if (nl < 3 || nl > 255) return EINVAL;
	k = snprintf(name, sizeof(name), "n%02d", subno++ % 100);
	while (k < nl) name[k++] = 'x';
	name[nl] = 0;
	r = ext2fs_mkdir(fs, ino, 0, name);
	if (r == EXT2_ET_DIR_NO_SPACE) {
		r = ext2fs_expand_dir(fs, ino);
		if (r) return r;
		r = ext2fs_mkdir(fs, ino, 0, name);
	}
	return r;
}

int main(void)
{
	char line[4096], *tok[MAXN + 4];
	int nt;
	setvbuf(stdout, NULL, _IOFBF, 1 << 16);
	initialize_ext2_error_table();
	while (fgets(line, sizeof(line), stdin)) {
		char *p;
		errcode_t r = 0;
		nt = 0;
		for (p = strtok(line, " \t\n"); p && nt < MAXN + 3; p = strtok(NULL, " \t\n"))
			tok[nt++] = p;
		if (!nt) continue;
		if (!strcmp(tok[0], "open") && nt >= 3) {
			drop_ph();
			if (fs) { ext2fs_close(fs); fs = NULL; }
			snprintf(image, sizeof(image), "%s", tok[1]);
			ino = peer = 0;
			subno = 0;
			r = do_open();
			if (!r) r = ext2fs_namei(fs, EXT2_ROOT_INO, EXT2_ROOT_INO, tok[2], &ino);
			if (!r && nt >= 4) r = ext2fs_namei(fs, EXT2_ROOT_INO, EXT2_ROOT_INO, tok[3], &peer);
			if (r) { fprintf(stderr, "xattrdrv: open %s: %s\n", tok[1], error_message(r)); return 3; }
			finish_line("open", 0);
		} else if (!strcmp(tok[0], "names")) {
			int i;
			for (i = 0; i < nnames; i++) free(names[i]);
			nnames = 0;
			for (i = 1; i < nt && nnames < MAXN; i++) names[nnames++] = strdup(tok[i]);
		} else if (!strcmp(tok[0], "raw") && nt == 2) {
			drop_ph();
			raw = atoi(tok[1]);
		} else if (!strcmp(tok[0], "persist") && nt == 2) {
			drop_ph();
			persist = atoi(tok[1]);
		} else if (!fs) {
			fprintf(stderr, "xattrdrv: no filesystem open for '%s'\n", tok[0]); return 3;
		} else if (!strcmp(tok[0], "set") && nt == 4) {
			struct ext2_xattr_handle *h = NULL;
			size_t len = strtoul(tok[2], NULL, 10);
			unsigned char *buf;
			if (!strcmp(tok[1], "system.data") && !is_inline()) { finish_line("skip", 0); continue; }
			buf = malloc(len + 1);
			fill(buf, len, atoi(tok[3]));
			r = with_handle(&h);
			if (!r) {
				r = ext2fs_xattr_set(h, tok[1], buf, len);
				if (!persist) ext2fs_xattrs_close(&h);
			}
			free(buf);
			finish_line("set", r);
		} else if (!strcmp(tok[0], "rm") && nt == 2) {
			struct ext2_xattr_handle *h = NULL;
			r = with_handle(&h);
			if (!r) {
				r = ext2fs_xattr_remove(h, tok[1]);
				if (!persist) ext2fs_xattrs_close(&h);
			}
			finish_line("rm", r);
		} else if (!strcmp(tok[0], "write") && nt == 3) {
			drop_ph();
			finish_line("write", do_write(strtoul(tok[1], NULL, 10), atoi(tok[2])));
		} else if (!strcmp(tok[0], "trunc") && nt == 2) {
			drop_ph();
			finish_line("trunc", do_trunc(strtoul(tok[1], NULL, 10)));
		} else if (!strcmp(tok[0], "iset") && nt == 3) {
			size_t len = strtoul(tok[1], NULL, 10);
			unsigned char *buf;
			drop_ph();
			if (!is_inline()) { finish_line("skip", 0); continue; }
			buf = malloc(len + 1);
			fill_file(buf, len, atoi(tok[2]));
			r = ext2fs_inline_data_set(fs, ino, NULL, buf, len);
			free(buf);
			finish_line("iset", r);
		} else if (!strcmp(tok[0], "iexp")) {
			drop_ph();
			finish_line("iexp", ext2fs_inline_data_expand(fs, ino));
		} else if (!strcmp(tok[0], "punch")) {
			drop_ph();
			finish_line("punch", ext2fs_punch(fs, ino, NULL, NULL, 0, ~0ULL));
		} else if (!strcmp(tok[0], "mkdirin") && nt == 2) {
			drop_ph();
			finish_line("mkdirin", do_mkdirin(atoi(tok[1])));
		} else if (!strcmp(tok[0], "share")) {
			drop_ph();		/* the peer's reference is made by "another process" */
			r = do_share();
			finish_line("share", r);
		} else if (!strcmp(tok[0], "reopen")) {
			drop_ph();
			r = ext2fs_close(fs); fs = NULL;
			if (!r) r = do_open();
			if (r) { fprintf(stderr, "xattrdrv: reopen: %s\n", error_message(r)); return 3; }
			finish_line("reopen", 0);
		} else if (!strcmp(tok[0], "close")) {
			drop_ph();
			r = ext2fs_close(fs); fs = NULL;
			printf("{\"e\":\"close\",\"ret\":%d}\n", code(r)); fflush(stdout);
		} else {
			fprintf(stderr, "xattrdrv: bad command '%s'\n", tok[0]); return 3;
		}
	}
	drop_ph();
	if (fs) ext2fs_close(fs);
	return 0;
}
