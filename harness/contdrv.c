/*
 * contdrv -- steps operation histories through the in-memory containers that e2fsck and libext2fs rely on
 *
 *   rc  e2fsck/ea_refcount.c      sorted array  key -> count  with lazy compaction
 *   ic  lib/ext2fs/icount.c       inode reference counts (single bitmap, multiple bitmap, sorted list, fullmap)
 *   db  lib/ext2fs/dblist.c       directory block list
 *   bb  lib/ext2fs/badblocks.c    sorted u32 list
 *   rg  e2fsck/region.c           allocated intervals
 *
 * and prints one ndjson line per call: the result, the private arrays (ea_refcount.c, region.c and icount.c of the tree
 * under test are compiled INTO this program -- #include of the .c files from the scratch build tree -- so their private
 * structs are visible and, built with -fsanitize=address by checks/c01_containers.py, every access they make is checked;
 * the dblist and badblocks structs come from ext2fsP.h, which has no include guard and so cannot be pulled in twice, and
 * their code from libext2fs.a) and what a caller can observe through the public API afterwards (fetch of every key, enumeration order, test of every value).  The observation runs with the
 * look-up cursor saved and restored, so that it is not itself a step of the history.
 *
 * Input (stdin), one call per line:
 *   reset rc <size> <maxkey>                 ea_refcount_create(size)  (0 = the code's default, 500)
 *   rc fetch k | rc inc k | rc dec k | rc store k v | rc iter
 *   reset ic <mode 0|1|2> <size> <ninodes> <ndirs> <bitmaptype>      size 0: the code's estimate
 *   ic fetch i | ic inc i | ic dec i | ic store i c | ic recreate <mode> <size>
 *   reset db <ndirs> <ninodes>               ext2fs_init_dblist: size = 2 * ndirs + 12
 *   db add i b c | db set i b c          (b up to 2^62; logged as bh = b >> 30, bl = b & (2^30 - 1), list entries as [ino, bh, bl, blockcnt])
 *   db sort <0 default|1 caller's order, sort2|2 caller's order, legacy sort>
 *   db iter start count | db iter32 | db count | db last | db drop | db copy
 *   reset bb <size> <maxval>                 ext2fs_u32_list_create(size)  (0 = default, 10)
 *   bb add v | bb del v | bb test v | bb iter | bb count | bb copy | bb eqmod v
 *   reset rg <min> <max>
 *   rg alloc start n
 * Error classes in the output: 0 ok, 1 EXT2_ET_INVALID_ARGUMENT, 2 EXT2_ET_NO_MEMORY, 3 EXT2_ET_DB_NOT_FOUND,
 * 4 EXT2_ET_DBLIST_EMPTY, 9 anything else.
 */
#include "config.h"
#include <stdio.h>
#include <stdlib.h>
#include <string.h>
#include <errno.h>

#define uuid contdrv_icount_uuid
#define uuid_unparse contdrv_icount_uuid_unparse
#define unpack_uuid contdrv_icount_unpack_uuid
#include "lib/ext2fs/icount.c"
#undef uuid
#undef uuid_unparse
#undef unpack_uuid
#include "e2fsck/ea_refcount.c"
#include "e2fsck/region.c"
#include "ext2fs/ext2fsP.h"

static struct struct_ext2_filsys fake_fs;
static struct ext2_super_block fake_sb;
static struct ext2_group_desc fake_gd[2];

static ext2_refcount_t rc;
static unsigned long long rc_maxkey;
static ext2_icount_t ic;
static ext2_dblist db;
static ext2_u32_list bb;
static unsigned long long bb_maxval;
static region_t rg;

static int eclass(errcode_t r)
{
	if (r == 0) return 0;
	if (r == EXT2_ET_INVALID_ARGUMENT) return 1;
	if (r == EXT2_ET_NO_MEMORY) return 2;
	if (r == EXT2_ET_DB_NOT_FOUND) return 3;
	if (r == EXT2_ET_DBLIST_EMPTY) return 4;
	return 9;
}

static void fake_fs_init(unsigned ninodes, unsigned ndirs, int bmtype)
{
	memset(&fake_fs, 0, sizeof(fake_fs));
	memset(&fake_sb, 0, sizeof(fake_sb));
	memset(fake_gd, 0, sizeof(fake_gd));
	fake_fs.magic = EXT2_ET_MAGIC_EXT2FS_FILSYS;
	fake_fs.super = &fake_sb;
	fake_fs.blocksize = 1024;
	fake_fs.flags = EXT2_FLAG_64BITS;
	fake_fs.default_bitmap_type = bmtype;
	fake_fs.group_desc_count = 1;
	fake_fs.group_desc = (void *) fake_gd;
	fake_sb.s_inodes_count = ninodes;
	fake_sb.s_inodes_per_group = ninodes;
	fake_sb.s_rev_level = 1;
	fake_gd[0].bg_used_dirs_count = ndirs;
}

/* ------------------------------------------------------------------ rc */
static void rc_state(void)
{
	size_t i, save;
	unsigned long long k;
	ea_value_t v;
	int first;

	printf(",\"size\":%zu,\"cur\":%zu,\"list\":[", rc->size, rc->cursor);
	for (i = 0; i < rc->count; i++)
		printf("%s[%llu,%llu]", i ? "," : "", (unsigned long long) rc->list[i].ea_key, (unsigned long long) rc->list[i].ea_value);
	printf("]");
	save = rc->cursor;
	printf(",\"obs\":[");
	for (k = 1, first = 1; k <= rc_maxkey; k++) {
		v = 12345;
		if (ea_refcount_fetch(rc, k, &v)) { printf("%s[-1,-1]", first ? "" : ","); first = 0; continue; }
		if (v) { printf("%s[%llu,%llu]", first ? "" : ",", k, (unsigned long long) v); first = 0; }
	}
	printf("],\"it\":[");
	ea_refcount_intr_begin(rc);
	for (first = 1;; first = 0) {
		ea_key_t key = ea_refcount_intr_next(rc, &v);
		if (!key) break;
		printf("%s[%llu,%llu]", first ? "" : ",", (unsigned long long) key, (unsigned long long) v);
	}
	printf("]");
	rc->cursor = save;
}

static void do_rc(const char *op, unsigned long long a, unsigned long long b)
{
	errcode_t r = 0;
	ea_value_t v = 0;
	long long val = -1;

	if (!strcmp(op, "fetch")) { v = 777; r = ea_refcount_fetch(rc, a, &v); val = v; }
	else if (!strcmp(op, "inc")) { r = ea_refcount_increment(rc, a, &v); if (!r) val = v; }
	else if (!strcmp(op, "dec")) { r = ea_refcount_decrement(rc, a, &v); if (!r) val = v; }
	else if (!strcmp(op, "store")) { r = ea_refcount_store(rc, a, b); }
	else if (!strcmp(op, "iter")) {
		int first = 1;
		printf("{\"e\":\"rc_iter\",\"k\":0,\"v\":0,\"err\":0,\"val\":-1,\"res\":[");
		ea_refcount_intr_begin(rc);
		for (;; first = 0) {
			ea_key_t key = ea_refcount_intr_next(rc, &v);
			if (!key) break;
			printf("%s[%llu,%llu]", first ? "" : ",", (unsigned long long) key, (unsigned long long) v);
		}
		printf("]");
		rc_state();
		printf("}\n");
		return;
	} else { fprintf(stderr, "contdrv: rc %s?\n", op); exit(3); }
	printf("{\"e\":\"rc_%s\",\"k\":%llu,\"v\":%llu,\"err\":%d,\"val\":%lld", op, a, b, eclass(r), val);
	rc_state();
	printf("}\n");
}

/* ------------------------------------------------------------------ ic */
static int ic_mode(void)
{
	return ic->fullmap ? 2 : ic->multiple ? 1 : 0;
}

static void ic_state(void)
{
	ext2_ino_t i, save;
	int first;
	__u16 v;

	printf(",\"mode\":%d,\"n\":%u,\"size\":%u,\"cur\":%u,\"last\":%ld,\"list\":[", ic_mode(), ic->num_inodes, ic->size, ic->cursor,
	       ic->last_lookup ? (long) (ic->last_lookup - ic->list) + 1 : 0L);
	for (i = 0; i < ic->count && ic->list; i++)
		printf("%s[%u,%u]", i ? "," : "", ic->list[i].ino, ic->list[i].count);
	printf("],\"single\":[");
	if (ic->single)
		for (i = 1, first = 1; i <= ic->num_inodes; i++)
			if (ext2fs_test_inode_bitmap2(ic->single, i)) { printf("%s%u", first ? "" : ",", i); first = 0; }
	printf("],\"multi\":[");
	if (ic->multiple)
		for (i = 1, first = 1; i <= ic->num_inodes; i++)
			if (ext2fs_test_inode_bitmap2(ic->multiple, i)) { printf("%s%u", first ? "" : ",", i); first = 0; }
	printf("],\"full\":[");
	if (ic->fullmap)
		for (i = 1, first = 1; i <= ic->num_inodes; i++) {
			/* the slot of the last inode is read through the library (whether the array has that slot is the
			 * library's business, not the logger's) */
			__u16 fv = 0;
			if (i < ic->num_inodes) fv = ic->fullmap[i];
			else ext2fs_icount_fetch(ic, i, &fv);
			if (fv) { printf("%s[%u,%u]", first ? "" : ",", i, fv); first = 0; }
		}
	printf("]");
	save = ic->cursor;
	printf(",\"obs\":[");
	for (i = 1, first = 1; i <= ic->num_inodes; i++) {
		v = 12345;
		if (ext2fs_icount_fetch(ic, i, &v)) { printf("%s[-1,-1]", first ? "" : ","); first = 0; continue; }
		if (v) { printf("%s[%u,%u]", first ? "" : ",", i, v); first = 0; }
	}
	printf("]");
	ic->cursor = save;
	{
		FILE *nul = fopen("/dev/null", "w");
		printf(",\"valid\":%d", ext2fs_icount_validate(ic, nul) ? 0 : 1);
		fclose(nul);
	}
}

static void ic_create(int mode, unsigned size, ext2_icount_t hint)
{
	int flags = mode == 2 ? (EXT2_ICOUNT_OPT_FULLMAP | EXT2_ICOUNT_OPT_INCREMENT) : mode == 1 ? EXT2_ICOUNT_OPT_INCREMENT : 0;
	ext2_icount_t n = NULL;
	errcode_t r = ext2fs_create_icount2(&fake_fs, flags, size, hint, &n);
	if (r) { fprintf(stderr, "contdrv: create_icount2: %ld\n", (long) r); exit(3); }
	if (hint) ext2fs_free_icount(hint);
	ic = n;
}

static void do_ic(const char *op, unsigned long long a, unsigned long long b)
{
	errcode_t r = 0;
	__u16 v = 0;
	long long val = -1;

	if (!strcmp(op, "fetch")) { v = 777; r = ext2fs_icount_fetch(ic, a, &v); if (!r) val = v; }
	else if (!strcmp(op, "inc")) { r = ext2fs_icount_increment(ic, a, &v); if (!r) val = v; }
	else if (!strcmp(op, "dec")) { r = ext2fs_icount_decrement(ic, a, &v); if (!r) val = v; }
	else if (!strcmp(op, "store")) { r = ext2fs_icount_store(ic, a, (__u16) b); }
	else if (!strcmp(op, "recreate")) { ic_create((int) a, (unsigned) b, ic); }
	else { fprintf(stderr, "contdrv: ic %s?\n", op); exit(3); }
	printf("{\"e\":\"ic_%s\",\"k\":%llu,\"v\":%llu,\"err\":%d,\"val\":%lld", op, a, b, eclass(r), val);
	ic_state();
	printf("}\n");
}

/* ------------------------------------------------------------------ db */
/* block numbers are 64 bit, the validator's integers 32 bit: every block number is printed as two numbers */
#define BHI(b) ((unsigned long long) (b) >> 30)
#define BLO(b) ((unsigned long long) (b) & 0x3fffffffULL)
static void db_state(void)
{
	unsigned long long i;
	printf(",\"size\":%llu,\"sorted\":%d,\"cnt\":%llu,\"list\":[", db->size, db->sorted ? 1 : 0, (unsigned long long) ext2fs_dblist_count2(db));
	for (i = 0; i < db->count; i++)
		printf("%s[%u,%llu,%llu,%lld]", i ? "," : "", db->list[i].ino, BHI(db->list[i].blk), BLO(db->list[i].blk), (long long) db->list[i].blockcnt);
	printf("]");
}

/* the caller's order: ino, blockcnt, blk -- total, so that the result does not depend on qsort's stability */
static EXT2_QSORT_TYPE alt_cmp2(const void *a, const void *b)
{
	const struct ext2_db_entry2 *x = a, *y = b;
	if (x->ino != y->ino) return x->ino < y->ino ? -1 : 1;
	if (x->blockcnt != y->blockcnt) return x->blockcnt < y->blockcnt ? -1 : 1;
	if (x->blk != y->blk) return x->blk < y->blk ? -1 : 1;
	return 0;
}
static EXT2_QSORT_TYPE alt_cmp32(const void *a, const void *b)
{
	const struct ext2_db_entry *x = a, *y = b;
	if (x->ino != y->ino) return x->ino < y->ino ? -1 : 1;
	if (x->blockcnt != y->blockcnt) return x->blockcnt < y->blockcnt ? -1 : 1;
	if (x->blk != y->blk) return x->blk < y->blk ? -1 : 1;
	return 0;
}

static int it_first;
static int it_cb2(ext2_filsys fs, struct ext2_db_entry2 *e, void *priv)
{
	(void) fs; (void) priv;
	printf("%s[%u,%llu,%llu,%lld]", it_first ? "" : ",", e->ino, BHI(e->blk), BLO(e->blk), (long long) e->blockcnt);
	it_first = 0;
	return 0;
}
static int it_cb32(ext2_filsys fs, struct ext2_db_entry *e, void *priv)
{
	(void) fs; (void) priv;
	printf("%s[%u,%llu,%llu,%d]", it_first ? "" : ",", e->ino, BHI(e->blk), BLO(e->blk), e->blockcnt);
	it_first = 0;
	return 0;
}

static void do_db(const char *op, long long a, long long b, long long c)
{
	errcode_t r = 0;

	printf("{\"e\":\"db_%s\",\"a\":%lld,\"b\":%lld,\"bh\":%llu,\"bl\":%llu,\"c\":%lld", op, a, b < (1LL << 31) ? b : -1LL, BHI(b), BLO(b), c);
	if (!strcmp(op, "add")) r = ext2fs_add_dir_block2(db, (ext2_ino_t) a, (blk64_t) b, (e2_blkcnt_t) c);
	else if (!strcmp(op, "set")) r = ext2fs_set_dir_block2(db, (ext2_ino_t) a, (blk64_t) b, (e2_blkcnt_t) c);
	else if (!strcmp(op, "sort")) {
		if (a == 0) ext2fs_dblist_sort2(db, NULL);
		else if (a == 1) ext2fs_dblist_sort2(db, alt_cmp2);
		else ext2fs_dblist_sort(db, alt_cmp32);
	} else if (!strcmp(op, "iter")) {
		printf(",\"res\":[");
		it_first = 1;
		r = ext2fs_dblist_iterate3(db, it_cb2, (unsigned long long) a, (unsigned long long) b, NULL);
		printf("]");
	} else if (!strcmp(op, "iter32")) {
		printf(",\"res\":[");
		it_first = 1;
		r = ext2fs_dblist_iterate(db, it_cb32, NULL);
		printf("]");
	} else if (!strcmp(op, "count")) {
		printf(",\"res\":[%d]", ext2fs_dblist_count(db));
	} else if (!strcmp(op, "last")) {
		struct ext2_db_entry2 *e = NULL;
		r = ext2fs_dblist_get_last2(db, &e);
		if (!r && e) printf(",\"res\":[%u,%llu,%llu,%lld]", e->ino, BHI(e->blk), BLO(e->blk), (long long) e->blockcnt);
		else printf(",\"res\":[]");
	} else if (!strcmp(op, "drop")) r = ext2fs_dblist_drop_last(db);
	else if (!strcmp(op, "copy")) {
		ext2_dblist n = NULL;
		r = ext2fs_copy_dblist(db, &n);
		if (r) { fprintf(stderr, "contdrv: copy_dblist %ld\n", (long) r); exit(3); }
		ext2fs_free_dblist(db);
		db = n;
	} else { fprintf(stderr, "contdrv: db %s?\n", op); exit(3); }
	printf(",\"err\":%d", eclass(r));
	db_state();
	printf("}\n");
}

/* ------------------------------------------------------------------ bb */
static void bb_state(void)
{
	int i, first;
	unsigned long long v;
	ext2_u32_iterate it;
	__u32 blk;

	printf(",\"size\":%d,\"list\":[", bb->size);
	for (i = 0; i < bb->num; i++)
		printf("%s%u", i ? "," : "", bb->list[i]);
	printf("],\"obs\":[");
	for (v = 0, first = 1; v <= bb_maxval; v++)
		if (ext2fs_u32_list_test(bb, (__u32) v)) { printf("%s%llu", first ? "" : ",", v); first = 0; }
	printf("],\"it\":[");
	if (ext2fs_u32_list_iterate_begin(bb, &it)) { fprintf(stderr, "contdrv: iterate_begin\n"); exit(3); }
	for (first = 1; ext2fs_u32_list_iterate(it, &blk); first = 0)
		printf("%s%u", first ? "" : ",", blk);
	ext2fs_u32_list_iterate_end(it);
	printf("],\"cnt\":%d", ext2fs_u32_list_count(bb));
}

static void do_bb(const char *op, unsigned long long a)
{
	errcode_t r = 0;
	int res = -7, res2 = -7;

	if (!strcmp(op, "add")) { r = ext2fs_u32_list_add(bb, (__u32) a); res = eclass(r); }
	else if (!strcmp(op, "del")) res = ext2fs_u32_list_del(bb, (__u32) a);
	else if (!strcmp(op, "test")) { res = ext2fs_u32_list_test(bb, (__u32) a); res2 = ext2fs_u32_list_find(bb, (__u32) a); }
	else if (!strcmp(op, "iter") || !strcmp(op, "count")) res = 0;
	else if (!strcmp(op, "copy")) {
		ext2_u32_list n = NULL;
		r = ext2fs_u32_copy(bb, &n);
		if (r) { fprintf(stderr, "contdrv: u32_copy %ld\n", (long) r); exit(3); }
		res = ext2fs_u32_list_equal(bb, n);
		ext2fs_u32_list_free(bb);
		bb = n;
	} else if (!strcmp(op, "eqmod")) {
		ext2_u32_list n = NULL;
		r = ext2fs_u32_copy(bb, &n);
		if (r) { fprintf(stderr, "contdrv: u32_copy %ld\n", (long) r); exit(3); }
		if (ext2fs_u32_list_test(n, (__u32) a)) ext2fs_u32_list_del(n, (__u32) a);
		else ext2fs_u32_list_add(n, (__u32) a);
		res = ext2fs_u32_list_equal(bb, n);
		ext2fs_u32_list_free(n);
	} else { fprintf(stderr, "contdrv: bb %s?\n", op); exit(3); }
	printf("{\"e\":\"bb_%s\",\"a\":%llu,\"res\":[%d,%d]", op, a, res, res2);
	bb_state();
	printf("}\n");
}

/* ------------------------------------------------------------------ rg */
static void rg_state(void)
{
	struct region_el *r;
	int i = 0, last = 0;
	printf(",\"list\":[");
	for (r = rg->allocated; r; r = r->next) {
		i++;
		if (r == rg->last) last = i;
		printf("%s[%llu,%llu]", i > 1 ? "," : "", (unsigned long long) r->start, (unsigned long long) r->end);
	}
	if (rg->last && !last) last = -1;	/* dangling */
	printf("],\"last\":%d", last);
}

int main(void)
{
	char line[512], w0[32], w1[32];
	long long a, b, c, d, e;
	int lineno = 0;

	setvbuf(stdout, NULL, _IOFBF, 1 << 20);
	while (fgets(line, sizeof(line), stdin)) {
		a = b = c = d = e = 0; w0[0] = w1[0] = 0;
		lineno++;
		if (sscanf(line, "%31s %31s %lld %lld %lld %lld %lld", w0, w1, &a, &b, &c, &d, &e) < 2)
			continue;
		if (!strcmp(w0, "reset")) {
			if (!strcmp(w1, "rc")) {
				if (rc) ea_refcount_free(rc);
				rc = NULL;
				if (ea_refcount_create((size_t) a, &rc)) { fprintf(stderr, "contdrv: ea_refcount_create\n"); exit(3); }
				rc_maxkey = b;
				printf("{\"e\":\"reset\",\"c\":\"rc\",\"maxkey\":%lld", b);
				rc_state();
			} else if (!strcmp(w1, "ic")) {
				if (ic) ext2fs_free_icount(ic);
				ic = NULL;
				fake_fs_init((unsigned) c, (unsigned) d, (int) e);
				ic_create((int) a, (unsigned) b, NULL);
				printf("{\"e\":\"reset\",\"c\":\"ic\",\"ndirs\":%lld", d);
				ic_state();
			} else if (!strcmp(w1, "db")) {
				if (db) ext2fs_free_dblist(db);
				db = NULL;
				fake_fs_init((unsigned) b, (unsigned) a, 0);
				if (ext2fs_init_dblist(&fake_fs, &db)) { fprintf(stderr, "contdrv: init_dblist\n"); exit(3); }
				printf("{\"e\":\"reset\",\"c\":\"db\",\"ndirs\":%lld", a);
				db_state();
			} else if (!strcmp(w1, "bb")) {
				if (bb) ext2fs_u32_list_free(bb);
				bb = NULL;
				if (ext2fs_u32_list_create(&bb, (int) a)) { fprintf(stderr, "contdrv: u32_list_create\n"); exit(3); }
				bb_maxval = b;
				printf("{\"e\":\"reset\",\"c\":\"bb\",\"maxval\":%lld", b);
				bb_state();
			} else if (!strcmp(w1, "rg")) {
				if (rg) region_free(rg);
				rg = region_create((region_addr_t) a, (region_addr_t) b);
				if (!rg) { fprintf(stderr, "contdrv: region_create\n"); exit(3); }
				printf("{\"e\":\"reset\",\"c\":\"rg\",\"min\":%lld,\"max\":%lld", a, b);
				rg_state();
			} else { fprintf(stderr, "contdrv: reset %s?\n", w1); exit(3); }
			printf("}\n");
			continue;
		}
		if (!strcmp(w0, "rc")) do_rc(w1, a, b);
		else if (!strcmp(w0, "ic")) do_ic(w1, a, b);
		else if (!strcmp(w0, "db")) do_db(w1, a, b, c);
		else if (!strcmp(w0, "bb")) do_bb(w1, a);
		else if (!strcmp(w0, "rg")) {
			int r = region_allocate(rg, (region_addr_t) a, (int) b);
			printf("{\"e\":\"rg_alloc\",\"a\":%lld,\"b\":%lld,\"res\":[%d]", a, b, r);
			rg_state();
			printf("}\n");
		} else { fprintf(stderr, "contdrv: line %d: %s", lineno, line); exit(3); }
	}
	fflush(stdout);
	return 0;
}
