/*
 * csumdrv: library-side observer for C14 clause (b).
 *
 *   csumdrv IMAGE < requests        one request per line, one JSON line per request
 *
 * Requests (the filesystem is re-opened for every request, so that nothing cached survives):
 *   open                            ext2fs_open2 only (superblock + group descriptor checks)
 *   bitmaps                         open + ext2fs_read_bitmaps
 *   inode INO                       open + ext2fs_read_inode_full
 *   extents INO                     open + ext2fs_extent_open2 + walk of every node
 *   dirblock INO PHYSBLK            open + ext2fs_read_dir_block4(flags 0, INO)
 *   xattr INO PHYSBLK               open + ext2fs_read_ext_attr3
 *   mmp                             open (SKIP_MMP) + ext2fs_mmp_read
 *
 * Output: {"req":"...","open":<errcode>,"err":<errcode>,"msg":"<error_message>"}   (err = first error met, 0 = none)
 * Public API only.
 */
#include <stdio.h>
#include <stdlib.h>
#include <string.h>
#include "ext2fs/ext2_fs.h"
#include "ext2fs/ext2fs.h"

static void jstr(const char *s)
{
	putchar('"');
	for (; *s; s++) {
		if (*s == '"' || *s == '\\')
			putchar('\\');
		if ((unsigned char) *s >= 0x20)
			putchar(*s);
	}
	putchar('"');
}

static void report(const char *req, errcode_t operr, errcode_t err)
{
	errcode_t e = operr ? operr : err;

	printf("{\"req\":");
	jstr(req);
	printf(",\"open\":%ld,\"err\":%ld,\"msg\":", (long) operr, (long) e);
	jstr(e ? error_message(e) : "");
	printf("}\n");
	fflush(stdout);
}

static errcode_t walk_extents(ext2_filsys fs, ext2_ino_t ino)
{
	ext2_extent_handle_t h;
	struct ext2fs_extent ext;
	errcode_t err;
	int op = EXT2_EXTENT_ROOT, n = 0;

	err = ext2fs_extent_open2(fs, ino, NULL, &h);
	if (err)
		return err;
	while (n++ < 100000) {
		err = ext2fs_extent_get(h, op, &ext);
		if (err == EXT2_ET_EXTENT_NO_NEXT || err == EXT2_ET_NO_CURRENT_NODE) {
			err = 0;
			break;
		}
		if (err)
			break;
		op = EXT2_EXTENT_NEXT;
	}
	ext2fs_extent_free(h);
	return err;
}

int main(int argc, char **argv)
{
	char line[256], req[256];
	ext2_filsys fs;
	errcode_t operr, err;

	if (argc != 2) {
		fprintf(stderr, "usage: csumdrv IMAGE\n");
		return 2;
	}
	add_error_table(&et_ext2_error_table);
	while (fgets(line, sizeof(line), stdin)) {
		char cmd[32] = "";
		unsigned long a = 0, b = 0;
		int flags = EXT2_FLAG_64BITS | EXT2_FLAG_SKIP_MMP;

		line[strcspn(line, "\n")] = 0;
		strcpy(req, line);
		if (sscanf(line, "%31s %lu %lu", cmd, &a, &b) < 1)
			continue;
		fs = NULL;
		operr = ext2fs_open2(argv[1], NULL, flags, 0, 0, unix_io_manager, &fs);
		err = 0;
		if (!operr) {
			if (!strcmp(cmd, "open")) {
				;
			} else if (!strcmp(cmd, "bitmaps")) {
				err = ext2fs_read_bitmaps(fs);
			} else if (!strcmp(cmd, "inode")) {
				struct ext2_inode_large *in = calloc(1, EXT2_INODE_SIZE(fs->super) + 1024);
				err = ext2fs_read_inode_full(fs, (ext2_ino_t) a, (struct ext2_inode *) in,
							     EXT2_INODE_SIZE(fs->super));
				free(in);
			} else if (!strcmp(cmd, "extents")) {
				err = walk_extents(fs, (ext2_ino_t) a);
			} else if (!strcmp(cmd, "dirblock")) {
				char *buf = malloc(fs->blocksize);
				err = ext2fs_read_dir_block4(fs, (blk64_t) b, buf, 0, (ext2_ino_t) a);
				free(buf);
			} else if (!strcmp(cmd, "xattr")) {
				char *buf = malloc(fs->blocksize);
				err = ext2fs_read_ext_attr3(fs, (blk64_t) b, buf, (ext2_ino_t) a);
				free(buf);
			} else if (!strcmp(cmd, "mmp")) {
				char *buf = malloc(fs->blocksize);
				err = ext2fs_mmp_read(fs, fs->super->s_mmp_block, buf);
				free(buf);
			} else {
				err = EXT2_ET_INVALID_ARGUMENT;
			}
		}
		report(req, operr, err);
		if (fs)
			ext2fs_free(fs);
	}
	return 0;
}
