/*
 * undodrv -- API-level driver for property C12 (undo_io.c / e2undo.c).
 *
 * Runs operation histories through undo_io_manager stacked on unix_io_manager over a scratch device file
 * (public API only: set_undo_io_backing_manager, set_undo_io_backup_file, io_channel_*), then the real e2undo
 * binary.  After every call it parses the undo file from disk with its own reader of the documented format
 * (own crc32c; nothing of undo_io.c / e2undo.c is reused) and prints one ndjson line: call, arguments in
 * granules (1 granule = 1024 bytes), return value, header, keys with the content tags of the saved data.
 *
 * Content encoding: every 16-byte chunk of the device is {magic, op, granule, chunk index}; op = 0 for the
 * original content.  The tag of a granule is 0 if it is all zero bytes, granule + 1 if it is entirely original
 * content of one granule, 1000 * k + granule for the newest operation k that wrote into it, -1 otherwise.
 *
 * Script (stdin), one command per line:
 *   reset <dev> <undo> <ngran>          new device file with original content, undo file removed
 *   open <off_bytes> <tdb_bytes>        undo open (+ tdb_data_size / offset options when non-zero); the cache of the backing
 *                                       manager is switched off ("cache=off" reaches unix_io through undo_set_option): the
 *                                       histories use undo blocks of 2 and 4 channel blocks as scaled-down stand-ins for the
 *                                       ratios of the tools (1, or 8 and more: such reads bypass the cache, WRITE_DIRECT_SIZE),
 *                                       and unix_io would split a read of 2-4 blocks at a cached block
 *   cache on|off                        switch it (on: to show what the split does to a short read, replays/C12/latent_*)
 *   blk <bytes>                         io_channel_set_blksize
 *   wblk <block> <count>                io_channel_write_blk64 (count < 0: bytes)
 *   wbyte <offset> <size>               io_channel_write_byte
 *   rblk <block> <count>                io_channel_read_blk64 (what is read is not logged: the line says that a read happened,
 *                                       which leaves the blocks in the cache of the backing manager)
 *   zero|disc <block> <count>           io_channel_zeroout / io_channel_discard (after io_channel_flush)
 *   close <finished>                    io_channel_close; finished = 0 sets UNDO_IO_SIMULATE_UNFINISHED
 *   flip hdr|sb|key|data|raw <k> <i>    flip bit i of the checksummed bytes of the header / superblock copy / k-th key
 *                                       block / data of the k-th key (raw: bit i%8 of byte k); unflip takes it back
 *   tamper                              overwrite the superblock area of the device with foreign bytes
 *   e2undo <flags>                      run $E2UNDO <flags> undo dev under iotrace; flags: "-", "-n", "-f", ...
 *   sweep <dev> <undo> <targets>        damage sweep over an existing undo file: per target line "byte bit mode" flip the bit, run
 *                                       e2undo (mode 1: -n), take it back; prints "byte bit mode exit writes device_untouched"
 */
#define _GNU_SOURCE
#include "config.h"
#include <stdio.h>
#include <stdlib.h>
#include <string.h>
#include <unistd.h>
#include <fcntl.h>
#include <errno.h>
#include <sys/stat.h>
#include <sys/wait.h>
#include "ext2fs/ext2_fs.h"
#include "ext2fs/ext2fs.h"

#define G 1024
#define CH 16
#define MAGIC 0x31465256u /* "VRF1" */

struct chunk { unsigned int magic, op, gran, idx; };

static char devpath[512], undopath[512];
static io_channel chan;
static long long fsoff, devsize0;
static int opno;
static unsigned int crctab[256];
#define MAXK 8192
static unsigned long long lay_kpos[MAXK], lay_fileblk[MAXK];
static unsigned int lay_size[MAXK], lay_nk, lay_nkb, lay_tdb;
static long long flip_byte = -1; static int flip_bit;

static void crc_init(void)
{
	unsigned int i, j, c;
	for (i = 0; i < 256; i++) {
		c = i;
		for (j = 0; j < 8; j++)
			c = (c & 1) ? (c >> 1) ^ 0x82F63B78u : c >> 1;
		crctab[i] = c;
	}
}

static unsigned int crc32c(unsigned int crc, const unsigned char *p, size_t n)
{
	while (n--)
		crc = crctab[(crc ^ *p++) & 0xff] ^ (crc >> 8);
	return crc;
}

static void fill(unsigned char *buf, long long abs_lo, long long len, unsigned int op)
{
	long long p;
	for (p = 0; p + CH <= len; p += CH) {
		struct chunk c;
		long long a = abs_lo + p;
		c.magic = MAGIC; c.op = op; c.gran = a / G; c.idx = (a % G) / CH;
		memcpy(buf + p, &c, CH);
	}
}

/* tag of up to G bytes */
static long tag_of(const unsigned char *b, int n)
{
	int i, allzero = 1, allorig = 1, any = 0;
	unsigned int maxop = 0, g = 0, og = 0;
	for (i = 0; i < n; i++)
		if (b[i]) { allzero = 0; break; }
	if (allzero)
		return 0;
	for (i = 0; i + CH <= n; i += CH) {
		struct chunk c;
		memcpy(&c, b + i, CH);
		if (c.magic != MAGIC || c.idx != (unsigned)(i / CH)) { allorig = 0; continue; }
		if (c.op == 0) {
			if (any && og != c.gran) allorig = 0;
			og = c.gran; any = 1;
		} else {
			allorig = 0;
			if (c.op >= maxop) { maxop = c.op; g = c.gran; }
		}
	}
	if (maxop)
		return 1000L * maxop + g;
	if (allorig && any)
		return og + 1;
	return -1;
}

static unsigned long long le64(const unsigned char *p) { unsigned long long v; memcpy(&v, p, 8); return v; }
static unsigned int le32(const unsigned char *p) { unsigned int v; memcpy(&v, p, 4); return v; }

static void print_tags(FILE *o, const unsigned char *buf, long long n)
{
	long long p;
	int first = 1;
	fputc('[', o);
	for (p = 0; p < n; p += G) {
		fprintf(o, "%s%ld", first ? "" : ",", tag_of(buf + p, n - p < G ? n - p : G));
		first = 0;
	}
	fputc(']', o);
}

/* the undo file as it is on disk: "hdr":[nkeys,tdb,fsbs,state,off] (granules, -1 if not a multiple), "pok", keys */
static void print_undo(FILE *o)
{
	int fd = open(undopath, O_RDONLY);
	unsigned char hdr[512], *keyb = NULL, *dat = NULL;
	struct stat st;
	unsigned long long nkeys, soff, koff, foff, lblk, i;
	unsigned int tdb, fsbs, state, kpb;
	int pok = 1, first = 1;
	long sbt = -3;

	if (fd < 0 || fstat(fd, &st) || st.st_size < 512 || pread(fd, hdr, 512, 0) != 512) {
		fprintf(o, "\"uf\":0,\"hdr\":[0,0,0,0,0],\"pok\":0,\"sbt\":-3,\"keys\":[],\"kpos\":[]");
		if (fd >= 0) close(fd);
		return;
	}
	lay_nk = lay_nkb = lay_tdb = 0;
	nkeys = le64(hdr + 8); soff = le64(hdr + 16); koff = le64(hdr + 24);
	tdb = le32(hdr + 32); fsbs = le32(hdr + 36); state = le32(hdr + 44); foff = le64(hdr + 64);
	if (memcmp(hdr, "E2UNDO02", 8)) {
		/* created, but no header written yet (or the magic is damaged): not an undo file */
		fprintf(o, "\"uf\":0,\"hdr\":[0,0,0,0,0],\"pok\":0,\"sbt\":-3,\"keys\":[],\"kpos\":[]");
		close(fd);
		return;
	}
	if (crc32c(~0u, hdr, 508) != le32(hdr + 508))
		pok = 0;
	if (!(le32(hdr + 48) & 1))
		foff = 0;
	fprintf(o, "\"uf\":1,\"hdr\":[%llu,%d,%d,%u,%lld]", nkeys, tdb % G ? -1 : (int)(tdb / G), fsbs % G ? -1 : (int)(fsbs / G),
		state, foff % G ? -1LL : (long long)(foff / G));
	if (tdb >= G && tdb <= 1048576 && soff == 1) {
		unsigned char sb[G];
		if (pread(fd, sb, G, (off_t)soff * tdb) == G) {
			/* the copy has s_magic inverted: undo that before projecting */
			sb[56] = ~sb[56]; sb[57] = ~sb[57];
			sbt = tag_of(sb, G);
		}
	}
	fprintf(o, ",\"sbt\":%ld,\"keys\":[", sbt);
	if (pok && tdb >= G && tdb <= 1048576 && fsbs && nkeys < 100000) {
		char kpos[8192]; int kl = 0;
		kpb = tdb / 16 - 1;
		lay_tdb = tdb;
		keyb = malloc(tdb);
		dat = malloc((size_t)512 * tdb);
		lblk = koff;
		kpos[0] = 0;
		for (i = 0; i < nkeys && pok; i += kpb) {
			unsigned long long j, maxj = nkeys - i > kpb ? kpb : nkeys - i;
			unsigned int crc;
			if (pread(fd, keyb, tdb, (off_t)lblk * tdb) != (ssize_t)tdb) { pok = 0; break; }
			crc = le32(keyb + 4);
			memset(keyb + 4, 0, 4);
			if (le32(keyb) != 0xCADECADEu || crc32c(~0u, keyb, tdb) != crc) { pok = 0; break; }
			if (kl < 8000) kl += sprintf(kpos + kl, "%s%llu", kl ? "," : "", lblk);
			if (lay_nkb < MAXK) lay_kpos[lay_nkb++] = lblk;
			lblk++;
			for (j = 0; j < maxj; j++) {
				unsigned char *k = keyb + 16 + 16 * j;
				unsigned long long fsblk = le64(k);
				unsigned int kcrc = le32(k + 8), size = le32(k + 12);
				ssize_t r;
				if (size > 512u * tdb) { pok = 0; break; }
				r = pread(fd, dat, size, (off_t)lblk * tdb);
				if (r != (ssize_t)size || crc32c(~0u, dat, size) != kcrc) {
					pok = 0;
					if (r < 0) r = 0;
					memset(dat + r, 0xA5, size - r);
				}
				if (lay_nk < MAXK) { lay_fileblk[lay_nk] = lblk; lay_size[lay_nk++] = size; }
				fprintf(o, "%s[%llu,%u,", first ? "" : ",", fsblk, (size + G - 1) / G);
				print_tags(o, dat, size);
				fprintf(o, ",%llu]", lblk);
				first = 0;
				lblk += (size + tdb - 1) / tdb;
			}
		}
		fprintf(o, "],\"kpos\":[%s]", kpos);
	} else {
		pok = 0;		/* block size 0 (nothing recorded) or out of range: e2undo calls the header corrupt */
		fprintf(o, "],\"kpos\":[]");
	}
	fprintf(o, ",\"pok\":%d", pok);
	free(keyb); free(dat);
	close(fd);
}

static void print_dev(FILE *o)
{
	int fd = open(devpath, O_RDONLY);
	struct stat st;
	unsigned char *b;
	if (fd < 0 || fstat(fd, &st)) { fprintf(o, "\"len\":0,\"dev\":[]"); return; }
	b = malloc(st.st_size + G);
	memset(b, 0, st.st_size + G);
	if (pread(fd, b, st.st_size, 0) != st.st_size) { perror("pread dev"); exit(3); }
	fprintf(o, "\"len\":%lld,\"dev\":", (long long)(st.st_size + G - 1) / G);
	print_tags(o, b, st.st_size);
	free(b);
	close(fd);
}

static void line_end(FILE *o, const char *e, long long a, long long n, long ret, int dev)
{
	fprintf(o, "{\"e\":\"%s\",\"a\":%lld,\"n\":%lld,\"ret\":%d,\"bs\":%d,", e, a, n, ret ? 1 : 0, chan ? chan->block_size / G : 0);
	print_undo(o);
	if (dev) { fputc(',', o); print_dev(o); } else fprintf(o, ",\"len\":0,\"dev\":[]");
	fprintf(o, "}\n");
	fflush(o);
}

static int count_writes(const char *path)
{
	FILE *f = fopen(path, "r");
	char ln[1024];
	int n = 0;
	if (!f) return 0;
	while (fgets(ln, sizeof ln, f))
		if (strstr(ln, "\"tgt\":0") && (strstr(ln, "\"e\":\"pwrite") || strstr(ln, "\"e\":\"write\"") ||
		    strstr(ln, "\"e\":\"ftruncate\"") || strstr(ln, "\"e\":\"fallocate\"")))
			n++;
	fclose(f);
	return n;
}

/* run $E2UNDO [flag] undopath devpath under iotrace; returns the exit status, *nw = write-class calls on the device */
static int run_e2undo(const char *flag, int *nw, int *inc)
{
	char tr[600], errf[600], *e2 = getenv("E2UNDO"), *pre = getenv("IOTRACE_SO");
	int st = 0;
	pid_t pid;
	snprintf(tr, sizeof tr, "%s.iotrace", undopath);
	snprintf(errf, sizeof errf, "%s.stderr", undopath);
	unlink(tr);
	pid = fork();
	if (pid == 0) {
		char *argv[8]; int ac = 0, fd;
		argv[ac++] = e2;
		if (strcmp(flag, "-")) argv[ac++] = (char *)flag;
		argv[ac++] = undopath; argv[ac++] = devpath; argv[ac] = NULL;
		setenv("LD_PRELOAD", pre, 1);
		setenv("VERIF_IOTRACE_TARGET", devpath, 1);
		setenv("VERIF_IOTRACE_OUT", tr, 1);
		fd = open(errf, O_WRONLY | O_CREAT | O_TRUNC, 0600);
		dup2(fd, 1); dup2(fd, 2);
		execv(e2, argv);
		_exit(127);
	}
	waitpid(pid, &st, 0);
	{
		FILE *f = fopen(errf, "r"); char ln[512];
		while (f && fgets(ln, sizeof ln, f))
			if (strstr(ln, "Incomplete undo record")) *inc = 1;
		if (f) fclose(f);
	}
	*nw = count_writes(tr);
	return WIFEXITED(st) ? WEXITSTATUS(st) : 128 + WTERMSIG(st);
}

int main(void)
{
	char line[2048], cmd[64], s1[512], s2[512];
	long long a, b;
	errcode_t rv;
	FILE *o = stdout;

	crc_init();
	add_error_table(&et_ext2_error_table);
	while (fgets(line, sizeof line, stdin)) {
		a = b = 0;
		if (sscanf(line, "%63s", cmd) != 1 || cmd[0] == '#')
			continue;
		if (!strcmp(cmd, "reset")) {
			long long n, g;
			int fd;
			unsigned char buf[G];
			if (sscanf(line, "%*s %511s %511s %lld", s1, s2, &n) != 3) { fprintf(stderr, "bad reset\n"); return 2; }
			if (chan) { io_channel_close(chan); chan = NULL; }
			strcpy(devpath, s1); strcpy(undopath, s2);
			unlink(undopath);
			fd = open(devpath, O_WRONLY | O_CREAT | O_TRUNC, 0600);
			if (fd < 0) { perror(devpath); return 2; }
			for (g = 0; g < n; g++) {
				fill(buf, g * G, G, 0);
				if (write(fd, buf, G) != G) { perror("write"); return 2; }
			}
			close(fd);
			opno = 0; fsoff = 0; devsize0 = n * G;
			fprintf(o, "{\"e\":\"reset\",\"a\":%lld,\"n\":0,\"ret\":0,\"bs\":0,\"uf\":0,\"hdr\":[0,0,0,0,0],\"sbt\":-3,\"keys\":[],\"kpos\":[],\"pok\":0,\"len\":0,\"dev\":[]}\n", n);
			fflush(o);
		} else if (!strcmp(cmd, "open")) {
			char opt[64];
			sscanf(line, "%*s %lld %lld", &a, &b);
			set_undo_io_backing_manager(unix_io_manager);
			set_undo_io_backup_file(undopath);
			chan = NULL;
			rv = undo_io_manager->open(devpath, IO_FLAG_RW, &chan);
			if (rv) chan = NULL;
			if (!rv) rv = io_channel_set_options(chan, "cache=off");
			if (!rv && b) { sprintf(opt, "tdb_data_size=%lld", b); rv = io_channel_set_options(chan, opt); }
			if (!rv && a) { sprintf(opt, "offset=%lld", a); rv = io_channel_set_options(chan, opt); }
			fsoff = a;
			line_end(o, "open", a / G, b / G, rv, 0);
		} else if (!strcmp(cmd, "blk")) {
			sscanf(line, "%*s %lld", &a);
			if (!chan) { line_end(o, "nochan", 0, 0, 1, 0); continue; }
			rv = io_channel_set_blksize(chan, a);
			line_end(o, "blk", a / G, 0, rv, 0);
		} else if (!strcmp(cmd, "wblk")) {
			long long lo, len;
			unsigned char *buf;
			sscanf(line, "%*s %lld %lld", &a, &b);
			if (!chan) { line_end(o, "nochan", 0, 0, 1, 0); continue; }
			lo = a * chan->block_size + fsoff;
			len = b < 0 ? -b : b * chan->block_size;
			buf = malloc(len + CH);
			opno++;
			fill(buf, lo, len, opno);
			rv = io_channel_write_blk64(chan, a, b, buf);
			free(buf);
			/* keep the file length equal to the logical length: a write past the old end is not left in the cache */
			if (lo + len > devsize0) io_channel_flush(chan);
			if (b < 0)
				line_end(o, "wneg", a, ((lo + len + G - 1) / G) - lo / G, rv, 0);
			else
				line_end(o, "wblk", a, b, rv, 0);
		} else if (!strcmp(cmd, "cache")) {
			s1[0] = 0;
			sscanf(line, "%*s %63s", s1);
			if (!chan) { line_end(o, "nochan", 0, 0, 1, 0); continue; }
			rv = io_channel_set_options(chan, !strcmp(s1, "on") ? "cache=on" : "cache=off");
			line_end(o, "cache", !strcmp(s1, "on"), 0, rv, 0);
		} else if (!strcmp(cmd, "rblk")) {
			unsigned char *buf;
			sscanf(line, "%*s %lld %lld", &a, &b);
			if (!chan) { line_end(o, "nochan", 0, 0, 1, 0); continue; }
			buf = malloc((b < 0 ? -b : b * chan->block_size) + CH);
			rv = io_channel_read_blk64(chan, a, b, buf);
			free(buf);
			line_end(o, "rblk", a, b, rv, 0);
		} else if (!strcmp(cmd, "wbyte")) {
			unsigned char *buf;
			sscanf(line, "%*s %lld %lld", &a, &b);
			if (!chan) { line_end(o, "nochan", 0, 0, 1, 0); continue; }
			buf = malloc(b + CH);
			opno++;
			fill(buf, a + fsoff, b, opno);
			rv = io_channel_write_byte(chan, a, b, buf);
			free(buf);
			if (a + fsoff + b > devsize0) io_channel_flush(chan);
			line_end(o, "wbyte", a / G, (a + b + G - 1) / G - a / G, rv, 0);
		} else if (!strcmp(cmd, "zero") || !strcmp(cmd, "disc")) {
			sscanf(line, "%*s %lld %lld", &a, &b);
			if (!chan) { line_end(o, "nochan", 0, 0, 1, 0); continue; }
			opno++;
			io_channel_flush(chan);
			rv = cmd[0] == 'z' ? io_channel_zeroout(chan, a, b) : io_channel_discard(chan, a, b);
			line_end(o, cmd, a, b, rv, 0);
		} else if (!strcmp(cmd, "close")) {
			sscanf(line, "%*s %lld", &a);
			if (!chan) { line_end(o, "nochan", 0, 0, 1, 0); continue; }
			if (a) unsetenv("UNDO_IO_SIMULATE_UNFINISHED"); else setenv("UNDO_IO_SIMULATE_UNFINISHED", "1", 1);
			rv = io_channel_close(chan);
			chan = NULL;
			unsetenv("UNDO_IO_SIMULATE_UNFINISHED");
			line_end(o, "close", a, 0, rv, 1);
		} else if (!strcmp(cmd, "flip")) {
			/* flip hdr|sb|key|data|raw <k> <bit index inside the checksummed bytes of that object> */
			int fd = open(undopath, O_RDWR);
			unsigned char c;
			long long k = 0, i = 0, byte = -1, blkno = -1;
			FILE *nul = fopen("/dev/null", "w");
			s1[0] = 0;
			sscanf(line, "%*s %63s %lld %lld", s1, &k, &i);
			print_undo(nul);		/* refresh the layout */
			fclose(nul);
			/* k and i are reduced modulo what the file has, so that a script can ask for "some" key / bit */
			if ((!strcmp(s1, "key") && !lay_nkb) || (!strcmp(s1, "data") && !lay_nk) || (!strcmp(s1, "sb") && !lay_tdb))
				strcpy(s1, "hdr");
			if (!strcmp(s1, "hdr")) i %= 512 * 8;
			else if (!strcmp(s1, "sb")) i %= G * 8;
			else if (!strcmp(s1, "key")) { k %= lay_nkb; i %= (long long)lay_tdb * 8; }
			else if (!strcmp(s1, "data")) { k %= lay_nk; while (!lay_size[k]) k = (k + 1) % lay_nk; i %= (long long)lay_size[k] * 8; }
			if (!strcmp(s1, "hdr")) { byte = i / 8; blkno = 0; if (byte >= 512) byte = -1; }
			else if (!strcmp(s1, "sb") && lay_tdb) { byte = (long long)lay_tdb + i / 8; blkno = 1; if (i / 8 >= G) byte = -1; }
			else if (!strcmp(s1, "key") && k < lay_nkb) { byte = lay_kpos[k] * lay_tdb + i / 8; blkno = lay_kpos[k]; if (i / 8 >= lay_tdb) byte = -1; }
			else if (!strcmp(s1, "data") && k < lay_nk && i / 8 < lay_size[k]) { byte = lay_fileblk[k] * lay_tdb + i / 8; blkno = lay_fileblk[k] + (i / 8) / lay_tdb; }
			else if (!strcmp(s1, "raw")) { byte = k; blkno = -1; }
			if (fd < 0 || byte < 0 || pread(fd, &c, 1, byte) != 1) { fprintf(stderr, "flip outside the undo file: %s", line); return 2; }
			c ^= 1 << (i % 8);
			pwrite(fd, &c, 1, byte);
			close(fd);
			flip_byte = byte; flip_bit = i % 8;
			line_end(o, "flip", blkno, byte, 0, 0);
		} else if (!strcmp(cmd, "unflip")) {
			int fd = open(undopath, O_RDWR);
			unsigned char c;
			if (fd >= 0 && flip_byte >= 0 && pread(fd, &c, 1, flip_byte) == 1) {
				c ^= 1 << flip_bit;
				pwrite(fd, &c, 1, flip_byte);
			}
			if (fd >= 0) close(fd);
			flip_byte = -1;
			line_end(o, "unflip", 0, 0, 0, 0);
		} else if (!strcmp(cmd, "tamper")) {
			int fd = open(devpath, O_RDWR);
			unsigned char buf[G];
			memset(buf, 0x5A, G);
			pwrite(fd, buf, G, fsoff + G);
			close(fd);
			line_end(o, "tamper", 0, 0, 0, 1);
		} else if (!strcmp(cmd, "e2undo")) {
			int inc = 0, nw = 0, rc;
			s1[0] = 0;
			sscanf(line, "%*s %511s", s1);
			fflush(o);
			rc = run_e2undo(s1, &nw, &inc);
			fprintf(o, "{\"e\":\"e2undo\",\"a\":%d,\"n\":%d,\"ret\":%d,\"bs\":%d,", !strcmp(s1, "-n") ? 1 : !strcmp(s1, "-f") ? 2 : 0,
				nw, rc, inc);
			print_undo(o);
			fputc(',', o);
			print_dev(o);
			fprintf(o, "}\n");
			fflush(o);
		} else if (!strcmp(cmd, "sweep")) {
			/* sweep <dev> <undo> <targets>: per line "byte bit mode": flip, run e2undo (mode 1: -n), take the flip back */
			FILE *tf;
			long long by; int bit, mode, fd;
			if (sscanf(line, "%*s %511s %511s %511s", devpath, undopath, s1) != 3) { fprintf(stderr, "bad sweep\n"); return 2; }
			tf = fopen(s1, "r");
			fd = open(undopath, O_RDWR);
			if (!tf || fd < 0) { perror("sweep"); return 2; }
			while (fscanf(tf, "%lld %d %d", &by, &bit, &mode) == 3) {
				unsigned char c, c2;
				struct stat st0, st1;
				int inc = 0, nw = 0, rc;
				if (pread(fd, &c, 1, by) != 1) { fprintf(stderr, "sweep target outside the file\n"); return 2; }
				c2 = c ^ (1 << bit);
				pwrite(fd, &c2, 1, by);
				stat(devpath, &st0);
				rc = run_e2undo(mode ? "-n" : "-", &nw, &inc);
				stat(devpath, &st1);
				pwrite(fd, &c, 1, by);
				fprintf(o, "%lld %d %d %d %d %d\n", by, bit, mode, rc, nw,
					st0.st_size == st1.st_size && st0.st_mtim.tv_sec == st1.st_mtim.tv_sec && st0.st_mtim.tv_nsec == st1.st_mtim.tv_nsec);
			}
			fclose(tf); close(fd);
			fflush(o);
		} else {
			fprintf(stderr, "unknown command %s\n", cmd);
			return 2;
		}
	}
	if (chan)
		io_channel_close(chan);
	return 0;
}
