/* crcdrv -- calls the library's CRC primitives on given buffers at given alignments.
 * stdin lines:  <alg> <seed hex> <align 0..15> <hex bytes or "-">     stdout: ndjson */
#include <stdio.h>
#include <stdlib.h>
#include <string.h>
#include "ext2fs/ext2_fs.h"
#include "ext2fs/ext2fs.h"
#include "ext2fs/crc16.h"

int main(void)
{
	char alg[32], hex[8300];
	unsigned int seed, align;
	static unsigned char raw[4200 + 64];
	while (scanf("%31s %x %u %8299s", alg, &seed, &align, hex) == 4) {
		size_t n = strcmp(hex, "-") ? strlen(hex) / 2 : 0, i;
		unsigned char *p = (unsigned char *)(((unsigned long) raw + 31) & ~31UL) + (align & 15);
		unsigned int r;
		for (i = 0; i < n; i++) {
			unsigned int b;
			sscanf(hex + 2 * i, "%2x", &b);
			p[i] = b;
		}
		if (!strcmp(alg, "crc32c_le")) r = ext2fs_crc32c_le(seed, p, n);
		else if (!strcmp(alg, "crc32_be")) r = ext2fs_crc32_be(seed, p, n);
		else r = ext2fs_crc16(seed & 0xffff, p, n);
		printf("{\"alg\":\"%s\",\"seed_hi\":%u,\"seed_lo\":%u,\"align\":%u,\"buf\":[", alg, seed >> 16, seed & 0xffff, align);
		for (i = 0; i < n; i++) printf("%s%u", i ? "," : "", p[i]);
		printf("],\"hi\":%u,\"lo\":%u}\n", r >> 16, r & 0xffff);
	}
	return 0;
}
