/* C06 positive control: a program that commits, on request, one of the faults the C06 observation function must see.
 * Compiled with the same sanitizer flavour as the tools (lib/build.py driver()); checks/c06.py runs it through the same
 * runner and lets TLC judge the observed end of every run.  Not linked against anything of e2fsprogs on purpose. */
#include <stdio.h>
#include <stdlib.h>
#include <string.h>
#include <unistd.h>

int main(int argc, char **argv)
{
	const char *m = argc > 1 ? argv[1] : "";
	volatile int idx = argc > 2 ? atoi(argv[2]) : 0;

	if (!strcmp(m, "oob")) {		/* heap-buffer-overflow */
		char *p = malloc(16);
		volatile char c = p[16 + idx];
		free(p);
		return c ? 0 : 0;
	}
	if (!strcmp(m, "uaf")) {		/* heap-use-after-free */
		char *p = malloc(16);
		free(p);
		volatile char c = p[idx];
		return c ? 0 : 0;
	}
	if (!strcmp(m, "shift")) {		/* UBSan, recoverable: the run goes on and exits 0 */
		volatile int s = 40 + idx;
		volatile int v = 1 << s;
		return v ? 0 : 0;
	}
	if (!strcmp(m, "segv")) {
		volatile int *p = (int *) 8;
		return *p;
	}
	if (!strcmp(m, "abort"))
		abort();
	if (!strcmp(m, "hang")) {		/* computes forever */
		volatile unsigned long x = 0;
		for (;;)
			x++;
	}
	if (!strcmp(m, "block"))		/* waits forever without computing */
		for (;;)
			pause();
	if (!strcmp(m, "exit3"))
		return 3;
	if (!strcmp(m, "ok"))
		return 0;
	return 2;
}
