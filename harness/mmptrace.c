/*
 * mmptrace.so -- LD_PRELOAD scheduler hook for the MMP protocol check (X01, checks/x01.py, spec/Mmp.tla).
 *
 * Every access of a tool process to the MMP block of the target image and every sleep becomes a request sent to a
 * controller over a unix stream socket; the process then blocks until the controller answers "G <now>".  The
 * controller therefore runs exactly one process at a time and decides the interleaving (a schedule produced by TLC
 * from spec/Mmp.tla); time is virtual: time(), gettimeofday() and clock_gettime(CLOCK_REALTIME) return the value of the
 * last answer, sleep()/usleep()/nanosleep() do not sleep at all.
 *
 * Requests (one text line each, process -> controller):
 *   H <node> <pid>              hello (not blocking)
 *   R                           about to read(2) the MMP block           (blocks)   followed by   r <hex>   the bytes read
 *   W <hex>                     about to write the MMP block, payload     (blocks)
 *   S <seconds>                 sleep                                      (blocks)
 *   P                           gettimeofday() called from inside ext2fs_mmp_update2 (the "poll")   (blocks)
 * <hex> = bytes 0..115 of struct mmp_struct (magic, seq, time, nodename, bdevname, check_interval) + bytes 1020..1023 (checksum).
 * The end of the process is the end of the stream.
 *
 * Environment:
 *   MMPTRACE_SOCK    path of the controller's socket (without it the library is inert)
 *   MMPTRACE_NODE    node number
 *   MMPTRACE_TARGET  path suffix of the image
 *   MMPTRACE_OFF     byte offset of the MMP block, MMPTRACE_BS its size (file system block size)
 *   MMPTRACE_POLL    "<hex offset>:<hex size>" of ext2fs_mmp_update2 in the main executable (from nm -S), so that its
 *                    gettimeofday() can be told from the ones e2fsck makes for its resource tracking
 *   MMPTRACE_SEQ     if set: random() returns this value (the sequence number ext2fs_mmp_new_seq will hand out)
 *   MMPTRACE_HOST    if set: gethostname() returns this string (several "hosts" on one machine)
 */
#define _GNU_SOURCE
#include <dlfcn.h>
#include <errno.h>
#include <fcntl.h>
#include <link.h>
#include <stdarg.h>
#include <stdio.h>
#include <stdlib.h>
#include <string.h>
#include <sys/socket.h>
#include <sys/stat.h>
#include <sys/time.h>
#include <sys/types.h>
#include <sys/un.h>
#include <time.h>
#include <unistd.h>

#define MAXFD 1024
static char tracked[MAXFD];
static int inited, active, sock = -1;
static long long mmp_off = -1, mmp_bs = 1024, vnow;
static unsigned long poll_lo, poll_hi;
static const char *target, *seq_env, *host_env;

static int (*r_open)(const char *, int, ...);
static int (*r_open64)(const char *, int, ...);
static int (*r_openat)(int, const char *, int, ...);
static int (*r_close)(int);
static ssize_t (*r_read)(int, void *, size_t);
static ssize_t (*r_write)(int, const void *, size_t);
static ssize_t (*r_pwrite)(int, const void *, size_t, off_t);
static ssize_t (*r_pwrite64)(int, const void *, size_t, off64_t);
static off64_t (*r_lseek64)(int, off64_t, int);
static int (*r_gettimeofday)(struct timeval *, void *);
static long (*r_random)(void);

static void xsend(const char *s)
{
	size_t n = strlen(s), o = 0;
	while (o < n) {
		ssize_t k = send(sock, s + o, n - o, MSG_NOSIGNAL);
		if (k <= 0)
			_exit(98);
		o += k;
	}
}

/* wait for "G <now>\n" */
static void xwait(void)
{
	char line[64];
	int n = 0;
	for (;;) {
		char c;
		ssize_t k = recv(sock, &c, 1, 0);
		if (k <= 0)
			_exit(98);
		if (c == '\n')
			break;
		if (n < 62)
			line[n++] = c;
	}
	line[n] = 0;
	if (line[0] == 'G')
		vnow = atoll(line + 1);
}

static int main_base_cb(struct dl_phdr_info *info, size_t size, void *data)
{
	(void) size;
	*(unsigned long *) data = info->dlpi_addr;
	return 1;	/* the first entry is the main program */
}

static void init(void)
{
	const char *p;
	if (inited)
		return;
	inited = 1;
	r_open = dlsym(RTLD_NEXT, "open");
	r_open64 = dlsym(RTLD_NEXT, "open64");
	r_openat = dlsym(RTLD_NEXT, "openat");
	r_close = dlsym(RTLD_NEXT, "close");
	r_read = dlsym(RTLD_NEXT, "read");
	r_write = dlsym(RTLD_NEXT, "write");
	r_pwrite = dlsym(RTLD_NEXT, "pwrite");
	r_pwrite64 = dlsym(RTLD_NEXT, "pwrite64");
	r_lseek64 = dlsym(RTLD_NEXT, "lseek64");
	r_gettimeofday = dlsym(RTLD_NEXT, "gettimeofday");
	r_random = dlsym(RTLD_NEXT, "random");
	p = getenv("MMPTRACE_SOCK");
	target = getenv("MMPTRACE_TARGET");
	seq_env = getenv("MMPTRACE_SEQ");
	host_env = getenv("MMPTRACE_HOST");
	if (!p || !target)
		return;
	if (getenv("MMPTRACE_OFF"))
		mmp_off = atoll(getenv("MMPTRACE_OFF"));
	if (getenv("MMPTRACE_BS"))
		mmp_bs = atoll(getenv("MMPTRACE_BS"));
	if (getenv("MMPTRACE_POLL")) {
		unsigned long base = 0, lo = 0, sz = 0;
		if (sscanf(getenv("MMPTRACE_POLL"), "%lx:%lx", &lo, &sz) == 2) {
			dl_iterate_phdr(main_base_cb, &base);
			poll_lo = base + lo;
			poll_hi = poll_lo + sz;
		}
	}
	{
		struct sockaddr_un a;
		char hello[96];
		int s = socket(AF_UNIX, SOCK_STREAM | SOCK_CLOEXEC, 0), s2;
		memset(&a, 0, sizeof(a));
		a.sun_family = AF_UNIX;
		strncpy(a.sun_path, p, sizeof(a.sun_path) - 1);
		if (s < 0 || connect(s, (struct sockaddr *) &a, sizeof(a)) < 0)
			_exit(98);
		/* keep clear of the low descriptors the tools play with */
		s2 = fcntl(s, F_DUPFD_CLOEXEC, 200);
		if (s2 >= 0) {
			r_close(s);
			s = s2;
		}
		sock = s;
		snprintf(hello, sizeof(hello), "H %s %d\n", getenv("MMPTRACE_NODE") ? getenv("MMPTRACE_NODE") : "0", (int) getpid());
		xsend(hello);
		xwait();	/* the controller answers the hello with the current time */
		active = 1;
	}
}

static int is_target(const char *path)
{
	size_t lp, lt;
	if (!active || !path)
		return 0;
	lp = strlen(path);
	lt = strlen(target);
	return lp >= lt && strcmp(path + lp - lt, target) == 0;
}

static void track(int fd, const char *path)
{
	if (fd >= 0 && fd < MAXFD)
		tracked[fd] = is_target(path) ? 1 : 0;
}

static int mode_of(int flags, va_list ap)
{
	if (flags & (O_CREAT | O_TMPFILE))
		return va_arg(ap, int);
	return 0;
}

int open(const char *path, int flags, ...)
{
	va_list ap; int mode, fd;
	init();
	va_start(ap, flags); mode = mode_of(flags, ap); va_end(ap);
	fd = r_open(path, flags, mode);
	track(fd, path);
	return fd;
}

int open64(const char *path, int flags, ...)
{
	va_list ap; int mode, fd;
	init();
	va_start(ap, flags); mode = mode_of(flags, ap); va_end(ap);
	fd = r_open64(path, flags, mode);
	track(fd, path);
	return fd;
}

int openat(int dfd, const char *path, int flags, ...)
{
	va_list ap; int mode, fd;
	init();
	va_start(ap, flags); mode = mode_of(flags, ap); va_end(ap);
	fd = r_openat(dfd, path, flags, mode);
	track(fd, path);
	return fd;
}

int close(int fd)
{
	init();
	if (fd == sock && sock >= 0)
		return 0;
	if (fd >= 0 && fd < MAXFD)
		tracked[fd] = 0;
	return r_close(fd);
}

static void hexblk(char *out, const unsigned char *b, size_t len)
{
	static const char hx[] = "0123456789abcdef";
	size_t i, n = 0;
	for (i = 0; i < 116 && i < len; i++) {
		out[n++] = hx[b[i] >> 4]; out[n++] = hx[b[i] & 15];
	}
	for (i = 1020; i < 1024 && i < len; i++) {
		out[n++] = hx[b[i] >> 4]; out[n++] = hx[b[i] & 15];
	}
	out[n] = 0;
}

ssize_t read(int fd, void *buf, size_t count)
{
	ssize_t r;
	init();
	if (active && fd >= 0 && fd < MAXFD && tracked[fd] && mmp_off >= 0 && (long long) count == mmp_bs &&
	    r_lseek64(fd, 0, SEEK_CUR) == mmp_off) {
		char msg[400];
		xsend("R\n");
		xwait();
		r = r_read(fd, buf, count);
		msg[0] = 'r'; msg[1] = ' ';
		if (r >= 1024)
			hexblk(msg + 2, buf, r);
		else
			strcpy(msg + 2, "short");
		strcat(msg, "\n");
		xsend(msg);
		return r;
	}
	return r_read(fd, buf, count);
}

/* a write on a target fd covering the start of the MMP block: ask first */
static void before_write(int fd, const void *buf, size_t count, long long off)
{
	if (!active || fd < 0 || fd >= MAXFD || !tracked[fd] || mmp_off < 0)
		return;
	if (off <= mmp_off && off + (long long) count >= mmp_off + 1024) {
		char msg[400];
		msg[0] = 'W'; msg[1] = ' ';
		hexblk(msg + 2, (const unsigned char *) buf + (mmp_off - off), 1024);
		strcat(msg, "\n");
		xsend(msg);
		xwait();
	} else if (off < mmp_off + mmp_bs && off + (long long) count > mmp_off) {
		xsend("W partial\n");
		xwait();
	}
}

ssize_t write(int fd, const void *buf, size_t count)
{
	init();
	if (active && fd >= 0 && fd < MAXFD && tracked[fd])
		before_write(fd, buf, count, r_lseek64(fd, 0, SEEK_CUR));
	return r_write(fd, buf, count);
}

ssize_t pwrite(int fd, const void *buf, size_t count, off_t off)
{
	init();
	before_write(fd, buf, count, off);
	return r_pwrite(fd, buf, count, off);
}

ssize_t pwrite64(int fd, const void *buf, size_t count, off64_t off)
{
	init();
	before_write(fd, buf, count, off);
	return r_pwrite64(fd, buf, count, off);
}

/* ---- virtual time ---- */
static void do_sleep(long long sec)
{
	char msg[64];
	if (sec < 1)
		return;
	snprintf(msg, sizeof(msg), "S %lld\n", sec);
	xsend(msg);
	xwait();
}

unsigned int sleep(unsigned int s)
{
	init();
	if (!active) {
		struct timespec ts = { s, 0 };
		nanosleep(&ts, NULL);
		return 0;
	}
	do_sleep(s);
	return 0;
}

int usleep(useconds_t us)
{
	init();
	if (!active) {
		struct timespec ts = { us / 1000000, (us % 1000000) * 1000L };
		return nanosleep(&ts, NULL);
	}
	do_sleep(us / 1000000);
	return 0;
}

int nanosleep(const struct timespec *req, struct timespec *rem)
{
	static int (*r_nanosleep)(const struct timespec *, struct timespec *);
	init();
	if (!r_nanosleep)
		r_nanosleep = dlsym(RTLD_NEXT, "nanosleep");
	if (!active)
		return r_nanosleep(req, rem);
	do_sleep(req->tv_sec);
	if (rem)
		rem->tv_sec = rem->tv_nsec = 0;
	return 0;
}

int gettimeofday(struct timeval *tv, void *tz)
{
	init();
	if (!active)
		return r_gettimeofday(tv, tz);
	if (poll_lo) {
		unsigned long ra = (unsigned long) __builtin_return_address(0);
		if (ra >= poll_lo && ra < poll_hi) {
			xsend("P\n");
			xwait();
		}
	}
	if (tv) {
		tv->tv_sec = vnow;
		tv->tv_usec = 0;
	}
	return 0;
}

time_t time(time_t *t)
{
	static time_t (*r_time)(time_t *);
	init();
	if (!r_time)
		r_time = dlsym(RTLD_NEXT, "time");
	if (!active)
		return r_time(t);
	if (t)
		*t = vnow;
	return vnow;
}

int clock_gettime(clockid_t id, struct timespec *ts)
{
	static int (*r_cg)(clockid_t, struct timespec *);
	init();
	if (!r_cg)
		r_cg = dlsym(RTLD_NEXT, "clock_gettime");
	if (!active || id != CLOCK_REALTIME)
		return r_cg(id, ts);
	ts->tv_sec = vnow;
	ts->tv_nsec = 0;
	return 0;
}

long random(void)
{
	init();
	if (active && seq_env)
		return atol(seq_env);
	return r_random();
}

int gethostname(char *name, size_t len)
{
	static int (*r_gh)(char *, size_t);
	init();
	if (!r_gh)
		r_gh = dlsym(RTLD_NEXT, "gethostname");
	if (active && host_env) {
		strncpy(name, host_env, len);
		return 0;
	}
	return r_gh(name, len);
}
