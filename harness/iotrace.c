/*
 * iotrace.so -- LD_PRELOAD recorder of device-level system calls (DESIGN.md section 2.1).
 *
 * Environment:
 *   VERIF_IOTRACE_TARGET  ':'-separated list of path suffixes; only fds opened on a matching path are traced
 *   VERIF_IOTRACE_OUT     ndjson output file (appended, one write(2) per line)
 *   VERIF_IOTRACE_BLOBS   optional side file receiving the raw payload of every write (offset recorded)
 *   VERIF_FAIL_WRITE      n > 0: the n-th write-class call on a target fails with EIO (fault injection)
 *   VERIF_FAIL_COUNT      how many consecutive write-class calls fail from there (default 1)
 *   VERIF_CRASH_AFTER     n > 0: _exit(97) right after the n-th write-class/fsync event on a target
 *   VERIF_TIME_SHIFT      seconds added to time(), gettimeofday() and clock_gettime(CLOCK_REALTIME): simulates "the same
 *                         command run later" so that reproducibility under a fixed E2FSPROGS_FAKE_TIME can be checked
 *
 * Offsets are emitted split into hi/lo at 2^31 so that TLC's 32-bit integers can hold them.
 */
#define _GNU_SOURCE
#include <dlfcn.h>
#include <errno.h>
#include <fcntl.h>
#include <pthread.h>
#include <stdarg.h>
#include <stdio.h>
#include <stdlib.h>
#include <string.h>
#include <sys/types.h>
#include <sys/stat.h>
#include <sys/uio.h>
#include <unistd.h>
#include <time.h>
#include <sys/time.h>

#define MAXFD 1024
static char tracked[MAXFD];
static int tgt_id[MAXFD];
static int out_fd = -1, blob_fd = -1;
static long long blob_off;
static long seqno, wcount, fail_at, fail_cnt = 1, crash_after;
static const char *targets;
static int inited;
static pthread_mutex_t mu = PTHREAD_MUTEX_INITIALIZER;

static int (*r_open)(const char *, int, ...);
static int (*r_open64)(const char *, int, ...);
static int (*r_openat)(int, const char *, int, ...);
static int (*r_close)(int);
static ssize_t (*r_write)(int, const void *, size_t);
static ssize_t (*r_pwrite)(int, const void *, size_t, off_t);
static ssize_t (*r_pwrite64)(int, const void *, size_t, off64_t);
static ssize_t (*r_pwritev)(int, const struct iovec *, int, off_t);
static int (*r_fsync)(int);
static int (*r_fdatasync)(int);
static int (*r_ftruncate)(int, off_t);
static int (*r_ftruncate64)(int, off64_t);
static int (*r_fallocate)(int, int, off_t, off_t);
static int (*r_fallocate64)(int, int, off64_t, off64_t);
static int (*r_posix_fallocate)(int, off_t, off_t);
static off64_t (*r_lseek64)(int, off64_t, int);

static void init(void)
{
	const char *p;
	if (inited)
		return;
	inited = 1;
	r_open = dlsym(RTLD_NEXT, "open");
	r_open64 = dlsym(RTLD_NEXT, "open64");
	r_openat = dlsym(RTLD_NEXT, "openat");
	r_close = dlsym(RTLD_NEXT, "close");
	r_write = dlsym(RTLD_NEXT, "write");
	r_pwrite = dlsym(RTLD_NEXT, "pwrite");
	r_pwrite64 = dlsym(RTLD_NEXT, "pwrite64");
	r_pwritev = dlsym(RTLD_NEXT, "pwritev");
	r_fsync = dlsym(RTLD_NEXT, "fsync");
	r_fdatasync = dlsym(RTLD_NEXT, "fdatasync");
	r_ftruncate = dlsym(RTLD_NEXT, "ftruncate");
	r_ftruncate64 = dlsym(RTLD_NEXT, "ftruncate64");
	r_fallocate = dlsym(RTLD_NEXT, "fallocate");
	r_fallocate64 = dlsym(RTLD_NEXT, "fallocate64");
	r_posix_fallocate = dlsym(RTLD_NEXT, "posix_fallocate");
	r_lseek64 = dlsym(RTLD_NEXT, "lseek64");
	targets = getenv("VERIF_IOTRACE_TARGET");
	p = getenv("VERIF_IOTRACE_OUT");
	if (p && targets)
		out_fd = r_open(p, O_WRONLY | O_CREAT | O_APPEND | O_CLOEXEC, 0644);
	p = getenv("VERIF_IOTRACE_BLOBS");
	if (p && targets) {
		blob_fd = r_open(p, O_WRONLY | O_CREAT | O_APPEND | O_CLOEXEC, 0644);
		if (blob_fd >= 0)
			blob_off = r_lseek64(blob_fd, 0, SEEK_END);
	}
	if ((p = getenv("VERIF_FAIL_WRITE")))
		fail_at = atol(p);
	if ((p = getenv("VERIF_FAIL_COUNT")))
		fail_cnt = atol(p);
	if ((p = getenv("VERIF_CRASH_AFTER")))
		crash_after = atol(p);
}

static int match(const char *path)
{
	const char *t = targets, *e;
	size_t lp, lt;
	if (!t || !path)
		return -1;
	lp = strlen(path);
	int id = 0;
	while (*t) {
		e = strchr(t, ':');
		lt = e ? (size_t)(e - t) : strlen(t);
		if (lt && lp >= lt && !strncmp(path + lp - lt, t, lt))
			return id;
		id++;
		if (!e)
			break;
		t = e + 1;
	}
	return -1;
}

static void emit(const char *fmt, ...)
{
	char buf[512];
	int n;
	va_list ap;
	if (out_fd < 0)
		return;
	va_start(ap, fmt);
	n = vsnprintf(buf, sizeof(buf) - 2, fmt, ap);
	va_end(ap);
	if (n < 0)
		return;
	if (n > (int)sizeof(buf) - 2)
		n = sizeof(buf) - 2;
	buf[n++] = '\n';
	r_write(out_fd, buf, n);
}

static void note_open(int fd, const char *path, int flags)
{
	int id;
	if (fd < 0 || fd >= MAXFD)
		return;
	tracked[fd] = 0;
	id = match(path);
	if (id < 0)
		return;
	pthread_mutex_lock(&mu);
	tracked[fd] = 1;
	tgt_id[fd] = id;
	emit("{\"e\":\"open\",\"seq\":%ld,\"pid\":%d,\"fd\":%d,\"tgt\":%d,\"acc\":\"%s\",\"creat\":%d,\"trunc\":%d,\"excl\":%d,\"direct\":%d}",
	     ++seqno, (int)getpid(), fd, id,
	     (flags & O_ACCMODE) == O_RDONLY ? "rdonly" : (flags & O_ACCMODE) == O_WRONLY ? "wronly" : "rdwr",
	     !!(flags & O_CREAT), !!(flags & O_TRUNC), !!(flags & O_EXCL), !!(flags & O_DIRECT));
	pthread_mutex_unlock(&mu);
}

#define IS(fd) ((fd) >= 0 && (fd) < MAXFD && tracked[fd])

/* returns 1 if this write-class call must fail */
static int wr_event(const char *name, int fd, long long off, long long len, const void *buf, long long extra)
{
	int fail = 0;
	long long bo = -1;
	pthread_mutex_lock(&mu);
	wcount++;
	if (fail_at > 0 && wcount >= fail_at && wcount < fail_at + fail_cnt)
		fail = 1;
	if (buf && blob_fd >= 0 && len > 0 && !fail) {
		bo = blob_off;
		r_write(blob_fd, buf, len);
		blob_off += len;
	}
	emit("{\"e\":\"%s\",\"seq\":%ld,\"pid\":%d,\"fd\":%d,\"tgt\":%d,\"n\":%ld,\"off_hi\":%lld,\"off_lo\":%lld,\"len\":%lld,\"x\":%lld,\"blob_hi\":%lld,\"blob_lo\":%lld,\"fail\":%d}",
	     name, ++seqno, (int)getpid(), fd, tgt_id[fd], wcount, off >> 31, off & 0x7fffffffLL, len, extra,
	     bo < 0 ? -1 : bo >> 31, bo < 0 ? -1 : bo & 0x7fffffffLL, fail);
	pthread_mutex_unlock(&mu);
	return fail;
}

static void after_event(void)
{
	if (crash_after > 0 && wcount >= crash_after)
		_exit(97);
}

int open(const char *path, int flags, ...)
{
	mode_t mode = 0;
	int fd;
	init();
	if (flags & (O_CREAT | O_TMPFILE)) {
		va_list ap;
		va_start(ap, flags);
		mode = va_arg(ap, int);
		va_end(ap);
	}
	fd = r_open(path, flags, mode);
	if (targets)
		note_open(fd, path, flags);
	return fd;
}

int open64(const char *path, int flags, ...)
{
	mode_t mode = 0;
	int fd;
	init();
	if (flags & (O_CREAT | O_TMPFILE)) {
		va_list ap;
		va_start(ap, flags);
		mode = va_arg(ap, int);
		va_end(ap);
	}
	fd = r_open64(path, flags, mode);
	if (targets)
		note_open(fd, path, flags);
	return fd;
}

int __open_2(const char *path, int flags) { return open(path, flags); }
int __open64_2(const char *path, int flags) { return open64(path, flags); }

int openat(int dfd, const char *path, int flags, ...)
{
	mode_t mode = 0;
	int fd;
	init();
	if (flags & (O_CREAT | O_TMPFILE)) {
		va_list ap;
		va_start(ap, flags);
		mode = va_arg(ap, int);
		va_end(ap);
	}
	fd = r_openat(dfd, path, flags, mode);
	if (targets)
		note_open(fd, path, flags);
	return fd;
}

int close(int fd)
{
	init();
	if (IS(fd)) {
		pthread_mutex_lock(&mu);
		emit("{\"e\":\"close\",\"seq\":%ld,\"pid\":%d,\"fd\":%d,\"tgt\":%d}", ++seqno, (int)getpid(), fd, tgt_id[fd]);
		tracked[fd] = 0;
		pthread_mutex_unlock(&mu);
	}
	return r_close(fd);
}

ssize_t write(int fd, const void *buf, size_t n)
{
	ssize_t r;
	init();
	if (!IS(fd))
		return r_write(fd, buf, n);
	if (wr_event("write", fd, r_lseek64(fd, 0, SEEK_CUR), n, buf, 0)) {
		errno = EIO;
		return -1;
	}
	r = r_write(fd, buf, n);
	after_event();
	return r;
}

ssize_t pwrite(int fd, const void *buf, size_t n, off_t off)
{
	ssize_t r;
	init();
	if (!IS(fd))
		return r_pwrite(fd, buf, n, off);
	if (wr_event("pwrite", fd, off, n, buf, 0)) {
		errno = EIO;
		return -1;
	}
	r = r_pwrite(fd, buf, n, off);
	after_event();
	return r;
}

ssize_t pwrite64(int fd, const void *buf, size_t n, off64_t off)
{
	ssize_t r;
	init();
	if (!IS(fd))
		return r_pwrite64(fd, buf, n, off);
	if (wr_event("pwrite", fd, off, n, buf, 0)) {
		errno = EIO;
		return -1;
	}
	r = r_pwrite64(fd, buf, n, off);
	after_event();
	return r;
}

ssize_t pwritev(int fd, const struct iovec *iov, int cnt, off_t off)
{
	init();
	if (IS(fd)) {
		long long tot = 0;
		int i;
		for (i = 0; i < cnt; i++)
			tot += iov[i].iov_len;
		if (wr_event("pwritev", fd, off, tot, NULL, cnt)) {
			errno = EIO;
			return -1;
		}
	}
	return r_pwritev(fd, iov, cnt, off);
}

int fsync(int fd)
{
	int r;
	init();
	if (!IS(fd))
		return r_fsync(fd);
	pthread_mutex_lock(&mu);
	wcount++;
	emit("{\"e\":\"fsync\",\"seq\":%ld,\"pid\":%d,\"fd\":%d,\"tgt\":%d,\"n\":%ld}", ++seqno, (int)getpid(), fd, tgt_id[fd], wcount);
	pthread_mutex_unlock(&mu);
	r = r_fsync(fd);
	after_event();
	return r;
}

int fdatasync(int fd)
{
	int r;
	init();
	if (!IS(fd))
		return r_fdatasync(fd);
	pthread_mutex_lock(&mu);
	wcount++;
	emit("{\"e\":\"fsync\",\"seq\":%ld,\"pid\":%d,\"fd\":%d,\"tgt\":%d,\"n\":%ld}", ++seqno, (int)getpid(), fd, tgt_id[fd], wcount);
	pthread_mutex_unlock(&mu);
	r = r_fdatasync(fd);
	after_event();
	return r;
}

int ftruncate(int fd, off_t len)
{
	init();
	if (IS(fd) && wr_event("ftruncate", fd, len, 0, NULL, 0)) {
		errno = EIO;
		return -1;
	}
	return r_ftruncate(fd, len);
}

int ftruncate64(int fd, off64_t len)
{
	init();
	if (IS(fd) && wr_event("ftruncate", fd, len, 0, NULL, 0)) {
		errno = EIO;
		return -1;
	}
	return r_ftruncate64(fd, len);
}

int fallocate(int fd, int mode, off_t off, off_t len)
{
	init();
	if (IS(fd) && wr_event("fallocate", fd, off, len, NULL, mode)) {
		errno = EIO;
		return -1;
	}
	return r_fallocate(fd, mode, off, len);
}

int fallocate64(int fd, int mode, off64_t off, off64_t len)
{
	init();
	if (IS(fd) && wr_event("fallocate", fd, off, len, NULL, mode)) {
		errno = EIO;
		return -1;
	}
	return r_fallocate64(fd, mode, off, len);
}

int posix_fallocate(int fd, off_t off, off_t len)
{
	init();
	if (IS(fd) && wr_event("fallocate", fd, off, len, NULL, 0))
		return EIO;
	return r_posix_fallocate(fd, off, len);
}

/* ---- wall clock shift (reproducibility checks) ---- */
static long time_shift(void)
{
	static long sh = -1;
	if (sh == -1) {
		const char *p = getenv("VERIF_TIME_SHIFT");
		sh = p ? atol(p) : 0;
	}
	return sh;
}

time_t time(time_t *t)
{
	static time_t (*r_time)(time_t *);
	time_t v;
	if (!r_time)
		r_time = dlsym(RTLD_NEXT, "time");
	v = r_time(NULL) + time_shift();
	if (t)
		*t = v;
	return v;
}

int gettimeofday(struct timeval *tv, void *tz)
{
	static int (*r_gtod)(struct timeval *, void *);
	int r;
	if (!r_gtod)
		r_gtod = dlsym(RTLD_NEXT, "gettimeofday");
	r = r_gtod(tv, tz);
	if (r == 0 && tv)
		tv->tv_sec += time_shift();
	return r;
}

int clock_gettime(clockid_t id, struct timespec *ts)
{
	static int (*r_cg)(clockid_t, struct timespec *);
	int r;
	if (!r_cg)
		r_cg = dlsym(RTLD_NEXT, "clock_gettime");
	r = r_cg(id, ts);
	if (r == 0 && ts && id == CLOCK_REALTIME)
		ts->tv_sec += time_shift();
	return r;
}
