/*
 * filedrv -- executes one history of file-data operations on a filesystem image through the
 * PUBLIC libext2fs API only (ext2fs_file_open2/read/write/llseek/set_size2/flush/close, ext2fs_punch,
 * ext2fs_fallocate, ext2fs_new_inode/write_new_inode/link, ext2fs_extent_*, ext2fs_bmap2,
 * ext2fs_block_iterate3) and prints one ndjson line per operation (property C09).
 *
 *   filedrv <image>  < script
 *
 * Abstract part (FileData / Trace_FileData).  Offsets are CUT-POINT INDICES; the concretisation table
 * of each file (line "cuts") maps them order-preservingly onto byte offsets.
 *   mkfile <f> <kind>                 create file f (0/1) in the root directory; kind 0 = what the filesystem's
 *                                     features give a new regular file (extents if the feature is on, else block map),
 *                                     1 = inline data (EXT4_INLINE_DATA_FL + ext2fs_inline_data_init, as debugfs write does)
 *   cuts <f> <n> <c0> ... <cn-1>      concretisation table of file f (c0 must be 0)
 *   begin                             logs the accounting record before the first operation (the base of the record)
 *   obs <0|1>                         1: after EVERY step read both files back completely through their handles
 *                                     0: only "read" steps and the final step observe (keeps the block buffer undisturbed)
 *   write <f> <ia> <ib> <tag>         llseek(c[ia]); write c[ib]-c[ia] bytes, payload byte = P(tag, offset)
 *   iwrite <ia0> <ib0> <t0> <ia1> <ib1> <t1>   both writes, issued block by block alternately (fragmented allocation:
 *                                     every block becomes its own extent); logged as two write lines ("pair":1 and 2,
 *                                     both taken after both writes)
 *   read <f>                          full read-back of file f (observation only)
 *   setsize <f> <ia>                  ext2fs_file_set_size2(c[ia])
 *   punch <f> <ia> <ib>               c[ia], c[ib] block aligned; handle closed, ext2fs_punch(blocks), handle reopened
 *   falloc <f> <ia> <ib> <mode>       block aligned; handle closed, ext2fs_fallocate, reopened.  mode: 0 init
 *                                     (FORCE_INIT|ZERO_BLOCKS|INIT_BEYOND_EOF), 1 uninit (FORCE_UNINIT),
 *                                     2 keep_size (flags 0, what fuse2fs passes with KEEP_SIZE), 3 zero (ZERO_BLOCKS|INIT_BEYOND_EOF),
 *                                     4 zero + keep_size (ZERO_BLOCKS);
 *                                     modes 0 and 3 then extend i_size to c[ib] as fuse2fs does without KEEP_SIZE
 *   flush <f> | reopen <f> | remount  ext2fs_file_flush / close+open of the handle / close both, ext2fs_close, open again
 *   fill <n>                          (image preparation) write a filler file until at most n blocks are free
 *   mkballast                         create the block-mapped file "ballast" (owner 2 of the accounting record): dead weight
 *                                     that setfree uses to absorb free space; its 12 direct slots give steps of exactly one block
 *   setfree <r>                       write to the ballast until exactly r allocation units are free (ENOSPC ladder)
 *
 * Every operation line also carries the ACCOUNTING record "acct" (allocation units = clusters): free = clear bits of the
 * in-memory block bitmap, sb / gd = free counts of the superblock / summed over the group descriptors, own[f] = units mapped
 * by file f (data + extent-tree / indirect / EA blocks, found with ext2fs_block_iterate3), ib[f] = i_blocks in units,
 * stray = units marked in use that neither a followed file maps nor the base (everything in use before the first operation)
 * holds, unm = units mapped or in the base whose bit is clear, shared = units mapped twice.  After remount and in the final
 * line the bitmaps have just been read from disk, so the record is the ON-DISK state.
 * write / falloc lines carry "path" = [entries, max] of the extent-tree nodes from the root to the leaf where the first block
 * of the range would be inserted ([1,1] per missing indirect level for block-mapped files), taken BEFORE the call, "nd" = blocks
 * of the range that were unmapped, and (write) "dcut" = cut index where the write stopped (-9 if not on a cut point).
 *   end                               close handles and filesystem, reopen read-only, final observation + inode fields
 *
 * Concrete part (ExtentMap / IndMap conformance), block numbers are literal:
 *   reserve <start> <count>           mark physical blocks in use (the numbers an xset script maps by hand)
 *   xset <f> <lblk> <pblk> <uninit>   ext2fs_extent_set_bmap on the inode, then dump of the leaf extents
 *   xpunch <f> <start> <end>          ext2fs_punch, then leaf extents, mapped set before/after, physical blocks freed
 *   bwrite <f> <lblk> <n> <tag>       write n whole blocks at logical block lblk (to populate a block-mapped file)
 *   bpunch <f> <start> <end>          ext2fs_punch, mapped logical ranges before/after + freed-set comparison
 *
 * Every line carries only integers < 2^31, strings and arrays thereof (TLC's JSON reader).
 */
#include <stdio.h>
#include <stdlib.h>
#include <string.h>
#include <errno.h>
#include <unistd.h>
#include "ext2fs/ext2_fs.h"
#include "ext2fs/ext2fs.h"

#define NF 2
#define MAXCUT 24
#define MAXTAG 62

static const char *image;
static ext2_filsys fs;
#define NT 3		/* owners followed by the accounting record: files 0, 1 and the ballast */
static ext2_ino_t ino[NT];
static int kind[NT];
static ext2_file_t fh[NF];
static long long cuts[NF][MAXCUT];
static int ncut[NF];
static int observe = 1;
static char *iobuf;
#define IOBUF (1 << 20)

static void die(const char *what, errcode_t e)
{
	fprintf(stderr, "filedrv: %s: %s (%ld)\n", what, e ? error_message(e) : "", (long) e);
	fflush(stdout);
	exit(3);
}

static unsigned char payload(int tag, unsigned long long off)
{
	return 1 + (unsigned char) (((unsigned long long) tag * 53 + off * 7 + (off >> 10) * 13 + (off >> 20) * 29) % 255);
}

static int errclass(errcode_t e)
{
	if (e == 0)
		return 0;
	if (e == EXT2_ET_BLOCK_ALLOC_FAIL || e == ENOSPC || e == EXT2_ET_INODE_ALLOC_FAIL)
		return 1;
	return 2;
}

static void open_fs(int rw)
{
	errcode_t e = ext2fs_open(image, (rw ? EXT2_FLAG_RW : 0) | EXT2_FLAG_64BITS, 0, 0, unix_io_manager, &fs);
	if (e)
		die("ext2fs_open", e);
	e = ext2fs_read_bitmaps(fs);
	if (e)
		die("ext2fs_read_bitmaps", e);
}

static void open_handle(int f, int rw)
{
	errcode_t e;
	if (!ino[f])
		return;
	e = ext2fs_file_open2(fs, ino[f], NULL, rw ? EXT2_FILE_WRITE : 0, &fh[f]);
	if (e)
		die("ext2fs_file_open2", e);
}

static errcode_t close_handle(int f)
{
	errcode_t e = 0;
	if (fh[f]) {
		e = ext2fs_file_close(fh[f]);
		fh[f] = NULL;
	}
	return e;
}

static void do_mkfile(int f, int k)
{
	struct ext2_inode inode;
	char name[8];
	errcode_t e;
	ext2_ino_t n;

	snprintf(name, sizeof(name), "f%d", f);
	e = ext2fs_new_inode(fs, EXT2_ROOT_INO, 0100644, 0, &n);
	if (e)
		die("ext2fs_new_inode", e);
	e = ext2fs_link(fs, EXT2_ROOT_INO, name, n, EXT2_FT_REG_FILE);
	if (e == EXT2_ET_DIR_NO_SPACE) {
		e = ext2fs_expand_dir(fs, EXT2_ROOT_INO);
		if (e)
			die("ext2fs_expand_dir", e);
		e = ext2fs_link(fs, EXT2_ROOT_INO, name, n, EXT2_FT_REG_FILE);
	}
	if (e)
		die("ext2fs_link", e);
	ext2fs_inode_alloc_stats2(fs, n, +1, 0);
	memset(&inode, 0, sizeof(inode));
	inode.i_mode = LINUX_S_IFREG | 0644;
	inode.i_atime = inode.i_ctime = inode.i_mtime = fs->now ? fs->now : 1600000000;
	inode.i_links_count = 1;
	if (k == 1) {
		if (!ext2fs_has_feature_inline_data(fs->super))
			die("inline file requested on a filesystem without inline_data", 0);
		inode.i_flags |= EXT4_INLINE_DATA_FL;
	} else if (ext2fs_has_feature_extents(fs->super)) {
		ext2_extent_handle_t h;
		e = ext2fs_extent_open2(fs, n, &inode, &h);
		if (e)
			die("ext2fs_extent_open2", e);
		ext2fs_extent_free(h);
	}
	e = ext2fs_write_new_inode(fs, n, &inode);
	if (e)
		die("ext2fs_write_new_inode", e);
	if (k == 1) {
		e = ext2fs_inline_data_init(fs, n);
		if (e)
			die("ext2fs_inline_data_init", e);
	}
	ino[f] = n;
	kind[f] = k;
	open_handle(f, 1);
}

/* ---- observation: full read-back of a file through handle h, classified per cell ---- */
struct obs {
	long long size, len;
	int sizei, leni;	/* cut index of size / len, -9 if not on a cut point */
	int cell[MAXCUT], m[MAXCUT];
	long ret;
	char bad[160];
};

static int cut_index(int f, long long v)
{
	int i;
	for (i = 0; i < ncut[f]; i++)
		if (cuts[f][i] == v)
			return i;
	return -9;
}

static void observe_file(int f, ext2_file_t h, struct obs *o)
{
	__u64 sz = 0;
	long long pos = 0, limit;
	unsigned int got;
	errcode_t e;
	int i, nc = ncut[f] - 1;
	unsigned long long cand[MAXCUT];	/* bit t: every byte so far == payload(t); bit 0: every byte so far zero */
	int seen[MAXCUT];

	memset(o, 0, sizeof(*o));
	for (i = 0; i < MAXCUT; i++) {
		cand[i] = (1ULL << (MAXTAG + 1)) - 1;
		seen[i] = 0;
	}
	e = ext2fs_file_get_lsize(h, &sz);
	if (e)
		die("get_lsize", e);
	o->size = sz;
	limit = (long long) sz + (1 << 16);
	e = ext2fs_file_llseek(h, 0, EXT2_SEEK_SET, NULL);
	if (e)
		die("llseek", e);
	i = 0;
	while (pos < limit) {
		unsigned int want = IOBUF, k;
		e = ext2fs_file_read(h, iobuf, want, &got);
		if (e) {
			o->ret = (long) e;
			snprintf(o->bad, sizeof(o->bad), "read error %ld at %lld", (long) e, pos);
			break;
		}
		if (got == 0)
			break;
		for (k = 0; k < got; ) {
			long long off = pos + k, cend;
			unsigned int n, j;
			while (i < nc && off >= cuts[f][i + 1])
				i++;
			if (i >= nc) {	/* data past the last cut point */
				if (!o->bad[0])
					snprintf(o->bad, sizeof(o->bad), "f%d: data beyond the last cut point at %lld", f, off);
				k = got;
				break;
			}
			cend = cuts[f][i + 1];
			n = (cend - off < (long long) (got - k)) ? (unsigned int) (cend - off) : got - k;
			seen[i] += n > 0;
			/* zero candidate */
			if (cand[i] & 1ULL) {
				for (j = 0; j < n && iobuf[k + j] == 0; j++)
					;
				if (j < n)
					cand[i] &= ~1ULL;
			}
			if (cand[i] & ~1ULL) {
				int t;
				for (t = 1; t <= MAXTAG; t++) {
					if (!(cand[i] & (1ULL << t)))
						continue;
					for (j = 0; j < n && (unsigned char) iobuf[k + j] == payload(t, off + j); j++)
						;
					if (j < n) {
						cand[i] &= ~(1ULL << t);
						if (cand[i] == 0 && !o->bad[0])
							snprintf(o->bad, sizeof(o->bad), "f%d cell %d: byte %lld is 0x%02x, matches neither zero nor one tag",
								 f, i, off + j, (unsigned char) iobuf[k + j]);
					}
				}
			}
			k += n;
		}
		pos += got;
	}
	o->len = pos;
	o->sizei = cut_index(f, o->size);
	o->leni = cut_index(f, o->len);
	for (i = 0; i < nc; i++) {
		if (cuts[f][i] >= o->len)
			o->cell[i] = -1;		/* entirely beyond what was returned */
		else if (cuts[f][i + 1] > o->len)
			o->cell[i] = -2;		/* the returned data ends inside the cell */
		else if (cand[i] & 1ULL)
			o->cell[i] = 0;
		else if (cand[i]) {
			int t;
			for (t = 1; t <= MAXTAG && !(cand[i] & (1ULL << t)); t++)
				;
			o->cell[i] = t;
		} else
			o->cell[i] = -2;
	}
	/* mapping state of the blocks under each cell: 0 none mapped, 1 all mapped, 2 mixed, 3 not applicable */
	for (i = 0; i < nc; i++) {
		long long b0 = cuts[f][i] / fs->blocksize, b1 = (cuts[f][i + 1] - 1) / fs->blocksize, b, step;
		int any = 0, all = 1;
		struct ext2_inode in;
		o->m[i] = 3;
		if (ext2fs_read_inode(fs, ino[f], &in) || (in.i_flags & EXT4_INLINE_DATA_FL))
			continue;
		step = (b1 - b0 > 600) ? (b1 - b0) / 300 : 1;
		for (b = b0; b <= b1; b += (b < b0 + 150 || b > b1 - 150) ? 1 : step) {
			blk64_t p = 0;
			int rf = 0;
			if (ext2fs_bmap2(fs, ino[f], &in, NULL, 0, b, &rf, &p))
				p = 0;
			if (p)
				any = 1;
			else
				all = 0;
		}
		o->m[i] = all ? 1 : any ? 2 : 0;
	}
}


/* ---- accounting record (see header) ---- */
static unsigned char *base_map;		/* per allocation unit: in use before the first operation, owned by no followed file */
static blk64_t base_n;
struct ownl { blk64_t *b; int n, cap; };
static int own_proc(ext2_filsys xfs, blk64_t *blocknr, e2_blkcnt_t blockcnt, blk64_t ref_blk, int ref_offset, void *priv)
{
	struct ownl *o = priv;
	(void) xfs; (void) blockcnt; (void) ref_blk; (void) ref_offset;
	if (o->n == o->cap) {
		o->cap = o->cap ? o->cap * 2 : 1024;
		o->b = realloc(o->b, o->cap * sizeof(blk64_t));
	}
	o->b[o->n++] = *blocknr;
	return 0;
}

static int cmpblk(const void *a, const void *b)
{
	blk64_t x = *(const blk64_t *) a, y = *(const blk64_t *) b;
	return x < y ? -1 : x > y;
}

static void print_acct(void)
{
	blk64_t nb = ext2fs_blocks_count(fs->super), c, c0, c1, nfree = 0, stray = 0, unm = 0, shared = 0, gd = 0, sb;
	unsigned int ratio = EXT2FS_CLUSTER_RATIO(fs), unit512 = ratio * (fs->blocksize / 512);
	unsigned char *cnt;
	long long own[NT], ib[NT];
	dgrp_t g;
	int f, i;

	c0 = EXT2FS_B2C(fs, fs->super->s_first_data_block);
	c1 = EXT2FS_B2C(fs, nb - 1);
	cnt = calloc(c1 + 1, 1);
	for (f = 0; f < NT; f++) {
		struct ownl o;
		struct ext2_inode in;
		blk64_t last = ~0ULL;
		errcode_t e;
		own[f] = 0; ib[f] = 0;
		if (!ino[f])
			continue;
		memset(&o, 0, sizeof(o));
		if (ext2fs_read_inode(fs, ino[f], &in))
			die("acct read_inode", 0);
		ib[f] = (ext2fs_get_stat_i_blocks(fs, &in) % unit512) ? -1 : (long long) (ext2fs_get_stat_i_blocks(fs, &in) / unit512);
		if (!(in.i_flags & EXT4_INLINE_DATA_FL)) {
			e = ext2fs_block_iterate3(fs, ino[f], BLOCK_FLAG_READ_ONLY, NULL, own_proc, &o);
			if (e)
				die("acct block_iterate3", e);
		}
		if (ext2fs_file_acl_block(fs, &in)) {
			blk64_t a = ext2fs_file_acl_block(fs, &in);
			own_proc(fs, &a, 0, 0, 0, &o);
		}
		qsort(o.b, o.n, sizeof(blk64_t), cmpblk);
		for (i = 0; i < o.n; i++) {
			if (i && o.b[i] == o.b[i - 1]) {	/* the same block mapped twice by one file */
				shared++;
				continue;
			}
			if (o.b[i] >= nb || o.b[i] < fs->super->s_first_data_block) {
				shared++;			/* a mapping outside the filesystem */
				continue;
			}
			c = EXT2FS_B2C(fs, o.b[i]);
			if (c == last)
				continue;
			last = c;
			own[f]++;
			if (cnt[c] < 200)
				cnt[c]++;
		}
		free(o.b);
	}
	if (!base_map) {
		base_n = c1 + 1;
		base_map = calloc(base_n, 1);
		for (c = c0; c <= c1; c++)
			base_map[c] = ext2fs_test_block_bitmap2(fs->block_map, EXT2FS_C2B(fs, c)) && !cnt[c];
	}
	for (c = c0; c <= c1; c++) {
		int bit = ext2fs_test_block_bitmap2(fs->block_map, EXT2FS_C2B(fs, c)) ? 1 : 0;
		if (!bit)
			nfree++;
		if (bit && !base_map[c] && !cnt[c])
			stray++;
		if (!bit && (base_map[c] || cnt[c]))
			unm++;
		if (cnt[c] > 1 || (cnt[c] && base_map[c]))
			shared++;
	}
	for (g = 0; g < fs->group_desc_count; g++)
		gd += ext2fs_bg_free_blocks_count(fs, g);
	sb = ext2fs_free_blocks_count(fs->super);
	printf(",\"acct\":{\"free\":%llu,\"sb\":%lld,\"gd\":%llu,\"own\":[%lld,%lld,%lld],\"ib\":[%lld,%lld,%lld],\"stray\":%llu,\"unm\":%llu,\"shared\":%llu}",
	       (unsigned long long) nfree, (sb % ratio) ? -1LL : (long long) (sb / ratio), (unsigned long long) gd,
	       own[0], own[1], own[2], ib[0], ib[1], ib[2],
	       (unsigned long long) stray, (unsigned long long) unm, (unsigned long long) shared);
	free(cnt);
}

/* occupancy of the extent-tree path (root first) to the leaf where logical block lblk lives or would be inserted; for a
   block-mapped file one [missing, 1] pair per indirect level the block needs; nd = unmapped blocks among [lblk, lblk + n) */
static char pathbuf[256];
static int path_nd;
static void path_facts(int f, blk64_t lblk, blk64_t n)
{
	struct ext2_inode in;
	int lev[8][2], nl = 0, i;
	char *p = pathbuf;
	blk64_t b;

	strcpy(pathbuf, "[]");
	path_nd = 0;
	if (ext2fs_read_inode(fs, ino[f], &in) || (in.i_flags & EXT4_INLINE_DATA_FL))
		return;
	for (b = lblk; b < lblk + n && b < lblk + 64; b++) {
		blk64_t x = 0;
		if (!ext2fs_bmap2(fs, ino[f], &in, NULL, 0, b, NULL, &x) && !x)
			path_nd++;
	}
	if (in.i_flags & EXT4_EXTENTS_FL) {
		ext2_extent_handle_t h;
		struct ext2_extent_info info;
		struct ext2fs_extent ex;
		if (ext2fs_extent_open2(fs, ino[f], &in, &h))
			return;
		ext2fs_extent_goto2(h, 0, lblk);
		while (nl < 8 && !ext2fs_extent_get_info(h, &info)) {
			lev[nl][0] = info.num_entries;
			lev[nl][1] = info.max_entries;
			nl++;
			if (info.curr_level == 0 || ext2fs_extent_get(h, EXT2_EXTENT_UP, &ex))
				break;
		}
		ext2fs_extent_free(h);
		p += sprintf(p, "[");
		for (i = nl - 1; i >= 0; i--)
			p += sprintf(p, "%s[%d,%d]", i == nl - 1 ? "" : ",", lev[i][0], lev[i][1]);
		sprintf(p, "]");
	} else {
		blk64_t A = fs->blocksize / 4;
		__u32 *blk = (__u32 *) malloc(fs->blocksize);
		if (lblk < 12)
			;
		else if (lblk < 12 + A) {
			lev[nl][0] = in.i_block[EXT2_IND_BLOCK] ? 0 : 1; lev[nl++][1] = 1;
		} else if (lblk < 12 + A + A * A) {
			__u32 ind = 0;
			lev[nl][0] = in.i_block[EXT2_DIND_BLOCK] ? 0 : 1; lev[nl++][1] = 1;
			if (in.i_block[EXT2_DIND_BLOCK] && !io_channel_read_blk64(fs->io, in.i_block[EXT2_DIND_BLOCK], 1, blk))
				ind = ext2fs_le32_to_cpu(blk[(lblk - 12 - A) / A]);
			lev[nl][0] = ind ? 0 : 1; lev[nl++][1] = 1;
		} else {
			lev[nl][0] = in.i_block[EXT2_TIND_BLOCK] ? 0 : 1; lev[nl++][1] = 1;	/* deeper levels not followed */
		}
		free(blk);
		p += sprintf(p, "[");
		for (i = 0; i < nl; i++)
			p += sprintf(p, "%s[%d,%d]", i ? "," : "", lev[i][0], lev[i][1]);
		sprintf(p, "]");
	}
}

static void print_obs_one(int f, int doit)
{
	struct obs o;
	int i, nc = ncut[f] - 1;
	if (!doit || !fh[f] || ncut[f] < 2) {
		printf("{\"obs\":0,\"size\":0,\"len\":0,\"c\":[],\"m\":[],\"bad\":\"\"}");
		return;
	}
	observe_file(f, fh[f], &o);
	printf("{\"obs\":1,\"size\":%d,\"len\":%d,\"c\":[", o.sizei, o.leni);
	for (i = 0; i < nc; i++)
		printf("%s%d", i ? "," : "", o.cell[i]);
	printf("],\"m\":[");
	for (i = 0; i < nc; i++)
		printf("%s%d", i ? "," : "", o.m[i]);
	printf("],\"bsize\":\"%lld\",\"blen\":\"%lld\",\"bad\":\"%s\"}", o.size, o.len, o.bad);
}

/* which: -1 both (if observing), f: that file only even when obs is 0 */
static void print_files(int which)
{
	int f;
	/* is the inode inline data right now (independent of observation) */
	printf(",\"inl\":[");
	for (f = 0; f < NF; f++) {
		struct ext2_inode in;
		memset(&in, 0, sizeof(in));
		if (ino[f])
			ext2fs_read_inode(fs, ino[f], &in);
		printf("%s%d", f ? "," : "", (in.i_flags & EXT4_INLINE_DATA_FL) ? 1 : 0);
	}
	printf("]");
	printf(",\"fs\":[");
	for (f = 0; f < NF; f++) {
		if (f)
			printf(",");
		print_obs_one(f, which == f || (which == -1 && observe));
	}
	printf("]");
	/* after the observation: reading a file back through its handle flushes the handle's buffer, and flushing a block of an
	   uninitialized extent converts it (the extent may split and need a tree block) -- that belongs to this line */
	print_acct();
	printf("}\n");
	fflush(stdout);
}

static void logop(const char *e, int f, int a, int b, int tag, int mode, errcode_t ret, int full)
{
	printf("{\"e\":\"%s\",\"f\":%d,\"a\":%d,\"b\":%d,\"tag\":%d,\"mode\":%d,\"ret\":%d,\"err\":\"%ld\",\"full\":%d",
	       e, f, a, b, tag, mode, errclass(ret), (long) ret, full);
}

static errcode_t write_range(int f, long long off, long long len, int tag, long long *done)
{
	errcode_t e;
	*done = 0;
	e = ext2fs_file_llseek(fh[f], off, EXT2_SEEK_SET, NULL);
	if (e)
		return e;
	while (len > 0) {
		unsigned int n = len > IOBUF ? IOBUF : (unsigned int) len, w = 0, j;
		for (j = 0; j < n; j++)
			iobuf[j] = (char) payload(tag, off + *done + j);
		e = ext2fs_file_write(fh[f], iobuf, n, &w);
		*done += w;
		len -= w;
		if (e)
			return e;
		if (w == 0)
			return EXT2_ET_SHORT_WRITE;
		if (w < n)
			continue;	/* a short write is retried from where it stopped (POSIX-style caller) */
	}
	return 0;
}

static void need_cut(int f, int i)
{
	if (i < 0 || i >= ncut[f])
		die("cut index out of range", 0);
}

static void need_aligned(int f, int i)
{
	need_cut(f, i);
	if (cuts[f][i] % fs->blocksize)
		die("punch/falloc on a cut point that is not block aligned (concretiser bug)", 0);
}

/* ---- concrete helpers for ExtentMap / IndMap conformance ---- */
static void print_extents(int f)
{
	ext2_extent_handle_t h;
	struct ext2fs_extent ex;
	struct ext2_extent_info info;
	errcode_t e;
	int first = 1, op = EXT2_EXTENT_ROOT, depth = -1;

	printf(",\"ext\":[");
	e = ext2fs_extent_open2(fs, ino[f], NULL, &h);
	if (e)
		die("extent_open2", e);
	if (ext2fs_extent_get_info(h, &info) == 0)
		depth = info.max_depth;
	while (1) {
		e = ext2fs_extent_get(h, op, &ex);
		if (e)
			break;
		op = EXT2_EXTENT_NEXT;
		if (!(ex.e_flags & EXT2_EXTENT_FLAGS_LEAF))
			continue;
		printf("%s[%llu,%u,%llu,%d]", first ? "" : ",", (unsigned long long) ex.e_lblk, ex.e_len,
		       (unsigned long long) ex.e_pblk, (ex.e_flags & EXT2_EXTENT_FLAGS_UNINIT) ? 1 : 0);
		first = 0;
	}
	ext2fs_extent_free(h);
	printf("],\"depth\":%d", depth);
}

struct blist { blk64_t *l, *p; int n, cap; blk64_t *meta; int nm, capm; };
static int collect_proc(ext2_filsys xfs, blk64_t *blocknr, e2_blkcnt_t blockcnt, blk64_t ref_blk, int ref_offset, void *priv)
{
	struct blist *bl = priv;
	(void) xfs; (void) ref_blk; (void) ref_offset;
	if (blockcnt < 0) {
		if (bl->nm == bl->capm) {
			bl->capm = bl->capm ? bl->capm * 2 : 64;
			bl->meta = realloc(bl->meta, bl->capm * sizeof(blk64_t));
		}
		bl->meta[bl->nm++] = *blocknr;
		return 0;
	}
	if (bl->n == bl->cap) {
		bl->cap = bl->cap ? bl->cap * 2 : 1024;
		bl->l = realloc(bl->l, bl->cap * sizeof(blk64_t));
		bl->p = realloc(bl->p, bl->cap * sizeof(blk64_t));
	}
	bl->l[bl->n] = blockcnt;
	bl->p[bl->n++] = *blocknr;
	return 0;
}

static void collect(int f, struct blist *bl)
{
	errcode_t e;
	memset(bl, 0, sizeof(*bl));
	e = ext2fs_block_iterate3(fs, ino[f], BLOCK_FLAG_READ_ONLY, NULL, collect_proc, bl);
	if (e)
		die("block_iterate3", e);
}

static void print_lranges(const char *key, struct blist *bl)
{
	int i, first = 1;
	printf(",\"%s\":[", key);
	for (i = 0; i < bl->n; ) {
		int j = i;
		while (j + 1 < bl->n && bl->l[j + 1] == bl->l[j] + 1)
			j++;
		printf("%s[%llu,%llu]", first ? "" : ",", (unsigned long long) bl->l[i], (unsigned long long) bl->l[j]);
		first = 0;
		i = j + 1;
	}
	printf("]");
}

static int cmp64(const void *a, const void *b)
{
	blk64_t x = *(const blk64_t *) a, y = *(const blk64_t *) b;
	return x < y ? -1 : x > y;
}

/* physical blocks (data + metadata) owned before but not after == bits that went 1 -> 0 in the block bitmap,
   and no bit went 0 -> 1 other than blocks newly owned; i_blocks == 512-byte sectors of everything owned */
static void freed_check(int f, struct blist *before, struct blist *after, ext2fs_block_bitmap snap)
{
	blk64_t b, nb = ext2fs_blocks_count(fs->super);
	blk64_t *ob, *oa;
	int nbf = before->n + before->nm, naf = after->n + after->nm, i, ok = 1, nfreed = 0, nleft = 0;
	struct ext2_inode in;
	ob = malloc((nbf + 1) * sizeof(blk64_t));
	oa = malloc((naf + 1) * sizeof(blk64_t));
	memcpy(ob, before->p, before->n * sizeof(blk64_t));
	memcpy(ob + before->n, before->meta, before->nm * sizeof(blk64_t));
	memcpy(oa, after->p, after->n * sizeof(blk64_t));
	memcpy(oa + after->n, after->meta, after->nm * sizeof(blk64_t));
	/* the bitmap is kept per cluster: a block counts as owned when a block of its cluster is (a new tree block marks its whole cluster) */
	for (i = 0; i < nbf; i++)
		ob[i] &= ~((blk64_t) EXT2FS_CLUSTER_MASK(fs));
	for (i = 0; i < naf; i++)
		oa[i] &= ~((blk64_t) EXT2FS_CLUSTER_MASK(fs));
	qsort(ob, nbf, sizeof(blk64_t), cmp64);
	qsort(oa, naf, sizeof(blk64_t), cmp64);
	for (b = fs->super->s_first_data_block; b < nb; b++) {
		int was = ext2fs_test_block_bitmap2(snap, b), is = ext2fs_test_block_bitmap2(fs->block_map, b);
		blk64_t bc = b & ~((blk64_t) EXT2FS_CLUSTER_MASK(fs));
		int ownb = bsearch(&bc, ob, nbf, sizeof(blk64_t), cmp64) != NULL;
		int owna = bsearch(&bc, oa, naf, sizeof(blk64_t), cmp64) != NULL;
		if (was && !is)
			nfreed++;
		if (ownb && !owna)
			nleft++;
		if ((was && !is) != (ownb && !owna && EXT2FS_CLUSTER_RATIO(fs) == 1))
			if (EXT2FS_CLUSTER_RATIO(fs) == 1)
				ok = 0;
		if (!was && is && !(owna && !ownb))
			ok = 0;
	}
	if (ext2fs_read_inode(fs, ino[f], &in))
		ok = 0;
	i = (int) (in.i_blocks / (fs->blocksize / 512));
	printf(",\"left_map\":%d,\"freed_bitmap\":%d,\"freed_ok\":%d,\"iblocks\":%d,\"owned\":%d", nleft, nfreed, ok, i, naf);
	free(ob);
	free(oa);
}

static void free_blist(struct blist *bl)
{
	free(bl->l); free(bl->p); free(bl->meta);
}

static void do_final(void)
{
	int f;
	errcode_t e, ce[NF];
	for (f = 0; f < NF; f++)
		ce[f] = close_handle(f);
	e = ext2fs_close(fs);
	fs = NULL;
	if (e)
		die("ext2fs_close", e);
	open_fs(0);
	printf("{\"e\":\"final\",\"f\":0,\"a\":0,\"b\":0,\"tag\":0,\"mode\":0,\"ret\":%d,\"err\":\"%ld\",\"full\":1,\"cret\":[%d,%d]",
	       errclass(ce[0] ? ce[0] : ce[1]), (long) (ce[0] ? ce[0] : ce[1]), errclass(ce[0]), errclass(ce[1]));
	printf(",\"ino\":[");
	for (f = 0; f < NF; f++) {
		struct ext2_inode in;
		memset(&in, 0, sizeof(in));
		if (ino[f])
			ext2fs_read_inode(fs, ino[f], &in);
		printf("%s{\"isize\":\"%llu\",\"iblocks\":%u,\"flags\":%u}", f ? "," : "", (unsigned long long) EXT2_I_SIZE(&in), in.i_blocks, in.i_flags);
	}
	printf("]");
	for (f = 0; f < NF; f++)
		open_handle(f, 0);
	observe = 1;
	print_files(-1);
	for (f = 0; f < NF; f++)
		close_handle(f);
	ext2fs_close(fs);
	fs = NULL;
}

int main(int argc, char **argv)
{
	char line[4096], cmd[32];
	int f, a, b, tag, mode;
	errcode_t e;

	if (argc < 2) {
		fprintf(stderr, "usage: filedrv image < script\n");
		return 3;
	}
	image = argv[1];
	add_error_table(&et_ext2_error_table);
	iobuf = malloc(IOBUF);
	open_fs(1);
	while (fgets(line, sizeof(line), stdin)) {
		if (sscanf(line, "%31s", cmd) != 1 || cmd[0] == '#')
			continue;
		if (!strcmp(cmd, "mkfile")) {
			if (sscanf(line, "%*s %d %d", &f, &a) != 2) die("mkfile args", 0);
			do_mkfile(f, a);
		} else if (!strcmp(cmd, "cuts")) {
			char *p = line;
			int n, i, used;
			if (sscanf(p, "%*s %d %d%n", &f, &n, &used) != 2 || n > MAXCUT) die("cuts args", 0);
			p += used;
			for (i = 0; i < n; i++) {
				if (sscanf(p, "%lld%n", &cuts[f][i], &used) != 1) die("cuts values", 0);
				p += used;
			}
			ncut[f] = n;
		} else if (!strcmp(cmd, "begin")) {
			/* the files exist and are empty: the accounting record starts here (everything in use now is the base) */
			int sv = observe;
			observe = 0;
			logop("begin", 0, 0, 0, 0, 0, 0, 1);
			print_files(-1);
			observe = sv;
		} else if (!strcmp(cmd, "obs")) {
			sscanf(line, "%*s %d", &observe);
		} else if (!strcmp(cmd, "write")) {
			long long done;
			if (sscanf(line, "%*s %d %d %d %d", &f, &a, &b, &tag) != 4) die("write args", 0);
			need_cut(f, a); need_cut(f, b);
			path_facts(f, cuts[f][a] / fs->blocksize, (cuts[f][b] - 1) / fs->blocksize - cuts[f][a] / fs->blocksize + 1);
			e = write_range(f, cuts[f][a], cuts[f][b] - cuts[f][a], tag, &done);
			logop("write", f, a, b, tag, 0, e, done == cuts[f][b] - cuts[f][a]);
			printf(",\"path\":%s,\"nd\":%d,\"dcut\":%d", pathbuf, path_nd, cut_index(f, cuts[f][a] + done));
			print_files(-1);
		} else if (!strcmp(cmd, "iwrite")) {
			int a1, b1, t1;
			long long o0, o1, e0, e1, done, d0 = 0, d1 = 0;
			errcode_t r0 = 0, r1 = 0;
			int sv;
			if (sscanf(line, "%*s %d %d %d %d %d %d", &a, &b, &tag, &a1, &b1, &t1) != 6) die("iwrite args", 0);
			need_cut(0, a); need_cut(0, b); need_cut(1, a1); need_cut(1, b1);
			o0 = cuts[0][a]; e0 = cuts[0][b]; o1 = cuts[1][a1]; e1 = cuts[1][b1];
			while ((o0 < e0 && !r0) || (o1 < e1 && !r1)) {
				if (o0 < e0 && !r0) {
					long long n = fs->blocksize - o0 % fs->blocksize;
					if (n > e0 - o0) n = e0 - o0;
					r0 = write_range(0, o0, n, tag, &done);
					o0 += done; d0 += done;
				}
				if (o1 < e1 && !r1) {
					long long n = fs->blocksize - o1 % fs->blocksize;
					if (n > e1 - o1) n = e1 - o1;
					r1 = write_range(1, o1, n, t1, &done);
					o1 += done; d1 += done;
				}
			}
			sv = observe;
			observe = 0;
			logop("write", 0, a, b, tag, 0, r0, d0 == cuts[0][b] - cuts[0][a]);
			printf(",\"pair\":1");
			print_files(-1);
			observe = sv;
			logop("write", 1, a1, b1, t1, 0, r1, d1 == cuts[1][b1] - cuts[1][a1]);
			printf(",\"pair\":2");
			print_files(-1);
		} else if (!strcmp(cmd, "read")) {
			if (sscanf(line, "%*s %d", &f) != 1) die("read args", 0);
			logop("read", f, 0, 0, 0, 0, 0, 1);
			print_files(observe ? -1 : f);
		} else if (!strcmp(cmd, "setsize")) {
			if (sscanf(line, "%*s %d %d", &f, &a) != 2) die("setsize args", 0);
			need_cut(f, a);
			e = ext2fs_file_set_size2(fh[f], cuts[f][a]);
			logop("setsize", f, a, 0, 0, 0, e, 1);
			print_files(-1);
		} else if (!strcmp(cmd, "punch")) {
			errcode_t ce;
			if (sscanf(line, "%*s %d %d %d", &f, &a, &b) != 3) die("punch args", 0);
			need_aligned(f, a); need_aligned(f, b);
			ce = close_handle(f);
			e = ext2fs_punch(fs, ino[f], NULL, NULL, cuts[f][a] / fs->blocksize, cuts[f][b] / fs->blocksize - 1);
			open_handle(f, 1);
			logop("punch", f, a, b, 0, 0, e ? e : ce, 1);
			print_files(-1);
		} else if (!strcmp(cmd, "falloc")) {
			static const int fl[5] = {
				EXT2_FALLOCATE_FORCE_INIT | EXT2_FALLOCATE_ZERO_BLOCKS | EXT2_FALLOCATE_INIT_BEYOND_EOF,
				EXT2_FALLOCATE_FORCE_UNINIT,
				0,
				EXT2_FALLOCATE_ZERO_BLOCKS | EXT2_FALLOCATE_INIT_BEYOND_EOF,
				EXT2_FALLOCATE_ZERO_BLOCKS };
			errcode_t ce;
			__u64 sz = 0;
			if (sscanf(line, "%*s %d %d %d %d", &f, &a, &b, &mode) != 4 || mode < 0 || mode > 4) die("falloc args", 0);
			need_aligned(f, a); need_aligned(f, b);
			ce = close_handle(f);
			path_facts(f, cuts[f][a] / fs->blocksize, (cuts[f][b] - cuts[f][a]) / fs->blocksize);
			e = ext2fs_fallocate(fs, fl[mode], ino[f], NULL, ~0ULL, cuts[f][a] / fs->blocksize,
					     (cuts[f][b] - cuts[f][a]) / fs->blocksize);
			open_handle(f, 1);
			/* INIT_BEYOND_EOF is the caller's promise to extend i_size over what was allocated (fuse2fs without
			   KEEP_SIZE, mkjournal): initialized blocks must not stay behind EOF */
			if ((!e || e == EXT2_ET_BLOCK_ALLOC_FAIL) && !ce && (fl[mode] & EXT2_FALLOCATE_INIT_BEYOND_EOF) &&
			    !ext2fs_file_get_lsize(fh[f], &sz) && sz < (__u64) cuts[f][b]) {
				/* fuse2fs extends i_size even when the allocation ran out of space half way */
				errcode_t e2 = ext2fs_file_set_size2(fh[f], cuts[f][b]);
				if (!e)
					e = e2;
			}
			logop("falloc", f, a, b, 0, mode, e ? e : ce, 1);
			printf(",\"path\":%s,\"nd\":%d", pathbuf, path_nd);
			print_files(-1);
		} else if (!strcmp(cmd, "flush")) {
			if (sscanf(line, "%*s %d", &f) != 1) die("flush args", 0);
			e = ext2fs_file_flush(fh[f]);
			logop("flush", f, 0, 0, 0, 0, e, 1);
			print_files(-1);
		} else if (!strcmp(cmd, "reopen")) {
			if (sscanf(line, "%*s %d", &f) != 1) die("reopen args", 0);
			e = close_handle(f);
			open_handle(f, 1);
			logop("reopen", f, 0, 0, 0, 0, e, 1);
			print_files(-1);
		} else if (!strcmp(cmd, "remount")) {
			errcode_t e1 = close_handle(0), e2 = close_handle(1);
			e = ext2fs_close(fs);
			fs = NULL;
			if (e) die("ext2fs_close (remount)", e);
			open_fs(1);
			open_handle(0, 1); open_handle(1, 1);
			logop("remount", 0, 0, 0, 0, 0, e1 ? e1 : e2, 1);
			print_files(-1);
		} else if (!strcmp(cmd, "mkballast")) {
			struct ext2_inode inode;
			ext2_ino_t n;
			e = ext2fs_new_inode(fs, EXT2_ROOT_INO, 0100644, 0, &n);
			if (e) die("mkballast new_inode", e);
			e = ext2fs_link(fs, EXT2_ROOT_INO, "ballast", n, EXT2_FT_REG_FILE);
			if (e == EXT2_ET_DIR_NO_SPACE) {
				e = ext2fs_expand_dir(fs, EXT2_ROOT_INO);
				if (e) die("mkballast expand_dir", e);
				e = ext2fs_link(fs, EXT2_ROOT_INO, "ballast", n, EXT2_FT_REG_FILE);
			}
			if (e) die("mkballast link", e);
			ext2fs_inode_alloc_stats2(fs, n, +1, 0);
			memset(&inode, 0, sizeof(inode));
			inode.i_mode = LINUX_S_IFREG | 0644;
			inode.i_atime = inode.i_ctime = inode.i_mtime = fs->now ? fs->now : 1600000000;
			inode.i_links_count = 1;		/* no EXT4_EXTENTS_FL: block mapped on every filesystem */
			e = ext2fs_write_new_inode(fs, n, &inode);
			if (e) die("mkballast write_new_inode", e);
			ino[2] = n;
		} else if (!strcmp(cmd, "setfree")) {
			/* absorb free space with the ballast until exactly r units are free: logical blocks >= 12 in the coarse phase
			   (a block may drag up to two indirect blocks along), the 12 direct slots for the last steps of exactly one block */
			ext2_file_t h;
			long long r, fr;
			static blk64_t coarse = 12, fine = 0;
			unsigned int w;
			if (sscanf(line, "%*s %lld", &r) != 1 || !ino[2] || EXT2FS_CLUSTER_RATIO(fs) != 1) die("setfree args", 0);
			e = ext2fs_file_open2(fs, ino[2], NULL, EXT2_FILE_WRITE, &h);
			if (e) die("setfree open", e);
			memset(iobuf, 0x5a, IOBUF);
			while ((fr = (long long) ext2fs_free_blocks_count(fs->super)) - r > 8) {
				unsigned int nblk = (fr - r > 80) ? 32 : 1;
				e = ext2fs_file_llseek(h, (__u64) coarse * fs->blocksize, EXT2_SEEK_SET, NULL);
				if (e) die("setfree llseek", e);
				e = ext2fs_file_write(h, iobuf, nblk * fs->blocksize, &w);
				if (e) die("setfree coarse write", e);
				coarse += nblk;
			}
			while ((fr = (long long) ext2fs_free_blocks_count(fs->super)) > r) {
				if (fine >= 12) die("setfree: out of direct slots", 0);
				e = ext2fs_file_llseek(h, (__u64) fine * fs->blocksize, EXT2_SEEK_SET, NULL);
				if (e) die("setfree llseek", e);
				e = ext2fs_file_write(h, iobuf, fs->blocksize, &w);
				if (e) die("setfree fine write", e);
				fine++;
			}
			e = ext2fs_file_close(h);
			if (e) die("setfree close", e);
			if ((long long) ext2fs_free_blocks_count(fs->super) != r)
				die("setfree: cannot reach the requested number of free blocks", 0);
			logop("setfree", 2, (int) r, 0, 0, 0, 0, 1);
			print_files(-1);
		} else if (!strcmp(cmd, "fill")) {
			ext2_ino_t n;
			ext2_file_t h;
			struct ext2_inode inode;
			long long left;
			unsigned int w;
			if (sscanf(line, "%*s %d", &a) != 1) die("fill args", 0);
			e = ext2fs_new_inode(fs, EXT2_ROOT_INO, 0100644, 0, &n);
			if (e) die("fill new_inode", e);
			e = ext2fs_link(fs, EXT2_ROOT_INO, "filler", n, EXT2_FT_REG_FILE);
			if (e) die("fill link", e);
			ext2fs_inode_alloc_stats2(fs, n, +1, 0);
			memset(&inode, 0, sizeof(inode));
			inode.i_mode = LINUX_S_IFREG | 0644;
			inode.i_links_count = 1;
			if (ext2fs_has_feature_extents(fs->super)) {
				ext2_extent_handle_t xh;
				e = ext2fs_extent_open2(fs, n, &inode, &xh);
				if (e) die("fill extent_open2", e);
				ext2fs_extent_free(xh);
			}
			e = ext2fs_write_new_inode(fs, n, &inode);
			if (e) die("fill write_new_inode", e);
			e = ext2fs_file_open2(fs, n, NULL, EXT2_FILE_WRITE, &h);
			if (e) die("fill open", e);
			memset(iobuf, 0x5a, IOBUF);
			while (1) {
				left = (long long) ext2fs_free_blocks_count(fs->super) - a;
				/* leave room for the extent tree / indirect blocks of the filler itself */
				if (left <= 0)
					break;
				e = ext2fs_file_write(h, iobuf, fs->blocksize * (left > 64 ? 32 : 1), &w);
				if (e)
					break;
			}
			ext2fs_file_close(h);
			printf("{\"e\":\"fill\",\"free\":%llu}\n", (unsigned long long) ext2fs_free_blocks_count(fs->super));
		} else if (!strcmp(cmd, "reserve")) {
			/* keep the allocator away from the physical numbers an xset script is going to use */
			unsigned long long st, cnt;
			if (sscanf(line, "%*s %llu %llu", &st, &cnt) != 2) die("reserve args", 0);
			ext2fs_block_alloc_stats_range(fs, st, cnt, +1);
		} else if (!strcmp(cmd, "xset")) {
			ext2_extent_handle_t h;
			unsigned long long l, p;
			int u;
			blk64_t oldp = 0;
			if (sscanf(line, "%*s %d %llu %llu %d", &f, &l, &p, &u) != 4) die("xset args", 0);
			/* behave like a caller: the block being mapped is allocated, a block losing its mapping is released */
			ext2fs_bmap2(fs, ino[f], NULL, NULL, 0, l, NULL, &oldp);
			if (p && !ext2fs_test_block_bitmap2(fs->block_map, p))
				ext2fs_block_alloc_stats2(fs, p, +1);
			e = ext2fs_extent_open2(fs, ino[f], NULL, &h);
			if (e) die("xset extent_open2", e);
			e = ext2fs_extent_set_bmap(h, l, p, u ? EXT2_EXTENT_SET_BMAP_UNINIT : 0);
			ext2fs_extent_free(h);
			if (!e && oldp && oldp != p)
				ext2fs_block_alloc_stats2(fs, oldp, -1);
			if (!e) {
				struct ext2_inode in;
				if (!ext2fs_read_inode(fs, ino[f], &in)) {
					if (p && !oldp)
						ext2fs_iblk_add_blocks(fs, &in, 1);
					else if (!p && oldp)
						ext2fs_iblk_sub_blocks(fs, &in, 1);
					/* a caller that maps a block also keeps i_size behind it */
					if (p && EXT2_I_SIZE(&in) < (l + 1) * fs->blocksize)
						ext2fs_inode_size_set(fs, &in, (l + 1) * fs->blocksize);
					ext2fs_write_inode(fs, ino[f], &in);
				}
			}
			printf("{\"e\":\"xset\",\"l\":%llu,\"p\":%llu,\"u\":%d,\"ret\":%d,\"err\":\"%ld\"", l, p, u, errclass(e), (long) e);
			print_extents(f);
			printf("}\n");
		} else if (!strcmp(cmd, "xpunch") || !strcmp(cmd, "bpunch")) {
			unsigned long long s, en;
			long long en_in;
			struct blist before, after;
			ext2fs_block_bitmap snap;
			int isx = cmd[0] == 'x', depth0 = 0;
			if (sscanf(line, "%*s %d %llu %lld", &f, &s, &en_in) != 3) die("xpunch args", 0);
			en = en_in < 0 ? ~0ULL : (unsigned long long) en_in;
			close_handle(f);
			if (isx) {
				ext2_extent_handle_t xh;
				struct ext2_extent_info info;
				if (!ext2fs_extent_open2(fs, ino[f], NULL, &xh)) {
					if (!ext2fs_extent_get_info(xh, &info))
						depth0 = info.max_depth;
					ext2fs_extent_free(xh);
				}
			}
			collect(f, &before);
			e = ext2fs_copy_bitmap(fs->block_map, &snap);
			if (e) die("copy_bitmap", e);
			e = ext2fs_punch(fs, ino[f], NULL, NULL, s, en);
			collect(f, &after);
			printf("{\"e\":\"%s\",\"s\":%llu,\"en\":%lld,\"depth0\":%d,\"ret\":%d,\"err\":\"%ld\"", cmd, s, en_in < 0 ? -1LL : en_in,
			       depth0, errclass(e), (long) e);
			print_lranges("before", &before);
			print_lranges("after", &after);
			freed_check(f, &before, &after, snap);
			if (isx)
				print_extents(f);
			printf("}\n");
			ext2fs_free_block_bitmap(snap);
			free_blist(&before); free_blist(&after);
			open_handle(f, 1);
		} else if (!strcmp(cmd, "bwrite")) {
			unsigned long long l, n;
			long long done;
			if (sscanf(line, "%*s %d %llu %llu %d", &f, &l, &n, &tag) != 4) die("bwrite args", 0);
			e = write_range(f, l * fs->blocksize, n * fs->blocksize, tag, &done);
			if (e) die("bwrite", e);
			e = ext2fs_file_flush(fh[f]);
			if (e) die("bwrite flush", e);
		} else if (!strcmp(cmd, "xdump")) {
			if (sscanf(line, "%*s %d", &f) != 1) die("xdump args", 0);
			ext2fs_file_flush(fh[f]);
			printf("{\"e\":\"xdump\",\"ret\":0");
			print_extents(f);
			printf("}\n");
		} else if (!strcmp(cmd, "end")) {
			do_final();
			fflush(stdout);
			return 0;
		} else
			die("unknown command", 0);
		fflush(stdout);
	}
	if (fs) {
		close_handle(0); close_handle(1);
		e = ext2fs_close(fs);
		if (e) die("ext2fs_close", e);
	}
	return 0;
}
