/*
 * iodrv -- drives unix_io_manager (optionally wrapped by undo_io_manager) through operation histories on a
 * scratch backing file and prints one ndjson line per call that reaches the unix I/O manager.
 *
 * Everything is expressed in granules of GR = 512 bytes.  Every write payload consists of one distinct 32-bit
 * tag repeated, so the content of a granule is a tag (0 = zeroes, -1 = mixed bytes).  The backing file starts
 * with tag 1 everywhere.
 *
 * Input (stdin), one operation per line:
 *   reset <ngranules> wt=<0|1> bounce=<0|1> handler=<0|1> undo=<0|1> dio=<0|1> off=<granules> nocache=<0|1>
 *                                  new backing file + open; off = set_option("offset"), nocache = cache=off at once
 *   open | close                   (re)open with the same configuration / io_channel_close
 *   read <blk> <count> | write <blk> <count>      count > 0 blocks, count < 0: -count granules (byte count form)
 *   wbyte <off> <n>                io_channel_write_byte, granules
 *   zero <blk> <n> | discard <blk> <n> | readahead <blk> <n>
 *   flush | blksize <bytes> | cache <on|off>
 *
 * Output line (all fields always present, uniformly typed):
 *   e        "reset"|"open"|"read"|"write"|"wbyte"|"zero"|"discard"|"flush"|"close"|"blksize"|"cacheoff"|"cacheon"|
 *            "readahead".  With undo=1 the history is applied to the undo channel: every call is bracketed by
 *              {"e":"o_begin","op","a","b","n0","tags"}  and  {"e":"o_end","op","ret","rc","data","bs","n1"}
 *            (bs = block size of the undo channel in granules, n0 / n1 = number of the last iotrace.so event before / after the call), the
 *            nested calls undo_io makes on the unix channel are printed in between as ordinary lines, and the calls it
 *            makes on the undo file's channel as {"e":"u_blksize"|"u_read"|"u_write"|"u_flush"|"u_close","a","b","ret","rc"}
 *   a, b     arguments (granules for wbyte; blocks/count otherwise; bytes/GR for blksize)
 *   ret      0 success, 1 error;  rc = low bits of the error code (information only)
 *   data     tags returned by a read (one per granule), tags = payload of a write (one per granule)
 *   slots    [[block, in_use, dirty, write_err], ...]  (hook H1)   lru = in-use slot numbers (1-based), oldest first
 *   nocache, align, bs (granules)   channel state from H1
 *   hb       blocks passed to channel->write_error during the call
 *   ev       device events of the call seen by iotrace.so: [kind, granule offset, granules, failed]
 *            kind 1 = write/pwrite, 2 = fsync, 3 = fallocate, 4 = ftruncate; offsets relative to the channel offset
 *   file     tags of the backing file read directly after the call
 *   cfg      [wt, bounce, handler, undo, dio, nocache]  (reset/open lines)
 */
#define _GNU_SOURCE
#include <stdio.h>
#include <stdlib.h>
#include <string.h>
#include <errno.h>
#include <fcntl.h>
#include <unistd.h>
#include <stdint.h>
#include "ext2fs/ext2_fs.h"
#include "ext2fs/ext2fs.h"

extern int ext2fs_verif_unix_io_dump(io_channel channel, char *buf, size_t len);

#define GR 512
#define MAXG 256
#define NSLOT 8

static char path[512], undopath[520];
static int ng, c_wt, c_bounce, c_handler, c_undo, c_dio, c_off, c_nocache;
static io_channel ch, inner;		/* ch: where the history is applied; inner: the unix channel */
static int rfd = -1;			/* our own descriptor on the backing file */
static int tfd = -1;			/* iotrace output, read side */
static unsigned next_tag;
static long long hb[64];
static int nhb;
static char *buf;
static char tbuf[1 << 16];
static int tlen;
static long last_n;			/* number (iotrace.so's write-class counter) of the last device event seen */

static void die(const char *m, long c)
{
	fprintf(stderr, "iodrv: %s (%ld)\n", m, c);
	exit(3);
}

static void fill(char *p, int granules, unsigned tag)
{
	uint32_t *w = (uint32_t *) p;
	int i;
	for (i = 0; i < granules * GR / 4; i++)
		w[i] = tag;
}

static int tag_of(const char *p)
{
	const uint32_t *w = (const uint32_t *) p;
	int i;
	for (i = 1; i < GR / 4; i++)
		if (w[i] != w[0])
			return -1;
	return (w[0] < 0x40000000u) ? (int) w[0] : -1;
}

static void print_tags(const char *key, const char *p, int granules)
{
	int i;
	printf(",\"%s\":[", key);
	for (i = 0; i < granules; i++)
		printf("%s%d", i ? "," : "", tag_of(p + (size_t) i * GR));
	printf("]");
}

static errcode_t handler(io_channel channel, unsigned long block, int count, const void *data,
			 size_t size, int actual, errcode_t error)
{
	(void) channel; (void) count; (void) data; (void) size; (void) actual;
	if (nhb < 64)
		hb[nhb++] = block;
	return error;
}

/* device events appended by iotrace.so since the previous call */
static void print_events_q(int quiet)
{
	int n, first = 1;
	char *line, *nl;
	if (!quiet)
		printf(",\"ev\":[");
	if (tfd >= 0) {
		while ((n = read(tfd, tbuf + tlen, sizeof(tbuf) - 1 - tlen)) > 0)
			tlen += n;
		tbuf[tlen] = 0;
		line = tbuf;
		while ((nl = strchr(line, '\n'))) {
			int kind = 0, tgt = -1, fail = 0;
			long long hi = 0, lo = 0, len = 0, off;
			char *p;
			*nl = 0;
			if (strstr(line, "\"e\":\"write\"") || strstr(line, "\"e\":\"pwrite\"") || strstr(line, "\"e\":\"pwritev\""))
				kind = 1;
			else if (strstr(line, "\"e\":\"fsync\""))
				kind = 2;
			else if (strstr(line, "\"e\":\"fallocate\""))
				kind = 3;
			else if (strstr(line, "\"e\":\"ftruncate\""))
				kind = 4;
			if ((p = strstr(line, "\"tgt\":")))
				tgt = atoi(p + 6);
			if ((p = strstr(line, "\"n\":")) && atol(p + 4) > last_n)
				last_n = atol(p + 4);
			if (kind && tgt == 0) {
				if ((p = strstr(line, "\"off_hi\":"))) hi = atoll(p + 9);
				if ((p = strstr(line, "\"off_lo\":"))) lo = atoll(p + 9);
				if ((p = strstr(line, "\"len\":"))) len = atoll(p + 6);
				if ((p = strstr(line, "\"fail\":"))) fail = atoi(p + 7);
				off = (hi << 31) + lo - (long long) c_off * GR;
				if (kind == 2 || kind == 4)
					off = len = 0;
				printf("%s[%d,%lld,%lld,%d]", first ? "" : ",", kind,
				       (off % GR) ? -1 : off / GR, (len % GR) ? -1 : len / GR, fail);
				first = 0;
			}
			line = nl + 1;
		}
		tlen = strlen(line);
		memmove(tbuf, line, tlen + 1);
	}
	if (!quiet)
		printf("]");
}
static void print_events(void) { print_events_q(0); }

static void print_state(void)
{
	char sb[2048];
	int i, j, n = 0, order[NSLOT];
	long long blk[NSLOT];
	int use[NSLOT], dirty[NSLOT], werr[NSLOT], at[NSLOT];
	int nocache = 0, align = 0, bsz = 0;

	memset(use, 0, sizeof(use));
	if (inner) {
		char *p;
		if (ext2fs_verif_unix_io_dump(inner, sb, sizeof(sb)) < 0)
			die("H1 dump failed", 0);
		p = strchr(sb, '[') + 1;
		for (i = 0; i < NSLOT; i++) {
			if (sscanf(p, "[%lld,%d,%d,%d,%d]", &blk[i], &use[i], &dirty[i], &werr[i], &at[i]) != 5)
				die("H1 parse", i);
			p = strchr(p, ']') + 2;
		}
		if ((p = strstr(sb, "\"nocache\":"))) nocache = atoi(p + 10);
		if ((p = strstr(sb, "\"align\":"))) align = atoi(p + 8);
		if ((p = strstr(sb, "\"bsz\":"))) bsz = atoi(p + 6);
	}
	printf(",\"slots\":[");
	for (i = 0; i < NSLOT; i++)
		printf("%s[%lld,%d,%d,%d]", i ? "," : "", use[i] ? blk[i] : 0, use[i], use[i] ? dirty[i] : 0, use[i] ? werr[i] : 0);
	printf("],\"lru\":[");
	for (i = 0; i < NSLOT; i++)
		if (use[i]) {
			for (j = n; j > 0 && at[order[j - 1]] > at[i]; j--)
				order[j] = order[j - 1];
			order[j] = i;
			n++;
		}
	for (i = 0; i < n; i++)
		printf("%s%d", i ? "," : "", order[i] + 1);
	printf("],\"nocache\":%d,\"align\":%d,\"bs\":%d,\"hb\":[", nocache, align, bsz / GR);
	for (i = 0; i < nhb; i++)
		printf("%s%lld", i ? "," : "", hb[i]);
	printf("]");
	nhb = 0;
	print_events();
	if (rfd >= 0) {
		static char fb[MAXG * GR];
		ssize_t r = pread(rfd, fb, (size_t) ng * GR, (off_t) c_off * GR);
		if (r != (ssize_t) ng * GR)
			die("backing file read", (long) r);
		print_tags("file", fb, ng);
	} else
		printf(",\"file\":[]");
}

/* one line for a call on the unix channel */
static void line(const char *e, long long a, long long b, errcode_t rc, const char *rd, int nrd, const char *wr, int nwr)
{
	printf("{\"e\":\"%s\",\"a\":%lld,\"b\":%lld,\"ret\":%d,\"rc\":%ld", e, a, b, rc ? 1 : 0, (long) (rc & 0xffffff));
	if (rd && !rc)
		print_tags("data", rd, nrd);
	else
		printf(",\"data\":[]");
	if (wr)
		print_tags("tags", wr, nwr);
	else
		printf(",\"tags\":[]");
	print_state();
	printf(",\"cfg\":[%d,%d,%d,%d,%d,%d]}\n", c_wt, c_bounce, c_handler, c_undo, c_dio, c_nocache);
}

/* a call made on the undo channel: what the caller asks for, and what it sees */
static void obegin(const char *op, long long a, long long b, const char *wr, int nwr)
{
	print_events_q(1);
	printf("{\"e\":\"o_begin\",\"op\":\"%s\",\"a\":%lld,\"b\":%lld,\"n0\":%ld", op, a, b, last_n);
	if (wr)
		print_tags("tags", wr, nwr);
	else
		printf(",\"tags\":[]");
	printf("}\n");
}
static void oend(const char *op, errcode_t rc, const char *rd, int nrd)
{
	print_events_q(1);		/* events of the undo file since the last nested call */
	printf("{\"e\":\"o_end\",\"op\":\"%s\",\"ret\":%d,\"rc\":%ld", op, rc ? 1 : 0, (long) (rc & 0xffffff));
	if (rd && !rc)
		print_tags("data", rd, nrd);
	else
		printf(",\"data\":[]");
	printf(",\"bs\":%d,\"n1\":%ld}\n", ch ? (int) ch->block_size / GR : 0, last_n);
}

static int span(io_channel c, int count)
{
	return count > 0 ? count * (int) (c->block_size / GR) : (-count) / GR;
}

/* ---- the calls on the unix channel, each followed by its line ---- */
static errcode_t u_read(unsigned long long blk, int count, void *b)
{
	errcode_t rc = io_channel_read_blk64(inner, blk, count, b);
	line("read", blk, count > 0 ? count : count / GR, rc, b, span(inner, count), NULL, 0);
	return rc;
}
static errcode_t u_write(unsigned long long blk, int count, const void *b)
{
	int n = span(inner, count);
	errcode_t rc = io_channel_write_blk64(inner, blk, count, b);
	line("write", blk, count > 0 ? count : count / GR, rc, NULL, 0, b, n);
	return rc;
}
static errcode_t u_wbyte(unsigned long off, int size, const void *b)
{
	errcode_t rc = io_channel_write_byte(inner, off, size, b);
	line("wbyte", off / GR, size / GR, rc, NULL, 0, b, size / GR);
	return rc;
}
static errcode_t u_zero(unsigned long long blk, unsigned long long n)
{
	errcode_t rc = io_channel_zeroout(inner, blk, n);
	line("zero", blk, n, rc, NULL, 0, NULL, 0);
	return rc;
}
static errcode_t u_discard(unsigned long long blk, unsigned long long n)
{
	errcode_t rc = io_channel_discard(inner, blk, n);
	line("discard", blk, n, rc, NULL, 0, NULL, 0);
	return rc;
}
static errcode_t u_readahead(unsigned long long blk, unsigned long long n)
{
	errcode_t rc = io_channel_cache_readahead(inner, blk, n);
	line("readahead", blk, n, rc, NULL, 0, NULL, 0);
	return rc;
}
static errcode_t u_flush(void)
{
	errcode_t rc = io_channel_flush(inner);
	line("flush", 0, 0, rc, NULL, 0, NULL, 0);
	return rc;
}
static errcode_t u_blksize(int bytes)
{
	errcode_t rc = io_channel_set_blksize(inner, bytes);
	line("blksize", bytes / GR, 0, rc, NULL, 0, NULL, 0);
	return rc;
}
static errcode_t u_option(const char *opt, const char *arg)
{
	errcode_t rc = inner->manager->set_option(inner, opt, arg);
	if (!strcmp(opt, "cache"))
		line(!strcmp(arg, "off") ? "cacheoff" : "cacheon", 0, 0, rc, NULL, 0, NULL, 0);
	return rc;
}
static errcode_t u_close(void)
{
	io_channel c = inner;
	errcode_t rc;
	inner = NULL;
	rc = io_channel_close(c);
	line("close", 0, 0, rc, NULL, 0, NULL, 0);
	return rc;
}

/* ---- pass-through manager placed between undo_io and unix_io so that every nested call is seen ---- */
static struct struct_io_manager proxy_mgr;
static io_channel proxy_chan;

static void proxy_sync(io_channel c)
{
	c->block_size = inner->block_size;
	c->flags = inner->flags;
	c->align = inner->align;
}
/* ---- second pass-through manager, around the undo file's unix channel: only the outcome of each call is logged ---- */
static struct struct_io_manager uproxy_mgr;
static io_channel ufile;

static void uline(const char *e, long long a, long long b, errcode_t rc)
{
	printf("{\"e\":\"u_%s\",\"a\":%lld,\"b\":%lld,\"ret\":%d,\"rc\":%ld}\n", e, a, b, rc ? 1 : 0, (long) (rc & 0xffffff));
}
static void uproxy_sync(io_channel c)
{
	c->block_size = ufile->block_size;
	c->flags = ufile->flags;
	c->align = ufile->align;
}
static errcode_t up_open(const char *name, int flags, io_channel *channel)
{
	io_channel io;
	errcode_t rc = unix_io_manager->open(name, flags, &ufile);
	if (rc)
		return rc;
	io = calloc(1, sizeof(*io));
	io->magic = EXT2_ET_MAGIC_IO_CHANNEL;
	io->manager = &uproxy_mgr;
	io->name = strdup(name);
	io->refcount = 1;
	uproxy_sync(io);
	*channel = io;
	return 0;
}
static errcode_t up_close(io_channel c)
{
	errcode_t rc = io_channel_close(ufile);
	ufile = NULL;
	uline("close", 0, 0, rc);
	free(c->name);
	free(c);
	return rc;
}
static errcode_t up_set_blksize(io_channel c, int bs) { errcode_t rc = io_channel_set_blksize(ufile, bs); uproxy_sync(c); uline("blksize", bs, 0, rc); return rc; }
static errcode_t up_read64(io_channel c, unsigned long long b, int n, void *d) { errcode_t rc = io_channel_read_blk64(ufile, b, n, d); (void) c; uline("read", b, n, rc); return rc; }
static errcode_t up_write64(io_channel c, unsigned long long b, int n, const void *d) { errcode_t rc = io_channel_write_blk64(ufile, b, n, d); (void) c; uline("write", b, n, rc); return rc; }
static errcode_t up_read(io_channel c, unsigned long b, int n, void *d) { return up_read64(c, b, n, d); }
static errcode_t up_write(io_channel c, unsigned long b, int n, const void *d) { return up_write64(c, b, n, d); }
static errcode_t up_flush(io_channel c) { errcode_t rc = io_channel_flush(ufile); (void) c; uline("flush", 0, 0, rc); return rc; }
static errcode_t up_option(io_channel c, const char *o, const char *a) { errcode_t rc = ufile->manager->set_option(ufile, o, a); uproxy_sync(c); return rc; }
static errcode_t up_stats(io_channel c, io_stats *st) { (void) c; return ufile->manager->get_stats(ufile, st); }

static errcode_t p_open(const char *name, int flags, io_channel *channel)
{
	io_channel io;
	errcode_t rc;
	if (strcmp(name, path))
		return up_open(name, flags, channel);	/* the undo file */
	rc = unix_io_manager->open(name, flags, &inner);
	if (rc)
		return rc;
	io = calloc(1, sizeof(*io));
	io->magic = EXT2_ET_MAGIC_IO_CHANNEL;
	io->manager = &proxy_mgr;
	io->name = strdup(name);
	io->refcount = 1;
	proxy_sync(io);
	proxy_chan = io;
	*channel = io;
	return 0;
}
static errcode_t p_close(io_channel c)
{
	errcode_t rc = u_close();
	free(c->name);
	free(c);
	proxy_chan = NULL;
	return rc;
}
static errcode_t p_set_blksize(io_channel c, int bs) { errcode_t rc = u_blksize(bs); proxy_sync(c); return rc; }
static errcode_t p_read64(io_channel c, unsigned long long b, int n, void *d) { errcode_t rc = u_read(b, n, d); proxy_sync(c); return rc; }
static errcode_t p_write64(io_channel c, unsigned long long b, int n, const void *d) { errcode_t rc = u_write(b, n, d); proxy_sync(c); return rc; }
static errcode_t p_read(io_channel c, unsigned long b, int n, void *d) { return p_read64(c, b, n, d); }
static errcode_t p_write(io_channel c, unsigned long b, int n, const void *d) { return p_write64(c, b, n, d); }
static errcode_t p_flush(io_channel c) { (void) c; return u_flush(); }
static errcode_t p_wbyte(io_channel c, unsigned long off, int n, const void *d) { errcode_t rc = u_wbyte(off, n, d); proxy_sync(c); return rc; }
static errcode_t p_option(io_channel c, const char *o, const char *a) { errcode_t rc = u_option(o, a); proxy_sync(c); return rc; }
static errcode_t p_stats(io_channel c, io_stats *s) { (void) c; return inner->manager->get_stats(inner, s); }
static errcode_t p_discard(io_channel c, unsigned long long b, unsigned long long n) { errcode_t rc = u_discard(b, n); proxy_sync(c); return rc; }
static errcode_t p_zeroout(io_channel c, unsigned long long b, unsigned long long n) { errcode_t rc = u_zero(b, n); proxy_sync(c); return rc; }
static errcode_t p_readahead(io_channel c, unsigned long long b, unsigned long long n) { (void) c; return u_readahead(b, n); }

static void proxy_init(void)
{
	memset(&proxy_mgr, 0, sizeof(proxy_mgr));
	proxy_mgr.magic = EXT2_ET_MAGIC_IO_MANAGER;
	proxy_mgr.name = "verif pass-through";
	proxy_mgr.open = p_open; proxy_mgr.close = p_close; proxy_mgr.set_blksize = p_set_blksize;
	proxy_mgr.read_blk = p_read; proxy_mgr.write_blk = p_write; proxy_mgr.flush = p_flush;
	proxy_mgr.write_byte = p_wbyte; proxy_mgr.set_option = p_option; proxy_mgr.get_stats = p_stats;
	proxy_mgr.read_blk64 = p_read64; proxy_mgr.write_blk64 = p_write64; proxy_mgr.discard = p_discard;
	proxy_mgr.cache_readahead = p_readahead; proxy_mgr.zeroout = p_zeroout;
	memset(&uproxy_mgr, 0, sizeof(uproxy_mgr));
	uproxy_mgr.magic = EXT2_ET_MAGIC_IO_MANAGER;
	uproxy_mgr.name = "verif pass-through (undo file)";
	uproxy_mgr.open = up_open; uproxy_mgr.close = up_close; uproxy_mgr.set_blksize = up_set_blksize;
	uproxy_mgr.read_blk = up_read; uproxy_mgr.write_blk = up_write; uproxy_mgr.flush = up_flush;
	uproxy_mgr.set_option = up_option; uproxy_mgr.get_stats = up_stats;
	uproxy_mgr.read_blk64 = up_read64; uproxy_mgr.write_blk64 = up_write64;
}

/* ---- open with the behaviour's configuration ---- */
static void do_open(const char *ev)
{
	errcode_t rc;
	int flags = IO_FLAG_RW | (c_dio ? IO_FLAG_DIRECT_IO : 0);
	char opt[64];

	if (c_bounce)
		setenv("UNIX_IO_FORCE_BOUNCE", "1", 1);
	else
		unsetenv("UNIX_IO_FORCE_BOUNCE");
	if (c_undo) {
		unlink(undopath);		/* every open starts a new undo file (re-opening one is C12's subject) */
		set_undo_io_backing_manager(&proxy_mgr);
		set_undo_io_backup_file(undopath);
		rc = undo_io_manager->open(path, flags, &ch);
	} else {
		rc = unix_io_manager->open(path, flags, &inner);
		ch = inner;
	}
	if (rc)
		die("open failed", (long) rc);
	if (c_wt)
		inner->flags |= CHANNEL_FLAGS_WRITETHROUGH;
	if (c_handler)
		inner->write_error = handler;
	if (c_off) {
		snprintf(opt, sizeof(opt), "offset=%d", c_off * GR);
		if (io_channel_set_options(ch, opt))
			die("set offset", 0);
	}
	if (c_undo) {
		proxy_sync(proxy_chan);
		if (io_channel_set_options(ch, "tdb_data_size=1024"))
			die("tdb_data_size", 0);
	}
	if (c_nocache && inner->manager->set_option(inner, "cache", "off"))
		die("cache=off", 0);
	line(ev, ng, 0, 0, NULL, 0, NULL, 0);
}

static void do_reset(void)
{
	int fd, i;
	char tmp[600];
	if (ch)
		die("reset while the channel is open", 0);
	if (rfd >= 0)
		close(rfd);
	/* built under a name iotrace.so does not track, so that our own writes are neither counted nor failed */
	snprintf(tmp, sizeof(tmp), "%s.new", path);
	fd = open(tmp, O_RDWR | O_CREAT | O_TRUNC, 0600);
	if (fd < 0)
		die("create backing file", errno);
	for (i = 0; i < c_off; i++) {
		fill(buf, 1, 0x3fffffff);
		if (write(fd, buf, GR) != GR) die("init write", errno);
	}
	fill(buf, 1, 1);
	for (i = 0; i < ng; i++)
		if (write(fd, buf, GR) != GR) die("init write", errno);
	close(fd);
	if (rename(tmp, path))
		die("rename", errno);
	unlink(undopath);
	rfd = open(path, O_RDONLY);
	next_tag = 2;
	if (tfd >= 0) {		/* forget events of earlier behaviours */
		lseek(tfd, 0, SEEK_END);
		tlen = 0;
	}
	do_open("reset");
}

int main(int argc, char **argv)
{
	char ln[256], op[32];
	long long a, b;
	const char *t;

	if (argc < 2) {
		fprintf(stderr, "usage: iodrv <backing file path>\n");
		return 2;
	}
	snprintf(path, sizeof(path), "%s", argv[1]);
	snprintf(undopath, sizeof(undopath), "%s.e2undo", argv[1]);
	if (posix_memalign((void **) &buf, 4096, MAXG * GR))
		die("memory", 0);
	if ((t = getenv("VERIF_IOTRACE_OUT")))
		tfd = open(t, O_RDONLY | O_CREAT, 0644);
	proxy_init();
	setvbuf(stdout, NULL, _IOFBF, 1 << 16);
	while (fgets(ln, sizeof(ln), stdin)) {
		a = b = 0;
		if (sscanf(ln, "%31s", op) != 1)
			continue;
		if (!strcmp(op, "reset")) {
			if (sscanf(ln, "reset %d wt=%d bounce=%d handler=%d undo=%d dio=%d off=%d nocache=%d",
				   &ng, &c_wt, &c_bounce, &c_handler, &c_undo, &c_dio, &c_off, &c_nocache) != 8 || ng < 8 || ng > MAXG)
				die("bad reset line", 0);
			do_reset();
			continue;
		}
		if (!strcmp(op, "open")) {
			if (ch) die("open while open", 0);
			do_open("open");
			continue;
		}
		if (!ch)
			die("operation on a closed channel", 0);
		sscanf(ln, "%*s %lld %lld", &a, &b);
		/* requests must stay inside the backing file at the block size the channel really has (a failed
		 * set_blksize leaves the old one); anything else is refused here and logged as "skip".  A failed
		 * set_blksize on the undo channel leaves it with a block size the real channel does not have: the caller
		 * has been told, and must set the block size again before it addresses blocks */
		{
			long long bsg = ch->block_size / GR, g0 = -1, len = 0;
			int blockop = 0;
			if (!strcmp(op, "read") || !strcmp(op, "write")) {
				g0 = a * bsg; len = b > 0 ? b * bsg : -b; blockop = 1;
			} else if (!strcmp(op, "wbyte")) {
				g0 = a; len = b; blockop = 1;
			} else if (!strcmp(op, "zero") || !strcmp(op, "discard") || !strcmp(op, "readahead")) {
				g0 = a * bsg; len = b * bsg; blockop = 1;
			}
			if ((g0 >= 0 && (len <= 0 || g0 + len > ng)) ||
			    (c_undo && blockop && inner && ch->block_size != inner->block_size)) {
				printf("{\"e\":\"skip\"}\n");
				continue;
			}
		}
		if (!strcmp(op, "read")) {
			int cnt = b > 0 ? (int) b : (int) b * GR;
			errcode_t rc;
			fill(buf, span(ch, cnt), 0x3ffffffe);
			if (c_undo) { obegin("read", a, b, NULL, 0); rc = io_channel_read_blk64(ch, a, cnt, buf); oend("read", rc, buf, span(ch, cnt)); }
			else u_read(a, cnt, buf);
		} else if (!strcmp(op, "write")) {
			int cnt = b > 0 ? (int) b : (int) b * GR;
			errcode_t rc;
			fill(buf, span(ch, cnt), next_tag++);
			if (c_undo) { obegin("write", a, b, buf, span(ch, cnt)); rc = io_channel_write_blk64(ch, a, cnt, buf); oend("write", rc, NULL, 0); }
			else u_write(a, cnt, buf);
		} else if (!strcmp(op, "wbyte")) {
			errcode_t rc;
			fill(buf, (int) b, next_tag++);
			if (c_undo) { obegin("wbyte", a, b, buf, (int) b); rc = io_channel_write_byte(ch, a * GR, (int) b * GR, buf); oend("wbyte", rc, NULL, 0); }
			else u_wbyte(a * GR, (int) b * GR, buf);
		} else if (!strcmp(op, "zero")) {
			if (c_undo) { obegin("zero", a, b, NULL, 0); oend("zero", io_channel_zeroout(ch, a, b), NULL, 0); }
			else u_zero(a, b);
		} else if (!strcmp(op, "discard")) {
			if (c_undo) { obegin("discard", a, b, NULL, 0); oend("discard", io_channel_discard(ch, a, b), NULL, 0); }
			else u_discard(a, b);
		} else if (!strcmp(op, "readahead")) {
			if (c_undo) { obegin("readahead", a, b, NULL, 0); oend("readahead", io_channel_cache_readahead(ch, a, b), NULL, 0); }
			else u_readahead(a, b);
		} else if (!strcmp(op, "flush")) {
			if (c_undo) { obegin("flush", 0, 0, NULL, 0); oend("flush", io_channel_flush(ch), NULL, 0); }
			else u_flush();
		} else if (!strcmp(op, "blksize")) {
			if (c_undo) { obegin("blksize", a / GR, 0, NULL, 0); oend("blksize", io_channel_set_blksize(ch, (int) a), NULL, 0); }
			else u_blksize((int) a);
		} else if (!strcmp(op, "cache")) {
			char arg[16] = "";
			const char *nm;
			sscanf(ln, "%*s %15s", arg);
			nm = !strcmp(arg, "off") ? "cacheoff" : "cacheon";
			if (c_undo) { obegin(nm, 0, 0, NULL, 0); oend(nm, ch->manager->set_option(ch, "cache", arg), NULL, 0); }
			else u_option("cache", arg);
		} else if (!strcmp(op, "close")) {
			io_channel c = ch;
			if (c_undo) {
				io_stats st = NULL;
				errcode_t rc;
				if (c->manager->get_stats)
					c->manager->get_stats(c, &st);
				obegin("close", 0, 0, NULL, 0);
				ch = NULL;
				rc = io_channel_close(c);
				oend("close", rc, NULL, 0);
			} else {
				ch = NULL;
				u_close();
			}
		} else
			die("unknown operation", 0);
	}
	fflush(stdout);
	return 0;
}
