/* crc32c (Castagnoli, reflected, no pre/post inversion: the caller passes the seed) for checks/c12.py's own reader of
 * the undo file format; loaded through ctypes.  Nothing of e2fsprogs is used. */
#include <stddef.h>
static unsigned int tab[256];
static int ready;
unsigned int c12_crc32c(unsigned int crc, const unsigned char *p, size_t n)
{
	if (!ready) {
		unsigned int i, j, c;
		for (i = 0; i < 256; i++) {
			c = i;
			for (j = 0; j < 8; j++)
				c = (c & 1) ? (c >> 1) ^ 0x82F63B78u : c >> 1;
			tab[i] = c;
		}
		ready = 1;
	}
	while (n--)
		crc = tab[(crc ^ *p++) & 0xff] ^ (crc >> 8);
	return crc;
}
