/*
 * dirdrv -- namespace operations through the public libext2fs API, with a full observation after every step.
 *
 *   dirdrv <image> runq     as run, without the observation of the whole filesystem on opening
 *   dirdrv <image> run      read operations from stdin (one per line), execute each one, print one ndjson line
 *                           {"op":..., "r":"ok|nospace|exists|notfound|notdir|isdir|notempty|err<code>", "st":{...}}
 *   dirdrv <image> dump     print {"st":{...}} once (read-only open); used after debugfs runs
 *
 * Operations (names contain no blanks; <dir>/<ino> are inode numbers):
 *   mkdir <dir> <name>            ext2fs_mkdir, on EXT2_ET_DIR_NO_SPACE ext2fs_expand_dir + retry   (= debugfs mkdir)
 *   create <dir> <name> <size>    lookup, ext2fs_new_inode, ext2fs_link(+expand), ext2fs_write_new_inode, data via ext2fs_file_write
 *   symlink <dir> <name> <len>    ext2fs_symlink(+expand); target = 'x' * len
 *   mknod <dir> <name> <p|c|b>    ext2fs_new_inode, ext2fs_link(+expand), ext2fs_write_new_inode
 *   link <dir> <name> <ino>       raw ext2fs_link, no expand, no link count change           (= debugfs ln)
 *   hlink <dir> <name> <ino>      ext2fs_link(+expand) and i_links_count++                   (= create_inode.c add_link)
 *   unlink <dir> <name>           raw ext2fs_unlink                                          (= debugfs unlink)
 *   rm <dir> <name>               lookup, refuse directories, i_links_count--, unlink, release at zero  (= debugfs rm)
 *   rmdir <dir> <name>            as debugfs rmdir (victim count := 0, unlink, release, parent-- if > 1)
 *   kill <ino>                    release inode and blocks, names untouched                  (= debugfs kill_file)
 *   setlinks <ino> <n>            i_links_count := n                                          (= debugfs sif links_count)
 *   setea <ino> <len>             ext2fs_xattr_set(user.big, len bytes)                      (= debugfs ea_set)
 *   fsck <flags>                  close the filesystem, run $DIRDRV_E2FSCK -<flags> <image>, reopen; "rc" = exit status
 *   sync                          ext2fs_flush
 *   bulkdir <dir> <prefix> <n>    preparation of the link-count boundary: n subdirectories <prefix>00000.. of <dir>, each made with
 *                                 ext2fs_new_inode + ext2fs_mkdir(fs, dir, ino, NULL) + ext2fs_link(+expand) (ext2fs_mkdir with a name looks
 *                                 the name up linearly: 65000 of them would take minutes); the parent's count is kept by ext2fs_mkdir itself
 *   nl <dir>                      no operation; prints the COUNT observation {"op":"nl","r":"ok","rc":0,"nl":{...}} instead of "st"
 *   nlmkdir / nlrmdir <dir> <name>, nlfsck <flags>    as mkdir / rmdir / fsck, followed by the count observation of <dir> (nlfsck: of the
 *                                 directory of the last nl* operation)
 *   dirdrv <image> nl <dir>       the count observation alone (read-only open); used after debugfs runs
 *
 * Count observation of a directory (filesystems with ~65000 directories, where "st" is too large): stored link count, index flag,
 * number of names whose inode is a directory whose ".." names <dir> back (sub), number of other names, names that are inconsistent
 * (dangling, wrong file type, lookup failure: bad), in-use inodes that are directories whose ".." names <dir> (ddsub; -1 = not counted:
 * the observation after nlmkdir / nlrmdir and `dirdrv <image> nl <dir> light` leave this second sweep to the next full observation),
 * free inodes and blocks from the bitmaps, in-use directories in all.
 * A line starting with '-' is executed without printing an observation (runs of operations).
 *
 * Releasing an inode (rm at zero, rmdir, kill) is done the way misc/fuse2fs.c remove_inode() does it with public calls:
 * ext2fs_free_ext_attr, ext2fs_punch(0, ~0), ext2fs_inode_alloc_stats2(-1), dtime set.
 *
 * Observation "st": for every in-use inode >= first_ino and the root: type, i_links_count, blocks owned (i_blocks in
 * fs blocks), flags; for every in-use directory: ext2fs_dir_iterate2 listing (name, inode, file_type) with ext2fs_lookup of every
 * name, and the exact slot layout of every block (DIRENT_FLAG_INCLUDE_EMPTY semantics, read from the raw block:
 * inode, name_len, rec_len, file_type, name), checksum tail presence, htree index entries; free inode / block counts
 * counted from the bitmaps.
 */
#include <stdio.h>
#include <stdlib.h>
#include <string.h>
#include <errno.h>
#include <sys/wait.h>
#include "ext2fs/ext2_fs.h"
#include "ext2fs/ext2fs.h"

static ext2_filsys fs;
static const char *image;

static const char *rname(errcode_t r)
{
	static char buf[64];
	if (r == 0) return "ok";
	if (r == EXT2_ET_DIR_NO_SPACE) return "nospace";
	if (r == EXT2_ET_DIR_EXISTS || r == EXT2_ET_FILE_EXISTS) return "exists";
	if (r == EXT2_ET_FILE_NOT_FOUND) return "notfound";
	if (r == EXT2_ET_NO_DIRECTORY) return "notdir";
	if (r == EMLINK) return "emlink";
	snprintf(buf, sizeof(buf), "err%ld", (long) (r - EXT2_ET_BASE));
	return buf;
}

static void jstr(const char *s, int len)
{
	int i;
	putchar('"');
	for (i = 0; i < len; i++) {
		unsigned char c = s[i];
		if (c == '"' || c == '\\') printf("\\%c", c);
		else if (c < 0x20 || c >= 0x7f) printf("\\u%04x", c);
		else putchar(c);
	}
	putchar('"');
}

static int ft_of_mode(unsigned mode)
{
	if (LINUX_S_ISREG(mode)) return EXT2_FT_REG_FILE;
	if (LINUX_S_ISDIR(mode)) return EXT2_FT_DIR;
	if (LINUX_S_ISCHR(mode)) return EXT2_FT_CHRDEV;
	if (LINUX_S_ISBLK(mode)) return EXT2_FT_BLKDEV;
	if (LINUX_S_ISLNK(mode)) return EXT2_FT_SYMLINK;
	if (LINUX_S_ISFIFO(mode)) return EXT2_FT_FIFO;
	if (LINUX_S_ISSOCK(mode)) return EXT2_FT_SOCK;
	return 0;
}

/* ---------- observation ---------- */

struct ls_ctx { ext2_ino_t dir; int first; };

static int ls_proc(ext2_ino_t dir, int entry, struct ext2_dir_entry *de, int offset, int blocksize, char *buf, void *priv)
{
	struct ls_ctx *c = priv;
	ext2_ino_t lk = 0;
	char name[EXT2_NAME_LEN + 1];
	int nl = ext2fs_dirent_name_len(de);
	errcode_t r;

	memcpy(name, de->name, nl); name[nl] = 0;
	r = ext2fs_lookup(fs, c->dir, name, nl, NULL, &lk);
	if (r) lk = 0;
	printf("%s[", c->first ? "" : ",");
	jstr(de->name, nl);
	printf(",%u,%d,%u]", de->inode, ext2fs_dirent_file_type(de), lk);
	c->first = 0;
	return 0;
}

static void dump_slots(const char *buf, unsigned len, int is_block, int csum)
{
	unsigned off = 0;
	int first = 1;
	printf("[");
	while (off + 8 <= len) {
		const struct ext2_dir_entry *de = (const struct ext2_dir_entry *) (buf + off);
		unsigned rl = de->rec_len;
		int nl = de->name_len & 0xff, ft = de->name_len >> 8;
		if (rl < 8 || (rl & 3) || off + rl > len) {
			printf("%s[-1,%d,%u,%d,\"\"]", first ? "" : ",", nl, rl, ft);   /* corrupt chain marker */
			break;
		}
		if (is_block && csum && off == len - 12 && de->inode == 0 && rl == 12 && de->name_len == EXT2_DIR_NAME_LEN_CSUM) {
			printf("%s[0,-1,12,222,\"\"]", first ? "" : ",");          /* checksum tail */
			break;
		}
		printf("%s[%u,%d,%u,%d,", first ? "" : ",", de->inode, nl, rl, ft);
		if (de->inode && (unsigned) nl + 8 <= rl) jstr(de->name, nl); else printf("\"\"");
		printf("]");
		first = 0;
		off += rl;
	}
	printf("]");
}

static void dump_dx_entries(const char *p, int csum)
{
	/* p points at struct ext2_dx_countlimit */
	const struct ext2_dx_countlimit *cl = (const void *) p;
	const struct ext2_dx_entry *e = (const void *) p;
	int i, cnt = cl->count;
	printf("{\"limit\":%u,\"count\":%u,\"e\":[", cl->limit, cl->count);
	if (cnt > 600) cnt = 600;
	for (i = 0; i < cnt; i++)
		printf("%s[%u,%u,%u]", i ? "," : "", i ? e[i].hash >> 1 : 0, i ? e[i].hash & 1 : 0, e[i].block & 0x0fffffff);
	printf("]}");
}

struct nodeset { blk64_t b[4096]; int lvl[4096]; int n; };

static void dump_dir(ext2_ino_t ino, struct ext2_inode *inode)
{
	struct ls_ctx lc;
	errcode_t r;
	char *buf = NULL;
	unsigned bs = fs->blocksize;
	int csum = ext2fs_has_feature_metadata_csum(fs->super);
	int idx = !!(inode->i_flags & EXT2_INDEX_FL), inl = !!(inode->i_flags & EXT4_INLINE_DATA_FL);

	printf("{\"ino\":%u,\"idx\":%d,\"inl\":%d,\"ls\":[", ino, idx, inl);
	lc.dir = ino; lc.first = 1;
	r = ext2fs_dir_iterate2(fs, ino, 0, NULL, ls_proc, &lc);
	printf("],\"lsr\":\"%s\"", rname(r));
	if (inl) {
		size_t sz = 0;
		char *ib = NULL;
		r = ext2fs_inline_data_size(fs, ino, &sz);
		if (!r && sz >= 60 && !ext2fs_get_mem(sz + 8, &ib)) {
			r = ext2fs_inline_data_get(fs, ino, inode, ib, &sz);
			if (!r) {
				printf(",\"dd\":%u,\"blks\":[", *(unsigned *) ib);
				dump_slots(ib + 4, 56, 0, 0);
				if (sz > 60) { printf(","); dump_slots(ib + 60, sz - 60, 0, 0); }
				printf("],\"rd\":\"ok\"");
			} else
				printf(",\"dd\":0,\"blks\":[],\"rd\":\"%s\"", rname(r));
			ext2fs_free_mem(&ib);
		} else
			printf(",\"dd\":0,\"blks\":[],\"rd\":\"%s\"", rname(r ? r : 1));
		printf(",\"dx\":{\"lv\":-1}}");
		return;
	}
	{
		blk64_t nb = EXT2_I_SIZE(inode) / bs, lb, pb;
		static struct nodeset ns;
		int lv = -1, i, first = 1;
		unsigned dd = 0;
		const char *rd = "ok";
		ns.n = 0;
		if (ext2fs_get_mem(bs, &buf)) { printf(",\"dd\":0,\"blks\":[],\"rd\":\"nomem\",\"dx\":{\"lv\":-1}}"); return; }
		printf(",\"blks\":[");
		for (lb = 0; lb < nb && lb < 4000; lb++) {
			int isnode = 0, nlvl = 0;
			r = ext2fs_bmap2(fs, ino, inode, NULL, 0, lb, NULL, &pb);
			if (r || !pb) { rd = r ? rname(r) : "hole"; printf("%s[]", first ? "" : ","); first = 0; continue; }
			r = ext2fs_read_dir_block4(fs, pb, buf, 0, ino);
			if (r) { rd = rname(r); r = io_channel_read_blk64(fs->io, pb, 1, buf); }
			printf("%s", first ? "" : ","); first = 0;
			if (lb == 0) {
				const struct ext2_dir_entry *d1 = (const void *) buf;
				const struct ext2_dir_entry *d2 = (const void *) (buf + 12);
				if (d1->rec_len == 12) dd = d2->inode;
			}
			for (i = 0; i < ns.n; i++) if (ns.b[i] == lb) { isnode = 1; nlvl = ns.lvl[i]; }
			dump_slots(buf, bs, 1, csum && !(idx && (lb == 0 || isnode)));
			if (idx && lb == 0) {
				const struct ext2_dx_root_info *ri = (const void *) (buf + 24);
				const struct ext2_dx_countlimit *cl = (const void *) (buf + 24 + ri->info_length);
				const struct ext2_dx_entry *e = (const void *) cl;
				lv = ri->indirect_levels;
				printf(",{\"node\":0,\"hv\":%u,\"lv\":%d,\"dx\":", ri->hash_version, lv);
				dump_dx_entries((const char *) cl, csum);
				printf("}");
				if (lv > 0)
					for (i = 0; i < cl->count && ns.n < 4096; i++) { ns.b[ns.n] = e[i].block & 0x0fffffff; ns.lvl[ns.n++] = 1; }
			} else if (isnode) {
				const struct ext2_dx_countlimit *cl = (const void *) (buf + 8);
				const struct ext2_dx_entry *e = (const void *) cl;
				printf(",{\"node\":%llu,\"hv\":0,\"lv\":%d,\"dx\":", (unsigned long long) lb, nlvl);
				dump_dx_entries((const char *) cl, csum);
				printf("}");
				if (nlvl < lv)
					for (i = 0; i < cl->count && ns.n < 4096; i++) { ns.b[ns.n] = e[i].block & 0x0fffffff; ns.lvl[ns.n++] = nlvl + 1; }
			}
		}
		printf("],\"dd\":%u,\"rd\":\"%s\",\"dx\":{\"lv\":%d}}", dd, rd, lv);
		ext2fs_free_mem(&buf);
	}
}

static void dump_state(void)
{
	ext2_ino_t ino, n = fs->super->s_inodes_count, first = EXT2_FIRST_INODE(fs->super);
	blk64_t b;
	unsigned long fi = 0, fb = 0;
	int firsto = 1;
	struct ext2_inode_large il;
	struct ext2_inode *inode = (struct ext2_inode *) &il;

	printf("\"st\":{\"bs\":%u,\"first\":%u,\"ninodes\":%u,\"inodes\":[", fs->blocksize, first, n);
	for (ino = 1; ino <= n; ino++) {
		if (!ext2fs_test_inode_bitmap2(fs->inode_map, ino)) { fi++; continue; }
		if (ino != EXT2_ROOT_INO && ino < first) continue;
		if (ext2fs_read_inode_full(fs, ino, inode, sizeof(il))) { printf("%s{\"i\":%u,\"ty\":\"unreadable\",\"links\":0,\"nblk\":0,\"acl\":0,\"dt\":0}", firsto ? "" : ",", ino); firsto = 0; continue; }
		printf("%s{\"i\":%u,\"ty\":%d,\"links\":%u,\"nblk\":%llu,\"acl\":%d,\"dt\":%d}", firsto ? "" : ",", ino, ft_of_mode(inode->i_mode),
		       inode->i_links_count, (unsigned long long) (ext2fs_get_stat_i_blocks(fs, inode) / (fs->blocksize / 512)),
		       ext2fs_file_acl_block(fs, inode) != 0, inode->i_dtime != 0);
		firsto = 0;
	}
	printf("],\"dirs\":[");
	firsto = 1;
	for (ino = 1; ino <= n; ino++) {
		if (!ext2fs_test_inode_bitmap2(fs->inode_map, ino)) continue;
		if (ino != EXT2_ROOT_INO && ino < first) continue;
		if (ext2fs_read_inode_full(fs, ino, inode, sizeof(il))) continue;
		if (!LINUX_S_ISDIR(inode->i_mode)) continue;
		printf("%s", firsto ? "" : ","); firsto = 0;
		dump_dir(ino, inode);
	}
	for (b = fs->super->s_first_data_block; b < ext2fs_blocks_count(fs->super); b++)
		if (!ext2fs_test_block_bitmap2(fs->block_map, b)) fb++;
	printf("],\"fi\":%lu,\"fb\":%lu,\"sfi\":%u,\"sfb\":%llu}", fi, fb, fs->super->s_free_inodes_count,
	       (unsigned long long) ext2fs_free_blocks_count(fs->super));
}


/* ---------- the count observation (directories with tens of thousands of subdirectories) ---------- */

struct nl_ctx { ext2_ino_t dir, dot, dotdot; unsigned long sub, other, bad; };

static int nl_proc(ext2_ino_t dir, int entry, struct ext2_dir_entry *de, int offset, int blocksize, char *buf, void *priv)
{
	struct nl_ctx *c = priv;
	struct ext2_inode inode;
	ext2_ino_t pp = 0;
	int ft;

	if (entry == DIRENT_DOT_FILE) { c->dot = de->inode; return 0; }
	if (entry == DIRENT_DOT_DOT_FILE) { c->dotdot = de->inode; return 0; }
	if (de->inode < EXT2_FIRST_INODE(fs->super) || de->inode > fs->super->s_inodes_count ||
	    !ext2fs_test_inode_bitmap2(fs->inode_map, de->inode) || ext2fs_read_inode(fs, de->inode, &inode)) { c->bad++; return 0; }
	ft = ft_of_mode(inode.i_mode);
	if (ext2fs_dirent_file_type(de) != (ext2fs_has_feature_filetype(fs->super) ? ft : 0)) { c->bad++; return 0; }
	if (ft != EXT2_FT_DIR) { c->other++; return 0; }
	if (ext2fs_lookup(fs, de->inode, "..", 2, NULL, &pp) || pp != c->dir || inode.i_links_count != 2) { c->bad++; return 0; }
	c->sub++;
	return 0;
}

static void dump_count(ext2_ino_t dir, int full)
{
	struct nl_ctx c;
	struct ext2_inode inode, ci;
	ext2_ino_t ino, n = fs->super->s_inodes_count, first = EXT2_FIRST_INODE(fs->super), pp;
	unsigned long fi = 0, fb = 0, ndirs = 0;
	long ddsub = full ? 0 : -1;
	blk64_t b;
	errcode_t r;

	memset(&c, 0, sizeof(c)); c.dir = dir;
	memset(&inode, 0, sizeof(inode));
	r = ext2fs_read_inode(fs, dir, &inode);
	if (!r) r = ext2fs_dir_iterate2(fs, dir, 0, NULL, nl_proc, &c);
	for (ino = 1; ino <= n; ino++) {
		if (!ext2fs_test_inode_bitmap2(fs->inode_map, ino)) { fi++; continue; }
		if (ino != EXT2_ROOT_INO && ino < first) continue;
		if (ext2fs_read_inode(fs, ino, &ci) || !LINUX_S_ISDIR(ci.i_mode)) continue;
		ndirs++;
		if (full && ino != dir && !ext2fs_lookup(fs, ino, "..", 2, NULL, &pp) && pp == dir) ddsub++;
	}
	for (b = fs->super->s_first_data_block; b < ext2fs_blocks_count(fs->super); b++)
		if (!ext2fs_test_block_bitmap2(fs->block_map, b)) fb++;
	printf("\"nl\":{\"dir\":%u,\"ty\":%d,\"links\":%u,\"idx\":%d,\"lsr\":\"%s\",\"dot\":%u,\"dd\":%u,\"sub\":%lu,\"other\":%lu,\"bad\":%lu,\"ddsub\":%ld,"
	       "\"ndirs\":%lu,\"fi\":%lu,\"fb\":%lu,\"dirnlink\":%d}", dir, ft_of_mode(inode.i_mode), inode.i_links_count, !!(inode.i_flags & EXT2_INDEX_FL),
	       rname(r), c.dot, c.dotdot, c.sub, c.other, c.bad, ddsub, ndirs, fi, fb, ext2fs_has_feature_dir_nlink(fs->super) ? 1 : 0);
}

/* ---------- operations ---------- */

static errcode_t open_fs(int rw)
{
	errcode_t r = ext2fs_open(image, (rw ? EXT2_FLAG_RW : 0) | EXT2_FLAG_64BITS, 0, 0, unix_io_manager, &fs);
	if (r) return r;
	fs->now = 1600000000;
	r = ext2fs_read_bitmaps(fs);
	return r;
}

static errcode_t link_expand(ext2_ino_t dir, const char *name, ext2_ino_t ino, int ft)
{
	errcode_t r = ext2fs_link(fs, dir, name, ino, ft);
	if (r == EXT2_ET_DIR_NO_SPACE) {
		r = ext2fs_expand_dir(fs, dir);
		if (r) return r;
		r = ext2fs_link(fs, dir, name, ino, ft);
	}
	return r;
}

static errcode_t op_mkdir(ext2_ino_t dir, const char *name)
{
	errcode_t r = ext2fs_mkdir(fs, dir, 0, name);
	if (r == EXT2_ET_DIR_NO_SPACE) {
		r = ext2fs_expand_dir(fs, dir);
		if (r) return r;
		r = ext2fs_mkdir(fs, dir, 0, name);
	}
	return r;
}

static errcode_t op_create(ext2_ino_t dir, const char *name, unsigned size)
{
	ext2_ino_t ino;
	struct ext2_inode inode;
	errcode_t r;

	r = ext2fs_lookup(fs, dir, name, strlen(name), NULL, &ino);
	if (r == 0) return EXT2_ET_FILE_EXISTS;
	if (r != EXT2_ET_FILE_NOT_FOUND) return r;
	r = ext2fs_new_inode(fs, dir, 010755, 0, &ino);
	if (r) return r;
	r = link_expand(dir, name, ino, EXT2_FT_REG_FILE);
	if (r) return r;
	ext2fs_inode_alloc_stats2(fs, ino, +1, 0);
	memset(&inode, 0, sizeof(inode));
	inode.i_mode = LINUX_S_IFREG | 0644;
	inode.i_links_count = 1;
	if (ext2fs_has_feature_inline_data(fs->super))
		inode.i_flags |= EXT4_INLINE_DATA_FL;
	else if (ext2fs_has_feature_extents(fs->super)) {
		ext2_extent_handle_t h;
		inode.i_flags &= ~EXT4_EXTENTS_FL;
		r = ext2fs_extent_open2(fs, ino, &inode, &h);
		if (r) return r;
		ext2fs_extent_free(h);
	}
	r = ext2fs_write_new_inode(fs, ino, &inode);
	if (r) return r;
	if (inode.i_flags & EXT4_INLINE_DATA_FL) {
		r = ext2fs_inline_data_init(fs, ino);
		if (r) return r;
	}
	if (size) {
		ext2_file_t f;
		char *data = malloc(size);
		unsigned got = 0;
		memset(data, 'd', size);
		r = ext2fs_file_open(fs, ino, EXT2_FILE_WRITE, &f);
		if (!r) {
			r = ext2fs_file_write(f, data, size, &got);
			if (!r && got != size) r = EXT2_ET_SHORT_WRITE;
			if (r) ext2fs_file_close(f); else r = ext2fs_file_close(f);
		}
		free(data);
	}
	return r;
}

static errcode_t op_symlink(ext2_ino_t dir, const char *name, unsigned len)
{
	char *t = malloc(len + 1);
	errcode_t r;
	memset(t, 'x', len); t[len] = 0;
	r = ext2fs_symlink(fs, dir, 0, name, t);
	if (r == EXT2_ET_DIR_NO_SPACE) {
		r = ext2fs_expand_dir(fs, dir);
		if (!r) r = ext2fs_symlink(fs, dir, 0, name, t);
	}
	free(t);
	return r;
}

static errcode_t op_mknod(ext2_ino_t dir, const char *name, int kind)
{
	ext2_ino_t ino;
	struct ext2_inode inode;
	errcode_t r;
	int ft = kind == 'p' ? EXT2_FT_FIFO : kind == 'c' ? EXT2_FT_CHRDEV : EXT2_FT_BLKDEV;

	r = ext2fs_new_inode(fs, dir, 010755, 0, &ino);
	if (r) return r;
	r = link_expand(dir, name, ino, ft);
	if (r) return r;
	ext2fs_inode_alloc_stats2(fs, ino, +1, 0);
	memset(&inode, 0, sizeof(inode));
	inode.i_mode = kind == 'p' ? LINUX_S_IFIFO : kind == 'c' ? LINUX_S_IFCHR : LINUX_S_IFBLK;
	if (kind != 'p') inode.i_block[0] = 1 * 256 + 3;
	inode.i_links_count = 1;
	return ext2fs_write_new_inode(fs, ino, &inode);
}

static errcode_t op_link(ext2_ino_t dir, const char *name, ext2_ino_t ino, int counted)
{
	struct ext2_inode inode;
	errcode_t r = ext2fs_read_inode(fs, ino, &inode);
	if (r) return r;
	if (!counted)
		return ext2fs_link(fs, dir, name, ino, ft_of_mode(inode.i_mode));
	r = link_expand(dir, name, ino, ft_of_mode(inode.i_mode));
	if (r) return r;
	inode.i_links_count++;
	return ext2fs_write_inode(fs, ino, &inode);
}

static errcode_t release_inode(ext2_ino_t ino)
{
	struct ext2_inode_large il;
	struct ext2_inode *inode = (struct ext2_inode *) &il;
	errcode_t r;

	memset(&il, 0, sizeof(il));
	r = ext2fs_read_inode_full(fs, ino, inode, sizeof(il));
	if (r) return r;
	ext2fs_set_dtime(fs, inode);
	r = ext2fs_free_ext_attr(fs, ino, &il);
	if (r) return r;
	if (ext2fs_inode_has_valid_blocks2(fs, inode)) {
		r = ext2fs_punch(fs, ino, inode, NULL, 0, ~0ULL);
		if (r) return r;
	}
	ext2fs_inode_alloc_stats2(fs, ino, -1, LINUX_S_ISDIR(inode->i_mode));
	return ext2fs_write_inode_full(fs, ino, inode, sizeof(il));
}

static errcode_t op_rm(ext2_ino_t dir, const char *name)
{
	ext2_ino_t ino;
	struct ext2_inode inode;
	errcode_t r = ext2fs_lookup(fs, dir, name, strlen(name), NULL, &ino);
	if (r) return r;
	r = ext2fs_read_inode(fs, ino, &inode);
	if (r) return r;
	if (LINUX_S_ISDIR(inode.i_mode)) return EXT2_ET_NO_DIRECTORY + 100000;   /* "isdir", printed as err */
	--inode.i_links_count;
	r = ext2fs_write_inode(fs, ino, &inode);
	if (r) return r;
	r = ext2fs_unlink(fs, dir, name, 0, 0);
	if (r) return r;
	if (inode.i_links_count == 0)
		r = release_inode(ino);
	return r;
}

struct rd { ext2_ino_t parent; int empty; };
static int rmdir_proc(ext2_ino_t dir, int entry, struct ext2_dir_entry *de, int offset, int blocksize, char *buf, void *priv)
{
	struct rd *rds = priv;
	int nl = ext2fs_dirent_name_len(de);
	if (de->inode == 0) return 0;
	if (nl == 1 && de->name[0] == '.') return 0;
	if (nl == 2 && de->name[0] == '.' && de->name[1] == '.') { rds->parent = de->inode; return 0; }
	rds->empty = 0;
	return 0;
}

static errcode_t op_rmdir(ext2_ino_t dir, const char *name)
{
	ext2_ino_t ino;
	struct ext2_inode inode;
	struct rd rds = { 0, 1 };
	errcode_t r = ext2fs_lookup(fs, dir, name, strlen(name), NULL, &ino);
	if (r) return r;
	r = ext2fs_read_inode(fs, ino, &inode);
	if (r) return r;
	if (!LINUX_S_ISDIR(inode.i_mode)) return EXT2_ET_NO_DIRECTORY;
	r = ext2fs_dir_iterate2(fs, ino, 0, NULL, rmdir_proc, &rds);
	if (r) return r;
	if (!rds.empty) return EXT2_ET_DIR_EXISTS + 100000;                        /* "notempty" */
	inode.i_links_count = 0;
	r = ext2fs_write_inode(fs, ino, &inode);
	if (r) return r;
	r = ext2fs_unlink(fs, dir, name, 0, 0);
	if (r) return r;
	r = release_inode(ino);
	if (r) return r;
	if (rds.parent) {
		r = ext2fs_read_inode(fs, rds.parent, &inode);
		if (r) return r;
		if (inode.i_links_count > 1) inode.i_links_count--;
		r = ext2fs_write_inode(fs, rds.parent, &inode);
	}
	return r;
}

static errcode_t op_setlinks(ext2_ino_t ino, unsigned n)
{
	struct ext2_inode inode;
	errcode_t r = ext2fs_read_inode(fs, ino, &inode);
	if (r) return r;
	inode.i_links_count = n;
	return ext2fs_write_inode(fs, ino, &inode);
}

static errcode_t op_setea(ext2_ino_t ino, unsigned len)
{
	struct ext2_xattr_handle *h;
	char *v = malloc(len + 1);
	errcode_t r, r2;
	memset(v, 'v', len);
	r = ext2fs_xattrs_open(fs, ino, &h);
	if (r) { free(v); return r; }
	r = ext2fs_xattrs_read(h);
	if (!r) r = ext2fs_xattr_set(h, "user.big", v, len);
	r2 = ext2fs_xattrs_close(&h);
	free(v);
	return r ? r : r2;
}

static errcode_t op_bulkdir(ext2_ino_t dir, const char *prefix, unsigned n)
{
	unsigned i;
	char name[300];
	ext2_ino_t ino;
	errcode_t r;

	for (i = 0; i < n; i++) {
		snprintf(name, sizeof(name), "%.200s%05u", prefix, i);
		r = ext2fs_new_inode(fs, dir, LINUX_S_IFDIR | 0755, 0, &ino);
		if (r) return r;
		r = ext2fs_mkdir(fs, dir, ino, NULL);
		if (r) return r;
		r = link_expand(dir, name, ino, EXT2_FT_DIR);
		if (r) return r;
	}
	return 0;
}

static int op_fsck(const char *flags)
{
	char cmd[4096];
	const char *e = getenv("DIRDRV_E2FSCK");
	int st;
	errcode_t r;

	r = ext2fs_close_free(&fs);
	if (r) { fprintf(stderr, "close: %ld\n", (long) r); exit(4); }
	snprintf(cmd, sizeof(cmd), "%s -%s %s >%s 2>&1", e ? e : "e2fsck", flags, image, getenv("DIRDRV_FSCKLOG") ? getenv("DIRDRV_FSCKLOG") : "/dev/null");
	st = system(cmd);
	r = open_fs(1);
	if (r) { fprintf(stderr, "reopen: %ld\n", (long) r); exit(4); }
	return WIFEXITED(st) ? WEXITSTATUS(st) : 255;
}

int main(int argc, char **argv)
{
	char line[2048], op[32], a2[1024], a3[64];
	unsigned a1, nldir = 0;
	errcode_t r;

	if (argc < 3) { fprintf(stderr, "usage: dirdrv image run|runq|dump|nl <dir>\n"); return 2; }
	image = argv[1];
	add_error_table(&et_ext2_error_table);
	if (!strcmp(argv[2], "nl") && argc > 3) {
		r = open_fs(0);
		if (r) { fprintf(stderr, "open: %s\n", error_message(r)); return 3; }
		printf("{"); dump_count(atoi(argv[3]), argc < 5 || strcmp(argv[4], "light")); printf("}\n");
		ext2fs_close_free(&fs);
		return 0;
	}
	if (!strcmp(argv[2], "dump")) {
		r = open_fs(0);
		if (r) { fprintf(stderr, "open: %s\n", error_message(r)); return 3; }
		printf("{"); dump_state(); printf("}\n");
		ext2fs_close_free(&fs);
		return 0;
	}
	r = open_fs(1);
	if (r) { fprintf(stderr, "open: %s\n", error_message(r)); return 3; }
	if (!strcmp(argv[2], "runq")) printf("{\"op\":\"open\",\"r\":\"ok\",\"rc\":0}\n");      /* no observation of the whole filesystem */
	else { printf("{\"op\":\"open\",\"r\":\"ok\",\"rc\":0,"); dump_state(); printf("}\n"); }
	fflush(stdout);
	while (fgets(line, sizeof(line), stdin)) {
		int n, rc = 0, quiet = 0, count = 0, full = 1;
		const char *res;
		char *lp = line;
		a2[0] = a3[0] = 0; a1 = 0;
		if (*lp == '-') { quiet = 1; lp++; }            /* "-op ..." = execute without printing an observation */
		n = sscanf(lp, "%31s %u %1023s %63s", op, &a1, a2, a3);
		if (n < 1 || op[0] == '#') continue;
		if (!strcmp(op, "quit")) break;
		if (!strcmp(op, "fsck")) {
			if (sscanf(lp, "%*s %63s", a3) != 1) { fprintf(stderr, "bad fsck line\n"); return 2; }
			rc = op_fsck(a3); r = 0;
		}
		else if (!strcmp(op, "nlfsck")) {
			if (sscanf(lp, "%*s %63s", a3) != 1) { fprintf(stderr, "bad nlfsck line\n"); return 2; }
			rc = op_fsck(a3); r = 0; count = 1;
		}
		else if (!strcmp(op, "sync")) r = ext2fs_flush(fs);
		else if (!strcmp(op, "bulkdir")) r = op_bulkdir(a1, a2, atoi(a3));
		else if (!strcmp(op, "nl")) { r = 0; nldir = a1; count = 1; }
		else if (!strcmp(op, "nlmkdir")) { r = op_mkdir(a1, a2); nldir = a1; count = 1; full = 0; }
		else if (!strcmp(op, "nlrmdir")) { r = op_rmdir(a1, a2); nldir = a1; count = 1; full = 0; }
		else if (!strcmp(op, "mkdir")) r = op_mkdir(a1, a2);
		else if (!strcmp(op, "create")) r = op_create(a1, a2, atoi(a3));
		else if (!strcmp(op, "symlink")) r = op_symlink(a1, a2, atoi(a3));
		else if (!strcmp(op, "mknod")) r = op_mknod(a1, a2, a3[0]);
		else if (!strcmp(op, "link")) r = op_link(a1, a2, atoi(a3), 0);
		else if (!strcmp(op, "hlink")) r = op_link(a1, a2, atoi(a3), 1);
		else if (!strcmp(op, "unlink")) r = ext2fs_unlink(fs, a1, a2, 0, 0);
		else if (!strcmp(op, "rm")) r = op_rm(a1, a2);
		else if (!strcmp(op, "rmdir")) r = op_rmdir(a1, a2);
		else if (!strcmp(op, "kill")) r = release_inode(a1);
		else if (!strcmp(op, "setlinks")) r = op_setlinks(a1, atoi(a2));
		else if (!strcmp(op, "setea")) r = op_setea(a1, atoi(a2));
		else { fprintf(stderr, "unknown op %s\n", op); return 2; }
		res = rname(r);
		if (r == EXT2_ET_NO_DIRECTORY + 100000) res = "isdir";
		if (r == EXT2_ET_DIR_EXISTS + 100000) res = "notempty";
		if (quiet) continue;
		printf("{\"op\":\"%s\",\"r\":\"%s\",\"rc\":%d,", op, res, rc);
		if (count) dump_count(nldir, full); else
		dump_state();
		printf("}\n");
		fflush(stdout);
	}
	r = ext2fs_close_free(&fs);
	if (r) { fprintf(stderr, "close: %s\n", error_message(r)); return 4; }
	return 0;
}
