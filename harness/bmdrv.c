/*
 * bmdrv -- steps the same operation history through the three bitmap back ends
 * (EXT2FS_BMAP64_BITARRAY, EXT2FS_BMAP64_RBTREE, legacy 32-bit gen_bitmap.c)
 * using the public generic API only, and prints one ndjson line per operation:
 * the API-visible result on each back end, the full bit vector of each back end
 * (test on every position start..end, logged run-length encoded as [first, length] pairs relative to start)
 * and the rbtree's extents + cursors (hook H2).
 *
 * Input (stdin), one operation per line, positions are ABSOLUTE block numbers as a caller passes them:
 *   reset <start> <end> <real_end> <cluster_bits> [<logoff> [<cut points ...>]]
 *                    start a new behaviour on fresh bitmaps.  logoff (bitmap units, default 0) is subtracted from
 *                    every logged absolute position (TLC integers are 32 bit; a bitmap that starts near 2^32 is
 *                    logged as if it started near 0).  The cut points (relative to start, increasing) are the
 *                    interval abstraction's table (DESIGN 2.3): they are only copied into the reset line for the
 *                    trace specification, the driver itself never looks at them.
 *                    The legacy back end exists when cluster_bits = 0 and real_end fits in 32 bits.
 *   mark b | unmark b | test b
 *   mark_range b n | unmark_range b n | test_range b n
 *   ffz a b | ffs a b
 *   get_range s n | set_range s n <bits as 0/1 string>     (s, n in bitmap units, as rw_bitmaps.c passes them)
 *   set_runs s n <off> <len> <off> <len> ...              set_range whose input bits are given as runs of ones
 *   clear | copy | set_padding | resize <new_end> <new_real_end>
 *   cmp b            compare the bitmap with a copy in which bit b (bitmap units) was flipped; cmp -1: unmodified copy;
 *                    cmp -2: copy with set_padding applied (same set, different padding)
 */
#include <stdio.h>
#include <stdlib.h>
#include <string.h>
#include <errno.h>
#include "ext2fs/ext2_fs.h"
#include "ext2fs/ext2fs.h"

extern int ext2fs_verif_rb_dump(ext2fs_generic_bitmap gen_bmap, char *buf, size_t len);

#define NB 3
static ext2fs_generic_bitmap bm[NB];	/* 0 = bitarray, 1 = rbtree, 2 = legacy 32-bit (absent with clusters) */
static struct struct_ext2_filsys fake_fs;
static struct ext2_super_block fake_sb;
static unsigned long long b_start, b_end, b_rend, logoff;
static int cbits;
#define BUFBYTES (1 << 16)

static void free_all(void)
{
	int i;
	for (i = 0; i < NB; i++)
		if (bm[i]) {
			ext2fs_free_generic_bmap(bm[i]);
			bm[i] = NULL;
		}
}

static void do_reset(unsigned long long s, unsigned long long e, unsigned long long re, int cb, unsigned long long maxpos)
{
	errcode_t r;
	free_all();
	memset(&fake_fs, 0, sizeof(fake_fs));
	memset(&fake_sb, 0, sizeof(fake_sb));
	fake_fs.magic = EXT2_ET_MAGIC_EXT2FS_FILSYS;
	fake_fs.super = &fake_sb;
	fake_fs.cluster_ratio_bits = cb;
	b_start = s; b_end = e; b_rend = re; cbits = cb;
	r = ext2fs_alloc_generic_bmap(&fake_fs, EXT2_ET_MAGIC_BLOCK_BITMAP64, EXT2FS_BMAP64_BITARRAY, s, e, re, "ba", &bm[0]);
	if (r) { fprintf(stderr, "alloc ba %ld\n", (long) r); exit(3); }
	r = ext2fs_alloc_generic_bmap(&fake_fs, EXT2_ET_MAGIC_BLOCK_BITMAP64, EXT2FS_BMAP64_RBTREE, s, e, re, "rb", &bm[1]);
	if (r) { fprintf(stderr, "alloc rb %ld\n", (long) r); exit(3); }
	if (cb == 0 && re <= 0xffffffffULL && maxpos <= 0xffffffffULL) {
		r = ext2fs_make_generic_bitmap(EXT2_ET_MAGIC_BLOCK_BITMAP, &fake_fs, s, e, re, "legacy", NULL, &bm[2]);
		if (r) { fprintf(stderr, "alloc 32 %ld\n", (long) r); exit(3); }
	}
}

static void print_bits(void)
{
	int i, first;
	unsigned long long p, s0, e0, run0 = 0;
	int inrun;
	printf(",\"has32\":%d,\"runs\":[", bm[2] ? 1 : 0);
	for (i = 0; i < NB; i++) {
		if (i) printf(",");
		printf("[");
		if (bm[i] && i != 1) {
			first = 1; inrun = 0;
			s0 = ext2fs_get_generic_bmap_start(bm[i]);
			e0 = ext2fs_get_generic_bmap_end(bm[i]);
			for (p = s0; p <= e0; p++) {
				int t = !!ext2fs_test_generic_bmap(bm[i], p << cbits);
				if (t && !inrun) { inrun = 1; run0 = p; }
				else if (!t && inrun) {
					printf("%s[%llu,%llu]", first ? "" : ",", run0 - s0, p - run0);
					first = 0; inrun = 0;
				}
			}
			if (inrun)
				printf("%s[%llu,%llu]", first ? "" : ",", run0 - s0, e0 + 1 - run0);
		}
		printf("]");
	}
	printf("]");
}

/* the dump itself uses test, which moves rcursor: dump the rb state BEFORE reading the bit vectors,
 * and read the rb bit vector on a copy so that the live cursors are not disturbed */
static void print_state(void)
{
	static char buf[65536];
	ext2fs_generic_bitmap keep = bm[1], cp = NULL;
	if (ext2fs_verif_rb_dump(bm[1], buf, sizeof(buf)) < 0)
		printf(",\"hookerr\":1");
	else
		printf(",%s", buf);
	/* ext2fs_copy_generic_bmap NULLs the source's rcursor for rbtree bitmaps, so instead read the bits of
	 * the live rb bitmap through get_range-free means: use find_first_set/zero which do not touch cursors */
	(void) keep; (void) cp;
}

static void rb_bits_nocursor(void)
{
	/* read the rb bitmap back with ffs/ffz only (neither touches a cursor); runs of ones as [first, length] */
	unsigned long long s = ext2fs_get_generic_bmap_start(bm[1]), e = ext2fs_get_generic_bmap_end(bm[1]);
	unsigned long long p = s, q, x, last = (e << cbits) | ((1ULL << cbits) - 1);
	int first = 1;
	printf(",\"rbrun\":[");
	while (p <= e) {
		__u64 out;
		errcode_t r = ext2fs_find_first_set_generic_bmap(bm[1], p << cbits, last, &out);
		if (r)
			break;
		q = out >> cbits;
		r = ext2fs_find_first_zero_generic_bmap(bm[1], q << cbits, last, &out);
		x = r ? e + 1 : (out >> cbits);
		if (x <= q || q < p) { printf("%s[-1,1]", first ? "" : ","); break; }	/* no progress: report an impossible run */
		printf("%s[%llu,%llu]", first ? "" : ",", q - s, x - q);
		first = 0;
		p = x;
	}
	printf("]");
}

/* runs of ones among the first n bits of buf, as [offset, length] */
static void print_buf_runs(const unsigned char *buf, long long n)
{
	long long k, run0 = 0;
	int inrun = 0, first = 1;
	for (k = 0; k < n; k++) {
		int t = (buf[k >> 3] >> (k & 7)) & 1;
		if (t && !inrun) { inrun = 1; run0 = k; }
		else if (!t && inrun) { printf("%s[%lld,%lld]", first ? "" : ",", run0, k - run0); first = 0; inrun = 0; }
	}
	if (inrun)
		printf("%s[%lld,%lld]", first ? "" : ",", run0, n - run0);
}

static const char *ename(errcode_t r)
{
	static char b[32];
	if (r == 0) return "0";
	if (r == ENOENT) return "ENOENT";
	if (r == EINVAL) return "EINVAL";
	snprintf(b, sizeof(b), "E%ld", (long) r);
	return b;
}

int main(void)
{
	static char line[65536], bits[65536];
	static unsigned char buf[BUFBYTES];
	char op[64];
	long long a, b;
	int i, lineno = 0;

	setvbuf(stdout, NULL, _IOFBF, 1 << 16);
	while (fgets(line, sizeof(line), stdin)) {
		a = b = 0; bits[0] = 0; op[0] = 0;
		lineno++;
		if (sscanf(line, "%63s", op) != 1)
			continue;
		if (!strcmp(op, "reset")) {
			static unsigned long long cuts[4096];
			unsigned long long s, e, re, lo = 0, c; int cb, n = 0, k, nc = 0, j;
			if (sscanf(line, "%*s %llu %llu %llu %d%n", &s, &e, &re, &cb, &n) < 4) { fprintf(stderr, "bad reset\n"); exit(3); }
			k = n;
			if (sscanf(line + k, "%llu%n", &lo, &n) == 1) k += n; else lo = 0;
			while (nc < 4096 && sscanf(line + k, "%llu%n", &c, &n) == 1) { cuts[nc++] = c; k += n; }
			logoff = lo;
			if (lo > s) { fprintf(stderr, "logoff > start\n"); exit(3); }
			/* the behaviour may resize up to the last cut point: the legacy back end takes part only if that fits */
			do_reset(s, e, re, cb, nc ? s + cuts[nc - 1] - 1 : re);
			printf("{\"e\":\"reset\",\"start\":%llu,\"rs_end\":%llu,\"rs_rend\":%llu,\"cb\":%d,\"cut\":[", s - lo, e - s, re - s, cb);
			for (j = 0; j < nc; j++) printf("%s%llu", j ? "," : "", cuts[j]);
			printf("]");
			print_state();
			printf("}\n");
			continue;
		}
		{
			/* positions may exceed 2^63 never, but may exceed 2^32: parse as unsigned, keep signed for "cmp -1" */
			int n = 0;
			sscanf(line, "%*s %lld %lld%n", &a, &b, &n);
			if (!strcmp(op, "set_range"))
				sscanf(line + n, "%65535s", bits);
		}
		/* logged arguments: absolute positions minus the log offset (lengths and "cmp -1/-2" are logged as they are) */
		if (!strcmp(op, "mark") || !strcmp(op, "unmark") || !strcmp(op, "test") || !strcmp(op, "mark_range") ||
		    !strcmp(op, "unmark_range") || !strcmp(op, "test_range"))		/* block number, length */
			printf("{\"e\":\"%s\",\"a\":%lld,\"b\":%lld", op, a - (long long) (logoff << cbits), b);
		else if (!strcmp(op, "ffz") || !strcmp(op, "ffs"))			/* two block numbers */
			printf("{\"e\":\"%s\",\"a\":%lld,\"b\":%lld", op, a - (long long) (logoff << cbits), b - (long long) (logoff << cbits));
		else if (!strcmp(op, "get_range") || !strcmp(op, "set_range") || !strcmp(op, "set_runs"))	/* bitmap unit, length */
			printf("{\"e\":\"%s\",\"a\":%lld,\"b\":%lld", op[0] == 's' ? "set_range" : op, a - (long long) logoff, b);
		else if (!strcmp(op, "resize"))						/* two bitmap units */
			printf("{\"e\":\"%s\",\"a\":%lld,\"b\":%lld", op, a - (long long) logoff, b - (long long) logoff);
		else if (!strcmp(op, "cmp"))
			printf("{\"e\":\"%s\",\"a\":%lld,\"b\":%lld", op, a >= 0 ? a - (long long) logoff : a, b);
		else
			printf("{\"e\":\"%s\",\"a\":%lld,\"b\":%lld", op, a, b);
		if (!strcmp(op, "mark") || !strcmp(op, "unmark") || !strcmp(op, "test")) {
			printf(",\"ret\":[");
			for (i = 0; i < NB; i++) {
				int r = -1;
				if (bm[i]) {
					if (op[0] == 'm') r = ext2fs_mark_generic_bmap(bm[i], a);
					else if (op[0] == 'u') r = ext2fs_unmark_generic_bmap(bm[i], a);
					else r = ext2fs_test_generic_bmap(bm[i], a);
					r = !!r;
				}
				printf("%s%d", i ? "," : "", r);
			}
			printf("]");
		} else if (!strcmp(op, "mark_range") || !strcmp(op, "unmark_range")) {
			for (i = 0; i < NB; i++)
				if (bm[i]) {
					if (op[0] == 'm') ext2fs_mark_block_bitmap_range2(bm[i], a, b);
					else ext2fs_unmark_block_bitmap_range2(bm[i], a, b);
				}
			printf(",\"ret\":[0,0,0]");
		} else if (!strcmp(op, "test_range")) {
			printf(",\"ret\":[");
			for (i = 0; i < NB; i++)
				printf("%s%d", i ? "," : "", bm[i] ? !!ext2fs_test_block_bitmap_range2(bm[i], a, b) : -1);
			printf("]");
		} else if (!strcmp(op, "ffz") || !strcmp(op, "ffs")) {
			printf(",\"ret\":[");
			for (i = 0; i < NB; i++) {
				__u64 out = 0;
				errcode_t r;
				if (!bm[i]) { printf("%s-1", i ? "," : ""); continue; }
				r = (op[2] == 'z') ? ext2fs_find_first_zero_generic_bmap(bm[i], a, b, &out)
						   : ext2fs_find_first_set_generic_bmap(bm[i], a, b, &out);
				if (r) printf("%s%d", i ? "," : "", r == ENOENT ? -1 : -3);
				else if (out < (logoff << cbits)) printf("%s-4", i ? "," : "");
				else printf("%s%llu", i ? "," : "", (unsigned long long) out - (logoff << cbits));
			}
			printf("]");
		} else if (!strcmp(op, "get_range")) {
			if (b < 1 || (b + 7) / 8 > BUFBYTES) { fprintf(stderr, "get_range: length out of driver range\n"); exit(3); }
			printf(",\"ret\":[");
			for (i = 0; i < NB; i++) {
				errcode_t r;
				printf("%s[", i ? "," : "");
				if (bm[i]) {
					memset(buf, 0xAA, (b + 7) / 8);	/* a stale buffer must not look like an answer */
					r = ext2fs_get_generic_bmap_range(bm[i], a, b, buf);
					if (r) printf("[-1,1]");
					else print_buf_runs(buf, b);
				}
				printf("]");
			}
			printf("]");
		} else if (!strcmp(op, "set_range") || !strcmp(op, "set_runs")) {
			long long k;
			if (b < 1 || (b + 7) / 8 > BUFBYTES) { fprintf(stderr, "set_range: length out of driver range\n"); exit(3); }
			memset(buf, 0, (b + 7) / 8);
			if (!strcmp(op, "set_range")) {
				for (k = 0; k < b && bits[k]; k++)
					if (bits[k] == '1') buf[k >> 3] |= 1 << (k & 7);
			} else {
				int n = 0, pos = 0;
				long long o, len;
				sscanf(line, "%*s %*lld %*lld%n", &pos);
				while (sscanf(line + pos, "%lld %lld%n", &o, &len, &n) == 2) {
					if (o < 0 || len < 1 || o + len > b) { fprintf(stderr, "set_runs: run outside the range\n"); exit(3); }
					for (k = o; k < o + len; k++) buf[k >> 3] |= 1 << (k & 7);
					pos += n;
				}
			}
			printf(",\"bitsin\":[");
			print_buf_runs(buf, b);
			printf("]");
			for (i = 0; i < NB; i++)
				if (bm[i] && ext2fs_set_generic_bmap_range(bm[i], a, b, buf)) { fprintf(stderr, "set_range failed\n"); exit(3); }
		} else if (!strcmp(op, "clear")) {
			for (i = 0; i < NB; i++) if (bm[i]) ext2fs_clear_generic_bmap(bm[i]);
		} else if (!strcmp(op, "set_padding")) {
			for (i = 0; i < NB; i++) if (bm[i]) ext2fs_set_generic_bmap_padding(bm[i]);
		} else if (!strcmp(op, "resize")) {
			if (bm[2] && (unsigned long long) b > 0xffffffffULL) { fprintf(stderr, "resize beyond 32 bits with a legacy bitmap\n"); exit(3); }
			for (i = 0; i < NB; i++)
				if (bm[i] && ext2fs_resize_generic_bmap(bm[i], a, b)) { fprintf(stderr, "resize failed\n"); exit(3); }
			b_end = a; b_rend = b;
		} else if (!strcmp(op, "copy")) {
			for (i = 0; i < NB; i++) {
				ext2fs_generic_bitmap n = NULL;
				if (!bm[i]) continue;
				if (ext2fs_copy_generic_bmap(bm[i], &n)) { fprintf(stderr, "copy failed\n"); exit(3); }
				ext2fs_free_generic_bmap(bm[i]);
				bm[i] = n;
			}
		} else if (!strcmp(op, "cmp")) {
			printf(",\"ret\":[");
			for (i = 0; i < NB; i++) {
				ext2fs_generic_bitmap n = NULL;
				errcode_t r;
				if (!bm[i]) { printf("%s-1", i ? "," : ""); continue; }
				if (ext2fs_copy_generic_bmap(bm[i], &n)) { fprintf(stderr, "copy failed\n"); exit(3); }
				if (a >= 0) {
					if (ext2fs_test_generic_bmap(n, a << cbits)) ext2fs_unmark_generic_bmap(n, a << cbits);
					else ext2fs_mark_generic_bmap(n, a << cbits);
				} else if (a == -2) {
					/* same set, different padding: padding is not part of the set */
					ext2fs_set_generic_bmap_padding(n);
				}
				r = ext2fs_compare_generic_bmap(77, bm[i], n);
				printf("%s%d", i ? "," : "", r == 0 ? 0 : r == 77 ? 1 : -2);
				ext2fs_free_generic_bmap(n);
			}
			printf("]");
		} else {
			fprintf(stderr, "bmdrv: unknown op at line %d: %s", lineno, line);
			exit(3);
		}
		print_state();
		rb_bits_nocursor();
		/* full bit vectors of the bitarray and legacy back ends (test has no side effect there) */
		print_bits();
		printf("}\n");
	}
	free_all();
	return 0;
}
