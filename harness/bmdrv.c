/*
 * bmdrv -- steps the same operation history through the three bitmap back ends
 * (EXT2FS_BMAP64_BITARRAY, EXT2FS_BMAP64_RBTREE, legacy 32-bit gen_bitmap.c)
 * using the public generic API only, and prints one ndjson line per operation:
 * the API-visible result on each back end, the full bit vector of each back end
 * (test on every position start..end) and the rbtree's extents + cursors (hook H2).
 *
 * Input (stdin), one operation per line, positions are ABSOLUTE block numbers as a caller passes them:
 *   reset <start> <end> <real_end> <cluster_bits>     start a new behaviour on fresh bitmaps
 *   mark b | unmark b | test b
 *   mark_range b n | unmark_range b n | test_range b n
 *   ffz a b | ffs a b
 *   get_range s n | set_range s n <bits as 0/1 string>     (s, n in bitmap units, as rw_bitmaps.c passes them)
 *   clear | copy | set_padding | resize <new_end> <new_real_end>
 *   cmp b            compare the bitmap with a copy in which bit b (bitmap units) was flipped; cmp -1: unmodified copy;
 *                    cmp -2: copy with set_padding applied (same set, different padding)
 */
#include <stdio.h>
#include <stdlib.h>
#include <string.h>
#include <errno.h>
#include "ext2fs/ext2_fs.h"
#include "ext2fs/ext2fs.h"

extern int ext2fs_verif_rb_dump(ext2fs_generic_bitmap gen_bmap, char *buf, size_t len);

#define NB 3
static ext2fs_generic_bitmap bm[NB];	/* 0 = bitarray, 1 = rbtree, 2 = legacy 32-bit (absent with clusters) */
static struct struct_ext2_filsys fake_fs;
static struct ext2_super_block fake_sb;
static unsigned long long b_start, b_end, b_rend;
static int cbits;

static void free_all(void)
{
	int i;
	for (i = 0; i < NB; i++)
		if (bm[i]) {
			ext2fs_free_generic_bmap(bm[i]);
			bm[i] = NULL;
		}
}

static void do_reset(unsigned long long s, unsigned long long e, unsigned long long re, int cb)
{
	errcode_t r;
	free_all();
	memset(&fake_fs, 0, sizeof(fake_fs));
	memset(&fake_sb, 0, sizeof(fake_sb));
	fake_fs.magic = EXT2_ET_MAGIC_EXT2FS_FILSYS;
	fake_fs.super = &fake_sb;
	fake_fs.cluster_ratio_bits = cb;
	b_start = s; b_end = e; b_rend = re; cbits = cb;
	r = ext2fs_alloc_generic_bmap(&fake_fs, EXT2_ET_MAGIC_BLOCK_BITMAP64, EXT2FS_BMAP64_BITARRAY, s, e, re, "ba", &bm[0]);
	if (r) { fprintf(stderr, "alloc ba %ld\n", (long) r); exit(3); }
	r = ext2fs_alloc_generic_bmap(&fake_fs, EXT2_ET_MAGIC_BLOCK_BITMAP64, EXT2FS_BMAP64_RBTREE, s, e, re, "rb", &bm[1]);
	if (r) { fprintf(stderr, "alloc rb %ld\n", (long) r); exit(3); }
	if (cb == 0) {
		r = ext2fs_make_generic_bitmap(EXT2_ET_MAGIC_BLOCK_BITMAP, &fake_fs, s, e, re, "legacy", NULL, &bm[2]);
		if (r) { fprintf(stderr, "alloc 32 %ld\n", (long) r); exit(3); }
	}
}

static void print_bits(void)
{
	int i, first;
	unsigned long long p, s0;
	printf(",\"has32\":%d,\"bits\":[", bm[2] ? 1 : 0);
	for (i = 0; i < NB; i++) {
		if (i) printf(",");
		printf("[");
		if (bm[i] && i != 1) {
			first = 1;
			s0 = ext2fs_get_generic_bmap_start(bm[i]);
			for (p = s0; p <= ext2fs_get_generic_bmap_end(bm[i]); p++)
				if (ext2fs_test_generic_bmap(bm[i], p << cbits)) {
					printf("%s%llu", first ? "" : ",", p - s0);
					first = 0;
				}
		}
		printf("]");
	}
	printf("]");
}

/* the dump itself uses test, which moves rcursor: dump the rb state BEFORE reading the bit vectors,
 * and read the rb bit vector on a copy so that the live cursors are not disturbed */
static void print_state(void)
{
	static char buf[65536];
	ext2fs_generic_bitmap keep = bm[1], cp = NULL;
	if (ext2fs_verif_rb_dump(bm[1], buf, sizeof(buf)) < 0)
		printf(",\"hookerr\":1");
	else
		printf(",%s", buf);
	/* ext2fs_copy_generic_bmap NULLs the source's rcursor for rbtree bitmaps, so instead read the bits of
	 * the live rb bitmap through get_range-free means: use find_first_set/zero which do not touch cursors */
	(void) keep; (void) cp;
}

static void rb_bits_nocursor(void)
{
	/* read the rb bitmap back with ffs/ffz only (neither touches a cursor) */
	unsigned long long s = ext2fs_get_generic_bmap_start(bm[1]), e = ext2fs_get_generic_bmap_end(bm[1]);
	unsigned long long p = s, q, x, last = (e << cbits) | ((1ULL << cbits) - 1);
	int first = 1;
	printf(",\"rbff\":[");
	while (p <= e) {
		__u64 out;
		errcode_t r = ext2fs_find_first_set_generic_bmap(bm[1], p << cbits, last, &out);
		if (r)
			break;
		q = out >> cbits;
		r = ext2fs_find_first_zero_generic_bmap(bm[1], q << cbits, last, &out);
		x = r ? e + 1 : (out >> cbits);
		if (x <= q) { printf("%s-1", first ? "" : ","); break; }	/* no progress: report an impossible position */
		for (; q < x; q++) {
			printf("%s%llu", first ? "" : ",", q - s);
			first = 0;
		}
		p = x;
	}
	printf("]");
}

static const char *ename(errcode_t r)
{
	static char b[32];
	if (r == 0) return "0";
	if (r == ENOENT) return "ENOENT";
	if (r == EINVAL) return "EINVAL";
	snprintf(b, sizeof(b), "E%ld", (long) r);
	return b;
}

int main(void)
{
	char line[8192], op[64], bits[4096];
	long long a, b;
	int i, lineno = 0;

	setvbuf(stdout, NULL, _IOFBF, 1 << 16);
	while (fgets(line, sizeof(line), stdin)) {
		a = b = 0; bits[0] = 0; op[0] = 0;
		lineno++;
		if (sscanf(line, "%63s", op) != 1)
			continue;
		if (!strcmp(op, "reset")) {
			unsigned long long s, e, re; int cb;
			sscanf(line, "%*s %llu %llu %llu %d", &s, &e, &re, &cb);
			do_reset(s, e, re, cb);
			printf("{\"e\":\"reset\",\"start\":%llu,\"rs_end\":%llu,\"rs_rend\":%llu,\"cb\":%d", s, e - s, re - s, cb);
			print_state();
			printf("}\n");
			continue;
		}
		sscanf(line, "%*s %lld %lld %4095s", &a, &b, bits);
		printf("{\"e\":\"%s\",\"a\":%lld,\"b\":%lld", op, a, b);
		if (!strcmp(op, "mark") || !strcmp(op, "unmark") || !strcmp(op, "test")) {
			printf(",\"ret\":[");
			for (i = 0; i < NB; i++) {
				int r = -1;
				if (bm[i]) {
					if (op[0] == 'm') r = ext2fs_mark_generic_bmap(bm[i], a);
					else if (op[0] == 'u') r = ext2fs_unmark_generic_bmap(bm[i], a);
					else r = ext2fs_test_generic_bmap(bm[i], a);
					r = !!r;
				}
				printf("%s%d", i ? "," : "", r);
			}
			printf("]");
		} else if (!strcmp(op, "mark_range") || !strcmp(op, "unmark_range")) {
			for (i = 0; i < NB; i++)
				if (bm[i]) {
					if (op[0] == 'm') ext2fs_mark_block_bitmap_range2(bm[i], a, b);
					else ext2fs_unmark_block_bitmap_range2(bm[i], a, b);
				}
			printf(",\"ret\":[0,0,0]");
		} else if (!strcmp(op, "test_range")) {
			printf(",\"ret\":[");
			for (i = 0; i < NB; i++)
				printf("%s%d", i ? "," : "", bm[i] ? !!ext2fs_test_block_bitmap_range2(bm[i], a, b) : -1);
			printf("]");
		} else if (!strcmp(op, "ffz") || !strcmp(op, "ffs")) {
			printf(",\"ret\":[");
			for (i = 0; i < NB; i++) {
				__u64 out = 0;
				errcode_t r;
				if (!bm[i]) { printf("%s-1", i ? "," : ""); continue; }
				r = (op[2] == 'z') ? ext2fs_find_first_zero_generic_bmap(bm[i], a, b, &out)
						   : ext2fs_find_first_set_generic_bmap(bm[i], a, b, &out);
				if (r) printf("%s%d", i ? "," : "", r == ENOENT ? -1 : -3);
				else printf("%s%llu", i ? "," : "", (unsigned long long) out);
			}
			printf("]");
		} else if (!strcmp(op, "get_range")) {
			printf(",\"ret\":[");
			for (i = 0; i < NB; i++) {
				unsigned char buf[1024];
				long long k;
				int first = 1;
				errcode_t r;
				printf("%s[", i ? "," : "");
				if (bm[i]) {
					memset(buf, 0xAA, sizeof(buf));	/* a stale buffer must not look like an answer */
					r = ext2fs_get_generic_bmap_range(bm[i], a, b, buf);
					if (r) printf("-1");
					else for (k = 0; k < b; k++)
						if ((buf[k >> 3] >> (k & 7)) & 1) { printf("%s%lld", first ? "" : ",", k); first = 0; }
				}
				printf("]");
			}
			printf("]");
		} else if (!strcmp(op, "set_range")) {
			unsigned char buf[1024];
			long long k;
			int first = 1;
			memset(buf, 0, sizeof(buf));
			printf(",\"bitsin\":[");
			for (k = 0; k < b && bits[k]; k++)
				if (bits[k] == '1') { buf[k >> 3] |= 1 << (k & 7); printf("%s%lld", first ? "" : ",", k); first = 0; }
			printf("]");
			for (i = 0; i < NB; i++)
				if (bm[i] && ext2fs_set_generic_bmap_range(bm[i], a, b, buf)) { fprintf(stderr, "set_range failed\n"); exit(3); }
		} else if (!strcmp(op, "clear")) {
			for (i = 0; i < NB; i++) if (bm[i]) ext2fs_clear_generic_bmap(bm[i]);
		} else if (!strcmp(op, "set_padding")) {
			for (i = 0; i < NB; i++) if (bm[i]) ext2fs_set_generic_bmap_padding(bm[i]);
		} else if (!strcmp(op, "resize")) {
			for (i = 0; i < NB; i++)
				if (bm[i] && ext2fs_resize_generic_bmap(bm[i], a, b)) { fprintf(stderr, "resize failed\n"); exit(3); }
			b_end = a; b_rend = b;
		} else if (!strcmp(op, "copy")) {
			for (i = 0; i < NB; i++) {
				ext2fs_generic_bitmap n = NULL;
				if (!bm[i]) continue;
				if (ext2fs_copy_generic_bmap(bm[i], &n)) { fprintf(stderr, "copy failed\n"); exit(3); }
				ext2fs_free_generic_bmap(bm[i]);
				bm[i] = n;
			}
		} else if (!strcmp(op, "cmp")) {
			printf(",\"ret\":[");
			for (i = 0; i < NB; i++) {
				ext2fs_generic_bitmap n = NULL;
				errcode_t r;
				if (!bm[i]) { printf("%s-1", i ? "," : ""); continue; }
				if (ext2fs_copy_generic_bmap(bm[i], &n)) { fprintf(stderr, "copy failed\n"); exit(3); }
				if (a >= 0) {
					if (ext2fs_test_generic_bmap(n, a << cbits)) ext2fs_unmark_generic_bmap(n, a << cbits);
					else ext2fs_mark_generic_bmap(n, a << cbits);
				} else if (a == -2) {
					/* same set, different padding: padding is not part of the set */
					ext2fs_set_generic_bmap_padding(n);
				}
				r = ext2fs_compare_generic_bmap(77, bm[i], n);
				printf("%s%d", i ? "," : "", r == 0 ? 0 : r == 77 ? 1 : -2);
				ext2fs_free_generic_bmap(n);
			}
			printf("]");
		} else {
			fprintf(stderr, "bmdrv: unknown op at line %d: %s", lineno, line);
			exit(3);
		}
		print_state();
		rb_bits_nocursor();
		/* full bit vectors of the bitarray and legacy back ends (test has no side effect there) */
		{
			print_bits();
		}
		printf("}\n");
	}
	free_all();
	return 0;
}
