/*
 * c01mk -- image builder helper of check C01 (gen/c01_extras.py): extents at the format's length limits.
 *
 * debugfs' `fallocate` only creates unwritten extents; the boundary catalogue of spec/Corrupt.tla (LongExtentFiles) also
 * needs WRITTEN extents of EXT_INIT_MAX_LEN blocks on a sparse image (no data is written).  Public libext2fs API only.
 *
 *   c01mk IMAGE  op...          ops are executed in order on the image opened read-write
 *      falloc INO w|u LBLK LEN     ext2fs_fallocate(FORCE_INIT | FORCE_UNINIT, no zeroing) of [LBLK, LBLK+LEN)
 *      punch  INO LBLK LEN         ext2fs_punch of [LBLK, LBLK+LEN)
 *      size   INO BLOCKS           i_size = BLOCKS * blocksize
 *   prints one line per op ("ok falloc ..." / "err <code> ..."); exit 0 iff every op succeeded.
 */
#include <stdio.h>
#include <stdlib.h>
#include <string.h>
#include "ext2fs/ext2_fs.h"
#include "ext2fs/ext2fs.h"

static int need(int i, int n, int argc)
{
	if (i + n >= argc) {
		fprintf(stderr, "c01mk: missing operands\n");
		exit(2);
	}
	return 1;
}

int main(int argc, char **argv)
{
	ext2_filsys fs;
	errcode_t err;
	int i, bad = 0;

	if (argc < 3) {
		fprintf(stderr, "usage: c01mk IMAGE op...\n");
		return 2;
	}
	err = ext2fs_open(argv[1], EXT2_FLAG_RW | EXT2_FLAG_64BITS, 0, 0, unix_io_manager, &fs);
	if (err) {
		printf("err %ld open\n", (long) err);
		return 1;
	}
	err = ext2fs_read_bitmaps(fs);
	if (err) {
		printf("err %ld read_bitmaps\n", (long) err);
		return 1;
	}
	for (i = 2; i < argc && !bad; ) {
		struct ext2_inode_large inode;
		ext2_ino_t ino;

		if (!strcmp(argv[i], "falloc") && need(i, 4, argc)) {
			int w = argv[i + 2][0] == 'w';
			blk64_t lblk = strtoull(argv[i + 3], 0, 0), len = strtoull(argv[i + 4], 0, 0);

			ino = strtoul(argv[i + 1], 0, 0);
			/* inode = NULL, as debugfs' do_fallocate calls it: the library reads and writes the inode itself */
			err = ext2fs_fallocate(fs, (w ? EXT2_FALLOCATE_FORCE_INIT : EXT2_FALLOCATE_FORCE_UNINIT) |
					       EXT2_FALLOCATE_INIT_BEYOND_EOF, ino, NULL, ~0ULL, lblk, len);
			printf("%s %ld falloc %u %s %llu %llu\n", err ? "err" : "ok", (long) err, ino, w ? "w" : "u",
			       (unsigned long long) lblk, (unsigned long long) len);
			i += 5;
		} else if (!strcmp(argv[i], "punch") && need(i, 3, argc)) {
			blk64_t lblk = strtoull(argv[i + 2], 0, 0), len = strtoull(argv[i + 3], 0, 0);

			ino = strtoul(argv[i + 1], 0, 0);
			err = ext2fs_punch(fs, ino, NULL, NULL, lblk, lblk + len - 1);
			printf("%s %ld punch %u %llu %llu\n", err ? "err" : "ok", (long) err, ino,
			       (unsigned long long) lblk, (unsigned long long) len);
			i += 4;
		} else if (!strcmp(argv[i], "size") && need(i, 2, argc)) {
			blk64_t blocks = strtoull(argv[i + 2], 0, 0);

			ino = strtoul(argv[i + 1], 0, 0);
			err = ext2fs_read_inode_full(fs, ino, (struct ext2_inode *) &inode, sizeof(inode));
			if (!err)
				err = ext2fs_inode_size_set(fs, (struct ext2_inode *) &inode, blocks * fs->blocksize);
			if (!err)
				err = ext2fs_write_inode_full(fs, ino, (struct ext2_inode *) &inode, sizeof(inode));
			printf("%s %ld size %u %llu\n", err ? "err" : "ok", (long) err, ino, (unsigned long long) blocks);
			i += 3;
		} else {
			fprintf(stderr, "c01mk: unknown op %s\n", argv[i]);
			return 2;
		}
		if (err)
			bad = 1;
	}
	err = ext2fs_close_free(&fs);
	if (err) {
		printf("err %ld close\n", (long) err);
		bad = 1;
	}
	return bad;
}
