/*
 * bmload -- loads the allocation bitmaps of an image with ext2fs_rw_bitmaps(fs, BLOCK|INODE, n) for a list
 * of thread counts and compares every outcome (returned error code, presence of fs->block_map / fs->inode_map
 * after the call, all block bits, all inode bits, the tail-problem bits of fs->flags) with the single-threaded
 * load of the same image.
 *
 *   bmload <image> <trace file> <n,n,...> <repetitions> [badtail=<group>] [damage=<kind>:<group>]...
 *
 * The filesystem is opened with EXT2_FLAG_THREADS, so the channel carries CHANNEL_FLAGS_THREADS.  One ndjson line
 * {"e":"Load",...} is appended to <trace file> before each load and one {"e":"Done",...} after it; hook H3 inside
 * rw_bitmaps.c (environment variable VERIF_TRACE, set by the caller to the same file) appends the ThStart / Enter /
 * Leave / ThEnd events in between.
 *
 * badtail=<g> clears the padding bits of group g's block bitmap block in the image first, which makes the loader
 * set EXT2_FLAG_BBITMAP_TAIL_PROBLEM.
 *
 * damage=<kind>:<g> (up to 4) makes a bitmap of group g unloadable; the group's BLOCK_UNINIT / INODE_UNINIT flags are
 * cleared first (and its bitmaps written out) so that the loader really reads them:
 *   bcsum | icsum   one bit of the block / inode bitmap block is flipped on disk: with metadata_csum the checksum no
 *                   longer matches (EXT2_ET_*_BITMAP_CSUM_INVALID); without it the load succeeds with that bit
 *   brd | ird       reading the block / inode bitmap block fails with EIO (a pass-through I/O manager around
 *                   unix_io_manager refuses exactly that block): EXT2_ET_*_BITMAP_READ
 *   trunc           the image file is cut right before the first bitmap block of group g: every bitmap block
 *                   behind the cut is a short read (EXT2_ET_*_BITMAP_READ)
 * The Load line carries "fail": [[group, kind, class], ...], the bitmaps that cannot be loaded (kind 0 = block,
 * 1 = inode; class 1 = BLOCK_BITMAP_READ, 2 = BLOCK_BITMAP_CSUM_INVALID, 3 = INODE_BITMAP_READ,
 * 4 = INODE_BITMAP_CSUM_INVALID), derived from the damage and the loader's documented rule for skipping a bitmap
 * (group flagged *_UNINIT under a valid group descriptor checksum, or location outside the filesystem).
 * The Done line: rv (0/1), rc (class of the returned error, 9 = anything else), bm / im (fs->block_map /
 * fs->inode_map present after the call), same_rc / same_b / same_i / same_f (equal to the single-threaded load).
 */
#define _GNU_SOURCE
#include <stdio.h>
#include <stdlib.h>
#include <string.h>
#include <fcntl.h>
#include <unistd.h>
#include <errno.h>
#include <sys/wait.h>
#include "ext2fs/ext2_fs.h"
#include "ext2fs/ext2fs.h"

#define TAILBITS (EXT2_FLAG_BBITMAP_TAIL_PROBLEM | EXT2_FLAG_IBITMAP_TAIL_PROBLEM)
#define MAXDMG 4
#define MAXFAIL 256

static int tfd = -1;

static void emit(const char *s)
{
	if (write(tfd, s, strlen(s)) != (ssize_t) strlen(s)) {
		fprintf(stderr, "bmload: trace write failed\n");
		exit(3);
	}
}

/* ---- pass-through I/O manager that refuses to read chosen blocks (stateless after open: thread-safe) ---- */
static struct struct_io_manager rf_mgr;
static io_channel rf_real;
static unsigned long long rf_blocks[MAXDMG];
static int rf_n;

static void rf_sync(io_channel c)
{
	c->block_size = rf_real->block_size;
	c->flags = rf_real->flags;
	c->align = rf_real->align;
}
static errcode_t rf_open(const char *name, int flags, io_channel *channel)
{
	io_channel io;
	errcode_t rc = unix_io_manager->open(name, flags, &rf_real);
	if (rc)
		return rc;
	io = calloc(1, sizeof(*io));
	io->magic = EXT2_ET_MAGIC_IO_CHANNEL;
	io->manager = &rf_mgr;
	io->name = strdup(name);
	io->refcount = 1;
	rf_sync(io);
	*channel = io;
	return 0;
}
static errcode_t rf_close(io_channel c)
{
	errcode_t rc;
	if (--c->refcount > 0)
		return 0;
	rc = io_channel_close(rf_real);
	free(c->name);
	free(c);
	return rc;
}
static errcode_t rf_set_blksize(io_channel c, int bs) { errcode_t rc = io_channel_set_blksize(rf_real, bs); rf_sync(c); return rc; }
static errcode_t rf_read64(io_channel c, unsigned long long b, int n, void *d)
{
	int i;
	(void) c;
	for (i = 0; i < rf_n; i++)
		if (n > 0 ? (rf_blocks[i] >= b && rf_blocks[i] < b + n) : rf_blocks[i] == b)
			return EIO;
	return io_channel_read_blk64(rf_real, b, n, d);
}
static errcode_t rf_write64(io_channel c, unsigned long long b, int n, const void *d) { (void) c; return io_channel_write_blk64(rf_real, b, n, d); }
static errcode_t rf_read(io_channel c, unsigned long b, int n, void *d) { return rf_read64(c, b, n, d); }
static errcode_t rf_write(io_channel c, unsigned long b, int n, const void *d) { return rf_write64(c, b, n, d); }
static errcode_t rf_flush(io_channel c) { (void) c; return io_channel_flush(rf_real); }
static errcode_t rf_option(io_channel c, const char *o, const char *a)
{
	errcode_t rc = rf_real->manager->set_option(rf_real, o, a);
	rf_sync(c);
	return rc;
}
static errcode_t rf_stats(io_channel c, io_stats *s) { (void) c; return rf_real->manager->get_stats(rf_real, s); }
static errcode_t rf_readahead(io_channel c, unsigned long long b, unsigned long long n) { (void) c; return io_channel_cache_readahead(rf_real, b, n); }
static void rf_init(void)
{
	memset(&rf_mgr, 0, sizeof(rf_mgr));
	rf_mgr.magic = EXT2_ET_MAGIC_IO_MANAGER;
	rf_mgr.name = "verif read-refusing pass-through";
	rf_mgr.open = rf_open; rf_mgr.close = rf_close; rf_mgr.set_blksize = rf_set_blksize;
	rf_mgr.read_blk = rf_read; rf_mgr.write_blk = rf_write; rf_mgr.flush = rf_flush;
	rf_mgr.set_option = rf_option; rf_mgr.get_stats = rf_stats;
	rf_mgr.read_blk64 = rf_read64; rf_mgr.write_blk64 = rf_write64; rf_mgr.cache_readahead = rf_readahead;
}

/* ---- outcome of one load ---- */
struct snap {
	unsigned char *b, *i;
	unsigned long long nb;
	unsigned long ni;
	int flags, rc, bm, im;
};

static int rc_class(errcode_t rc)
{
	if (!rc) return 0;
	if (rc == EXT2_ET_BLOCK_BITMAP_READ) return 1;
	if (rc == EXT2_ET_BLOCK_BITMAP_CSUM_INVALID) return 2;
	if (rc == EXT2_ET_INODE_BITMAP_READ) return 3;
	if (rc == EXT2_ET_INODE_BITMAP_CSUM_INVALID) return 4;
	return 9;
}

static void take(ext2_filsys fs, errcode_t rc, struct snap *s)
{
	unsigned long long blk, first = fs->super->s_first_data_block, cnt = ext2fs_blocks_count(fs->super);
	unsigned long ino;

	memset(s, 0, sizeof(*s));
	s->rc = rc_class(rc);
	s->bm = fs->block_map != NULL;
	s->im = fs->inode_map != NULL;
	s->nb = cnt - first;
	s->ni = fs->super->s_inodes_count;
	s->b = calloc(1, s->nb + 1);
	s->i = calloc(1, s->ni + 1);
	if (s->bm)
		for (blk = first; blk < cnt; blk++)
			s->b[blk - first] = ext2fs_test_block_bitmap2(fs->block_map, blk) ? 1 : 0;
	if (s->im)
		for (ino = 1; ino <= s->ni; ino++)
			s->i[ino - 1] = ext2fs_test_inode_bitmap2(fs->inode_map, ino) ? 1 : 0;
	s->flags = fs->flags & TAILBITS;
}

static void drop(struct snap *s)
{
	free(s->b);
	free(s->i);
}

/* the loader skips a bitmap (treats it as all-zero) under this rule: rw_bitmaps.c, read_bitmaps_range_start() */
static int is_read(ext2_filsys fs, dgrp_t g, int kind)
{
	blk64_t blk = kind ? ext2fs_inode_bitmap_loc(fs, g) : ext2fs_block_bitmap_loc(fs, g);
	if (ext2fs_has_group_desc_csum(fs) &&
	    ext2fs_bg_flags_test(fs, g, kind ? EXT2_BG_INODE_UNINIT : EXT2_BG_BLOCK_UNINIT) &&
	    ext2fs_group_desc_csum_verify(fs, g))
		return 0;
	return blk != 0 && blk < ext2fs_blocks_count(fs->super);
}

struct dmg { char kind[8]; int g; };

int main(int argc, char **argv)
{
	ext2_filsys fs;
	errcode_t rc;
	struct snap ref, cur;
	char line[8192], failtxt[6144], *p, *list;
	int reps, r, n, bad = -1, status = 0, a, nd = 0, i, nfail = 0;
	struct dmg dm[MAXDMG];
	int fail[MAXFAIL][3];
	long long cut = -1;		/* image cut at this block (trunc) */
	io_manager mgr = unix_io_manager;

	if (argc < 5) {
		fprintf(stderr, "usage: bmload image trace n,n,... reps [badtail=g] [damage=kind:g]...\n");
		return 2;
	}
	reps = atoi(argv[4]);
	for (a = 5; a < argc; a++) {
		if (!strncmp(argv[a], "badtail=", 8))
			bad = atoi(argv[a] + 8);
		else if (!strncmp(argv[a], "damage=", 7) && nd < MAXDMG) {
			if (sscanf(argv[a] + 7, "%7[a-z]:%d", dm[nd].kind, &dm[nd].g) != 2) {
				fprintf(stderr, "bmload: bad damage argument %s\n", argv[a]);
				return 2;
			}
			nd++;
		} else {
			fprintf(stderr, "bmload: bad argument %s\n", argv[a]);
			return 2;
		}
	}
	tfd = open(argv[2], O_WRONLY | O_CREAT | O_APPEND, 0644);
	if (tfd < 0) {
		perror(argv[2]);
		return 3;
	}
	if (nd) {
		/* the damaged groups get initialized bitmaps on disk; done in a child without VERIF_TRACE so that hook H3
		 * (which reads the variable once per process) logs nothing for this preparatory load */
		pid_t pid = fork();
		int st = 0;
		if (pid < 0) { perror("bmload: fork"); return 3; }
		if (pid == 0) {
			unsetenv("VERIF_TRACE");
			rc = ext2fs_open2(argv[1], NULL, EXT2_FLAG_64BITS | EXT2_FLAG_RW, 0, 0, unix_io_manager, &fs);
			if (rc) { fprintf(stderr, "bmload: open rw %ld\n", (long) rc); _exit(3); }
			rc = ext2fs_read_bitmaps(fs);
			if (rc) { fprintf(stderr, "bmload: read bitmaps (preparation) %ld\n", (long) rc); _exit(3); }
			for (i = 0; i < nd; i++) {
				if (dm[i].g < 0 || (unsigned) dm[i].g >= fs->group_desc_count) { fprintf(stderr, "bmload: no such group\n"); _exit(3); }
				ext2fs_bg_flags_clear(fs, dm[i].g, EXT2_BG_BLOCK_UNINIT | EXT2_BG_INODE_UNINIT);
				ext2fs_group_desc_csum_set(fs, dm[i].g);
			}
			ext2fs_mark_bb_dirty(fs);
			ext2fs_mark_ib_dirty(fs);
			ext2fs_mark_super_dirty(fs);
			rc = ext2fs_close_free(&fs);
			if (rc) { fprintf(stderr, "bmload: close (preparation) %ld\n", (long) rc); _exit(3); }
			_exit(0);
		}
		if (waitpid(pid, &st, 0) != pid || !WIFEXITED(st) || WEXITSTATUS(st) != 0) {
			fprintf(stderr, "bmload: preparation of the damaged groups failed\n");
			return 3;
		}
	}
	if (bad >= 0 || nd) {
		unsigned char z[8] = { 0 }, c;
		blk64_t loc;
		int fd, k, csum;
		dgrp_t g;

		rc = ext2fs_open2(argv[1], NULL, EXT2_FLAG_64BITS, 0, 0, unix_io_manager, &fs);
		if (rc) { fprintf(stderr, "bmload: open %ld\n", (long) rc); return 3; }
		csum = ext2fs_has_feature_metadata_csum(fs->super);
		fd = open(argv[1], O_RDWR);
		if (fd < 0) { perror("bmload: image"); return 3; }
		if (bad >= 0) {
			/* clear the padding at the end of group `bad`'s block bitmap block */
			if ((unsigned) bad >= fs->group_desc_count) { fprintf(stderr, "bmload: no such group\n"); return 3; }
			loc = ext2fs_block_bitmap_loc(fs, bad);
			if (pwrite(fd, z, 8, (off_t) loc * fs->blocksize + fs->blocksize - 8) != 8) { perror("badtail"); return 3; }
		}
		for (i = 0; i < nd; i++) {
			k = (dm[i].kind[0] == 'i');
			loc = k ? ext2fs_inode_bitmap_loc(fs, dm[i].g) : ext2fs_block_bitmap_loc(fs, dm[i].g);
			if (!strcmp(dm[i].kind, "bcsum") || !strcmp(dm[i].kind, "icsum")) {
				off_t off = (off_t) loc * fs->blocksize + 1;
				if (!is_read(fs, dm[i].g, k)) { fprintf(stderr, "bmload: bitmap to damage is not read by the loader\n"); return 3; }
				if (pread(fd, &c, 1, off) != 1) { perror("bmload: pread"); return 3; }
				c ^= 0x10;
				if (pwrite(fd, &c, 1, off) != 1) { perror("bmload: pwrite"); return 3; }
				if (csum && nfail < MAXFAIL) {
					fail[nfail][0] = dm[i].g; fail[nfail][1] = k; fail[nfail][2] = k ? 4 : 2; nfail++;
				}
			} else if (!strcmp(dm[i].kind, "brd") || !strcmp(dm[i].kind, "ird")) {
				if (!is_read(fs, dm[i].g, k)) { fprintf(stderr, "bmload: bitmap to damage is not read by the loader\n"); return 3; }
				rf_blocks[rf_n++] = loc;
				if (nfail < MAXFAIL) {
					fail[nfail][0] = dm[i].g; fail[nfail][1] = k; fail[nfail][2] = k ? 3 : 1; nfail++;
				}
			} else if (!strcmp(dm[i].kind, "trunc")) {
				blk64_t b0 = ext2fs_block_bitmap_loc(fs, dm[i].g), b1 = ext2fs_inode_bitmap_loc(fs, dm[i].g);
				long long at = (long long) (b0 < b1 ? b0 : b1);
				if (cut < 0 || at < cut)
					cut = at;
			} else {
				fprintf(stderr, "bmload: unknown damage kind %s\n", dm[i].kind);
				return 2;
			}
		}
		if (cut >= 0) {
			if (ftruncate(fd, (off_t) cut * fs->blocksize)) { perror("bmload: ftruncate"); return 3; }
			for (g = 0; g < fs->group_desc_count; g++)
				for (k = 0; k < 2; k++) {
					loc = k ? ext2fs_inode_bitmap_loc(fs, g) : ext2fs_block_bitmap_loc(fs, g);
					if ((long long) loc >= cut && is_read(fs, g, k) && nfail < MAXFAIL) {
						int j, dup = 0;
						for (j = 0; j < nfail; j++)
							if (fail[j][0] == (int) g && fail[j][1] == k)
								dup = 1;	/* the earlier cause (checksum is verified after the read: the read error wins) */
						if (dup) {
							for (j = 0; j < nfail; j++)
								if (fail[j][0] == (int) g && fail[j][1] == k)
									fail[j][2] = k ? 3 : 1;
						} else {
							fail[nfail][0] = g; fail[nfail][1] = k; fail[nfail][2] = k ? 3 : 1; nfail++;
						}
					}
				}
		}
		/* a refused read beats a checksum damage of the same bitmap */
		for (i = 0; i < nfail; i++) {
			int j;
			for (j = i + 1; j < nfail; j++)
				if (fail[j][0] == fail[i][0] && fail[j][1] == fail[i][1]) {
					if (fail[j][2] == 1 || fail[j][2] == 3)
						fail[i][2] = fail[j][2];
					memmove(&fail[j], &fail[j + 1], (nfail - j - 1) * sizeof(fail[0]));
					nfail--; j--;
				}
		}
		close(fd);
		ext2fs_close_free(&fs);
	}
	if (rf_n) {
		rf_init();
		mgr = &rf_mgr;
	}
	p = failtxt;
	p += sprintf(p, "[");
	for (i = 0; i < nfail; i++)
		p += sprintf(p, "%s[%d,%d,%d]", i ? "," : "", fail[i][0], fail[i][1], fail[i][2]);
	sprintf(p, "]");

	rc = ext2fs_open2(argv[1], NULL, EXT2_FLAG_64BITS | EXT2_FLAG_THREADS, 0, 0, mgr, &fs);
	if (rc) {
		fprintf(stderr, "bmload: open %ld\n", (long) rc);
		return 3;
	}
	/* reference: the sequential path */
	snprintf(line, sizeof(line), "{\"e\":\"Load\",\"G\":%u,\"nreq\":1,\"flex\":%u,\"hasflex\":%d,\"chthr\":%d,\"kinds\":2,\"fail\":%s}\n",
		 fs->group_desc_count, 1U << fs->super->s_log_groups_per_flex, ext2fs_has_feature_flex_bg(fs->super) ? 1 : 0,
		 (fs->io->flags & CHANNEL_FLAGS_THREADS) ? 1 : 0, failtxt);
	emit(line);
	fs->flags &= ~TAILBITS;
	rc = ext2fs_rw_bitmaps(fs, (EXT2FS_BITMAPS_BLOCK | EXT2FS_BITMAPS_INODE), 1);
	if (rc && !nd) {
		fprintf(stderr, "bmload: single-threaded load of an undamaged image failed %ld\n", (long) rc);
		return 3;
	}
	take(fs, rc, &ref);
	snprintf(line, sizeof(line), "{\"e\":\"Done\",\"rv\":%d,\"rc\":%d,\"bm\":%d,\"im\":%d,\"same_rc\":1,\"same_b\":1,\"same_i\":1,\"same_f\":1,\"tail\":%d}\n",
		 rc ? 1 : 0, ref.rc, ref.bm, ref.im, ref.flags ? 1 : 0);
	emit(line);

	list = strdup(argv[3]);
	for (r = 0; r < reps; r++) {
		strcpy(list, argv[3]);
		for (p = strtok(list, ","); p; p = strtok(NULL, ",")) {
			int sb, si, sf, sr;
			n = atoi(p);
			fs->flags &= ~TAILBITS;
			snprintf(line, sizeof(line), "{\"e\":\"Load\",\"G\":%u,\"nreq\":%d,\"flex\":%u,\"hasflex\":%d,\"chthr\":%d,\"kinds\":2,\"fail\":%s}\n",
				 fs->group_desc_count, n, 1U << fs->super->s_log_groups_per_flex,
				 ext2fs_has_feature_flex_bg(fs->super) ? 1 : 0, (fs->io->flags & CHANNEL_FLAGS_THREADS) ? 1 : 0, failtxt);
			emit(line);
			rc = ext2fs_rw_bitmaps(fs, (EXT2FS_BITMAPS_BLOCK | EXT2FS_BITMAPS_INODE), n);
			take(fs, rc, &cur);
			sr = cur.rc == ref.rc;
			sb = cur.bm == ref.bm && cur.nb == ref.nb && !memcmp(cur.b, ref.b, ref.nb);
			si = cur.im == ref.im && cur.ni == ref.ni && !memcmp(cur.i, ref.i, ref.ni);
			sf = cur.flags == ref.flags;
			snprintf(line, sizeof(line), "{\"e\":\"Done\",\"rv\":%d,\"rc\":%d,\"bm\":%d,\"im\":%d,\"same_rc\":%d,\"same_b\":%d,\"same_i\":%d,\"same_f\":%d,\"tail\":%d}\n",
				 rc ? 1 : 0, cur.rc, cur.bm, cur.im, sr, sb, si, sf, cur.flags ? 1 : 0);
			emit(line);
			if (!sr || !sb || !si || !sf)
				status = 1;
			drop(&cur);
		}
	}
	drop(&ref);
	ext2fs_close_free(&fs);
	close(tfd);
	return status;
}
