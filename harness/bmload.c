/*
 * bmload -- loads the allocation bitmaps of an image with ext2fs_rw_bitmaps(fs, BLOCK|INODE, n) for a list
 * of thread counts and compares every result (all block bits, all inode bits, the tail-problem bits of fs->flags)
 * with the single-threaded load of the same image.
 *
 *   bmload <image> <trace file> <n,n,...> <repetitions> [badtail=<group>]
 *
 * The filesystem is opened with EXT2_FLAG_THREADS, so the channel carries CHANNEL_FLAGS_THREADS.  One ndjson line
 * {"e":"Load",...} is appended to <trace file> before each load and one {"e":"Done",...} after it; hook H3 inside
 * rw_bitmaps.c (environment variable VERIF_TRACE, set by the caller to the same file) appends the ThStart / Enter /
 * Leave / ThEnd events in between.  badtail=<g> clears the padding bits of group g's block bitmap block in the
 * image first, which makes the loader set EXT2_FLAG_BBITMAP_TAIL_PROBLEM.
 */
#define _GNU_SOURCE
#include <stdio.h>
#include <stdlib.h>
#include <string.h>
#include <fcntl.h>
#include <unistd.h>
#include "ext2fs/ext2_fs.h"
#include "ext2fs/ext2fs.h"

static int tfd = -1;

static void emit(const char *s)
{
	if (write(tfd, s, strlen(s)) != (ssize_t) strlen(s)) {
		fprintf(stderr, "bmload: trace write failed\n");
		exit(3);
	}
}

struct snap {
	unsigned char *b, *i;
	unsigned long long nb;
	unsigned long ni;
	int flags;
};

static void take(ext2_filsys fs, struct snap *s)
{
	unsigned long long blk, first = fs->super->s_first_data_block, cnt = ext2fs_blocks_count(fs->super);
	unsigned long ino;

	s->nb = cnt - first;
	s->ni = fs->super->s_inodes_count;
	s->b = calloc(1, s->nb + 1);
	s->i = calloc(1, s->ni + 1);
	for (blk = first; blk < cnt; blk++)
		s->b[blk - first] = ext2fs_test_block_bitmap2(fs->block_map, blk) ? 1 : 0;
	for (ino = 1; ino <= s->ni; ino++)
		s->i[ino - 1] = ext2fs_test_inode_bitmap2(fs->inode_map, ino) ? 1 : 0;
	s->flags = fs->flags & (EXT2_FLAG_BBITMAP_TAIL_PROBLEM | EXT2_FLAG_IBITMAP_TAIL_PROBLEM);
}

static void drop(struct snap *s)
{
	free(s->b);
	free(s->i);
}

int main(int argc, char **argv)
{
	ext2_filsys fs;
	errcode_t rc;
	struct snap ref, cur;
	char line[512], *p, *list;
	int reps, r, n, bad = -1, status = 0;

	if (argc < 5) {
		fprintf(stderr, "usage: bmload image trace n,n,... reps [badtail=g]\n");
		return 2;
	}
	reps = atoi(argv[4]);
	if (argc > 5 && !strncmp(argv[5], "badtail=", 8))
		bad = atoi(argv[5] + 8);
	tfd = open(argv[2], O_WRONLY | O_CREAT | O_APPEND, 0644);
	if (tfd < 0) {
		perror(argv[2]);
		return 3;
	}
	if (bad >= 0) {
		/* clear the padding at the end of group `bad`'s block bitmap block */
		unsigned char z[8] = { 0 };
		blk64_t loc;
		int fd;
		rc = ext2fs_open2(argv[1], NULL, EXT2_FLAG_64BITS, 0, 0, unix_io_manager, &fs);
		if (rc) { fprintf(stderr, "bmload: open %ld\n", (long) rc); return 3; }
		if ((unsigned) bad >= fs->group_desc_count) { fprintf(stderr, "bmload: no such group\n"); return 3; }
		loc = ext2fs_block_bitmap_loc(fs, bad);
		fd = open(argv[1], O_WRONLY);
		if (fd < 0 || pwrite(fd, z, 8, (off_t) loc * fs->blocksize + fs->blocksize - 8) != 8) { perror("badtail"); return 3; }
		close(fd);
		ext2fs_close_free(&fs);
	}
	rc = ext2fs_open2(argv[1], NULL, EXT2_FLAG_64BITS | EXT2_FLAG_THREADS, 0, 0, unix_io_manager, &fs);
	if (rc) {
		fprintf(stderr, "bmload: open %ld\n", (long) rc);
		return 3;
	}
	/* reference: the sequential path */
	snprintf(line, sizeof(line), "{\"e\":\"Load\",\"G\":%u,\"nreq\":1,\"flex\":%u,\"hasflex\":%d,\"chthr\":%d,\"kinds\":2}\n",
		 fs->group_desc_count, 1U << fs->super->s_log_groups_per_flex, ext2fs_has_feature_flex_bg(fs->super) ? 1 : 0,
		 (fs->io->flags & CHANNEL_FLAGS_THREADS) ? 1 : 0);
	emit(line);
	rc = ext2fs_rw_bitmaps(fs, (EXT2FS_BITMAPS_BLOCK | EXT2FS_BITMAPS_INODE), 1);
	if (rc) {
		fprintf(stderr, "bmload: single-threaded load failed %ld\n", (long) rc);
		return 3;
	}
	take(fs, &ref);
	snprintf(line, sizeof(line), "{\"e\":\"Done\",\"rv\":0,\"same_b\":1,\"same_i\":1,\"same_f\":1,\"tail\":%d}\n", ref.flags ? 1 : 0);
	emit(line);

	list = strdup(argv[3]);
	for (r = 0; r < reps; r++) {
		strcpy(list, argv[3]);
		for (p = strtok(list, ","); p; p = strtok(NULL, ",")) {
			int sb, si, sf;
			n = atoi(p);
			fs->flags &= ~(EXT2_FLAG_BBITMAP_TAIL_PROBLEM | EXT2_FLAG_IBITMAP_TAIL_PROBLEM);
			snprintf(line, sizeof(line), "{\"e\":\"Load\",\"G\":%u,\"nreq\":%d,\"flex\":%u,\"hasflex\":%d,\"chthr\":%d,\"kinds\":2}\n",
				 fs->group_desc_count, n, 1U << fs->super->s_log_groups_per_flex,
				 ext2fs_has_feature_flex_bg(fs->super) ? 1 : 0, (fs->io->flags & CHANNEL_FLAGS_THREADS) ? 1 : 0);
			emit(line);
			rc = ext2fs_rw_bitmaps(fs, (EXT2FS_BITMAPS_BLOCK | EXT2FS_BITMAPS_INODE), n);
			if (rc) {
				snprintf(line, sizeof(line), "{\"e\":\"Done\",\"rv\":1,\"same_b\":0,\"same_i\":0,\"same_f\":0,\"tail\":0}\n");
				emit(line);
				status = 1;
				continue;
			}
			take(fs, &cur);
			sb = cur.nb == ref.nb && !memcmp(cur.b, ref.b, ref.nb);
			si = cur.ni == ref.ni && !memcmp(cur.i, ref.i, ref.ni);
			sf = cur.flags == ref.flags;
			snprintf(line, sizeof(line), "{\"e\":\"Done\",\"rv\":0,\"same_b\":%d,\"same_i\":%d,\"same_f\":%d,\"tail\":%d}\n",
				 sb, si, sf, cur.flags ? 1 : 0);
			emit(line);
			if (!sb || !si || !sf)
				status = 1;
			drop(&cur);
		}
	}
	drop(&ref);
	ext2fs_close_free(&fs);
	close(tfd);
	return status;
}
