"""X01 -- the multi-mount protection protocol (lib/ext2fs/mmp.c as used by e2fsck, tune2fs, debugfs, dumpe2fs, mke2fs).
An extension beyond the 20 listed properties (DESIGN section 10); not registered in MANIFEST.json.

 (1) TLC model-checks spec/Mmp.tla: 2 nodes (thorough: 3) of every tool kind over one shared MMP block, reads, writes,
     wake-ups and clock polls as separate steps, crashes, damage from outside, operator reset.  Invariants
     MutualExclusion, NoFalseClean, DetectableOverlap, WrittenValid, SkipNeverWrites, AbortLeavesBlock; liveness
     Progress, StaleActiveRecoverable.  Every literal-deviation constant is run too and must give the counterexample
     recorded for it (MC_Mmp_Dev*.cfg); the ones that describe the unchanged code are printed as KNOWN-FINDING.
 (2) spec -> code: TLC simulates Sim_Mmp (Mmp + a recorded schedule) and every simulated behaviour is REPLAYED with real
     tool processes on one image under harness/mmptrace.so: each access to the MMP block, each sleep and each clock
     poll of ext2fs_mmp_update2 blocks on the controller below, which releases the processes in the order of the schedule
     (virtual time; sequence numbers and host names as the schedule says).  What every step read / wrote, what the node
     waits for next, the block on the image after the step and the exit status must be what the behaviour says.
 (3) code -> spec: every recorded run (the replays and runs under schedules drawn by the check itself) is validated by
     TLC as a behaviour of Trace_Mmp, all invariants of the literal configuration evaluated after every step."""
import os, sys, json, random, shutil, subprocess, time, socket, struct, select, signal, hashlib, re, glob
from common import VERIF, fast_tmp, seed, die_broken, NPROC, tool_env
from common import run as sh
import build, tlc as T, tracecheck
from evidence import Evidence, Verdict

PID = "X01"
SPEC = os.path.join(VERIF, "spec")
WORKERS = 4
SEQ_CLEAN, SEQ_FSCK, SEQ_MAX, MMP_MAGIC = 0xFF4D4D50, 0xE24D4D50, 0xE24D4D4F, 0x004D4D50
CLEAN, FSCK, UNKNOWN = 2000, 1000, 1001          # the encoding of Mmp.tla
STEP_TIMEOUT = 60


class Broken(Exception):
    pass


class Shape(Exception):
    """the tool process does something with the MMP block that no step of the specification does"""
    pass


# ------------------------------------------------------------------------------------------------------------------
# the MMP block as the check reads it (independent of the library: struct layout from ext2_fs.h, crc32c from the reader)
def crc32c_table():
    t = []
    for i in range(256):
        c = i
        for _ in range(8):
            c = (c >> 1) ^ 0x82F63B78 if c & 1 else c >> 1
        t.append(c)
    return t


_T = crc32c_table()


def crc32c(seed_, data):
    c = seed_
    for b in data:
        c = _T[(c ^ b) & 0xFF] ^ (c >> 8)
    return c & 0xFFFFFFFF


def parse_mmp(raw):
    """raw: >= 120 bytes laid out as mmptrace sends them (0..115 + checksum) or a whole block."""
    magic, seq, tm = struct.unpack_from("<IIQ", raw, 0)
    nodename = raw[16:80].split(b"\0")[0].decode("latin1")
    bdev = raw[80:112].split(b"\0")[0].decode("latin1")
    ival = struct.unpack_from("<H", raw, 112)[0]
    csum = struct.unpack_from("<I", raw, 1020 if len(raw) >= 1024 else 116)[0]
    return dict(magic=magic, seq=seq, time=tm, nodename=nodename, bdev=bdev, ival=ival, csum=csum)


class Image:
    def __init__(self, path, b):
        self.path = path
        rc, out, err = sh([os.path.join(b, "misc", "dumpe2fs"), "-h", path], env=tool_env(b))
        txt = out.decode()
        g = lambda k: re.search(r"^%s:\s*(.*)$" % re.escape(k), txt, re.M)
        if rc != 0 or not g("MMP block number"):
            raise Broken("dumpe2fs -h cannot describe the image: rc=%s %s" % (rc, err.decode()[-300:]))
        self.bs = int(g("Block size").group(1))
        self.mmp_blk = int(g("MMP block number").group(1))
        self.sbi = int(g("MMP update interval").group(1))
        self.off = self.bs * self.mmp_blk
        self.has_csum = "metadata_csum" in g("Filesystem features").group(1)
        self.uuid = bytes.fromhex(g("Filesystem UUID").group(1).replace("-", ""))
        m = g("Checksum seed")
        self.csum_seed = int(m.group(1), 16) if m else crc32c(0xFFFFFFFF, self.uuid)

    def raw(self):
        with open(self.path, "rb") as f:
            f.seek(self.off)
            return f.read(1024)

    def csum_ok(self, raw1024):
        if not self.has_csum:
            return True
        return crc32c(self.csum_seed, raw1024[:1020]) == struct.unpack_from("<I", raw1024, 1020)[0]


class Abs:
    """Real block -> the record of Mmp.tla.  Sequence numbers, times and host names are small by construction (the
    controller hands them out), anything else is mapped to UNKNOWN / -1 and makes the trace unacceptable."""
    def __init__(self, img):
        self.img = img

    def blk(self, d, ok):
        s = d["seq"]
        seq = CLEAN if s == SEQ_CLEAN else FSCK if s == SEQ_FSCK else UNKNOWN if s > SEQ_FSCK else (s if 0 < s < 1000 else -2)
        m = re.match(r"^node(\d+)$", d["nodename"])
        return dict(magic=(d["magic"] == MMP_MAGIC), seq=seq, time=(d["time"] if d["time"] < 2 ** 30 else -2),
                    node=(int(m.group(1)) if m else 0), ival=d["ival"], ok=bool(ok))

    def observe(self):
        raw = self.img.raw()
        return self.blk(parse_mmp(raw), self.img.csum_ok(raw))


# ------------------------------------------------------------------------------------------------------------------
# the controller: one tool process per node, released one step at a time
class Proc:
    def __init__(self):
        self.p = None; self.conn = None; self.buf = b""; self.pend = None; self.rc = None; self.kind = None
        self.out = None; self.wake = 0; self.events = 0


class Controller:
    def __init__(self, work, b, img, so, log=None):
        self.work, self.b, self.img, self.so = work, b, img, so
        self.abs = Abs(img)
        self.now = 0
        self.procs = {}
        self.spath = os.path.join(work, "ctl.sock")
        if os.path.exists(self.spath):
            os.unlink(self.spath)
        self.srv = socket.socket(socket.AF_UNIX, socket.SOCK_STREAM)
        self.srv.bind(self.spath)
        self.srv.listen(8)
        self.trace = []
        self.poll_ranges = {}

    def close(self):
        for n, pr in self.procs.items():
            if pr.p and pr.p.poll() is None:
                pr.p.kill(); pr.p.wait()
            if pr.conn:
                pr.conn.close()
            if pr.out:
                pr.out.close()
        self.srv.close()

    def poll_range(self, exe):
        if exe not in self.poll_ranges:
            rc, out, err = sh(["nm", "-S", "--defined-only", exe])
            m = re.search(r"^([0-9a-f]+) ([0-9a-f]+) [Tt] ext2fs_mmp_update2$", out.decode(), re.M)
            if not m:
                raise Broken("no symbol ext2fs_mmp_update2 in %s" % exe)
            self.poll_ranges[exe] = "%s:%s" % (m.group(1), m.group(2))
        return self.poll_ranges[exe]

    # -- line I/O with one process
    def _line(self, pr):
        """next line from the process, or None at end of stream"""
        t0 = time.time()
        while b"\n" not in pr.buf:
            r, _, _ = select.select([pr.conn], [], [], 1.0)
            if r:
                d = pr.conn.recv(4096)
                if not d:
                    return None
                pr.buf += d
            elif time.time() - t0 > STEP_TIMEOUT:
                raise Broken("a tool process does not reach its next scheduling point within %d s" % STEP_TIMEOUT)
        ln, pr.buf = pr.buf.split(b"\n", 1)
        return ln.decode()

    def _go(self, pr):
        pr.conn.sendall(b"G %d\n" % self.now)

    def _next_request(self, n, pr):
        """run until the process blocks again or ends; returns the 'r' payload seen on the way (if any)"""
        got = None
        while True:
            ln = self._line(pr)
            if ln is None:
                pr.p.wait()
                pr.rc = pr.p.returncode
                pr.pend = ("X", pr.rc)
                pr.conn.close(); pr.conn = None
                return got
            if ln.startswith("r "):
                got = ln[2:]
                continue
            if ln[0] in "RWSP":
                a = ln.split()
                pr.pend = (a[0], a[1] if len(a) > 1 else None)
                if a[0] == "S":
                    pr.wake = self.now + int(a[1])
                return got
            raise Broken("unexpected message from node %d: %r" % (n, ln))

    def pend_of(self, n):
        pr = self.procs[n]
        k, a = pr.pend
        if k == "S":
            return dict(next="S", dur=pr.wake - self.now, rc=-1)
        if k == "X":
            return dict(next="X", dur=0, rc=(a if a >= 0 else 128 - a))
        return dict(next=k, dur=0, rc=-1)

    def _decode(self, hexs):
        if hexs in (None, "short", "partial"):
            return None
        raw = bytes.fromhex(hexs)
        return raw

    def _absraw(self, raw120):
        """payload of a request (116 bytes + checksum): checksum validity needs the whole struct; the bytes 116..1019 are zero
        in every block the library builds, so rebuild it"""
        full = raw120[:116] + b"\0" * (1020 - 116) + raw120[116:120]
        return self.abs.blk(parse_mmp(full), self.img.csum_ok(full))

    # -- schedule steps
    def launch(self, n, kind, argv, seqval=None, polls=-1, extra_env=None):
        pr = Proc(); pr.kind = kind
        exe = argv[0]
        env = tool_env(self.b, {"LD_PRELOAD": self.so, "MMPTRACE_SOCK": self.spath, "MMPTRACE_NODE": str(n),
                                "MMPTRACE_TARGET": os.path.basename(self.img.path), "MMPTRACE_OFF": str(self.img.off),
                                "MMPTRACE_BS": str(self.img.bs), "MMPTRACE_HOST": "node%d" % n,
                                "MMPTRACE_POLL": self.poll_range(exe)})
        env.pop("E2FSPROGS_FAKE_TIME", None)
        if seqval is not None:
            env["MMPTRACE_SEQ"] = str(seqval)
        if extra_env:
            env.update(extra_env)
        pr.out = open(os.path.join(self.work, "node%d.out" % n), "wb")
        pr.p = subprocess.Popen(argv, env=env, stdin=subprocess.DEVNULL, stdout=pr.out, stderr=subprocess.STDOUT, cwd=self.work)
        self.srv.settimeout(STEP_TIMEOUT)
        try:
            pr.conn, _ = self.srv.accept()
        except socket.timeout:
            pr.p.kill()
            raise Broken("the tool process of node %d never connected (LD_PRELOAD not effective?)" % n)
        self.procs[n] = pr
        hello = self._line(pr)
        if not hello or not hello.startswith("H %d " % n):
            raise Broken("bad hello from node %d: %r" % (n, hello))
        self._go(pr)
        self._next_request(n, pr)
        ev = dict(e="L", n=n, kind=kind, polls=polls, imm=0, blk=self.abs.observe(), now=self.now)
        ev.update(self.pend_of(n))
        self.trace.append(ev)
        return ev

    def tick(self, d):
        self.now += d
        ev = dict(e="T", n=0, d=d, blk=self.abs.observe(), now=self.now)
        self.trace.append(ev)
        return ev

    def crash(self, n):
        pr = self.procs[n]
        if pr.p.poll() is None:
            pr.p.kill()
        pr.p.wait()
        if pr.conn:
            pr.conn.close(); pr.conn = None
        pr.pend = ("K", None)
        ev = dict(e="K", n=n, blk=self.abs.observe(), now=self.now)
        self.trace.append(ev)
        return ev

    def runnable(self, n):
        pr = self.procs.get(n)
        if pr is None or pr.pend[0] in ("X", "K"):
            return False
        if pr.pend[0] == "S" and self.now < pr.wake:
            return False
        return True

    def step(self, n):
        """release node n for one step of the specification"""
        pr = self.procs[n]
        k, a = pr.pend
        rd = wr = None
        if k == "S":
            if self.now < pr.wake:
                raise Broken("schedule wakes node %d before its time" % n)
            self._go(pr)
            self._next_request(n, pr)
            if pr.pend[0] != "R":
                raise Shape("node %d does not read the MMP block after its sleep (it asks for %r)" % (n, pr.pend))
            k = "R"
        if k == "R":
            self._go(pr)
            got = self._next_request(n, pr)
            raw = self._decode(got)
            if raw is None:
                raise Broken("node %d: read of the MMP block without payload" % n)
            rd = self._absraw(raw)
            ev = dict(e="R", n=n, rd=rd)
        elif k == "W":
            raw = self._decode(a)
            if raw is None:
                raise Shape("node %d writes part of the MMP block only" % n)
            wr = self._absraw(raw)
            self._go(pr)
            self._next_request(n, pr)
            ev = dict(e="W", n=n, wr=wr)
        elif k == "P":
            self._go(pr)
            self._next_request(n, pr)
            ev = dict(e="P", n=n)
        else:
            raise Shape("node %d is asked to take a step, its process has ended or was never started (%r)" % (n, pr.pend))
        ev["blk"] = self.abs.observe(); ev["now"] = self.now
        ev.update(self.pend_of(n))
        pr.events += 1
        self.trace.append(ev)
        return ev

    def drain(self, n):
        """release node n until its process ends, whatever it asks for (building the base image)"""
        pr = self.procs[n]
        for _ in range(200):
            if pr.pend[0] == "X":
                return pr.rc
            if pr.pend[0] == "S":
                self.now = max(self.now, pr.wake)
            self._go(pr)
            self._next_request(n, pr)
        raise Broken("process of node %d does not end" % n)


# ------------------------------------------------------------------------------------------------------------------
# tools
def tool_variants(b, img):
    t2, dbg, fsck, de = [os.path.join(b, p) for p in ("misc/tune2fs", "debugfs/debugfs", "e2fsck/e2fsck", "misc/dumpe2fs")]
    return {
        "rw": [("tune2fs-c", lambda n: [t2, "-c", str(20 + n), img]),
               ("tune2fs-L", lambda n: [t2, "-L", "lbl%d" % n, img]),
               ("debugfs-w", lambda n: [dbg, "-w", "-R", "ssv max_mnt_count %d" % (30 + n), img]),
               ],
        "rwd": [("debugfs-w-dump", lambda n: [dbg, "-w", "-R", "dump_mmp", img])],
        "fsck": [("e2fsck-fy", lambda n: [fsck, "-fy", img])],
        "ro": [("dumpe2fs-m", lambda n: [de, "-m", img])],
        "peek": [("dumpe2fs-h", lambda n: [de, "-h", img]), ("dumpe2fs", lambda n: [de, img]), ("dumpe2fs-mi", lambda n: [de, "-m", "-i", img]),
                 ("debugfs-c-dump", lambda n: [dbg, "-c", "-R", "dump_mmp", img]), ("debugfs-ro-dump", lambda n: [dbg, "-R", "dump_mmp", img])],
        "fsckn": [("e2fsck-fn", lambda n: [fsck, "-fn", img])],
        # (no writing tool here: two forced writers overlapping damage the superblock checksum -- ext2fs_flush writes only the words that
        #  changed against a stale copy -- and that is outside the MMP block's protocol)
        "skip": [("debugfs-ro", lambda n: [dbg, "-R", "stats", img]),
                 ("tune2fs-l", lambda n: [t2, "-l", img]), ("debugfs-c", lambda n: [dbg, "-c", "-R", "stats", img])],
        "clear": [("tune2fs-clear", lambda n: [t2, "-f", "-E", "clear_mmp", img])],
    }


def fail_of(kind, rc, out=""):
    """did the tool report that it could not do its work?  e2fsck: bit 8 of the exit status (operational error); debugfs
    exits 0 whatever happens, there the library's error message counts (the MMP codes' texts start with "MMP: ", except
    EXT2_ET_MMP_CSUM_INVALID "MMP block checksum does not match")"""
    if kind in ("fsck", "fsckn"):
        return bool(rc & 8) or rc >= 128
    return rc != 0 or "MMP: " in out or "MMP block checksum does not match" in out


def build_so(work):
    so = os.path.join(work, "mmptrace.so")
    rc, out, err = sh(["gcc", "-O2", "-fPIC", "-shared", "-o", so, os.path.join(VERIF, "harness", "mmptrace.c"), "-ldl"], timeout=120)
    if rc != 0:
        raise Broken("harness/mmptrace.c does not compile: " + err.decode()[-800:])
    return so


def make_base(work, b, so, sbi, bival, via_tune=False):
    """An image whose MMP block was written at virtual time 0 by host node0.  sbi = s_mmp_update_interval,
    bival = mmp_check_interval in the block (differs from sbi when the interval was changed with tune2fs -E afterwards)."""
    path = os.path.join(work, "base_%d_%d_%d.img" % (sbi, bival, via_tune))
    mk, t2 = os.path.join(b, "misc", "mke2fs"), os.path.join(b, "misc", "tune2fs")
    feats = "metadata_csum,^mmp" if via_tune else "metadata_csum,mmp"
    mkcmd = [mk, "-q", "-F", "-t", "ext4", "-O", feats, "-b", "1024", "-E", "mmp_update_interval=%d" % bival, path, "8M"]
    if via_tune:
        mkcmd = [mk, "-q", "-F", "-t", "ext4", "-O", feats, "-b", "1024", path, "8M"]
    steps = [mkcmd]
    if via_tune:
        if bival != 5:
            raise Broken("tune2fs -O mmp always writes check_interval 5 (the -E option is applied after ext2fs_mmp_init)")
        steps.append([t2, "-O", "mmp", path])
    if sbi != bival:
        steps.append([t2, "-f", "-E", "mmp_update_interval=%d" % sbi, path])
    # pass 1 without the hook: learn where the block is (the layout is the same in pass 2)
    for c in steps:
        rc, out, err = sh(c, env=tool_env(b))
        if rc != 0:
            raise Broken("cannot build the base image: %s: %s" % (" ".join(c), err.decode()[-400:]))
    img = Image(path, b)
    off = img.off
    os.unlink(path)
    # pass 2 under the hook: virtual time 0, host node0
    for c in steps:
        open(path, "ab").close()
        img0 = Image.__new__(Image); img0.path = path; img0.off = off; img0.bs = 1024; img0.has_csum = False; img0.csum_seed = 0
        ctl = Controller(work, b, img0, so)
        ctl.abs.observe = lambda: {}
        try:
            ctl.launch(0, "mk", c)
            rc = ctl.drain(0)
        finally:
            ctl.close()
        if rc != 0:
            raise Broken("cannot build the base image under the hook: %s rc=%s" % (" ".join(c), rc))
    img = Image(path, b)
    if img.off != off or img.sbi != sbi:
        raise Broken("base image layout is not reproducible (MMP block %d vs %d, interval %d vs %d)" % (img.off, off, img.sbi, sbi))
    return path


# ------------------------------------------------------------------------------------------------------------------
# running one behaviour
class Run:
    def __init__(self, work, b, so, base, tag):
        self.dir = os.path.join(work, tag)
        os.makedirs(self.dir, exist_ok=True)
        self.imgpath = os.path.join(self.dir, "fs.img")
        shutil.copyfile(base, self.imgpath)
        self.img = Image(self.imgpath, b)
        self.ctl = Controller(self.dir, b, self.img, so)
        self.variants = tool_variants(b, self.imgpath)
        self.b = b
        self.kinds = {}
        m = re.search(r"base_(\d+)_(\d+)_", os.path.basename(base))
        self.mkival = int(m.group(2)) if m else self.img.sbi      # the interval in force when the block was made (make_base)

    def lines(self):
        """the controller's events as lines of Trace_Mmp"""
        first = self.first
        out = [json.dumps(dict(e="I", n=0, blk=first, sbi=self.img.sbi, mkival=self.mkival, now=0, fail=False), sort_keys=True)]
        for ev in self.ctl.trace:
            d = dict(ev)
            d["fail"] = self.fail(d["n"], d.get("rc", -1)) if d.get("next") == "X" else False
            d.pop("rc", None)
            out.append(json.dumps(d, sort_keys=True))
        return out

    def start(self):
        self.first = self.ctl.abs.observe()

    def fail(self, n, rc):
        pr = self.ctl.procs[n]
        if pr.out:
            pr.out.flush()
        try:
            txt = open(os.path.join(self.dir, "node%d.out" % n), "rb").read().decode("latin1")
        except OSError:
            txt = ""
        return fail_of(self.kinds.get(n, ""), rc, txt)

    def launch(self, n, kind, variant, polls, seqval, samehost=False):
        name, mk = variant
        self.kinds[n] = kind
        extra = {"MMPTRACE_HOST": "node0"} if samehost else None
        return self.ctl.launch(n, kind, mk(n), seqval=seqval, polls=polls, extra_env=extra)

    def corrupt(self, what):
        raw = bytearray(self.img.raw())
        if what == "magic":
            raw[0] ^= 0xFF
        else:
            raw[1020] ^= 0xFF
        with open(self.imgpath, "r+b") as f:
            f.seek(self.img.off); f.write(bytes(raw))
        ev = dict(e="C", n=0, blk=self.ctl.abs.observe(), now=self.ctl.now)
        self.ctl.trace.append(ev)
        return ev

    def close(self):
        self.ctl.close()

    def cleanup(self):
        try:
            os.unlink(self.imgpath)
        except OSError:
            pass


def calibrate(work, b, so, base):
    """solo run of every tool variant on a clean block: number of polls it makes, and its event string (evidence)"""
    polls = {}
    runs = []
    for kind, vs in tool_variants(b, "x").items():
        for vi, v in enumerate(vs):
            r = Run(work, b, so, base, "cal_%s_%d" % (kind, vi))
            try:
                r.start()
                r.launch(1, kind, r.variants[kind][vi], -1, 1)
                for _ in range(200):
                    pr = r.ctl.procs[1]
                    if pr.pend[0] == "X":
                        break
                    if not r.ctl.runnable(1):
                        r.ctl.tick(pr.wake - r.ctl.now)
                    r.ctl.step(1)
                else:
                    raise Shape("solo run of %s does not end within 200 steps" % v[0])
                np_ = sum(1 for e in r.ctl.trace if e["e"] == "P")
                polls[(kind, vi)] = np_
                for e in r.ctl.trace:
                    if e["e"] == "L":
                        e["polls"] = np_
                runs.append((kind, v[0], r.lines()))
            finally:
                r.close(); r.cleanup()
    return polls, runs


def seq_plan(steps):
    """the sequence number each node writes in a schedule (first write of an active number by that node)"""
    plan = {}
    for s in steps:
        if s["a"] == "S" and s["pc"] in ("s_write1", "s_write1c") and s["n"] not in plan:
            plan[s["n"]] = s["blk"]["seq"]
    return plan


def replay_schedule(work, b, so, base, sched, polls, rng, tag, samehost=False, variants_pick=None):
    """spec -> code.  Returns (trace lines, divergence or None, info)."""
    steps = sched["steps"]
    r = Run(work, b, so, base, tag)
    div = None
    late_close = []
    try:
        r.start()
        if r.img.sbi != sched["sbi"]:
            raise Broken("schedule is for interval %d, image has %d" % (sched["sbi"], r.img.sbi))
        plan = seq_plan(steps)
        for i, s in enumerate(steps):
            a, n = s["a"], s["n"]
            if a == "L":
                kind = s["kind"]
                cands = [vi for vi in range(len(r.variants[kind])) if polls[(kind, vi)] == s["polls"]]
                if not cands:
                    raise Broken("no tool of kind %s makes %d polls" % (kind, s["polls"]))
                vi = (variants_pick or {}).get(n, rng.choice(cands))
                ev = r.launch(n, kind, r.variants[kind][vi], s["polls"], plan.get(n, 7), samehost=samehost)
            elif a == "T":
                ev = r.ctl.tick(s["d"])
            elif a == "K":
                ev = r.ctl.crash(n)
            elif a == "C":
                ev = r.corrupt("magic" if not s["blk"]["magic"] else "csum")
            else:
                pr = r.ctl.procs.get(n)
                if pr is None or not r.ctl.runnable(n):
                    div = dict(step=i, what="the specification lets node %d take a step, its process waits for %r" % (n, pr.pend if pr else None), expect=s)
                    break
                ev = r.ctl.step(n)
            exp_blk = s["blk"]
            got = dict(blk=ev["blk"], next=ev.get("next", ""), dur=ev.get("dur", 0))
            bad = []
            if ev["blk"] != exp_blk:
                bad.append("block after the step")
            if a in ("L", "S"):
                if (ev["next"], ev["dur"]) != (s["next"], s["dur"]):
                    bad.append("what the node waits for next")
                if ev["next"] == "X" and s["next"] == "X" and r.fail(n, ev["rc"]) != (s["res"] != "ok"):
                    if s["kind"] == "fsck" and s["res"] != "ok" and s["pc"] == "held":
                        late_close.append(dict(step=i, res=s["res"], rc=ev["rc"]))      # known finding FsckIgnoresCloseError
                    else:
                        bad.append("exit status %d for result %s" % (ev["rc"], s["res"]))
            if bad:
                div = dict(step=i, what="; ".join(bad), expect=dict(blk=exp_blk, next=s["next"], dur=s["dur"], res=s["res"], pc=s["pc"], n=n, a=a), got=got)
                break
        lines = r.lines()
        outs = {n: open(os.path.join(r.dir, "node%d.out" % n), "rb").read().decode("latin1")[-600:] for n in r.ctl.procs}
        if div is not None and any("Superblock checksum does not match" in o for o in outs.values()):
            div["uncounted"] = "a forced writer (tune2fs -f) overlapped another writer and the superblock checksum is wrong: outside the protocol of the MMP block"
        return lines, div, dict(outs=outs, kinds=dict(r.kinds), late_close=late_close)
    finally:
        r.close(); r.cleanup()


def random_run(work, b, so, base, polls, rng, tag, nnodes, kinds, crash_p=0.04, corrupt_p=0.0):
    """code -> spec: a schedule drawn by the check itself (every runnable choice with equal weight)"""
    r = Run(work, b, so, base, tag)
    try:
        r.start()
        launched, seqn, crashed, corrupted = 0, 1, 0, False
        for _ in range(400):
            ctl = r.ctl
            ch = []
            if launched < nnodes:
                ch += [("L",)] * 2
            for n in ctl.procs:
                pr = ctl.procs[n]
                if ctl.runnable(n):
                    ch += [("S", n)] * 3
                if pr.pend[0] == "S" and ctl.now < pr.wake:
                    ch.append(("T", pr.wake - ctl.now)); ch.append(("T", rng.choice([1, 5, 12])))
                if pr.pend[0] == "P":
                    ch.append(("T", rng.choice([1, 30, 61])))
                if pr.pend[0] in "RWSP" and crashed < 1 and rng.random() < crash_p:
                    ch.append(("K", n))
            if not corrupted and corrupt_p and rng.random() < corrupt_p:
                ch.append(("C",))
            if not ch:
                break
            c = rng.choice(ch)
            if c[0] == "L":
                launched += 1
                kind = rng.choice(kinds)
                vi = rng.randrange(len(r.variants[kind]))
                r.launch(launched, kind, r.variants[kind][vi], polls[(kind, vi)], seqn)
                seqn += 1
            elif c[0] == "S":
                ctl.step(c[1])
            elif c[0] == "T":
                ctl.tick(c[1])
            elif c[0] == "K":
                ctl.crash(c[1]); crashed += 1
            else:
                r.corrupt(rng.choice(["magic", "csum"])); corrupted = True
        else:
            raise Shape("a drawn schedule does not end within 400 steps")
        return r.lines()
    finally:
        r.close(); r.cleanup()


# ------------------------------------------------------------------------------------------------------------------
# TLC parts
MC_QUICK = [  # (cfg, expectation: None = holds, else the property that must have a counterexample, finding key or None)
    ("MC_Mmp_quick.cfg", None, None),
    ("MC_Mmp_DevNonAtomic.cfg", "MutualExclusion", "DevNonAtomic"),
    ("MC_Mmp_DevStopUnconditional.cfg", "NoFalseClean", None),
    ("MC_Mmp_DevNoSecondWait.cfg", "MutualExclusion", None),
    ("MC_Mmp_progress.cfg", None, None),
    ("MC_Mmp_stale_fsck.cfg", "StaleHolderRecoverable", "StaleFsckNeedsClear"),
]
MC_THOROUGH = MC_QUICK + [
    ("MC_Mmp_DevNoFsckMarker.cfg", "MutualExclusion", None),
    ("MC_Mmp_DevDumpClobbers_NFC.cfg", "NoFalseClean", None),      # debugfs.c before fixes/X01_dump_mmp_private_buf.patch
    ("MC_Mmp_stale.cfg", None, None),
    ("MC_Mmp.cfg", None, None),
    ("MC_Mmp_literal.cfg", None, None),
    ("MC_Mmp_DevNonAtomic_NFC.cfg", "NoFalseClean", "DevNonAtomic"),
    ("MC_Mmp_DevSameNodename.cfg", "DetectableOverlap", None),      # needs stalls of >= 60 s inside two read-write pairs; model only
    ("MC_Mmp_DevSeqCollision.cfg", None, None),
    ("MC_Mmp_DevDumpClobbers.cfg", "DetectableOverlap", None),
    ("MC_Mmp_n3.cfg", None, None),
]


def model_check(ev, tier):
    import concurrent.futures as cf
    jobs = MC_QUICK if tier == "quick" else MC_THOROUGH
    def one(j):
        cfg, expect, key = j
        big = cfg in ("MC_Mmp_n3.cfg", "MC_Mmp_literal.cfg", "MC_Mmp.cfg")
        return j, T.tlc(os.path.join(SPEC, "Mmp.tla"), os.path.join(SPEC, cfg), workers=(4 if big else 2),
                        timeout=(2400 if big else 600), xmx=("6g" if big else "3g"))
    findings = {}
    with cf.ThreadPoolExecutor(max_workers=3 if tier == "quick" else 2) as ex:
        for (cfg, expect, key), r in ex.map(one, jobs):
            ev.add_tlc(r, label=cfg)
            if r.error and not (expect and "Temporal property" in (r.error or "")):
                die_broken("TLC failed on %s: %s\n%s" % (cfg, r.error, r.out[-1500:]))
            got = r.violated
            if got is None and r.error:
                m = re.search(r"Temporal property (\w+) was violated", r.error)
                got = m.group(1) if m else "temporal"
            if got in ("Temporal properties were violated", "temporal"):
                got = expect       # TLC names the formula in the error line only in some versions; one PROPERTY per cfg
            if expect is None and got is not None:
                die_broken("the specification's own configuration %s does not hold (%s): the model is wrong, not the code\n%s" % (cfg, got, r.out[-2500:]))
            if expect is not None and got != expect:
                die_broken("configuration %s must give a counterexample of %s, TLC reports %s" % (cfg, expect, got))
            if key:
                findings.setdefault(key, []).append("%s: counterexample of %s (%d states)" % (cfg, expect, r.distinct))
    return findings


def simulate(cfg, num, depth, sd, work):
    r = T.tlc(os.path.join(SPEC, "Sim_Mmp.tla"), os.path.join(SPEC, cfg), workers=1, timeout=600, xmx="2g", simulate=num, depth=depth, seedval=sd)
    if r.error or r.violated:
        die_broken("TLC simulation of %s failed: %s %s\n%s" % (cfg, r.error, r.violated, r.out[-1500:]))
    seen, out = set(), []
    for x in re.findall(r'<<"SCHED", "(.*)">>', r.out):
        if x in seen:
            continue
        seen.add(x)
        out.append(json.loads(json.loads('"' + x + '"')))
    return out, r


def interest(s):
    """rank of a schedule: protocol steps of nodes that overlap in time"""
    st = s["steps"]
    writers = {x["n"] for x in st if x["a"] == "L" and x["kind"] in ("rw", "fsck", "clear")}
    return len([x for x in st if x["a"] in ("S", "K")]) * (1 + len(writers))


def sched_key(s):
    return hashlib.sha1(json.dumps([(x["a"], x["n"], x["d"], x["kind"] if x["a"] == "L" else "") for x in s["steps"]]).encode()).hexdigest()[:12]


# hand-enumerated schedules (node, action) for the known findings; "S" = one step of the node, ("T", d), ("L", n, kind, variant index)
RACE = [("L", 1, "rw", 0), ("L", 2, "rw", 0), ("S", 1), ("S", 1), ("S", 2), ("T", 11), ("S", 2), ("S", 1), ("S", 1), ("S", 2), ("T", 11),
        ("S", 2), ("S", 2), ("S", 1), ("S", 2), ("S", 2)]
STALE_FSCK = [("L", 1, "rw", 0), ("S", 1), ("S", 1), ("T", 11), ("S", 1), ("S", 1), ("K", 1), ("T", 100), ("L", 2, "rw", 0), ("S", 2),
              ("L", 3, "clear", 0), ("S", 3)]


# debugfs -w holds the block, the operator clears it, a tune2fs starts and holds it, debugfs runs dump_mmp and quits
DUMP = [("L", 1, "rwd", 0), ("S", 1), ("S", 1), ("T", 11), ("S", 1), ("S", 1), ("L", 3, "clear", 0), ("S", 3),
        ("L", 2, "rw", 0), ("S", 2), ("S", 2), ("T", 11), ("S", 2), ("S", 2), ("S", 1), ("S", 1), ("S", 2), ("S", 2)]
HOLD1 = [("L", 1, "rw", 0), ("S", 1), ("S", 1), ("T", 11), ("S", 1), ("S", 1)]
HOLDF = [("L", 1, "fsck", 0), ("S", 1), ("S", 1), ("S", 1), ("T", 11), ("S", 1), ("S", 1)]
ENUM = {   # small hand-enumerated situations the simulation reaches rarely (all must be behaviours of the literal model)
    "bad_magic_fsck_y": [("C", "magic"), ("L", 1, "fsck", 0), ("RUN", 1)],
    "bad_csum_fsck_y": [("C", "csum"), ("L", 1, "fsck", 0), ("RUN", 1)],
    "bad_magic_tune2fs": [("C", "magic"), ("L", 1, "rw", 0), ("RUN", 1), ("L", 2, "fsckn", 0), ("RUN", 2), ("L", 3, "ro", 0), ("RUN", 3)],
    "bad_csum_debugfs": [("C", "csum"), ("L", 1, "rw", 2), ("RUN", 1), ("L", 2, "peek", 0), ("RUN", 2)],
    "held_refuses": HOLD1 + [("L", 2, "fsckn", 0), ("RUN", 2), ("L", 3, "ro", 0), ("RUN", 3), ("RUN", 1)],
    "held_refuses_fsck": HOLD1 + [("L", 2, "fsck", 0), ("RUN", 2), ("L", 3, "rw", 1), ("RUN", 3), ("RUN", 1)],
    "active_then_changed": [("L", 1, "rw", 0), ("S", 1), ("S", 1), ("L", 2, "ro", 0), ("S", 2), ("L", 3, "rw", 2), ("S", 3), ("T", 11), ("S", 1), ("S", 1),
                            ("S", 2), ("S", 3), ("RUN", 1)],
    "active_crash_takeover": [("L", 1, "rw", 0), ("S", 1), ("S", 1), ("K", 1), ("L", 2, "ro", 0), ("RUN", 2), ("L", 3, "fsck", 0), ("RUN", 3)],
    "update_finds_damage": HOLDF + [("T", 60), ("S", 1), ("C", "magic"), ("RUN", 1)],
    "update_finds_clear": HOLDF + [("T", 61), ("S", 1), ("L", 2, "clear", 0), ("S", 2), ("RUN", 1)],
    "update_then_foreign": HOLDF + [("T", 60), ("S", 1), ("S", 1), ("S", 1), ("L", 2, "clear", 0), ("S", 2), ("L", 3, "rw", 0), ("RUN", 3), ("T", 100), ("RUN", 1)],
    "interval_boundary": HOLDF + [("T", 59), ("S", 1), ("T", 1), ("S", 1), ("S", 1), ("S", 1), ("T", 60), ("RUN", 1)],
}
SCRIPTS = {"race": RACE, "stale_fsck": STALE_FSCK, "dump_mmp": DUMP}
SCRIPTS.update(ENUM)


def scripted(work, b, so, base, polls, script, tag, samehost=False):
    r = Run(work, b, so, base, tag)
    try:
        r.start()
        seqn = 1
        for c in script:
            if c[0] == "L":
                r.launch(c[1], c[2], r.variants[c[2]][c[3]], polls[(c[2], c[3])], seqn, samehost=samehost); seqn += 1
            elif c[0] == "S":
                r.ctl.step(c[1])
            elif c[0] == "T":
                r.ctl.tick(c[1])
            elif c[0] == "K":
                r.ctl.crash(c[1])
            elif c[0] == "C":
                r.corrupt(c[1])
            elif c[0] == "RUN":           # let the node run alone to its end (time moves as it asks)
                for _ in range(200):
                    pr = r.ctl.procs[c[1]]
                    if pr.pend[0] in ("X", "K"):
                        break
                    if not r.ctl.runnable(c[1]):
                        r.ctl.tick(pr.wake - r.ctl.now)
                    r.ctl.step(c[1])
                else:
                    raise Shape("node %d does not end within 200 steps" % c[1])
        rcs = {n: p.rc for n, p in r.ctl.procs.items()}
        return r.lines(), rcs
    finally:
        r.close(); r.cleanup()


def tlc_trace(lines, cfgname, work, extra_inv=(), over=None):
    """validate one behaviour; returns (accepted, violated invariant or None, TlcResult)"""
    cfg = os.path.join(SPEC, cfgname)
    if extra_inv or over:
        txt = open(cfg).read()
        for k, v in (over or {}).items():
            txt = re.sub(r"^  %s = .*$" % k, "  %s = %s" % (k, v), txt, flags=re.M)
        txt = txt.replace("POSTCONDITION", "".join("INVARIANT %s\n" % i for i in extra_inv) + "POSTCONDITION")
        cfg = os.path.join(work, "t_%s_%s" % (hashlib.sha1(txt.encode()).hexdigest()[:8], cfgname))
        open(cfg, "w").write(txt)
    p = os.path.join(work, "one_%d_%d.ndjson" % (os.getpid(), random.randrange(1 << 30)))
    open(p, "w").write("\n".join(lines) + "\n")
    r = T.tlc(os.path.join(SPEC, "Trace_Mmp.tla"), cfg, workers=1, timeout=300, env={"TRACE": p}, xmx="2g")
    if r.error and r.violated is None:
        die_broken("TLC failed on a trace: %s\n%s" % (r.error, r.out[-1500:]))
    inv = None if r.violated in (None, "POSTCONDITION") else r.violated
    return r.ok, inv, r


def load_known():
    out = {}
    p = os.path.join(VERIF, "fixes", "X01_known_findings.txt")
    if os.path.exists(p):
        for l in open(p):
            l = l.strip()
            if l and not l.startswith("#"):
                d = json.loads(l)
                out[d["key"]] = d
    return out


# ------------------------------------------------------------------------------------------------------------------
def validate_all(ev, vd, work, groups):
    """groups: [(cfg name, [(key, lines, replay object)])]; every behaviour must be accepted"""
    n_ok = 0
    for cfgname, items in groups:
        if not items:
            continue
        beh = [it[1] for it in items]
        res = tracecheck.validate(beh, os.path.join(SPEC, "Trace_Mmp.tla"), os.path.join(SPEC, cfgname), work, chunk_lines=1500, jobs=WORKERS, timeout=600)
        if res["broken"]:
            die_broken("TLC failed on a trace chunk: %s\n%s" % (res["broken"][0]["error"], res["broken"][0]["out_tail"][-1500:]))
        ev.cov["states"] += res["distinct"]; ev.cov["transitions"] += res["generated"]
        bad = set()
        for f in res["failures"]:
            bi = f["behaviour"]
            rej, matched, inv, tail, _ = tracecheck.confirm(beh[bi], os.path.join(SPEC, "Trace_Mmp.tla"), os.path.join(SPEC, cfgname), work)
            if not rej:
                continue
            bad.add(bi)
            key, lines, robj = items[bi]
            ln = matched if matched is not None else 0
            what = ("recorded run is not a behaviour of Mmp (%s): line %d %s%s" % (cfgname, ln + 1, lines[min(ln, len(lines) - 1)][:300], (" -- invariant " + inv) if inv else ""))
            vd.violation("trace:" + key, what, dict(robj, trace=lines, cfg=cfgname, first_unmatched_line=ln + 1, invariant=inv))
        n_ok += len(beh) - len(bad)
    return n_ok


def run(tier):
    ev = Evidence(PID, tier, "model_checking")
    vd = Verdict(PID, ev)
    known = load_known()
    for k, f in known.items():
        vd.known.setdefault(k, f)
    work = fast_tmp()
    rng = random.Random(seed())
    try:
        return _run(tier, ev, vd, work, rng)
    except Shape as e:
        # a tool whose accesses to the block do not even have the shape of the protocol (a sleep not followed by a read, ...)
        vd.violation("shape:" + str(e)[:60], "the tool's accesses to the MMP block are not steps of Mmp.tla: %s" % e, dict(kind="shape", what=str(e)))
        return vd.finish()
    except Broken as e:
        die_broken(str(e))
    finally:
        shutil.rmtree(work, ignore_errors=True)


def _run(tier, ev, vd, work, rng):
    import concurrent.futures as cf
    t0 = time.time()
    try:
        b = build.build()
    except Exception as e:
        die_broken("build failed: %s" % e)
    so = build_so(work)
    # (1) model checking in the background while the real tools run
    pool = cf.ThreadPoolExecutor(max_workers=1)
    mc_future = pool.submit(model_check, ev, tier)

    bases = {(5, 5, False): make_base(work, b, so, 5, 5)}
    polls, cal = calibrate(work, b, so, bases[(5, 5, False)])
    if polls[("fsck", 0)] < 1 or any(polls[k] for k in polls if k[0] not in ("fsck",)):
        raise Broken("unexpected poll counts of the tools: %r" % polls)
    sim_over = "{%d}" % polls[("fsck", 0)]

    # (2) schedules from TLC
    nsim = 300 if tier == "quick" else 3000
    want = 30 if tier == "quick" else 260
    scheds = []           # (cfg of origin, schedule)
    sim_cfgs = [("Sim_Mmp_atomic.cfg", "Trace_Mmp_atomic.cfg"), ("Sim_Mmp_literal.cfg", "Trace_Mmp.cfg")]
    if tier != "quick":
        sim_cfgs += [("Sim_Mmp_atomic3.cfg", "Trace_Mmp_atomic.cfg"), ("Sim_Mmp_literal3.cfg", "Trace_Mmp.cfg"), ("Sim_Mmp_ival.cfg", "Trace_Mmp_atomic.cfg")]
    for simcfg, tracecfg in sim_cfgs:
        txt = open(os.path.join(SPEC, simcfg)).read()
        txt = re.sub(r"^  FsckPolls = .*$", "  FsckPolls = " + sim_over, txt, flags=re.M)
        p = os.path.join(work, simcfg)
        open(p, "w").write(txt)
        # TLC resolves the cfg relative to the module's directory: give the absolute path of the copy
        r = T.tlc(os.path.join(SPEC, "Sim_Mmp.tla"), p, workers=1, timeout=900, xmx="2g", simulate=nsim, depth=200, seedval=seed())
        if r.error or r.violated:
            die_broken("TLC simulation of %s failed: %s %s\n%s" % (simcfg, r.error, r.violated, r.out[-1500:]))
        seen, lst = set(), []
        for x in re.findall(r'<<"SCHED", "(.*)">>', r.out):
            d = json.loads(json.loads('"' + x + '"'))
            k = sched_key(d)
            if k not in seen:
                seen.add(k); lst.append(d)
        lst.sort(key=lambda d: (-interest(d), sched_key(d)))
        ev.cov.setdefault("simulated_schedules", {})[simcfg] = len(lst)
        take = lst[:want // 2] + rng.sample(lst[want // 2:], min(len(lst) - want // 2, want // 2)) if len(lst) > want else lst
        scheds += [(simcfg, tracecfg, d) for d in take]
    if not scheds:
        die_broken("TLC produced no schedule")

    groups = {"Trace_Mmp_atomic.cfg": [], "Trace_Mmp.cfg": []}
    for kind, name, lines in cal:
        groups["Trace_Mmp_atomic.cfg"].append(("solo:" + name, lines, dict(kind="solo", tool=name)))
        ev.nontrivial("solo:" + name)
    nrep = ndiv = 0
    for i, (simcfg, tracecfg, d) in enumerate(scheds):
        key = (d["sbi"], max(5, d["steps"][0]["blk"]["ival"]), False)
        if key not in bases:
            bases[key] = make_base(work, b, so, key[0], key[1])
        sk = sched_key(d)
        lines, div, info = replay_schedule(work, b, so, bases[key], d, polls, random.Random(seed() * 1000 + i), "r%d" % i)
        nrep += 1
        for lc in info["late_close"]:
            vd.violation("FsckIgnoresCloseError", "e2fsck exits %d although its final ext2fs_close_free failed with %s" % (lc["rc"], lc["res"]), dict(kind="schedule", schedule=d, origin=simcfg))
        if div is not None and div.get("uncounted"):
            ev.cov["replays_not_counted"] = ev.cov.get("replays_not_counted", 0) + 1
            continue
        if div is not None:
            # once more, to keep a hiccup of the machine out of the verdict
            lines2, div2, info2 = replay_schedule(work, b, so, bases[key], d, polls, random.Random(seed() * 1000 + i), "r%dc" % i)
            if div2 is not None:
                ndiv += 1
                vd.violation("replay:%s:%s" % (div2["expect"].get("pc", "?") if isinstance(div2.get("expect"), dict) else "?", div2["what"][:60]),
                             "the real tools leave the behaviour of Mmp.tla at step %d of schedule %s (%s): %s; expected %s, got %s" % (
                                 div2["step"], sk, simcfg, div2["what"], json.dumps(div2.get("expect"))[:300], json.dumps(div2.get("got"))[:300]),
                             dict(kind="schedule", schedule=d, origin=simcfg, divergence=div2, outputs=info2["outs"]))
                continue
        groups[tracecfg].append(("replay:" + sk, lines, dict(kind="schedule", schedule=d, origin=simcfg)))
        if len({x["n"] for x in d["steps"] if x["a"] == "S"}) >= 2:
            ev.nontrivial("replay:" + sk)
        if i < 3:
            ev.sample(dict(schedule=sk, origin=simcfg, steps=["%s%d" % (x["a"], x["n"]) for x in d["steps"]][:60]))
    ev.cov["replayed_schedules"] = nrep
    ev.cov["replay_divergences"] = ndiv

    # (3) schedules drawn by the check (code -> spec only)
    nrand = 30 if tier == "quick" else 400
    allk = ["rw", "rw", "rwd", "fsck", "ro", "fsckn", "skip", "peek", "clear"]
    base_alt = None
    for i in range(nrand):
        r2 = random.Random(seed() * 7919 + i)
        bs = bases[(5, 5, False)]
        if tier != "quick" and i % 5 == 4:
            if base_alt is None:
                base_alt = [make_base(work, b, so, 5, 5, via_tune=True), make_base(work, b, so, 10, 5), make_base(work, b, so, 7, 12)]
            bs = base_alt[(i // 5) % 3]
        lines = random_run(work, b, so, bs, polls, r2, "f%d" % i, nnodes=(2 if i % 3 else 3), kinds=allk,
                           crash_p=0.05, corrupt_p=(0.08 if i % 3 == 0 else 0.0))
        k = hashlib.sha1("\n".join(lines).encode()).hexdigest()[:12]
        groups["Trace_Mmp.cfg"].append(("drawn:" + k, lines, dict(kind="drawn", seed=seed() * 7919 + i)))
        if sum(1 for l in lines if '"e": "L"' in l) >= 2:
            ev.nontrivial("drawn:" + k)

    for name in sorted(ENUM):
        lines, rcs = scripted(work, b, so, bases[(5, 5, False)], polls, ENUM[name], "e_" + name)
        groups["Trace_Mmp.cfg"].append(("enum:" + name, lines, dict(kind="script", script=name, cfg="Trace_Mmp.cfg")))
        ev.nontrivial("enum:" + name)
    if os.environ.get("VERIF_X01_KEEP"):       # development aid: keep every recorded behaviour
        for c in groups:
            with open(os.path.join(os.environ["VERIF_X01_KEEP"], c + ".ndjson"), "w") as f:
                for key, lines, robj in groups[c]:
                    f.write("\n".join(lines) + "\n")
    n_ok = validate_all(ev, vd, work, [(c, groups[c]) for c in groups])
    ev.cov["traces_validated_against_impl"] = n_ok
    ev.cov["evaluations"] = nrep + nrand + len(cal) + len(ENUM)

    # (4) the counterexamples of the literal-deviation constants, shown in the real tools
    findings = mc_future.result()
    demo = demonstrate(work, b, so, bases[(5, 5, False)], polls, vd)
    for key, what in demo.items():
        findings.setdefault(key, []).append(what)
    for key, notes in findings.items():
        if key not in demo:
            die_broken("finding %s of the model was not reproduced with the real tools" % key)
        if vd.violation(key, "; ".join(notes), dict(kind="finding", key=key, notes=notes)):
            pass
    ev.cov["rule"] = ("evaluation = one run of real tool processes (1-3 concurrent: tune2fs -c/-L/-f/-l/-E clear_mmp, debugfs -w/-R/-c with ssv, stats, dump_mmp, e2fsck -fy/-fn, dumpe2fs [-h|-m|-m -i]) on one 8 MiB "
                      "image with mmp+metadata_csum under harness/mmptrace.so, every MMP read/write/sleep/clock poll released by the controller; schedules: TLC simulation of "
                      "Sim_Mmp (atomic and literal model; replayed step by step with block content, pending request, sleep length and exit status compared), schedules drawn by "
                      "the check, solo calibration runs; non-trivial = at least two nodes take protocol steps in the run; distinct by schedule / trace hash")
    ev.cov["checker_cmd"] = ("tlc -config spec/MC_Mmp*.cfg spec/Mmp.tla; tlc -simulate -config Sim_Mmp_*.cfg spec/Sim_Mmp.tla; TRACE=<chunk> tlc -workers 1 -config "
                             "spec/Trace_Mmp[_atomic].cfg spec/Trace_Mmp.tla (POSTCONDITION TraceAccepted; INVARIANT TypeOK DetectableOverlap WrittenValid SkipNeverWrites "
                             "AbortLeavesBlock [MutualExclusion NoFalseClean])")
    ev.cov["poll_counts"] = {"%s/%d" % k: v for k, v in polls.items()}
    ev.assumptions = [
        "MutualExclusion and NoFalseClean are stated under the atomicity assumption of Mmp.tla (DevNonAtomic = FALSE): no other node acts between the read that decides and the "
        "write that follows; the code has no such guarantee (two system calls) -- known finding DevNonAtomic, reproduced with the real tools",
        "nodes have distinct mmp_nodename (MMPTRACE_HOST gives every process its own host name); with one host name two FSCK blocks written in the same second are byte-identical and "
        "DetectableOverlap has a counterexample in the model (MC_Mmp_DevSameNodename.cfg; it needs two stalls of >= 60 s inside read-write pairs and was not reproduced with real tools)",
        "a forced reset (tune2fs -f -E clear_mmp, e2fsck -y on an unreadable block) while a node uses the block, or damage from outside, void MutualExclusion (ghost variables forced / corrupted)",
        "sequence numbers are handed out by the check (random() interposed); ext2fs_mmp_new_seq itself (srand seed pid^uid^time) is not examined",
        "time is virtual and whole seconds; a sleep ends when the controller says so (never early, possibly late)",
        "the superblock (feature flag, s_mmp_block, s_mmp_update_interval) does not change while a behaviour runs; tune2fs -O mmp / -E mmp_update_interval / mke2fs -O mmp are covered "
        "as the producers of the initial block (Trace_Mmp!TInit), tune2fs -O ^mmp is not covered",
        "the kernel's kmmpd (an active sequence number that keeps changing) is not modelled: an active number is on disk only during the second wait of a starting tool",
    ]
    ev.cov["wall_parts_s"] = dict(total=round(time.time() - t0, 1))
    return vd.finish()


def demonstrate(work, b, so, base, polls, vd):
    """the model's counterexamples for what the unchanged code does, replayed with the real tools and judged by TLC"""
    out = {}
    # DevNonAtomic: both tools hold the block
    try:
        lines, rcs = scripted(work, b, so, base, polls, RACE, "demo_race")
        ok, inv, r = tlc_trace(lines, "Trace_Mmp.cfg", work)                 # is it a behaviour of the literal model at all?
        why = (": invariant " + inv) if inv else ""
    except Shape as e:
        ok, why, lines, rcs = False, ": " + str(e), [], {}
    if not ok:
        vd.violation("demo:race", "the check-then-write race run with two real tune2fs is not a behaviour of Mmp.tla (literal model)%s; exit statuses %s" % (why, rcs),
                     dict(kind="script", script="race", trace=lines, cfg="Trace_Mmp.cfg"))
        out["DevNonAtomic"] = "race schedule run, see the violation"
    else:
        ok2, inv2, r2 = tlc_trace(lines, "Trace_Mmp.cfg", work, extra_inv=["MutualExclusion"])
        if inv2 == "MutualExclusion":
            out["DevNonAtomic"] = "real tools: two tune2fs both completed ext2fs_mmp_start on one image (exit %s); the first one's close reports EXT2_ET_MMP_CHANGE_ABORT" % rcs
        else:
            raise Broken("the race schedule does not make both nodes hold the block (TLC: %s %s)" % (ok2, inv2))
    # crash with FSCK on disk: refused until the operator clears
    try:
        lines, rcs = scripted(work, b, so, base, polls, STALE_FSCK, "demo_stale")
        ok, inv, r = tlc_trace(lines, "Trace_Mmp.cfg", work)
        why = (": invariant " + inv) if inv else ""
    except Shape as e:
        ok, why, lines, rcs = False, ": " + str(e), [], {}
    if not ok:
        vd.violation("demo:stale", "kill -9 of a holder, a refused newcomer, clear_mmp: the run with real tools is not a behaviour of Mmp.tla%s; exit statuses %s" % (why, rcs),
                     dict(kind="script", script="stale_fsck", trace=lines, cfg="Trace_Mmp.cfg"))
        out["StaleFsckNeedsClear"] = "stale-holder schedule run, see the violation"
    elif rcs.get(2) not in (0, None):
        out["StaleFsckNeedsClear"] = "real tools: after kill -9 of a tune2fs that held the block, 100 s later a new tune2fs is refused (exit %s, EXT2_ET_MMP_FSCK_ON) until tune2fs -f -E clear_mmp" % rcs.get(2)
    # regression input of fixes/X01_dump_mmp_private_buf.patch
    try:
        lines, rcs = scripted(work, b, so, base, polls, DUMP, "demo_dump")
        ok, inv, r = tlc_trace(lines, "Trace_Mmp.cfg", work, extra_inv=["NoFalseClean"])
        why = (": invariant " + inv) if inv else ""
    except Shape as e:
        ok, why, lines = False, ": " + str(e), []
    if not ok:
        vd.violation("demo:dump_mmp", "debugfs -w holds the block, clear_mmp, a tune2fs takes it, debugfs dump_mmp + quit: not a behaviour of Mmp.tla%s "
                     "(debugfs overwrites the other node's block with CLEAN: do_dump_mmp read it into fs->mmp_buf)" % why,
                     dict(kind="script", script="dump_mmp", trace=lines, cfg="Trace_Mmp.cfg"))
    return out


def replay(path):
    """re-run one saved artefact: a schedule (spec -> code) or a recorded trace (code -> spec)"""
    d = json.load(open(path))
    robj = d.get("replay", d)
    work = fast_tmp()
    try:
        b = build.build()
        so = build_so(work)
        if robj.get("kind") == "schedule":
            sc = robj["schedule"]
            base = make_base(work, b, so, sc["sbi"], max(5, sc["steps"][0]["blk"]["ival"]))
            polls, cal = calibrate(work, b, so, base)
            lines, div, info = replay_schedule(work, b, so, base, sc, polls, random.Random(1), "rp", variants_pick=robj.get("variants"))
            if div is not None:
                print("VIOLATION property=%s replay=%s  (step %d: %s; expected %s, got %s)" % (PID, path, div["step"], div["what"], json.dumps(div.get("expect"))[:300], json.dumps(div.get("got"))[:300]))
                return 1
            cfg = "Trace_Mmp_atomic.cfg" if "atomic" in robj.get("origin", "") else "Trace_Mmp.cfg"
            ok, inv, r = tlc_trace(lines, cfg, work)
            if not ok:
                print("VIOLATION property=%s replay=%s  (recorded run rejected by %s%s)" % (PID, path, cfg, (", invariant " + inv) if inv else ""))
                return 1
            print("replay follows the specification (%d steps)" % len(sc["steps"]))
            return 0
        if robj.get("kind") == "script":
            base = make_base(work, b, so, 5, 5)
            polls, cal = calibrate(work, b, so, base)
            try:
                lines, rcs = scripted(work, b, so, base, polls, SCRIPTS[robj["script"]], "rp")
            except Shape as e:
                print("VIOLATION property=%s replay=%s  (%s)" % (PID, path, e))
                return 1
            ok, inv, r = tlc_trace(lines, robj.get("cfg", "Trace_Mmp.cfg"), work, extra_inv=robj.get("invariants", []))
            expect = robj.get("expect_invariant")
            if expect:
                print("exit statuses %s; TLC: %s" % (rcs, ("invariant %s violated (as recorded for this known finding)" % inv) if inv else "accepted"))
                return 0 if inv == expect or ok else 1
            if not ok:
                print("VIOLATION property=%s replay=%s  (run with real tools rejected%s; exit statuses %s)" % (PID, path, (", invariant " + inv) if inv else "", rcs))
                return 1
            print("run with real tools accepted; exit statuses %s" % rcs)
            return 0
        if "trace" in robj:
            ok, inv, r = tlc_trace(robj["trace"], robj.get("cfg", "Trace_Mmp.cfg"), work)
            if not ok:
                print("VIOLATION property=%s replay=%s  (trace rejected%s)" % (PID, path, (", invariant " + inv) if inv else ""))
                return 1
            print("trace accepted")
            return 0
        print("nothing to replay in %s" % path)
        return 0
    except Broken as e:
        die_broken(str(e))
    finally:
        shutil.rmtree(work, ignore_errors=True)
