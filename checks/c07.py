"""C07 -- mke2fs produces a consistent filesystem for every accepted configuration (and C20's static clause: backups
exactly where the format prescribes).

(1) TLC evaluates spec/Geometry.tla (transcription of ext2fs_initialize's arithmetic) over a configuration lattice and
    checks the arithmetic invariants (MC_Geometry).
(2) Conformance: the scratch-built mke2fs is run on a universe of configurations (option pairs + boundary sizes); each
    run becomes one trace line {cfg, rc, geometry read back by an independent superblock parser, backup groups found
    on disk, e2fsck -fn status, verdict of the independent consistency oracle, device writes of `mke2fs -n`,
    reproducibility}.  TLC (Trace_Geometry) accepts a line of an ACCEPTED configuration only if the observed geometry
    equals Geometry!Compute(cfg) field by field and all other clauses hold."""
import os, sys, json, random, shutil, hashlib, itertools, concurrent.futures as cf
from common import VERIF, fast_tmp, seed, die_broken, NPROC, tool_env
from common import run as sh
import build, tlc as T, tracecheck, sbparse
from evidence import Evidence, Verdict

PID = "C07"
SPEC = os.path.join(VERIF, "spec")
UUID = "11112222-3333-4444-5555-666677778888"
HASH_SEED = "aaaabbbb-cccc-dddd-eeee-ffff00001111"

FEATSETS = [
    # (label, fstype, -O string, model?)
    ("ext2", "ext2", "", 1),
    ("ext3", "ext3", "", 1),
    ("ext4", "ext4", "", 1),
    ("ext4csum", "ext4", "metadata_csum,64bit", 1),
    ("metabg", "ext4", "meta_bg,^resize_inode,64bit", 1),
    ("nosparse", "ext2", "^sparse_super", 1),
    ("ss2", "ext4", "sparse_super2,^resize_inode", 1),
    ("noresize", "ext4", "^resize_inode", 1),
    ("noflex", "ext4", "^flex_bg,metadata_csum", 1),
    ("inline", "ext4", "inline_data,metadata_csum", 1),
    ("quota", "ext4", "quota,metadata_csum", 1),
    ("bigalloc", "ext4", "bigalloc,^resize_inode", 0),          # cluster arithmetic is not in Geometry.tla yet: other clauses only
    ("orphan", "ext4", "orphan_file,metadata_csum,64bit", 1),
    ("eainode", "ext4", "ea_inode,metadata_csum", 1),
]


def want_features(fstype, ostr):
    base = {"sparse_super", "filetype", "resize_inode", "dir_index", "ext_attr"}
    if fstype in ("ext3", "ext4"):
        base |= {"has_journal"}
    if fstype == "ext4":
        base |= {"extent", "huge_file", "flex_bg", "uninit_bg", "dir_nlink", "extra_isize"}
    for f in [x for x in ostr.split(",") if x]:
        if f.startswith("^"):
            base.discard(f[1:])
        else:
            base.add(f)
    if "metadata_csum" in base:
        base.discard("uninit_bg")
    if "meta_bg" in base:
        base.discard("resize_inode")
    base.discard("large_file")
    return base


# extra option families of the property text; (label, args, keeps the geometry model applicable?, needs journal?)
EXTRAS = [
    ("", [], 1, 0), ("", [], 1, 0), ("", [], 1, 0),
    ("flex1", ["-G", "1"], 1, 0), ("flex2", ["-G", "2"], 1, 0), ("flex16", ["-G", "16"], 1, 0),
    ("raid", ["-E", "stride=4,stripe_width=8"], 1, 0),
    ("jsize", ["-J", "size=1"], 1, 1), ("jsize4", ["-J", "size=4"], 1, 1),
    ("jloc", ["-J", "size=1,location=100"], 1, 1),
    ("resize", ["-E", "resize=@3x"], 0, 0),
    ("offset", ["-E", "offset=8192"], 1, 0),
    ("tree", ["-d", "@tree"], 1, 0),
    ("rootowner", ["-E", "root_owner=1000:100"], 1, 0),
    ("m0", ["-m", "0", "-L", "lab"], 1, 0),
    ("packed", ["-E", "packed_meta_blocks=1"], 1, 0),
    ("lazy", ["-E", "lazy_itable_init=1,lazy_journal_init=1"], 1, 0),
    ("nodiscard", ["-E", "nodiscard", "-e", "remount-ro"], 1, 0),
    ("hugefiles", ["-T", "hugefiles"], 0, 0),
]


def small_tree(work):
    d = os.path.join(work, "tree")
    if os.path.exists(d):
        return d
    os.makedirs(os.path.join(d, "a/b"))
    for i in range(12):
        with open(os.path.join(d, "a", "f%02d" % i), "wb") as f:
            f.write(bytes((i * 3 + j) & 255 for j in range(i * 700)))
    os.symlink("a/f01", os.path.join(d, "lnk"))
    os.link(os.path.join(d, "a/f02"), os.path.join(d, "a/b/hard"))
    for dd, ds, fs in os.walk(d):
        for n in fs + ds:
            # atime in the future: relatime then never updates it when mke2fs -d reads the file, so that two runs see the same lstat()
            try: os.utime(os.path.join(dd, n), (2000000000, 1500000000), follow_symlinks=False)
            except Exception: pass
    os.utime(d, (2000000000, 1500000000))
    return d


def universe(tier, rng):
    cfgs = []
    bss = [1024, 2048, 4096]
    for (label, fstype, ostr, model) in FEATSETS:
        for bs in bss:
            bpgs = [0, 256, 1024] if bs == 1024 else [0, 2048]
            for bpg in bpgs:
                eff = bpg or bs * 8
                first = 1 if bs == 1024 else 0
                sizes = set()
                maxblocks = ((24 if tier == 'quick' else 64) * 1024 * 1024) // bs
                for k in (1, 2, 3, 4, 8, 9, 10):
                    base = first + k * eff
                    for d in (-1, 0, 1, 40, 60, 90, 150, 300):
                        sizes.add(base + d)
                sizes |= {300, 1000, 2500, 5000}
                sizes = sorted(s for s in sizes if 60 <= s <= maxblocks)
                for blocks in sizes:
                    for (iratio, isz, nino) in [(0, 0, 0), (4096, 128, 0), (65536, 256, 0), (0, 256, 100), (1024, 256, 0),
                                                (0, 128, blocks + blocks // 8), (0, 256, (blocks * 9) // 10)]:      # -N large enough for the ipg retry path
                        ex = EXTRAS[rng.randrange(len(EXTRAS))]
                        if ex[3] and fstype == "ext2":
                            ex = EXTRAS[0]
                        if ex[0] == "hugefiles":
                            continue
                        cfgs.append(dict(label=label, fstype=fstype, ostr=ostr, model=model & ex[2], bs=bs, bpg=bpg, blocks=blocks,
                                         iratio=iratio, isz=isz, ninodes=nino, extra=ex[0], extra_args=list(ex[1])))
    rng.shuffle(cfgs)
    n = 320 if tier == "quick" else min(len(cfgs), 12000)
    # stratify quick selection over feature sets
    if tier == "quick":
        by = {}
        for c in cfgs:
            by.setdefault((c["label"], c["bs"]), []).append(c)
        sel = []
        while len(sel) < n:
            for k in sorted(by):
                if by[k] and len(sel) < n:
                    sel.append(by[k].pop())
        return sel
    return cfgs[:n]


def one(args):
    b, c, work, idx, iotrace = args
    env = tool_env(b)
    img = os.path.join(work, "m%d.img" % idx)
    mk = os.path.join(b, "misc", "mke2fs")
    fsck = os.path.join(b, "e2fsck", "e2fsck")
    eopts = ["hash_seed=" + HASH_SEED]          # mke2fs keeps only the LAST -E: all extended options go into one list
    opts = ["-q", "-F", "-t", c["fstype"], "-b", str(c["bs"]), "-U", UUID]
    if c["ostr"]:
        opts += ["-O", c["ostr"]]
    if c["bpg"]:
        opts += ["-g", str(c["bpg"])]
    if c["iratio"]:
        opts += ["-i", str(c["iratio"])]
    if c["isz"]:
        opts += ["-I", str(c["isz"])]
    if c["ninodes"]:
        opts += ["-N", str(c["ninodes"])]
    if "bigalloc" in c["ostr"]:
        opts += ["-C", str(c["bs"] * 4)]
    offset = 0
    xa = list(c.get("extra_args", []))
    i = 0
    while i < len(xa):
        a = xa[i]
        if a == "-E":
            v = xa[i + 1].replace("@3x", str(3 * c["blocks"]))
            eopts.append(v)
            if v.startswith("offset="):
                offset = int(v.split("=")[1])
            i += 2
            continue
        if a == "@tree":
            a = os.path.join(work, "tree")
        opts.append(a)
        i += 1
    opts += ["-E", ",".join(eopts)]
    size = c["blocks"] * c["bs"] + offset

    def fresh():
        with open(img, "wb") as f:
            f.truncate(size)
    # effective defaults from tests/mke2fs.conf.in: inode_size 256, inode_ratio by size type (floppy < 3M: 8192, small < 512M: 4096)
    eff_iratio = c["iratio"] or (8192 if size < 3 * 1024 * 1024 else 4096)
    eff_isz = c["isz"] or 256
    feats = want_features(c["fstype"], c["ostr"])
    line = {"e": "mke2fs", "rc": -1, "model": c["model"], "fsck": -1, "consistent": -1, "nwrites": -1, "repro": -1,
            "want_features": sorted(feats), "journal_skipped": 0,
            "cfg": {"bs": c["bs"], "blocks": c["blocks"], "iratio": eff_iratio, "isz": eff_isz, "bpg": c["bpg"],
                    "resize": 1 if "resize_inode" in feats else 0, "sparse": 1 if "sparse_super" in feats else 0,
                    "ss2": 1 if "sparse_super2" in feats else 0,
                    "metabg": 1 if "meta_bg" in feats else 0, "is64": 1 if "64bit" in feats else 0, "ninodes": c["ninodes"]},
            "obs": {"blocks": 0, "first": 0, "bpg": 0, "ipg": 0, "itb": 0, "rsv": 0, "inodes": 0, "gdc": 0, "metabg": 0, "backups": [], "features": [], "backups_badcsum": []},
            "cmd": " ".join(opts + [str(c["blocks"])]), "extra": c.get("extra", ""), "c": c}
    # -n first, on an existing zero image, under the recorder
    fresh()
    tr = img + ".nd"
    e2 = dict(env, LD_PRELOAD=iotrace, VERIF_IOTRACE_TARGET=os.path.basename(img), VERIF_IOTRACE_OUT=tr)
    h0 = hashlib.sha256(open(img, "rb").read()).hexdigest()
    rc_n, out, err = sh([mk, "-n"] + opts + [img, str(c["blocks"])], env=e2, timeout=60)
    nw = 0
    if os.path.exists(tr):
        for ln in open(tr):
            if '"e":"pwrite"' in ln or '"e":"write"' in ln or '"e":"ftruncate"' in ln or '"e":"fallocate"' in ln or '"e":"pwritev"' in ln:
                nw += 1
        os.unlink(tr)
    if hashlib.sha256(open(img, "rb").read()).hexdigest() != h0:
        nw = max(nw, 1)
    rc, out, err = sh([mk] + opts + [img, str(c["blocks"])], env=env, timeout=120)
    line["rc"] = rc if rc in (0, 1) else (2 if rc > 0 else 3)
    line["stderr"] = err.decode("utf8", "replace")[-200:]
    line["journal_skipped"] = 1 if b"too small for a journal" in err + out else 0
    if rc != 0:
        os.unlink(img)
        return line
    line["nwrites"] = nw if rc_n == 0 else 0     # -n may reject what the real run accepts only if it prints an error: then no claim
    data1 = open(img, "rb").read()
    sb = sbparse.parse_sb(data1[offset + 1024:offset + 2048])
    if sb is None:
        line["obs"]["blocks"] = -1
    else:
        line["obs"] = {"blocks": sb["blocks"], "first": sb["first"], "bpg": sb["bpg"], "ipg": sb["ipg"], "itb": sb["itb"], "rsv": sb["rsv"],
                       "inodes": sb["inodes"], "gdc": sb["gdc"], "metabg": 1 if "meta_bg" in sb["features"] else 0,
                       "backups": [0] + sbparse.backup_groups(img, sb, offset), "features": sb["features"]}
        line["obs"]["backups_badcsum"] = sbparse.bad_backup_csums(img, sb, line["obs"]["backups"], offset)
    r2, out, err = sh([fsck, "-fn", img + ("?offset=%d" % offset if offset else "")], env=env, timeout=120)
    line["offset"] = offset
    line["fsck"] = r2
    line["fsck_out"] = out.decode("utf8", "replace")[-300:] if r2 else ""
    # reproducibility
    fresh()
    # the second run happens "three days later": the recorder library shifts time()/gettimeofday()/clock_gettime(), so
    # anything that reads the wall clock instead of the fixed E2FSPROGS_FAKE_TIME shows up as a difference
    e3 = dict(env, LD_PRELOAD=iotrace, VERIF_TIME_SHIFT="259207")
    r3, out, err = sh([mk] + opts + [img, str(c["blocks"])], env=e3, timeout=120)
    line["repro"] = 1 if (r3 == 0 and open(img, "rb").read() == data1) else 0
    line["_img"] = img
    return line


def run_universe(b, cfgs, work):
    iotrace = os.path.join(VERIF, "harness", "iotrace.so")
    if not os.path.exists(iotrace):
        r = sh(["make", "-C", os.path.join(VERIF, "harness"), "-s", "all"])
        if not os.path.exists(iotrace):
            die_broken("harness/iotrace.so missing (run MANIFEST.setup_cmd)")
    small_tree(work)
    with cf.ThreadPoolExecutor(max_workers=NPROC) as ex:
        return list(ex.map(one, [(b, c, work, i, iotrace) for i, c in enumerate(cfgs)]))


def consistency_oracle(lines):
    """Plug for the independent reader + Ext4Abs.Consistent (sets line['consistent'] to 1/0); -1 = not evaluated."""
    try:
        import ext4read, absstate
    except ImportError:
        return False
    idx = [i for i, l in enumerate(lines) if l["rc"] == 0 and "_img" in l]
    sts = []
    for i in idx:
        sts.append(ext4read.project(lines[i]["_img"], lines[i].get("offset", 0)))
    res = absstate.evaluate(sts)
    for i, r in zip(idx, res):
        lines[i]["consistent"] = 1 if r["consistent"] else 0
        lines[i]["failed_conjuncts"] = r.get("failed", [])
    return True


def run(tier):
    ev = Evidence(PID, tier, "model_checking")
    vd = Verdict(PID, ev)
    work = fast_tmp()
    try:
        try:
            b = build.build()
        except RuntimeError as e:
            die_broken(str(e))
        # (1) model checking of the arithmetic
        r = T.tlc(os.path.join(SPEC, "MC_Geometry.tla"), os.path.join(SPEC, "MC_Geometry.cfg"), workers=8, timeout=1200)
        ev.add_tlc(r, "Geometry!Compute over the configuration lattice: GeometryOK, NoLoop, BackupsClosedForm")
        if r.violated:
            vd.violation("model", "Geometry invariant %s violated" % r.violated, {"tlc": r.out[-3000:]})
        elif not r.ok:
            die_broken("TLC failed on MC_Geometry: %s\n%s" % (r.error, r.out[-1500:]))
        # (2) conformance
        rng = random.Random(seed())
        cfgs = universe(tier, rng)
        lines = run_universe(b, cfgs, work)
        used_reader = False
        if os.environ.get("VERIF_C07_READER", "1") == "1":
            try:
                used_reader = consistency_oracle(lines)
            except Exception as e:
                die_broken("independent consistency oracle failed: %r" % (e,))
        for l in lines:
            if "_img" in l:
                try:
                    os.unlink(l["_img"])
                except OSError:
                    pass
                del l["_img"]
        jl = [json.dumps(l, sort_keys=True) for l in lines]
        res = tracecheck.validate_lines(jl, os.path.join(SPEC, "Trace_Geometry.tla"), os.path.join(SPEC, "Trace_Geometry.cfg"), work, chunk=100)
        if res["broken"]:
            die_broken("TLC failed on a trace chunk: %s\n%s" % (res["broken"][0]["error"], res["broken"][0]["tail"][-1500:]))
        ev.cov["states"] += res["distinct"]; ev.cov["transitions"] += res["generated"]
        bad = set(res["bad"])
        accepted = [l for l in lines if l["rc"] == 0]
        for bi in sorted(bad):
            l = lines[bi]
            why = []
            if l["fsck"] != 0: why.append("e2fsck -fn exit %d" % l["fsck"])
            if l["consistent"] == 0: why.append("independent oracle: inconsistent %s" % l.get("failed_conjuncts"))
            if l["nwrites"] != 0: why.append("mke2fs -n issued %d write-class calls" % l["nwrites"])
            if l["repro"] != 1: why.append("not reproducible")
            if not why: why.append("geometry/backups/features differ from Geometry!Compute")
            key = "%s|%s" % (l["cmd"], ";".join(why))
            vd.violation(key, "mke2fs %s: %s" % (l["cmd"], "; ".join(why)), {"line": l})
        ev.cov["evaluations"] = len(lines)
        ev.cov["accepted_configurations"] = len(accepted)
        ev.cov["rejected_by_mke2fs"] = len(lines) - len(accepted)
        ev.cov["traces_validated_against_impl"] = len(lines) - len(bad)
        for l in accepted:
            o = l["obs"]
            ev.nontrivial((o["blocks"], o["first"], o["bpg"], o["ipg"], o["itb"], o["rsv"], o["gdc"], o["metabg"], tuple(o["backups"]), tuple(o["features"])))
        ev.cov["rule"] = ("configurations = feature set x block size x blocks-per-group x boundary sizes (k*bpg+first+{-1,0,1,40..300}) x inode options, "
                          "seeded stratified selection; non-trivial = accepted by mke2fs; distinct by the geometry tuple + feature set it produced")
        ev.cov["independent_consistency_oracle"] = "reader/ext4read.py + Ext4Abs.Consistent" if used_reader else "not available in this run (e2fsck -fn only)"
        for l in accepted[:3]:
            ev.sample({k: l[k] for k in ("cmd", "cfg", "obs", "fsck", "nwrites", "repro", "consistent")})
        ev.assumptions = ["defaults come from the tree's tests/mke2fs.conf.in (inode_size 256, inode_ratio by size type)",
                          "bigalloc configurations are checked for consistency/-n/reproducibility only (cluster arithmetic not yet in Geometry.tla)",
                          "images <= 64 MiB; journal size/location, RAID stride, offset and -d population are covered by other configurations of this check only where listed in evidence"]
        return vd.finish()
    finally:
        shutil.rmtree(work, ignore_errors=True)


def replay(path):
    d = json.load(open(path))
    l = d["replay"]["line"]
    print("re-run by hand: mke2fs %s  (see cfg in %s)" % (l["cmd"], path))
    work = fast_tmp()
    try:
        b = build.build()
        c = l["c"]
        lines = run_universe(b, [c], work)
        if os.environ.get("VERIF_C07_READER", "1") == "1":
            try:
                consistency_oracle(lines)
            except Exception:
                pass
        for x in lines:
            x.pop("_img", None)
        res = tracecheck.validate_lines([json.dumps(lines[0], sort_keys=True)], os.path.join(SPEC, "Trace_Geometry.tla"), os.path.join(SPEC, "Trace_Geometry.cfg"), work)
        print(json.dumps(lines[0], indent=1)[:1500])
        if res["bad"] or res["broken"]:
            print("VIOLATION property=%s replay=%s" % (PID, path)); return 1
        print("replay accepted"); return 0
    finally:
        shutil.rmtree(work, ignore_errors=True)
