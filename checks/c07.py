"""C07 -- mke2fs produces a consistent filesystem for every accepted configuration (and C20's static clause: backups
exactly where the format prescribes).

(1) TLC evaluates spec/Geometry.tla (transcription of ext2fs_initialize's arithmetic) over a configuration lattice and
    checks the arithmetic invariants (MC_Geometry).
(2) Conformance: the scratch-built mke2fs is run on a universe of configurations (option pairs + boundary sizes); each
    run becomes one trace line {cfg, rc, geometry read back by an independent superblock parser, backup groups found
    on disk, e2fsck -fn status, verdict of the independent consistency oracle, device writes of `mke2fs -n`,
    reproducibility}.  TLC (Trace_Geometry) accepts a line of an ACCEPTED configuration only if the observed geometry
    equals Geometry!Compute(cfg) field by field and all other clauses hold.
(3) The universe has two parts: the seeded lattice (feature set x block size x group size x boundary sizes x inode options,
    one option family attached at random) and the boundary catalogue that TLC writes from the specification
    (Geometry!Ss2Cells: num_backup_sb x group-count class x resize_inode; OptionCells / RaidCells / QuotaCells / UsageCells:
    the value lattice of every extended-option family).  Every catalogue cell is run in every tier."""
import os, sys, json, random, shutil, hashlib, itertools, concurrent.futures as cf
from common import VERIF, fast_tmp, seed, die_broken, NPROC, tool_env
from common import run as sh
import build, tlc as T, tracecheck, sbparse
from evidence import Evidence, Verdict

PID = "C07"
SPEC = os.path.join(VERIF, "spec")
UUID = "11112222-3333-4444-5555-666677778888"
HASH_SEED = "aaaabbbb-cccc-dddd-eeee-ffff00001111"
KNOWN_DEV_KEY = "rsv_gdt_survives_metabg_switch"
# named deviations of the code that TLC recognises in a second pass over the refused lines: (cfg of the pass, finding key, text)
DEVIATIONS = [("Trace_Geometry_dev.cfg", KNOWN_DEV_KEY, "reserved GDT blocks stored by -E resize= survive the meta_bg switch"),
              ("Trace_Geometry_dev2.cfg", "rblocks_not_rescaled_after_cluster_rounding",
               "bigalloc: the block count is rounded down to a cluster boundary but s_r_blocks_count keeps the value computed from the requested count and exceeds half of the filesystem")]

FEATSETS = [
    # (label, fstype, -O string, model?)
    ("ext2", "ext2", "", 1),
    ("ext3", "ext3", "", 1),
    ("ext4", "ext4", "", 1),
    ("ext4csum", "ext4", "metadata_csum,64bit", 1),
    ("metabg", "ext4", "meta_bg,^resize_inode,64bit", 1),
    ("nosparse", "ext2", "^sparse_super", 1),
    ("ss2", "ext4", "sparse_super2,^resize_inode", 1),
    ("ss2r", "ext4", "sparse_super2", 1),                       # mke2fs accepts sparse_super2 together with resize_inode
    ("ss2r2", "ext2", "sparse_super2", 1),
    ("noresize", "ext4", "^resize_inode", 1),
    ("noflex", "ext4", "^flex_bg,metadata_csum", 1),
    ("inline", "ext4", "inline_data,metadata_csum", 1),
    ("quota", "ext4", "quota,metadata_csum", 1),
    ("bigalloc", "ext4", "bigalloc,^resize_inode", 0),          # cluster arithmetic is not in Geometry.tla yet: other clauses only
    ("orphan", "ext4", "orphan_file,metadata_csum,64bit", 1),
    ("eainode", "ext4", "ea_inode,metadata_csum", 1),
]


def want_features(fstype, ostr):
    base = {"sparse_super", "filetype", "resize_inode", "dir_index", "ext_attr"}
    if fstype in ("ext3", "ext4"):
        base |= {"has_journal"}
    if fstype == "ext4":
        base |= {"extent", "huge_file", "flex_bg", "uninit_bg", "dir_nlink", "extra_isize"}
    for f in [x for x in ostr.split(",") if x]:
        if f.startswith("^"):
            base.discard(f[1:])
        else:
            base.add(f)
    if "metadata_csum" in base:
        base.discard("uninit_bg")
    if "meta_bg" in base:
        base.discard("resize_inode")
    base.discard("large_file")
    return base


# Option families.  family(fam, v, c) -> dict(args=[...], eopts=[...], req={...}, cfgmod={...}, model=0/1, journal=0/1)
#   args: plain options; eopts: -E items; req: the fields the specification predicts (Trace_Geometry!Requested); cfgmod: changes of
#   the geometry configuration (Geometry cfg record).  The value lattice of each family comes from the specification's catalogue.
REQ0 = {"stride": 0, "stripe": 0, "flex": 0, "mpct": 5, "jmib": 0, "quota": [], "uid": 0, "gid": 0}
QOPT = {"usr": "usrquota", "grp": "grpquota", "prj": "prjquota"}


def family(fam, v, c):
    f = dict(args=[], eopts=[], req={}, cfgmod={}, model=1, journal=0, fstype=None, ostr=None)
    if fam == "":
        pass
    elif fam in ("flex", "flex_reject"):
        f["args"] = ["-G", str(v)]; f["req"] = {"flex": v}
    elif fam in ("mpct", "mpct_reject"):
        f["args"] = ["-m", str(v), "-L", "lab"]; f["req"] = {"mpct": v}
    elif fam == "raid":
        f["eopts"] = ["stride=%d" % v["stride"]] + (["stripe_width=%d" % v["stripe"]] if v["stripe"] else [])
        f["req"] = {"stride": v["stride"], "stripe": v["stripe"]}
    elif fam == "jsize":
        f["args"] = ["-J", "size=%d" % v]; f["req"] = {"jmib": v}; f["journal"] = 1
    elif fam == "jloc":
        f["args"] = ["-J", "size=1,location=100"]; f["req"] = {"jmib": 1}; f["journal"] = 1
    elif fam == "rszfactor":
        f["eopts"] = ["resize=%d" % (v * c["blocks"])]; f["cfgmod"] = {"rszto": v * c["blocks"]}
    elif fam == "nbsb_reject":
        f["eopts"] = ["num_backup_sb=%d" % v]
    elif fam == "revision0":                    # the -r option is gone; revision 0 = no features, 128-byte inodes, backups everywhere
        f["eopts"] = ["revision=0"]; f["fstype"] = "ext2"; f["ostr"] = ""
        f["cfgmod"] = {"rev0": 1}
    elif fam == "offset":
        f["eopts"] = ["offset=8192"]
    elif fam == "packed":
        f["eopts"] = ["packed_meta_blocks=1"]
    elif fam == "rootowner":
        f["eopts"] = ["root_owner=1000:100"]; f["req"] = {"uid": 1000, "gid": 100}
    elif fam == "lazy0_nodiscard":
        f["eopts"] = ["lazy_itable_init=0", "lazy_journal_init=0", "nodiscard"]; f["args"] = ["-e", "remount-ro"]
    elif fam == "lazy1":
        f["eopts"] = ["lazy_itable_init=1", "lazy_journal_init=1"]
    elif fam == "tree":
        f["args"] = ["-d", "@tree"]; f["req"] = {"uid": -1, "gid": -1}      # the root directory takes the owner of the source directory: no claim
    elif fam == "quotatype":
        f["eopts"] = ["quotatype=" + ":".join(QOPT[t] for t in v)]; f["req"] = {"quota": sorted(v)}
        f["fstype"] = "ext4"; f["ostr"] = "quota,metadata_csum"
    elif fam == "usage":
        f["args"] = ["-T", v["name"]]; f["cfgmod"] = {"usage_iratio": v["iratio"] or 16384, "usage_isz": v["isz"] or 256}
    elif fam == "hugefiles":
        f["args"] = ["-T", "hugefiles"]; f["model"] = 0
    else:
        raise KeyError(fam)
    return f


# families attached at random to the lattice part (value lattices: the specification's catalogue, see universe())
def lattice_extras(cat):
    ex = [("", 0)] * 3
    for o in cat["options"]:
        if not o["fam"].endswith("_reject"):
            ex.append((o["fam"], o["v"]))
    ex += [("raid", r) for r in cat["raid"]]
    ex += [("usage", u) for u in cat["usage"]]
    return ex


def small_tree(work):
    d = os.path.join(work, "tree")
    if os.path.exists(d):
        return d
    os.makedirs(os.path.join(d, "a/b"))
    for i in range(12):
        with open(os.path.join(d, "a", "f%02d" % i), "wb") as f:
            f.write(bytes((i * 3 + j) & 255 for j in range(i * 700)))
    os.symlink("a/f01", os.path.join(d, "lnk"))
    os.link(os.path.join(d, "a/f02"), os.path.join(d, "a/b/hard"))
    for dd, ds, fs in os.walk(d):
        for n in fs + ds:
            # atime in the future: relatime then never updates it when mke2fs -d reads the file, so that two runs see the same lstat()
            try: os.utime(os.path.join(dd, n), (2000000000, 1500000000), follow_symlinks=False)
            except Exception: pass
    os.utime(d, (2000000000, 1500000000))
    return d


INODE_OPTS = lambda blocks: [(0, 0, 0), (4096, 128, 0), (65536, 256, 0), (0, 256, 100), (1024, 256, 0),
                             (0, 128, blocks + blocks // 8), (0, 256, (blocks * 9) // 10)]      # -N large enough for the ipg retry path


def mkcfg(label, fstype, ostr, model, bs, bpg, blocks, inode_opt, fam, v, nbsb=2, part="lattice"):
    iratio, isz, nino = inode_opt
    return dict(label=label, fstype=fstype, ostr=ostr, model=model, bs=bs, bpg=bpg, blocks=blocks, iratio=iratio, isz=isz,
                ninodes=nino, fam=fam, v=v, nbsb=nbsb, part=part, extra=fam)


def boundary_sizes(bs, bpg, maxblocks):
    eff = bpg or bs * 8
    first = 1 if bs == 1024 else 0
    sizes = set()
    for k in (1, 2, 3, 4, 8, 9, 10):
        for d in (-1, 0, 1, 40, 60, 90, 150, 300):
            sizes.add(first + k * eff + d)
    sizes |= {300, 1000, 2500, 5000}
    return sorted(x for x in sizes if 60 <= x <= maxblocks)


def catalogue_part(tier, rng, cat):
    """Every cell of the specification's boundary catalogue, in every tier (quick: seeded choice of the carrier geometry)."""
    out = []
    quick = tier == "quick"
    maxb = lambda bs: ((24 if quick else 64) * 1024 * 1024) // bs
    # --- sparse_super2 cells: num_backup_sb x group-count class x resize_inode
    for cell in sorted(cat["ss2"], key=lambda x: (x["nb"], x["groups"], x["resize"])):
        cands = []
        for bs, bpg in ((1024, 0), (1024, 1024), (2048, 0), (2048, 2048), (4096, 0), (4096, 2048)):
            eff = bpg or bs * 8
            first = 1 if bs == 1024 else 0
            for rem in (eff, eff - 1, eff // 2 + 7):
                blocks = first + (cell["groups"] - 1) * eff + rem
                if blocks <= maxb(bs):
                    for fstype in ("ext4", "ext2"):
                        cands.append((bs, bpg, blocks, fstype))
        rng.shuffle(cands)
        for (bs, bpg, blocks, fstype) in (cands[:2] if quick else cands):
            ostr = "sparse_super2" + ("" if cell["resize"] else ",^resize_inode")
            io = INODE_OPTS(blocks)[rng.randrange(3)]
            out.append(mkcfg("ss2cell", fstype, ostr, 1, bs, bpg, blocks, io, "", 0, nbsb=cell["nb"], part="ss2cell"))
    # --- option families: every value of every family on a carrier configuration that can take it
    plain = [f for f in FEATSETS if f[3] and f[0] not in ("metabg",)]
    def carriers(need_journal=False, need_flex=False, n=1):
        ps = [f for f in plain if (not need_journal or f[1] != "ext2") and (not need_flex or (f[1] == "ext4" and "^flex_bg" not in f[2]))]
        res = []
        for _ in range(n):
            (label, fstype, ostr, model) = ps[rng.randrange(len(ps))]
            bs = (1024, 2048, 4096)[rng.randrange(3)]
            sz = [x for x in boundary_sizes(bs, 0, maxb(bs)) if x >= 2500]
            res.append((label, fstype, ostr, bs, sz[rng.randrange(len(sz))]))
        return res
    reps = 1 if quick else 6
    cells = [(o["fam"], o["v"]) for o in cat["options"]] + [("raid", r) for r in cat["raid"]] + \
            [("quotatype", q) for q in cat["quota"]] + [("usage", u) for u in cat["usage"]]
    for fam, v in sorted(cells, key=lambda x: json.dumps(x, sort_keys=True)):
        if fam == "rszfactor":                   # -E resize= against the group sizes where the reserved GDT meets the meta_bg switch
            for bs in ((1024,) if quick else (1024, 2048, 4096)):
                for bpg in (0, 256, 1024):
                    for blocks in (5000, 20000):
                        (label, fstype, ostr, model) = [f for f in plain if f[0] in ("ext2", "ext4", "noresize")][rng.randrange(3)]
                        out.append(mkcfg(label, fstype, ostr, 1, bs, bpg, blocks, (0, 0, 0), fam, v, part="optcell"))
            continue
        for (label, fstype, ostr, bs, blocks) in carriers(need_journal=fam in ("jsize", "jloc"), need_flex=fam.startswith("flex"), n=reps):
            io = (0, 0, 0) if fam in ("usage", "revision0") else INODE_OPTS(blocks)[rng.randrange(3)]
            nb = 2
            if fam == "nbsb_reject":
                fstype, ostr = "ext4", "sparse_super2"
            out.append(mkcfg(label, fstype, ostr, 1, bs, 0, blocks, io, fam, v, nbsb=nb, part="optcell"))
    return out


def universe(tier, rng, cat):
    cfgs = []
    bss = [1024, 2048, 4096]
    extras = lattice_extras(cat)
    nbs = sorted(set(c["nb"] for c in cat["ss2"]))
    for (label, fstype, ostr, model) in FEATSETS:
        for bs in bss:
            bpgs = [0, 256, 1024] if bs == 1024 else [0, 2048]
            for bpg in bpgs:
                maxblocks = ((24 if tier == 'quick' else 64) * 1024 * 1024) // bs
                for blocks in boundary_sizes(bs, bpg, maxblocks):
                    for io in INODE_OPTS(blocks):
                        fam, v = extras[rng.randrange(len(extras))]
                        if fam in ("jsize", "jloc") and fstype == "ext2":
                            fam, v = "", 0
                        if fam == "flex" and (fstype != "ext4" or "^flex_bg" in ostr):
                            fam, v = "", 0
                        if fam in ("revision0", "usage") and (io != (0, 0, 0)):
                            fam, v = "", 0
                        if fam == "rszfactor" and "meta_bg" in ostr:
                            fam, v = "", 0
                        nb = nbs[rng.randrange(len(nbs))] if "sparse_super2" in ostr else 2
                        cfgs.append(mkcfg(label, fstype, ostr, model, bs, bpg, blocks, io, fam, v, nbsb=nb))
    rng.shuffle(cfgs)
    n = 320 if tier == "quick" else min(len(cfgs), 12000)
    # stratify quick selection over feature sets
    if tier == "quick":
        by = {}
        for c in cfgs:
            by.setdefault((c["label"], c["bs"]), []).append(c)
        sel = []
        while len(sel) < n:
            for k in sorted(by):
                if by[k] and len(sel) < n:
                    sel.append(by[k].pop())
    else:
        sel = cfgs[:n]
    return sel + catalogue_part(tier, rng, cat)


def clip(x):
    return x if 0 <= x < (1 << 31) else -1


def inspect(data, sb, offset):
    """Raw fields the specification predicts, read straight from the image bytes (no verdict here): s_backup_bgs, RAID fields,
    flex size, reserved blocks, quota inode numbers, owner of the root inode, size of the journal inode, and the block map of
    the resize inode (double-indirect block as runs [slot, block, length]; each mapped block's non-zero entries as
    [position, distance from that block], identical lists merged with a count)."""
    import struct
    bs = sb["bs"]
    raw = data[offset + 1024:offset + 2048]
    u32 = lambda b, o: struct.unpack_from("<I", b, o)[0]
    u16 = lambda b, o: struct.unpack_from("<H", b, o)[0]
    o = {"bgs": [clip(x) for x in sb["backup_bgs"]], "stride": u16(raw, 0x164), "stripe": clip(u32(raw, 0x170)),
         "logflex": raw[0x174], "rblocks": clip(u32(raw, 8)),
         "quota": [n for n, k in (("usr", "usr_quota"), ("grp", "grp_quota"), ("prj", "prj_quota")) if sb[k]],
         "uid": -1, "gid": -1, "jblocks": 0,
         "rsz": {"dindblk": 0, "dind": [], "lists": [], "iblocks": 0, "other": 0}}
    is64 = "64bit" in sb["features"]
    gdb = (1 if bs == 1024 else 0) + 1           # descriptors follow the superblock's block (block 1 for 1 KiB blocks even when s_first_data_block is 0)
    gd = data[offset + gdb * bs:offset + gdb * bs + 64]
    if len(gd) < 64:
        return o
    it = u32(gd, 8) + ((u32(gd, 0x28) << 32) if is64 and sb["desc_size"] >= 64 else 0)
    isz = sb["isz"]
    def inode(n):
        a = offset + it * bs + (n - 1) * isz
        return data[a:a + 128]
    if not (0 < it < sb["blocks"]) or len(inode(8)) < 128:
        return o
    root = inode(2)
    o["uid"] = u16(root, 2) | (u16(root, 120) << 16)
    o["gid"] = u16(root, 24) | (u16(root, 122) << 16)
    if sb["journal_inum"] == 8:
        j = inode(8)
        o["jblocks"] = clip((u32(j, 4) | (u32(j, 108) << 32)) // bs)
    r = inode(7)
    ib = struct.unpack_from("<15I", r, 40)
    z = o["rsz"]
    z["dindblk"] = clip(ib[13]); z["iblocks"] = clip(u32(r, 28)); z["other"] = sum(1 for k, x in enumerate(ib) if x and k != 13)
    if 0 < ib[13] < sb["blocks"]:
        apb = bs // 4
        d = struct.unpack_from("<%dI" % apb, data, offset + ib[13] * bs)
        runs = []
        for k, x in enumerate(d):
            if not x:
                continue
            if runs and runs[-1][0] + runs[-1][2] == k and runs[-1][1] + runs[-1][2] == x:
                runs[-1][2] += 1
            else:
                runs.append([k, clip(x), 1])
        z["dind"] = runs
        lists = {}
        for k, x in enumerate(d):
            if 0 < x < sb["blocks"]:
                e = struct.unpack_from("<%dI" % apb, data, offset + x * bs)
                ents = tuple((p + 1, (y - x) if y < (1 << 31) else -1) for p, y in enumerate(e) if y)
                lists[ents] = lists.get(ents, 0) + 1
        z["lists"] = [{"n": n, "ents": [list(t) for t in ents]} for ents, n in sorted(lists.items())]
    return o


def one(args):
    b, c, work, idx, iotrace = args
    env = tool_env(b)
    img = os.path.join(work, "m%d.img" % idx)
    mk = os.path.join(b, "misc", "mke2fs")
    fsck = os.path.join(b, "e2fsck", "e2fsck")
    if "fam" not in c:                          # replay files written before the option families were catalogued
        c = dict(c, fam=c.get("extra", "") if c.get("extra", "") in ("tree", "offset", "packed", "rootowner") else "", v=0, nbsb=2, part="replay")
    fm = family(c["fam"], c["v"], c)
    fstype = fm["fstype"] or c["fstype"]
    ostr = c["ostr"] if fm["ostr"] is None else fm["ostr"]
    rev0 = fm["cfgmod"].get("rev0", 0)
    eopts = ["hash_seed=" + HASH_SEED]          # mke2fs keeps only the LAST -E: all extended options go into one list
    opts = ["-q", "-F", "-t", fstype, "-b", str(c["bs"]), "-U", UUID]
    if ostr:
        opts += ["-O", ostr]
    if c["bpg"]:
        opts += ["-g", str(c["bpg"])]
    if c["iratio"]:
        opts += ["-i", str(c["iratio"])]
    if c["isz"]:
        opts += ["-I", str(c["isz"])]
    if c["ninodes"]:
        opts += ["-N", str(c["ninodes"])]
    if "bigalloc" in ostr:
        opts += ["-C", str(c["bs"] * 4)]
    if "sparse_super2" in ostr and (c["nbsb"] != 2 or c["part"] == "ss2cell"):
        eopts.append("num_backup_sb=%d" % c["nbsb"])
    offset = 0
    for e in fm["eopts"]:
        eopts.append(e)
        if e.startswith("offset="):
            offset = int(e.split("=")[1])
    opts += [os.path.join(work, "tree") if a == "@tree" else a for a in fm["args"]]
    opts += ["-E", ",".join(eopts)]
    size = c["blocks"] * c["bs"] + offset

    def fresh():
        with open(img, "wb") as f:
            f.truncate(size)
    # effective defaults from tests/mke2fs.conf.in: inode_size 256, inode_ratio by size type (floppy < 3M: 8192, small < 512M: 4096);
    # an explicit -T usage type replaces the size type ([defaults] inode_ratio 16384 unless the usage type sets one)
    eff_iratio = c["iratio"] or fm["cfgmod"].get("usage_iratio") or (8192 if size < 3 * 1024 * 1024 else 4096)
    eff_isz = c["isz"] or fm["cfgmod"].get("usage_isz") or 256
    feats = want_features(fstype, ostr)
    if rev0:                                    # revision 0: no feature flags, good-old 128-byte inodes
        feats = set()
        eff_isz = 128
    req = dict(REQ0, **fm["req"])
    model = c["model"] & fm["model"]
    line = {"e": "mke2fs", "rc": -1, "model": model, "fsck": -1, "consistent": -1, "nwrites": -1, "repro": -1,
            "want_features": sorted(feats), "journal_skipped": 0, "req": req,
            "cfg": {"bs": c["bs"], "blocks": c["blocks"], "iratio": eff_iratio, "isz": eff_isz, "bpg": c["bpg"],
                    "resize": 1 if "resize_inode" in feats else 0, "sparse": 1 if "sparse_super" in feats else 0,
                    "ss2": 1 if "sparse_super2" in feats else 0,
                    "metabg": 1 if "meta_bg" in feats else 0, "is64": 1 if "64bit" in feats else 0, "ninodes": c["ninodes"],
                    "nbsb": c["nbsb"], "rszto": fm["cfgmod"].get("rszto", 0)},
            "obs": {"blocks": 0, "first": 0, "bpg": 0, "ipg": 0, "itb": 0, "rsv": 0, "inodes": 0, "gdc": 0, "metabg": 0, "backups": [], "features": [], "backups_badcsum": [],
                    "bgs": [0, 0], "stride": 0, "stripe": 0, "logflex": 0, "rblocks": 0, "quota": [], "uid": -1, "gid": -1, "jblocks": 0,
                    "rsz": {"dindblk": 0, "dind": [], "lists": [], "iblocks": 0, "other": 0}},
            "cmd": " ".join(opts + [str(c["blocks"])]), "extra": c.get("extra", ""), "part": c.get("part", ""), "c": c}
    # -n first, on an existing zero image, under the recorder
    fresh()
    tr = img + ".nd"
    e2 = dict(env, LD_PRELOAD=iotrace, VERIF_IOTRACE_TARGET=os.path.basename(img), VERIF_IOTRACE_OUT=tr)
    h0 = hashlib.sha256(open(img, "rb").read()).hexdigest()
    rc_n, out, err = sh([mk, "-n"] + opts + [img, str(c["blocks"])], env=e2, timeout=60)
    nw = 0
    if os.path.exists(tr):
        for ln in open(tr):
            if '"e":"pwrite"' in ln or '"e":"write"' in ln or '"e":"ftruncate"' in ln or '"e":"fallocate"' in ln or '"e":"pwritev"' in ln:
                nw += 1
        os.unlink(tr)
    if hashlib.sha256(open(img, "rb").read()).hexdigest() != h0:
        nw = max(nw, 1)
    rc, out, err = sh([mk] + opts + [img, str(c["blocks"])], env=env, timeout=120)
    line["rc"] = rc if rc in (0, 1) else (2 if rc > 0 else 3)
    line["stderr"] = err.decode("utf8", "replace")[-200:]
    line["journal_skipped"] = 1 if b"too small for a journal" in err + out else 0
    if rc != 0:
        os.unlink(img)
        return line
    line["nwrites"] = nw if rc_n == 0 else 0     # -n may reject what the real run accepts only if it prints an error: then no claim
    data1 = open(img, "rb").read()
    sb = sbparse.parse_sb(data1[offset + 1024:offset + 2048])
    if sb is None:
        line["obs"]["blocks"] = -1
    else:
        line["obs"] = {"blocks": sb["blocks"], "first": sb["first"], "bpg": sb["bpg"], "ipg": sb["ipg"], "itb": sb["itb"], "rsv": sb["rsv"],
                       "inodes": sb["inodes"], "gdc": sb["gdc"], "metabg": 1 if "meta_bg" in sb["features"] else 0,
                       "backups": [0] + sbparse.backup_groups(img, sb, offset), "features": sb["features"]}
        line["obs"]["backups_badcsum"] = sbparse.bad_backup_csums(img, sb, line["obs"]["backups"], offset)
        line["obs"].update(inspect(data1, sb, offset))
    r2, out, err = sh([fsck, "-fn", img + ("?offset=%d" % offset if offset else "")], env=env, timeout=120)
    line["offset"] = offset
    line["fsck"] = r2
    line["fsck_out"] = out.decode("utf8", "replace")[-300:] if r2 else ""
    # reproducibility
    fresh()
    # the second run happens "three days later": the recorder library shifts time()/gettimeofday()/clock_gettime(), so
    # anything that reads the wall clock instead of the fixed E2FSPROGS_FAKE_TIME shows up as a difference
    e3 = dict(env, LD_PRELOAD=iotrace, VERIF_TIME_SHIFT="259207")
    r3, out, err = sh([mk] + opts + [img, str(c["blocks"])], env=e3, timeout=120)
    line["repro"] = 1 if (r3 == 0 and open(img, "rb").read() == data1) else 0
    line["_img"] = img
    return line


def run_universe(b, cfgs, work):
    iotrace = os.path.join(VERIF, "harness", "iotrace.so")
    if not os.path.exists(iotrace):
        r = sh(["make", "-C", os.path.join(VERIF, "harness"), "-s", "all"])
        if not os.path.exists(iotrace):
            die_broken("harness/iotrace.so missing (run MANIFEST.setup_cmd)")
    small_tree(work)
    with cf.ThreadPoolExecutor(max_workers=NPROC) as ex:
        return list(ex.map(one, [(b, c, work, i, iotrace) for i, c in enumerate(cfgs)]))


def consistency_oracle(lines):
    """Plug for the independent reader + Ext4Abs.Consistent (sets line['consistent'] to 1/0); -1 = not evaluated."""
    try:
        import ext4read, absstate
    except ImportError:
        return False
    idx = [i for i, l in enumerate(lines) if l["rc"] == 0 and "_img" in l]
    sts = []
    for i in idx:
        sts.append(ext4read.project(lines[i]["_img"], lines[i].get("offset", 0)))
    res = absstate.evaluate(sts)
    for i, r in zip(idx, res):
        lines[i]["consistent"] = 1 if r["consistent"] else 0
        lines[i]["failed_conjuncts"] = r.get("failed", [])
    return True


def run(tier):
    ev = Evidence(PID, tier, "model_checking")
    vd = Verdict(PID, ev)
    work = fast_tmp()
    try:
        try:
            b = build.build()
        except RuntimeError as e:
            die_broken(str(e))
        # (1) model checking of the arithmetic
        catp = os.path.join(work, "catalogue.json")
        r = T.tlc(os.path.join(SPEC, "MC_Geometry.tla"), os.path.join(SPEC, "MC_Geometry.cfg"), workers=4, timeout=1200, xmx="4g",
                  env={"C07_CATALOGUE": catp})
        ev.add_tlc(r, "Geometry!Compute over the configuration lattice (incl. sparse_super2 x num_backup_sb x resize_inode, -E resize=): "
                      "GeometryOK, NoLoop, ResizeInodeOK, BackupsClosedForm, Ss2Slots shape")
        if r.violated:
            vd.violation("model", "Geometry invariant %s violated" % r.violated, {"tlc": r.out[-3000:]})
        elif not r.ok:
            die_broken("TLC failed on MC_Geometry: %s\n%s" % (r.error, r.out[-1500:]))
        try:
            cat = json.load(open(catp))
        except Exception as e:
            die_broken("TLC did not write the boundary catalogue: %r" % (e,))
        # (2) conformance
        rng = random.Random(seed())
        cfgs = universe(tier, rng, cat)
        lines = run_universe(b, cfgs, work)
        used_reader = False
        if os.environ.get("VERIF_C07_READER", "1") == "1":
            try:
                used_reader = consistency_oracle(lines)
            except Exception as e:
                die_broken("independent consistency oracle failed: %r" % (e,))
        for l in lines:
            if "_img" in l:
                try:
                    os.unlink(l["_img"])
                except OSError:
                    pass
                del l["_img"]
        jl = [json.dumps(l, sort_keys=True) for l in lines]
        res = tracecheck.validate_lines(jl, os.path.join(SPEC, "Trace_Geometry.tla"), os.path.join(SPEC, "Trace_Geometry.cfg"), work, chunk=100)
        if res["broken"]:
            die_broken("TLC failed on a trace chunk: %s\n%s" % (res["broken"][0]["error"], res["broken"][0]["tail"][-1500:]))
        ev.cov["states"] += res["distinct"]; ev.cov["transitions"] += res["generated"]
        bad = set(res["bad"])
        accepted = [l for l in lines if l["rc"] == 0]
        # second pass over the refused lines: does the line show exactly a named deviation of the code (Geometry c.dev)?
        knowndev = {}
        for devcfg, devkey, devwhat in DEVIATIONS:
            order = sorted(bad - set(knowndev))
            if not order:
                break
            res2 = tracecheck.validate_lines([jl[i] for i in order], os.path.join(SPEC, "Trace_Geometry.tla"),
                                             os.path.join(SPEC, devcfg), work, chunk=100)
            if res2["broken"]:
                die_broken("TLC failed on the deviation pass %s: %s\n%s" % (devcfg, res2["broken"][0]["error"], res2["broken"][0]["tail"][-1500:]))
            for k in range(len(order)):
                if k not in set(res2["bad"]):
                    knowndev[order[k]] = (devkey, devwhat)
        for bi in sorted(bad):
            l = lines[bi]
            if bi in knowndev:
                vd.violation(knowndev[bi][0], "mke2fs %s: %s (e2fsck -fn exit %d)" % (l["cmd"], knowndev[bi][1], l["fsck"]), {"line": l})
                continue
            why = []
            if l["fsck"] != 0: why.append("e2fsck -fn exit %d" % l["fsck"])
            if l["consistent"] == 0: why.append("independent oracle: inconsistent %s" % l.get("failed_conjuncts"))
            if l["nwrites"] != 0: why.append("mke2fs -n issued %d write-class calls" % l["nwrites"])
            if l["repro"] != 1: why.append("not reproducible")
            if not why: why.append("geometry/backups/resize inode/requested fields/features differ from the specification")
            key = "%s|%s" % (l["cmd"], ";".join(why))
            vd.violation(key, "mke2fs %s: %s" % (l["cmd"], "; ".join(why)), {"line": l})
        ev.cov["evaluations"] = len(lines)
        ev.cov["accepted_configurations"] = len(accepted)
        ev.cov["rejected_by_mke2fs"] = len(lines) - len(accepted)
        ev.cov["traces_validated_against_impl"] = len(lines) - len(bad)
        for l in accepted:
            o = l["obs"]
            ev.nontrivial((o["blocks"], o["first"], o["bpg"], o["ipg"], o["itb"], o["rsv"], o["gdc"], o["metabg"], tuple(o["backups"]), tuple(o["features"])))
        cells = {}
        for l in accepted:
            if l["cfg"]["ss2"]:
                gc = l["obs"]["gdc"]
                cells.setdefault("nb%d/groups%s/resize%d" % (l["cfg"]["nbsb"], gc if gc < 4 else "4+", 1 if "resize_inode" in l["obs"]["features"] else 0), 0)
                cells["nb%d/groups%s/resize%d" % (l["cfg"]["nbsb"], gc if gc < 4 else "4+", 1 if "resize_inode" in l["obs"]["features"] else 0)] += 1
        ev.cov["sparse_super2_cells_accepted"] = cells
        fams = {}
        for l in lines:
            k = l["extra"] or "(none)"
            fams.setdefault(k, [0, 0])
            fams[k][0] += 1
            fams[k][1] += 1 if l["rc"] == 0 else 0
        ev.cov["option_families_run_accepted"] = fams
        ev.cov["catalogue_cells"] = {k: len(v) for k, v in cat.items()}
        ev.cov["rule"] = ("configurations = feature set x block size x blocks-per-group x boundary sizes (k*bpg+first+{-1,0,1,40..300}) x inode options, "
                          "seeded stratified selection, plus every cell of the TLC-written boundary catalogue (sparse_super2 slots, option families); non-trivial = accepted by mke2fs; distinct by the geometry tuple + feature set it produced")
        ev.cov["independent_consistency_oracle"] = "reader/ext4read.py + Ext4Abs.Consistent" if used_reader else "not available in this run (e2fsck -fn only)"
        for l in accepted[:3]:
            ev.sample({k: l[k] for k in ("cmd", "cfg", "obs", "fsck", "nwrites", "repro", "consistent")})
        ev.assumptions = ["defaults come from the tree's tests/mke2fs.conf.in (inode_size 256, inode_ratio by size type)",
                          "bigalloc configurations are checked for consistency/-n/reproducibility only (cluster arithmetic not yet in Geometry.tla)",
                          "images <= 64 MiB; journal location, packed_meta_blocks, lazy init, nodiscard, offset and -d population get the generic clauses "
                          "(e2fsck -fn, Consistent, features, -n, reproducibility); journal size, RAID fields, flex size, reserved percentage, quota types, root owner, "
                          "-T usage types, revision 0, num_backup_sb and -E resize= are predicted by the specification",
                          "the reserved-blocks count after a last-group trim is compared with a tolerance of two blocks (double-precision rescaling in ext2fs_initialize)"]
        return vd.finish()
    finally:
        shutil.rmtree(work, ignore_errors=True)


def replay(path):
    d = json.load(open(path))
    l = d["replay"]["line"]
    print("re-run by hand: mke2fs %s  (see cfg in %s)" % (l["cmd"], path))
    work = fast_tmp()
    try:
        b = build.build()
        c = l["c"]
        lines = run_universe(b, [c], work)
        if os.environ.get("VERIF_C07_READER", "1") == "1":
            try:
                consistency_oracle(lines)
            except Exception:
                pass
        for x in lines:
            x.pop("_img", None)
        res = tracecheck.validate_lines([json.dumps(lines[0], sort_keys=True)], os.path.join(SPEC, "Trace_Geometry.tla"), os.path.join(SPEC, "Trace_Geometry.cfg"), work)
        print(json.dumps(lines[0], indent=1)[:1500])
        if res["bad"] or res["broken"]:
            print("VIOLATION property=%s replay=%s" % (PID, path)); return 1
        print("replay accepted"); return 0
    finally:
        shutil.rmtree(work, ignore_errors=True)
