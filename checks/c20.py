"""C20 -- backup superblocks and group descriptors are always usable.

(1) Model checking (spec/Backups.tla + MC_Backups): abstract state = primary superblock fields / descriptor table
    locations + the content of every block that can hold a backup; actions Mkfs, Resize, Resize64, TuneFeature, TuneUUID,
    TuneISize, EnvPrimary, FsckRepair, FsckFromBackup (each a transcription of which copies ext2fs_flush2 rewrites under
    EXT2_FLAG_MASTER_SB_ONLY / EXT2_FLAG_SUPER_ONLY as that tool sets them), DestroyPrimary, RecoverFrom(loc).  TLC checks
    for every geometry up to MaxG groups and every tool sequence up to MaxSteps: the backup set is exactly the format's,
    every prescribed copy is current after every tool, recovery from any prescribed location restores the primary.
    Negative controls: four literal-defect constants must each produce an InvCurrent counterexample.
(2) Conformance (spec/Trace_Backups.tla): the universe (geometries x tool runs) is ENUMERATED BY THE SPEC (Emit_Backups).
    Every sequence is run with the scratch-built tools on a small populated image; after every step every candidate backup
    location is read by an independent parser (this module + lib/sbparse.py) and logged; at the end, for every prescribed
    location, a copy of the image gets its primary superblock and descriptors zeroed and is recovered with
    `e2fsck -fy -b LOC -B BS` (and, when the group size is the default one, min(8 * blocksize, 65528), with plain `e2fsck -fy`
    twice: primary superblock + descriptors zeroed, and descriptors alone zeroed), then `e2fsck -fn`, then the tree digest of
    the independent reader.  e2fsck's own search for a backup (get_backup_sb:
    loop over block sizes, guessed group size, probe arithmetic) is transcribed in Backups.tla (constants in
    BackupSearch.tla); the universe ranges over every block size of the format (1k ... 64k, sparse images) for the
    recovery clauses, and the quick tier always contains every block size with both front ends.  TLC decides every line against Trace_Backups (the step must be the one the
    spec action takes from the current spec state, invariants evaluated in every state)."""
import os, sys, json, random, shutil, hashlib, struct, time, re, concurrent.futures as cf
from common import VERIF, fast_tmp, seed, die_broken, NPROC, tool_env
from common import run as sh
import build, tlc as T, tracecheck, sbparse
from evidence import Evidence, Verdict

PID = "C20"
SPEC = os.path.join(VERIF, "spec")
JOBS = max(2, min(5, NPROC // 3))
UUID0 = "11112222-3333-4444-5555-666677778888"
UUIDS = {"A": "0a0a0a0a-1b1b-4c2c-8d3d-4e4e4e4e4e4e", "B": "b0b0b0b0-c1c1-4d2d-9e3e-f4f4f4f4f4f4"}
HASH_SEED = "aaaabbbb-cccc-dddd-eeee-ffff00001111"
MAXG = 128
# feature bits e2fsprogs itself declares irrelevant when comparing a backup with the primary (e2fsck/super.c
# FEATURE_RO_COMPAT_IGNORE / FEATURE_INCOMPAT_IGNORE: set by the kernel behind the tools' back) + needs_recovery
IGN_RO = 0x2 | 0x20 | 0x10000
IGN_INC = 0x40 | 0x4
DUMMY_OBS = {"prim": {"sb": {"gdc": 0}, "gd": []}, "osb": [], "ogd": [], "omg": []}

# ------------------------------------------------------------------------------------------------------------------
# independent parser of every backup location (struct offsets from the ext4 disk layout documentation)
# ------------------------------------------------------------------------------------------------------------------
def _pow(a, b):
    while a > b and a % b == 0:
        a //= b
    return a == b


def has_super(g, sparse, ss2, bk):
    """the format's rule for which groups carry a superblock copy (documentation, not the code)"""
    if g == 0:
        return True
    if ss2:
        return g in (bk[0], bk[1])
    if not sparse or g <= 1:
        return True
    if g % 2 == 0:
        return False
    return _pow(g, 3) or _pow(g, 5) or _pow(g, 7)


def sb_record(b, g):
    """1024 bytes -> (abstract record, raw geometry) when they are a valid superblock copy for group g, else None"""
    if len(b) != 1024:
        return None
    p = sbparse.parse_sb(b)
    if p is None or p["group_nr"] != (g if g < 65535 else 65535) or not sbparse.sb_csum_ok(b):
        return None
    u32 = lambda o: struct.unpack_from("<I", b, o)[0]
    u16 = lambda o: struct.unpack_from("<H", b, o)[0]
    compat, incompat, ro = u32(92), u32(96), u32(100)
    bs = p["bs"]
    if bs > 65536 or p["bpg"] == 0 or p["ipg"] == 0:
        return None
    dsz = u16(0xFE) if (incompat & 0x80) else 32
    if dsz < 32 or dsz > bs or dsz & (dsz - 1):
        return None
    if p["blocks"] >= 1 << 31 or p["gdc"] < 1:
        return None
    ss2 = bool(compat & 0x200)
    rec = {"gdc": p["gdc"], "dpb": bs // dsz, "sparse": bool(ro & 1), "ss2": ss2, "metabg": bool(incompat & 0x10),
           "bk": [min(x, 1 << 30) for x in p["backup_bgs"]] if ss2 else [0, 0],
           "feat": "%x,%x,%x" % (compat, incompat & ~IGN_INC, ro & ~IGN_RO), "uuid": p["uuid"][:16], "blocks": p["blocks"], "inodes": p["inodes"],
           "rsv": p["rsv"],
           "fixed": "bs%d bpg%d cpg%d ipg%d first%d isz%d dsz%d fmb%d flex%d rev%d" % (bs, p["bpg"], p["cpg"], p["ipg"], p["first"], p["isz"], dsz,
                                                                                      p["first_meta_bg"], p["log_flex"], p["rev"])}
    geo = {"bs": bs, "bpg": p["bpg"], "first": p["first"], "dsz": dsz, "gdc": p["gdc"], "dpb": bs // dsz, "blocks": p["blocks"],
           "csum": bool(ro & 0x400), "is64": bool(incompat & 0x80), "features": p["features"], "ipg": p["ipg"], "isz": p["isz"], "fmb": p["first_meta_bg"]}
    return rec, geo


def _desc_digest(f, blk, geo, m):
    """table locations recorded in descriptor block m, read at block number blk -> 1-tuple [hex] ([] when unreadable)"""
    bs, dsz = geo["bs"], geo["dsz"]
    n = min(geo["dpb"], geo["gdc"] - m * geo["dpb"])
    f.seek(blk * bs)
    d = f.read(bs)
    if len(d) < n * dsz or n <= 0:
        return []
    h = hashlib.sha1()
    for j in range(n):
        bb, ib, it = struct.unpack_from("<III", d, j * dsz)
        if dsz >= 64:
            hb, hi, ht = struct.unpack_from("<III", d, j * dsz + 0x20)
            bb |= hb << 32; ib |= hi << 32; it |= ht << 32
        h.update(struct.pack("<QQQ", bb, ib, it))
    return [h.hexdigest()[:14]]


def gfirst(geo, g):
    return geo["first"] + g * geo["bpg"]


def mg_block(geo, s, m, k):
    """block number of the copy of descriptor block m: k = 0 first group of the meta group, 1 second, 2 last"""
    g = m * geo["dpb"] + (0 if k == 0 else 1 if k == 1 else geo["dpb"] - 1)
    return g, gfirst(geo, g) + (1 if has_super(g, s["sparse"], s["ss2"], s["bk"]) else 0)


def observe(path):
    """-> (obs, geo) or (None, None) when the primary superblock does not parse"""
    with open(path, "rb") as f:
        f.seek(1024)
        r = sb_record(f.read(1024), 0)
        if r is None:
            return None, None
        s, geo = r
        if s["gdc"] > MAXG or geo["fmb"] != 0 and s["metabg"]:
            return None, None
        descb = (s["gdc"] + s["dpb"] - 1) // s["dpb"]
        if s["metabg"]:
            gd = [_desc_digest(f, mg_block(geo, s, m, 0)[1], geo, m) for m in range(descb)]
        else:
            gd = [_desc_digest(f, geo["first"] + 1 + m, geo, m) for m in range(descb)]
        osb, ogd, omg = [], [], []
        for g in range(1, s["gdc"]):
            f.seek(gfirst(geo, g) * geo["bs"])
            c = sb_record(f.read(1024), g)
            if c is None:
                continue
            osb.append({"g": g, "s": c[0]})
            if not s["metabg"]:
                ogd.append({"g": g, "gd": [_desc_digest(f, gfirst(geo, g) + 1 + m, geo, m) for m in range(descb)]})
        if s["metabg"]:
            for m in range(descb):
                for k in (1, 2):
                    g, blk = mg_block(geo, s, m, k)
                    if g < s["gdc"]:
                        omg.append({"m": m, "k": k, "v": _desc_digest(f, blk, geo, m)})
    return {"prim": {"sb": s, "gd": gd}, "osb": osb, "ogd": ogd, "omg": omg}, geo


def geo3(geo):
    """the three geometry fields the spec's search arithmetic needs (all < 2^31)"""
    return {"bs": geo["bs"], "bpg": geo["bpg"], "first": geo["first"]}


def default_bpg(bs):
    """only used for replay files written before the universe carried the `plain` flag (the obligation itself is the spec's PlainObliged)"""
    return min(8 * bs, 65528)


def prescribed(s):
    return [g for g in range(1, s["gdc"]) if has_super(g, s["sparse"], s["ss2"], s["bk"])]


def explain(obs):
    """human-readable summary of what is wrong with an observation (message only; the verdict is TLC's)"""
    s = obs["prim"]["sb"]
    if "dpb" not in s:
        return "primary superblock unreadable"
    pres = prescribed(s)
    have = {e["g"]: e["s"] for e in obs["osb"]}
    w = []
    missing = [g for g in pres if g not in have]
    stale = [g for g in pres if g in have and have[g] != s]
    extra = [g for g in have if g not in pres and have[g] == s]
    if missing: w.append("no valid superblock copy in prescribed groups %s" % missing)
    if stale:
        g = stale[0]
        w.append("stale superblock copy in groups %s (group %d differs in %s)" % (stale, g, [k for k in s if s[k] != have[g][k]]))
    if extra: w.append("current superblock copy in non-prescribed groups %s" % extra)
    gds = {e["g"]: e["gd"] for e in obs["ogd"]}
    sg = [g for g in pres if g in gds and gds[g] != obs["prim"]["gd"]]
    if sg and not s["metabg"]: w.append("descriptor backup behind groups %s records other table locations than the primary" % sg)
    sm = [(e["m"], e["k"]) for e in obs["omg"] if e["m"] < len(obs["prim"]["gd"]) and e["v"] != obs["prim"]["gd"][e["m"]]]
    if sm: w.append("meta_bg descriptor copies (meta group, 1=2nd/2=last) %s differ from the primary" % sm)
    return "; ".join(w) or "prescribed copies all equal the primary"


# ------------------------------------------------------------------------------------------------------------------
# own writers (environment steps and the destruction of the primary)
# ------------------------------------------------------------------------------------------------------------------
def _rewrite_sb(path, off, fn):
    with open(path, "r+b") as f:
        f.seek(off)
        b = bytearray(f.read(1024))
        fn(b)
        if struct.unpack_from("<I", b, 100)[0] & 0x400:
            struct.pack_into("<I", b, 0x3FC, sbparse.crc32c(0xFFFFFFFF, bytes(b[:0x3FC])))
        f.seek(off)
        f.write(b)


def _xor_compat(b):
    struct.pack_into("<I", b, 92, struct.unpack_from("<I", b, 92)[0] ^ 0x1)      # dir_prealloc: supported, inert


def env_primfeat(path, obs, geo):
    _rewrite_sb(path, 1024, _xor_compat)
    return True


def env_stalebk(path, obs, geo):
    s = obs["prim"]["sb"]
    pres = set(prescribed(s))
    c = [e["g"] for e in obs["osb"] if e["g"] in pres]
    if not c:
        return None
    g = min(c)
    _rewrite_sb(path, gfirst(geo, g) * geo["bs"], _xor_compat)
    return g


def env_primgd(path, obs, geo):
    """inode table pointer of group 1 in the primary descriptors := 0"""
    s = obs["prim"]["sb"]
    if s["gdc"] < 2:
        return None
    blk = mg_block(geo, s, 0, 0)[1] if s["metabg"] else geo["first"] + 1
    with open(path, "r+b") as f:
        f.seek(blk * geo["bs"] + geo["dsz"] + 8)
        f.write(b"\0\0\0\0")
    return True


def env_bitmap(path, obs, geo):
    """flip the bit of the last block of group 0 in its block bitmap"""
    s = obs["prim"]["sb"]
    blk = mg_block(geo, s, 0, 0)[1] if s["metabg"] else geo["first"] + 1
    with open(path, "r+b") as f:
        f.seek(blk * geo["bs"])
        d = f.read(geo["dsz"])
        bb = struct.unpack_from("<I", d, 0)[0] | ((struct.unpack_from("<I", d, 0x20)[0] << 32) if geo["dsz"] >= 64 else 0)
        nb = min(geo["bpg"], geo["blocks"] - geo["first"])
        bit = nb - 1
        f.seek(bb * geo["bs"] + bit // 8)
        c = f.read(1)[0]
        f.seek(bb * geo["bs"] + bit // 8)
        f.write(bytes([c ^ (1 << (bit % 8))]))
    return True


def destroy_primary(path, obs, geo, keep_sb=False):
    s = obs["prim"]["sb"]
    bs = geo["bs"]
    descb = len(obs["prim"]["gd"])
    with open(path, "r+b") as f:
        if not keep_sb:
            f.seek(1024); f.write(b"\0" * 1024)
        if s["metabg"]:
            for m in range(descb):
                if m * s["dpb"] + 1 < s["gdc"]:          # the format prescribes a backup of this block
                    f.seek(mg_block(geo, s, m, 0)[1] * bs); f.write(b"\0" * bs)
        else:
            f.seek((geo["first"] + 1) * bs); f.write(b"\0" * (bs * descb))


# ------------------------------------------------------------------------------------------------------------------
# content and images
# ------------------------------------------------------------------------------------------------------------------
def host_tree(root):
    """small deterministic tree: many directories (inodes spread over the groups), every common object type"""
    if os.path.exists(root):
        shutil.rmtree(root)
    os.makedirs(root)
    T0 = 1500000000

    def w(path, data, mode=0o644):
        p = os.path.join(root, path)
        os.makedirs(os.path.dirname(p), exist_ok=True)
        with open(p, "wb") as f:
            f.write(data)
        os.chmod(p, mode)
    w("hello.txt", b"hello world\n")
    w("empty", b"")
    w("blockp1", bytes((i * 11) & 255 for i in range(1025)))
    w("medium", bytes((i * 13 + (i >> 8)) & 255 for i in range(20000)), mode=0o4755)
    p = os.path.join(root, "sparse3")
    with open(p, "wb") as f:
        for k in range(3):
            f.seek(16384 * (k + 1)); f.write(bytes((k * 31 + i) & 255 for i in range(1500)))
        f.truncate(16384 * 5)
    for d in range(10):
        for i in range(3):
            w("d%02d/f%d" % (d, i), bytes(((d * 7 + i) * 3 + j) & 255 for j in range(300 * (i + 1) + d)))
    w("d00/sub/subsub/leaf", b"leaf\n", mode=0o600)
    os.makedirs(os.path.join(root, "names"))
    for i in range(40):
        open(os.path.join(root, "names", ("n%03d_" % i) + "y" * (i * 5 % 90)), "wb").close()
    os.symlink("hello.txt", os.path.join(root, "fastlink"))
    os.symlink("d00/sub/subsub/" + "a" * 80, os.path.join(root, "slowlink"))
    os.link(os.path.join(root, "hello.txt"), os.path.join(root, "d01/hardlink"))
    os.mkfifo(os.path.join(root, "fifo"))
    try:
        os.mknod(os.path.join(root, "chr"), 0o020644, os.makedev(1, 3))
    except OSError:
        pass
    try:
        os.setxattr(os.path.join(root, "hello.txt"), "user.small", b"v1")
        os.setxattr(os.path.join(root, "medium"), "user.blockattr", b"B" * 300)
    except OSError:
        pass
    os.chown(os.path.join(root, "d02/f1"), 1000, 100)
    for d, ds, fs in os.walk(root, topdown=False):
        for n in fs + ds:
            q = os.path.join(d, n)
            if not os.path.islink(q):
                os.utime(q, (T0, T0))
    os.utime(root, (T0, T0))
    return root


def tiny_tree(root):
    """for images of a few hundred blocks / 64 inodes"""
    if os.path.exists(root):
        shutil.rmtree(root)
    os.makedirs(root)
    for d in range(3):
        os.makedirs(os.path.join(root, "d%d" % d))
        for i in range(3):
            with open(os.path.join(root, "d%d" % d, "f%d" % i), "wb") as f:
                f.write(bytes(((d * 7 + i) * 3 + j) & 255 for j in range(700 * (i + 1) + d)))
    with open(os.path.join(root, "hello.txt"), "wb") as f:
        f.write(b"hello world\n")
    os.symlink("hello.txt", os.path.join(root, "fastlink"))
    os.symlink("d0/" + "a" * 80, os.path.join(root, "slowlink"))
    os.link(os.path.join(root, "hello.txt"), os.path.join(root, "d1", "hardlink"))
    os.mkfifo(os.path.join(root, "fifo"))
    try:
        os.setxattr(os.path.join(root, "hello.txt"), "user.small", b"v1")
    except OSError:
        pass
    for d, ds, fs in os.walk(root, topdown=False):
        for n in fs + ds:
            q = os.path.join(d, n)
            if not os.path.islink(q):
                os.utime(q, (1500000000, 1500000000))
    os.utime(root, (1500000000, 1500000000))
    return root


def make_trees(work):
    trees = [host_tree(os.path.join(work, "tree0")), host_tree(os.path.join(work, "tree1")), tiny_tree(os.path.join(work, "tree2"))]
    big_file(trees[1])
    return trees


def big_file(root):
    with open(os.path.join(root, "d03", "big150k"), "wb") as f:
        f.write(bytes((i * 17 + (i >> 10)) & 255 for i in range(150 * 1024)))
    os.utime(os.path.join(root, "d03", "big150k"), (1500000000, 1500000000))
    os.utime(os.path.join(root, "d03"), (1500000000, 1500000000))


PROFILE_ARGS = {
    "sparse":       "-t ext4 -O ^resize_inode,^flex_bg,metadata_csum",
    "none":         "-t ext2 -O ^sparse_super,^resize_inode -I 128",
    "ss2_0":        "-t ext4 -O sparse_super2,^resize_inode,metadata_csum -E num_backup_sb=0",
    "ss2_1":        "-t ext4 -O sparse_super2,^resize_inode,metadata_csum -E num_backup_sb=1",
    "ss2_2":        "-t ext4 -O sparse_super2,^resize_inode,metadata_csum -E num_backup_sb=2",
    "metabg":       "-t ext4 -O meta_bg,^resize_inode,^64bit,^flex_bg",
    "metabg64":     "-t ext4 -O meta_bg,64bit,^resize_inode,metadata_csum",
    "flex":         "-t ext4 -O flex_bg,64bit,^resize_inode,metadata_csum",
    "ss2_2_metabg": "-t ext4 -O sparse_super2,meta_bg,64bit,^resize_inode,metadata_csum -E num_backup_sb=2",
    "rsv":          "-t ext4 -O resize_inode,flex_bg,metadata_csum",
}
JOURNAL_PROFILES = ("sparse", "flex", "metabg64", "rsv")


def geom_key(g):
    return "%s/bs%d/g%d/n%d" % (g["prof"], g["bs"], g["bpg"], g["groups"])


def op_key(o):
    return o["k"] + (":%d" % o["n"] if o["k"] in ("resize", "isize") else "") + (":" + o["a"] if o["a"] else "")


def mk_image(b, geom, img, trees):
    """-> '' or the reason mke2fs / population refused"""
    env = tool_env(b)
    bs, bpg, n = geom["bs"], geom["bpg"], geom["groups"]
    first = 1 if bs == 1024 else 0
    blocks = first + n * bpg
    big = blocks * bs >= 6 << 20
    args = PROFILE_ARGS[geom["prof"]].split()
    # 8k ... 64k blocks: groups of 0.5 ... 4 GiB in a sparse file; a fixed small inode count keeps the inode tables (which
    # mke2fs zeroes) small, and no journal (>= 1024 blocks of real writes)
    huge = bs > 4096
    if geom["prof"] in JOURNAL_PROFILES and blocks * bs >= 4 << 20 and not huge:
        args += ["-J", "size=%d" % (1 if bs == 1024 else 4 if bs == 4096 else 2)]
    else:
        args += ["-O", "^has_journal"]
    if os.path.exists(img):
        os.unlink(img)
    with open(img, "wb") as f:
        f.truncate(blocks * bs)
    cmd = [os.path.join(b, "misc", "mke2fs"), "-q", "-F", "-U", UUID0, "-E", "hash_seed=" + HASH_SEED, "-b", str(bs), "-g", str(bpg),
           ] + (["-N", str(128 * n)] if huge else ["-i", "4096"]) + args + ["-d", trees[1 if big else 2 if blocks * bs < (1 << 20) else 0], img, str(blocks)]
    rc, out, err = sh(cmd, env=env, timeout=120)
    if rc != 0:
        return "mke2fs exit %d: %s" % (rc, err.decode("utf8", "replace")[-200:])
    rc, out, err = sh([os.path.join(b, "e2fsck", "e2fsck"), "-fn", img], env=env, timeout=120)
    if rc != 0:
        return "fresh image not clean (e2fsck -fn exit %d)" % rc
    return ""


def tree_digest(img):
    """digest of the user-visible tree as the independent reader sees it ('' + reason when the reader cannot read it)"""
    import ext4read, mmap
    try:
        if os.path.getsize(img) > (64 << 20):
            # sparse images of 8k ... 64k-block filesystems (GiBs of holes): the shared reader loads the first GiB of an
            # image into memory; give it a memory map of the whole file instead (it only ever slices self.img)
            class _MappedReader(ext4read.Reader):
                MAX_IMAGE = 0

                def __init__(self, path, offset=0):
                    super().__init__(path, offset)           # reads nothing, sets up the bookkeeping
                    self._f = open(path, "rb")
                    self.img = mmap.mmap(self._f.fileno(), 0, access=mmap.ACCESS_READ)
                    self.size = len(self.img)
            r = _MappedReader(img)
            try:
                p = r.project()
            finally:
                r.img.close(); r._f.close()
        else:
            p = ext4read.project(img)
    except Exception as e:                                   # reader limitation: never a verdict
        return "", "reader exception %s" % type(e).__name__
    if "fatal" in p:
        return "", "reader: %s" % str(p["fatal"])[:100]
    ents = []
    for e in p.get("tree", []):
        e = dict(e)
        if e.get("type") == "dir":
            e.pop("size", None)                              # a directory's byte size is layout, not content
        ents.append(e)
    return hashlib.sha256(json.dumps(ents, sort_keys=True, default=str).encode()).hexdigest()[:24], ""


def copy_image(src, dst):
    rc, o, e = sh(["cp", "--sparse=always", src, dst], timeout=120)
    if rc != 0:
        shutil.copyfile(src, dst)


# ------------------------------------------------------------------------------------------------------------------
# one behaviour
# ------------------------------------------------------------------------------------------------------------------
def tool_step(b, op, img, obs, geo):
    """runs one tool op in place.  -> list of (event, extra fields) lines to log, or (None, reason) when refused / skipped"""
    env = tool_env(b, {"E2FSPROGS_UNDO_DIR": "none"})
    s = obs["prim"]["sb"]
    tune = os.path.join(b, "misc", "tune2fs")
    rsz = os.path.join(b, "resize", "resize2fs")
    fsck = os.path.join(b, "e2fsck", "e2fsck")
    k = op["k"]
    if k == "resize":
        nb = geo["first"] + op["n"] * geo["bpg"]
        rc, out, err = sh([rsz, img, str(nb)], env=env, timeout=300)
        return ([("resize", {})], "") if rc == 0 else (None, "resize2fs exit %d" % rc)
    if k == "resize64":
        rc, out, err = sh([rsz, "-s" if geo["is64"] else "-b", img], env=env, timeout=300)
        return ([("resize64", {})], "") if rc == 0 else (None, "resize2fs exit %d" % rc)
    if k in ("tunefeat", "uuid", "isize"):
        feats = geo["features"]
        if k == "uuid":
            argv = ["-U", UUIDS[op["a"]]]
        elif k == "isize":
            argv = ["-I", str(op["n"])]
        elif op["a"] == "journal":
            argv = ["-O", "^has_journal"] if "has_journal" in feats else ["-O", "has_journal", "-J", "size=%d" % max(1, geo["bs"] // 1024)]
        elif op["a"] == "csum":
            argv = ["-O", "^metadata_csum"] if "metadata_csum" in feats else ["-O", "metadata_csum"]
        elif op["a"] == "dirindex":
            argv = ["-O", "^dir_index"] if "dir_index" in feats else ["-O", "dir_index"]
        elif op["a"] == "sparse":
            if "sparse_super" in feats:
                return None, "sparse_super already on"
            argv = ["-O", "sparse_super"]
        else:
            return None, "unknown feature request"
        rc, out, err = sh([tune] + argv + [img], env=env, timeout=300, input=b"")
        if rc != 0:
            return None, "tune2fs exit %d" % rc
        lines = [(k, {})]
        txt = (out + err).decode("utf8", "replace")
        if "Please run e2fsck -f" in txt:
            lines.append(("fsck!", {"d": "-fyD" if "-fD" in txt else "-fy"}))
        return lines, ""
    if k == "fsck":
        r = op["a"]
        if r == "primfeat":
            env_primfeat(img, obs, geo); first = ("env", {})
        elif r == "primgd":
            pres = set(prescribed(s))
            listed = [e["g"] for e in obs["osb"] if has_super(e["g"], True, False, [0, 0])]
            if s["gdc"] < 2 or not listed:
                return None, "no backup e2fsck could fall back to"
            env_primgd(img, obs, geo); first = ("env", {})
        elif r == "freecnt":
            env_bitmap(img, obs, geo); first = ("envdata", {})
        elif r == "stalebk":
            g = env_stalebk(img, obs, geo)
            if g is None:
                return None, "no backup copy"
            first = ("envbk", {"g": g})
        else:
            return None, "unknown recipe"
        return [first, ("fsck!", {"d": "-fy"})], ""
    return None, "unknown op"


def run_fsck(b, img, flag):
    env = tool_env(b, {"E2FSPROGS_UNDO_DIR": "none"})
    rc, out, err = sh([os.path.join(b, "e2fsck", "e2fsck"), flag, img], env=env, timeout=300)
    txt = (out + err).decode("utf8", "replace")
    return rc, (1 if "trying backup blocks" in txt else 0), txt


def recover(b, img, work, tag, obs, geo, g, tree_pre, plain=False, keep_sb=False):
    env = tool_env(b, {"E2FSPROGS_UNDO_DIR": "none"})
    fsck = os.path.join(b, "e2fsck", "e2fsck")
    cp = os.path.join(work, "%s_rec.img" % tag)
    copy_image(img, cp)
    try:
        destroy_primary(cp, obs, geo, keep_sb)
        blk = gfirst(geo, g)
        cmd = [fsck, "-fy", cp] if plain else [fsck, "-fy", "-b", str(blk), "-B", str(geo["bs"]), cp]
        rc, out, err = sh(cmd, env=env, timeout=300)
        txt = (out + err).decode("utf8", "replace")
        rc2, out2, err2 = sh([fsck, "-fn", cp], env=env, timeout=300)
        post, _ = observe(cp)
        tp, terr = tree_digest(cp) if post is not None else ("", "primary unreadable")
        line = {"e": ("plaingd" if keep_sb else "plain") if plain else "recover", "g": g, "blk": blk, "geo": geo3(geo), "rc": rc if 0 <= rc < 200 else 255, "fn": rc2 if 0 <= rc2 < 200 else 255,
                "tree_pre": tree_pre, "tree_post": tp if tp else "unreadable: " + terr, "parsed": 1 if post is not None else 0,
                "obs": post if post is not None else DUMMY_OBS}
        return line, txt[-700:], (out2 + err2).decode("utf8", "replace")[-400:]
    finally:
        if os.path.exists(cp):
            os.unlink(cp)


def run_case(args):
    """One behaviour.  -> dict(lines=[...], info=...)"""
    b, geom, ops, work, idx, trees, maxloc, rseed = args
    tag = "c%d" % idx
    img = os.path.join(work, tag + ".img")
    info = {"geom": geom, "ops": ops, "skipped": [], "stopped": "", "detail": {}}
    lines = []
    try:
        why = mk_image(b, geom, img, trees)
        if why:
            info["stopped"] = "mkfs: " + why
            return {"lines": [], "info": info}
        obs, geo = observe(img)
        if obs is None:
            info["stopped"] = "mkfs: primary superblock does not parse / outside the modelled formats"
            return {"lines": [], "info": info}
        lines.append({"e": "mkfs", "obs": obs, "fn": 0, "geo": geo3(geo)})
        done = []
        for op in ops:
            keep = img + ".pre"
            copy_image(img, keep)
            steps, why = tool_step(b, op, img, obs, geo)
            if steps is None:
                os.replace(keep, img)
                info["skipped"].append(op_key(op) + ": " + why)
                continue
            new = []
            bad = ""
            for ev, extra in steps:
                if ev == "fsck!":
                    rc, fb, txt = run_fsck(b, img, extra["d"])
                    if rc not in (0, 1):
                        bad = "e2fsck %s exit %d (no repair claimed): %s" % (extra["d"], rc, txt[-200:])
                        break
                    ev, extra = "fsck", {"frombackup": fb, "rc": rc}
                o2, g2 = observe(img)
                if o2 is None:
                    bad = "primary superblock unreadable / outside the modelled formats after %s" % ev
                    break
                new.append(dict({"e": ev, "obs": o2, "fn": 0, "geo": geo3(g2)}, **extra))
                obs, geo = o2, g2
            if bad:
                os.replace(keep, img)
                obs, geo = observe(img)
                info["skipped"].append(op_key(op) + ": " + bad)
                continue
            # the image every later step (and the recovery experiment) starts from must be consistent
            rc, fb, txt = run_fsck(b, img, "-fn")
            new[-1]["fn"] = rc if 0 <= rc < 200 else 255
            if rc != 0:
                info["detail"][len(lines) + len(new) - 1] = ("e2fsck -fn after %s: %s" % (op_key(op), txt[-600:]), "")
                info["inconsistent_after"] = op_key(op)
                lines += new
                done.append(op_key(op))
                os.unlink(keep)
                break
            os.unlink(keep)
            lines += new
            done.append(op_key(op))
        info["done"] = done
        if info.get("inconsistent_after"):
            return {"lines": lines, "info": info}
        # the property's experiment on the final image
        s = obs["prim"]["sb"]
        locs = prescribed(s)
        tree_pre, terr = tree_digest(img)
        if not tree_pre:
            tree_pre = "unknown"
            info["tree_unknown"] = terr
        rng = random.Random(rseed)
        if maxloc and len(locs) > maxloc:
            keepl = {locs[0], locs[-1]}
            rest = [g for g in locs if g not in keepl]
            rng.shuffle(rest)
            locs = sorted(keepl | set(rest[:maxloc - 2]))
        for g in locs:
            line, txt, txt2 = recover(b, img, work, tag, obs, geo, g, tree_pre)
            if tree_pre == "unknown":
                line["tree_post"] = "unknown"
            lines.append(line)
            info["detail"][len(lines) - 1] = (txt, txt2)
        if geom.get("plain", geo["bpg"] == default_bpg(geo["bs"])) and s["gdc"] > 1:
            for keep_sb in (False, True):                    # superblock + descriptors lost / descriptors alone lost
                line, txt, txt2 = recover(b, img, work, tag, obs, geo, 0, tree_pre, plain=True, keep_sb=keep_sb)
                if tree_pre == "unknown":
                    line["tree_post"] = "unknown"
                lines.append(line)
                info["detail"][len(lines) - 1] = (txt, txt2)
        info["nlocs"] = len(locs)
        info["final_sb"] = s
    finally:
        for p in (img, img + ".pre"):
            if os.path.exists(p):
                os.unlink(p)
    return {"lines": lines, "info": info}


# ------------------------------------------------------------------------------------------------------------------
# universe
# ------------------------------------------------------------------------------------------------------------------
def load_universe(work):
    out = os.path.join(work, "universe.json")
    r = T.tlc(os.path.join(SPEC, "Emit_Backups.tla"), os.path.join(SPEC, "Emit_Backups.cfg"), workers=1, timeout=300, env={"OUT": out}, xmx="1g")
    if not r.ok or not os.path.exists(out):
        die_broken("TLC could not enumerate the universe (Emit_Backups): %s\n%s" % (r.error, r.out[-1500:]))
    u = json.load(open(out))
    geoms = u["geoms"]
    ops = u["ops"]
    order = sorted(range(len(geoms)), key=lambda i: geom_key(geoms[i]))
    geoms = [geoms[i] for i in order]
    ops = [sorted(ops[i], key=op_key) for i in order]
    if len({geom_key(g) for g in geoms}) != len(geoms):
        die_broken("duplicate geometries in the universe")
    bsz = sorted(u["bsizes"])
    if not bsz or set(u["bboundary"]) - set(bsz):
        die_broken("the universe carries no block-size set / an inconsistent boundary catalogue")
    return geoms, ops, bsz, sorted(u["bboundary"])


def per_blocksize(geoms, ops, bsizes, bboundary):
    """The block-size part of the fixed quick universe, derived from the spec's block-size set: for EVERY block size the
    smallest default-group-size sparse_super geometry with >= 2 groups and the run `damaged primary descriptors ; e2fsck -fy`
    (get_backup_sb with a known superblock), followed like every behaviour by `e2fsck -b` from every location and plain
    e2fsck on a destroyed primary (get_backup_sb without a superblock); for every BOUNDARY block size also a 4-group flex_bg
    geometry after tune2fs -U (locations 1 and 3)."""
    out = []
    for bs in bsizes:
        for prof, nmin, opk in (("sparse", 2, "fsck:primgd"),) + ((("flex", 4, "uuid:A"),) if bs in bboundary else ()):
            c = [gi for gi in range(len(geoms)) if geoms[gi]["bs"] == bs and geoms[gi]["prof"] == prof and geoms[gi].get("plain") and geoms[gi]["groups"] >= nmin]
            if not c:
                die_broken("Emit_Backups has no default-group-size %s geometry with >= %d groups for block size %d" % (prof, nmin, bs))
            gi = min(c, key=lambda i: geoms[i]["groups"])
            o = [x for x in ops[gi] if op_key(x) == opk]
            if len(o) != 1:
                die_broken("Emit_Backups: op %s missing for %s" % (opk, geom_key(geoms[gi])))
            out.append((gi, o))
    return out


def sequences(tier, geoms, ops, rng, bsizes, bboundary):
    singles = [(gi, [o]) for gi in range(len(geoms)) for o in ops[gi]]
    perbs = per_blocksize(geoms, ops, bsizes, bboundary)
    npairs = sum(len(o) ** 2 for o in ops)
    ntriples = sum(len(o) ** 3 for o in ops)

    def draw(n, k):
        out = []
        for _ in range(n):
            gi = rng.randrange(len(geoms))
            out.append((gi, [rng.choice(ops[gi]) for _ in range(k)]))
        return out
    if tier == "thorough":
        seqs = singles + draw(500, 2) + draw(400, 3)
    else:
        # every op kind x every feature profile at least once, then seeded pairs / triples
        by = {}
        for gi, o in singles:
            by.setdefault((geoms[gi]["prof"], o[0]["k"], o[0]["a"]), []).append((gi, o))
        pick = []
        for key in sorted(by):
            pick.append(rng.choice(by[key]))
        rng.shuffle(pick)
        seqs = pick[:38] + draw(10, 2) + draw(8, 3)
        # fixed part: the geometries the mutants of bin/selftest need (>= 50 groups sparse: group 49 = 7^2; no sparse_super;
        # sparse_super2 with two backups; resize_inode), one element per event kind of Trace_Backups, and the regression
        # inputs of the three repaired resize2fs defects (replays/C20/fixed_*.json)
        want = {"sparse/bs1024/g256/n50": ("tunefeat:dirindex", "fsck:primfeat", "resize:28", "uuid:A", "fsck:stalebk", "fsck:freecnt"),
                "ss2_2/bs1024/g256/n10": ("tunefeat:dirindex", "fsck:primfeat", "resize:26", "uuid:A"),
                "none/bs1024/g256/n10": ("tunefeat:dirindex", "fsck:primfeat", "resize:28", "uuid:A", "isize:256"),
                "rsv/bs1024/g1024/n10": ("fsck:primfeat", "resize:26", "uuid:A"),
                "sparse/bs1024/g8192/n4": ("uuid:A",),
                "metabg64/bs1024/g256/n34": ("resize64", "resize:50", "tunefeat:csum"),
                "flex/bs1024/g256/n28": ("fsck:primgd",),
                "ss2_1/bs1024/g256/n4": ("resize:10",),
                "ss2_2/bs1024/g256/n2": ("resize:34",),
                "ss2_2_metabg/bs1024/g256/n50": ("resize:49", "resize:57"),
                "ss2_2_metabg/bs1024/g256/n2": ("resize:10",)}
        must = [(gi, o) for gi, o in singles if op_key(o[0]) in want.get(geom_key(geoms[gi]), ())]
        if len(must) != sum(len(v) for v in want.values()):
            die_broken("the fixed part of the quick universe is no longer inside Emit_Backups (%d of %d elements found)" % (len(must), sum(len(v) for v in want.values())))
        # ... and the shortest behaviour that exercises the known finding (replays/C20/known_backup_search_ss2.json)
        kf = [gi for gi in range(len(geoms)) if geom_key(geoms[gi]) == "ss2_2/bs1024/g256/n2"]
        kops = [[o for o in ops[gi] if op_key(o) == k] for gi in kf for k in ("resize:50", "fsck:primgd")]
        if len(kf) != 1 or any(len(x) != 1 for x in kops):
            die_broken("the known-finding element is no longer inside Emit_Backups")
        seqs = must + [x for x in perbs if x not in must] + [(kf[0], [kops[0][0], kops[1][0]])] + seqs
    return seqs, dict(singles=len(singles), pairs=npairs, triples=ntriples, fixed_singles_in_quick=(len(must) if tier != "thorough" else 0),
                      block_sizes=bsizes, block_size_boundaries=bboundary, per_block_size_fixed=len(perbs))


def model_check(tier, ev, vd):
    mod = os.path.join(SPEC, "MC_Backups.tla")
    # thorough: "wide" = every geometry up to 60 groups (descriptors per block 16 / 32), sequences <= 2;
    #           "deep" = up to 20 groups with 4 / 8 descriptors per block (same meta-group boundaries, scaled), sequences <= 3
    # (+ thorough: "sizes_thorough" = every block size x default / non-default group size, up to 8 groups, sequences <= 2, both kinds of damage)
    cfgs = ["MC_Backups_wide.cfg", "MC_Backups_deep.cfg", "MC_Backups_sizes_thorough.cfg"] if tier == "thorough" and os.environ.get("VERIF_C20_MC") != "quick" else ["MC_Backups_quick.cfg"]
    for c in cfgs:
        r = T.tlc(mod, os.path.join(SPEC, c), workers=4, timeout=2700, xmx="4g")
        ev.add_tlc(r, "MC_Backups (%s): geometries x tool sequences x DestroyPrimary/RecoverFrom; TypeOK, InvCurrent, InvBackupSet, Ss2Shape, InvRecover, action property FsckKeeps" % c)
        if r.violated:
            vd.violation("model:" + r.violated, "Backups model (%s): %s violated" % (c, r.violated), {"tlc": r.out[-4000:]})
        elif not r.ok:
            die_broken("TLC failed on MC_Backups (%s): %s\n%s" % (c, r.error, r.out[-1500:]))
    # the block-size dimension: every block size of the format with its default group size (+ a non-default group size at both
    # ends), small group counts, one tool run, both recovery front ends (RecoverFrom, RecoverPlain) and the fall-back search
    r = T.tlc(mod, os.path.join(SPEC, "MC_Backups_sizes.cfg"), workers=2, timeout=900, xmx="2g")
    ev.add_tlc(r, "MC_Backups (MC_Backups_sizes.cfg): every block size 1k ... 64k x default / non-default group size x <= 5 groups x one tool run; same invariants")
    if r.violated:
        vd.violation("model:sizes:" + r.violated, "Backups model (MC_Backups_sizes.cfg): %s violated" % r.violated, {"tlc": r.out[-4000:]})
    elif not r.ok:
        die_broken("TLC failed on MC_Backups (MC_Backups_sizes.cfg): %s\n%s" % (r.error, r.out[-1500:]))
    ces = []
    r4 = T.tlc(mod, os.path.join(SPEC, "MC_Backups_DevSearchGuesses8xBs.cfg"), workers=2, timeout=600, xmx="2g")
    if r4.violated != "InvRecover":
        die_broken("the model with DevSearchGuesses8xBs = TRUE did not produce the InvRecover counterexample (%s %s)" % (r4.violated, r4.error))
    ces.append("DevSearchGuesses8xBs (InvRecover)")
    for dev in ("DevTuneMasterOnly", "DevFsckIgnoresFeatDiff", "DevFlushSkipsLast", "DevResizeKeepsOldGdt"):
        r2 = T.tlc(mod, os.path.join(SPEC, "MC_Backups_%s.cfg" % dev), workers=2, timeout=600, xmx="2g")
        if r2.violated != "InvCurrent":
            die_broken("negative control %s did not produce the InvCurrent counterexample (%s %s): the invariant does not bind" % (dev, r2.violated, r2.error))
        ces.append(dev)
    r3 = T.tlc(mod, os.path.join(SPEC, "MC_Backups_DevBackupSearchIgnoresSs2.cfg"), workers=2, timeout=600, xmx="2g")
    if r3.violated != "FsckKeeps":
        die_broken("the model with DevBackupSearchIgnoresSs2 = TRUE did not produce the FsckKeeps counterexample (%s %s)" % (r3.violated, r3.error))
    ces.append("DevBackupSearchIgnoresSs2 (FsckKeeps)")
    ev.cov["negative_controls_with_counterexample"] = ces


TR_MOD = os.path.join(SPEC, "Trace_Backups.tla")
TR_CFG = os.path.join(SPEC, "Trace_Backups.cfg")                     # every named deviation of e2fsck's backup search enabled; the run uses conformance_cfg()
TR_STRICT = os.path.join(SPEC, "Trace_Backups_strict.cfg")           # the property as stated (every deviation off)
DEV_KEY = "DevBackupSearchIgnoresSs2"
# a behaviour the strict cfg rejects is attributed BY TLC: it is validated again with exactly one deviation enabled
DEV_ONLY = [("DevSearchGuesses8xBs", os.path.join(SPEC, "Trace_Backups_only_8x.cfg")),
            ("DevBackupSearchIgnoresSs2", os.path.join(SPEC, "Trace_Backups_only_ss2.cfg"))]


def known_keys(vd=None):
    """keys of the listed known findings of this property (known_findings.txt through Verdict, + fixes/C20_known_findings.txt)"""
    import evidence
    keys = set(vd.known) if vd is not None else {k for f in evidence.load_findings(PID) for k in [f["key"]] + list(f.get("keys", []))}
    kf = os.path.join(VERIF, "fixes", "C20_known_findings.txt")
    if os.path.exists(kf):
        for ln in open(kf):
            ln = ln.strip()
            if ln.startswith("{"):
                d = json.loads(ln)
                if d.get("property") == PID:
                    keys.add(d["key"])
    return keys


def conformance_cfg(work, known):
    """The conformance cfg = the strict cfg with exactly the LISTED named deviations of e2fsck's backup search enabled: a
    deviation that is no longer a listed known finding (repaired in the tree) is demanded in its repaired form already in the
    first pass.  (spec/Trace_Backups.cfg is this file with every search deviation enabled.)"""
    txt = open(TR_STRICT).read()
    for dk, dcfg in DEV_ONLY:
        if ("  %s = FALSE\n" % dk) not in txt:
            die_broken("Trace_Backups_strict.cfg does not set %s = FALSE" % dk)
        if dk in known:
            txt = txt.replace("  %s = FALSE\n" % dk, "  %s = TRUE\n" % dk)
    p = os.path.join(work, "Trace_Backups_conformance.cfg")
    with open(p, "w") as f:
        f.write(txt)
    return p


def validate_rounds(behaviours, cfg, work, chunk_lines=160, jobs=3, timeout=900):
    """tracecheck.validate for passes in which rejections are EXPECTED (strict cfg, attribution): a TLC run stops at the first
    rejected behaviour of its chunk; the behaviours behind it are validated again as ONE new chunk in the next round (the
    library starts one JVM per remaining behaviour), so the number of TLC runs is chunks + rejections.  Same result format."""
    chunks, cur, n = [], [], 0
    for bi, bl in enumerate(behaviours):
        if cur and n + len(bl) > chunk_lines:
            chunks.append(cur); cur = []; n = 0
        cur.append(bi); n += len(bl)
    if cur:
        chunks.append(cur)
    failures, broken, tot_d, tot_g, rounds, nchunks = [], [], 0, 0, 0, len(chunks)
    while chunks:
        rounds += 1
        tasks = []
        for ci, ch in enumerate(chunks):
            path = os.path.join(work, "vr_%d_%d_%d.ndjson" % (os.getpid(), rounds, ci))
            with open(path, "w") as f:
                for bi in ch:
                    for ln in behaviours[bi]:
                        f.write(ln if ln.endswith("\n") else ln + "\n")
            tasks.append((TR_MOD, cfg, path, sum(len(behaviours[bi]) for bi in ch), timeout, False))
        with cf.ThreadPoolExecutor(max_workers=jobs) as ex:
            rs = list(ex.map(tracecheck._run_chunk, tasks))
        nxt = []
        for ch, r in zip(chunks, rs):
            tot_d += r["distinct"]; tot_g += r["generated"]
            if r["accepted"]:
                continue
            if r["error"] and r["violated"] is None:
                broken.append(r); continue
            m = r["matched"] if r["matched"] is not None else 0
            pos, hit = 0, None
            for bi in ch:
                if m < pos + len(behaviours[bi]):
                    hit = bi; break
                pos += len(behaviours[bi])
            if hit is None:
                hit = ch[-1]; pos -= len(behaviours[hit])
            failures.append(dict(behaviour=hit, line_in_behaviour=m - pos, violated=r["violated"], chunk=r["path"], tail=r["out_tail"]))
            rest = ch[ch.index(hit) + 1:]
            if rest:
                nxt.append(rest)
        chunks = nxt
    return dict(chunks=nchunks, failures=failures, broken=broken, distinct=tot_d, generated=tot_g)


def behaviour_lines(res):
    return [json.dumps(l, sort_keys=True) for l in res["lines"]]


def describe_failure(res, li):
    lines = res["lines"]
    if li >= len(lines):
        return "trace ended early", {}
    l = lines[li]
    if l["e"] in ("recover", "plain", "plaingd"):
        w = []
        if l["rc"] not in (0, 1): w.append("e2fsck -fy%s exit %d" % ("" if l["e"] != "recover" else " -b %d -B" % l["blk"], l["rc"]))
        if l["fn"] != 0: w.append("following e2fsck -fn exit %d" % l["fn"])
        if l["tree_post"] != l["tree_pre"]: w.append("tree digest changed (%s -> %s)" % (l["tree_pre"], l["tree_post"]))
        if l["parsed"] and not w: w.append("after the recovery: " + explain(l["obs"]))
        what = "recovery from %s: %s" % ("plain e2fsck (primary superblock and descriptors zeroed)" if l["e"] == "plain" else "plain e2fsck (primary descriptors zeroed)" if l["e"] == "plaingd" else "group %d" % l["g"], "; ".join(w) or "restored state differs from the model")
    elif l.get("fn", 0) != 0:
        what = "e2fsck -fn exits %d after %s (%s)" % (l["fn"], l["e"], explain(l["obs"]))
    else:
        what = "after %s: %s" % (l["e"], explain(l["obs"]))
    return what, l


def run(tier):
    ev = Evidence(PID, tier, "model_checking")
    vd = Verdict(PID, ev)
    kf = os.path.join(VERIF, "fixes", "C20_known_findings.txt")
    if os.path.exists(kf):
        for ln in open(kf):
            ln = ln.strip()
            if ln.startswith("{"):
                d = json.loads(ln)
                if d.get("property") == PID:
                    vd.known[d["key"]] = d
    work = fast_tmp()
    try:
        try:
            b = build.build()
        except RuntimeError as e:
            die_broken(str(e))
        trees = make_trees(work)
        geoms, ops, bsizes, bboundary = load_universe(work)
        rng = random.Random(seed())
        seqs, usizes = sequences(tier, geoms, ops, rng, bsizes, bboundary)
        maxloc = 5 if tier == "quick" else 0
        with cf.ThreadPoolExecutor(max_workers=1) as bg:
            mc = bg.submit(model_check, tier, ev, vd)
            t0 = time.time()
            # processes, not threads: the parser and the reader are python (GIL)
            with cf.ProcessPoolExecutor(max_workers=JOBS) as ex:
                res = list(ex.map(run_case, [(b, geoms[gi], o, work, i, trees, maxloc, seed() * 1000003 + i) for i, (gi, o) in enumerate(seqs)], chunksize=4))
            t_tools = time.time() - t0
            live = [i for i, r in enumerate(res) if r["lines"]]
            behs = [behaviour_lines(res[i]) for i in live]
            conf = conformance_cfg(work, known_keys(vd))
            out = tracecheck.validate(behs, TR_MOD, conf, work, chunk_lines=160, timeout=900, jobs=3)
            mc.result()
        if out["broken"]:
            die_broken("TLC failed on a trace chunk: %s\n%s" % (out["broken"][0]["error"], out["broken"][0]["out_tail"][-1800:]))
        ev.cov["states"] += out["distinct"]; ev.cov["transitions"] += out["generated"]
        failed = {}
        for f in out["failures"]:
            failed.setdefault(live[f["behaviour"]], f)
        for ci, f in sorted(failed.items()):
            gi, o = seqs[ci]
            # confirmation: run the behaviour again and validate the re-run alone
            again = run_case((b, geoms[gi], o, work, 900000 + ci, trees, maxloc, seed() * 1000003 + ci))
            rej, matched, inv, tail, rr = tracecheck.confirm(behaviour_lines(again), TR_MOD, conf, work, timeout=600)
            if rr["error"]:
                die_broken("TLC failed while confirming: %s" % rr["error"])
            if not rej:
                die_broken("behaviour %s / %s was rejected, then accepted on the re-run (non-deterministic observation)" % (geom_key(geoms[gi]), [op_key(x) for x in o]))
            li = matched if matched is not None else 0
            what, l = describe_failure(again, li)
            inv_s = (" [invariant %s]" % inv) if inv else ""
            evn = l.get("e", "?") if l else "?"
            key = "%s|%s|%s%s" % (geom_key(geoms[gi]), ";".join(op_key(x) for x in o), evn, (":%d" % l["g"]) if l and "g" in l else "")
            vd.violation(key, "%s, %s -> %s%s" % (geom_key(geoms[gi]), " ; ".join(again["info"].get("done", [])) or "mke2fs", what, inv_s),
                         {"geom": geoms[gi], "ops": o, "line_index": li, "line": l, "tool_output": again["info"]["detail"].get(li, ""),
                          "skipped": again["info"]["skipped"]})
        # ---- second pass, the property as stated: behaviours in which e2fsck had to find a backup by itself (plain e2fsck on a
        # destroyed primary, or the fall-back after damaged primary descriptors) are validated with the deviation OFF; a
        # rejection there (and only at such a line) is the known finding, routed through its key
        cand = [i for i in live if i not in failed and any(l["e"] in ("plain", "plaingd") or (l["e"] == "fsck" and l.get("frombackup") == 1) for l in res[i]["lines"])]
        dev_hits = []
        strict_rejected = set()
        if cand:
            out2 = validate_rounds([behaviour_lines(res[i]) for i in cand], TR_STRICT, work)
            if out2["broken"]:
                die_broken("TLC failed on a trace chunk (strict cfg): %s\n%s" % (out2["broken"][0]["error"], out2["broken"][0]["out_tail"][-1800:]))
            ev.cov["states"] += out2["distinct"]; ev.cov["transitions"] += out2["generated"]
            rejected = []
            for f in out2["failures"]:
                ci = cand[f["behaviour"]]
                li = f["line_in_behaviour"]
                l = res[ci]["lines"][li] if li < len(res[ci]["lines"]) else {}
                if not (l.get("e") in ("plain", "plaingd") or (l.get("e") == "fsck" and l.get("frombackup") == 1)) or f["violated"]:
                    die_broken("the strict trace cfg rejects %s / %s at line %d (%s), which is not a backup-search line" % (geom_key(geoms[seqs[ci][0]]), [op_key(x) for x in seqs[ci][1]], li, l.get("e")))
                if ci not in strict_rejected:
                    strict_rejected.add(ci)
                    rejected.append((ci, li, l))
            # which named deviation explains a rejection is decided by TLC: the rejected behaviours are validated again with
            # exactly one deviation enabled (the conformance cfg, which enables all of them, accepted them in the first pass)
            explains = {ci: [] for ci, li, l in rejected}
            todo = list(rejected)
            for dk, dcfg in DEV_ONLY:
                if not todo:
                    break
                out3 = validate_rounds([behaviour_lines(res[ci]) for ci, li, l in todo], dcfg, work)
                if out3["broken"]:
                    die_broken("TLC failed while attributing a strict-cfg rejection (%s): %s" % (dk, out3["broken"][0]["error"]))
                ev.cov["states"] += out3["distinct"]; ev.cov["transitions"] += out3["generated"]
                bad3 = {f["behaviour"] for f in out3["failures"]}
                for k, (ci, li, l) in enumerate(todo):
                    if k not in bad3:
                        explains[ci].append(dk)
                todo = [t for k, t in enumerate(todo) if k in bad3]
            for ci, li, l in rejected:
                gi, o = seqs[ci]
                keys = explains[ci] or [dk for dk, dcfg in DEV_ONLY]  # needs more than one of them
                if l["e"] in ("plain", "plaingd"):
                    what = "plain e2fsck -fy after the primary %s destroyed: exit %d, e2fsck -fn %d, tree %s" % ("superblock and descriptors were" if l["e"] == "plain" else "descriptors were", l["rc"], l["fn"], "same" if l["tree_post"] == l["tree_pre"] else "CHANGED")
                else:
                    s2 = l["obs"]["prim"]["sb"]
                    what = "e2fsck -fy fell back to a stale copy: the filesystem now has %d groups, s_backup_bgs %s" % (s2["gdc"], s2["bk"])
                for dk in keys:
                    dev_hits.append("%s: %s | %s" % (dk, geom_key(geoms[gi]), ";".join(res[ci]["info"].get("done", []))))
                    vd.violation(dk, "%s, %s -> %s [accepted only with %s]" % (geom_key(geoms[gi]), " ; ".join(res[ci]["info"].get("done", [])) or "mke2fs", what, dk),
                                 {"geom": geoms[gi], "ops": o, "line_index": li, "line": l, "tool_output": res[ci]["info"]["detail"].get(li, "")})
        ev.cov["strict_pass_behaviours"] = len(cand)
        ev.cov["known_deviation_hits"] = sorted(set(dev_hits))[:60]
        # ---- evidence
        nlines = sum(len(r["lines"]) for r in res)
        nrec = sum(1 for r in res for l in r["lines"] if l["e"] in ("recover", "plain", "plaingd"))
        ev.cov["evaluations"] = nlines
        ev.cov["behaviours"] = len(live)
        ev.cov["traces_validated_against_impl"] = len(live) - len(failed)
        ev.cov["traces_also_accepted_by_the_strict_cfg"] = len(cand) - len(strict_rejected)
        ev.cov["recoveries"] = nrec
        ev.cov["plain_e2fsck_recoveries"] = sum(1 for r in res for l in r["lines"] if l["e"] in ("plain", "plaingd"))
        ev.cov["tool_lines"] = nlines - nrec
        ev.cov["universe"] = dict(geometries=len(geoms), **usizes)
        ev.cov["sequences_run"] = len(seqs)
        ev.cov["mkfs_refused_or_unmodelled"] = sorted({geom_key(r["info"]["geom"]) + ": " + r["info"]["stopped"][:120] for r in res if r["info"]["stopped"]})[:40]
        sk = [s for r in res for s in r["info"]["skipped"]]
        ev.cov["ops_refused_or_skipped"] = len(sk)
        ev.cov["ops_skipped_samples"] = sorted(set(s[:140] for s in sk))[:25]
        ev.cov["tree_unknown"] = sum(1 for r in res if r["info"].get("tree_unknown"))
        ev.cov["tool_wall_s"] = round(t_tools, 1)
        kinds = {}
        for r in res:
            for l in r["lines"]:
                kinds[l["e"]] = kinds.get(l["e"], 0) + 1
        ev.cov["lines_by_event"] = kinds
        ev.cov["fsck_lines_that_fell_back_to_a_backup"] = sum(1 for r in res for l in r["lines"] if l["e"] == "fsck" and l.get("frombackup") == 1)
        ev.cov["inconsistent_after_tool"] = sum(1 for r in res if r["info"].get("inconsistent_after"))
        absent = [k for k in ("mkfs", "resize", "resize64", "tunefeat", "uuid", "isize", "env", "envdata", "envbk", "fsck", "recover", "plain", "plaingd") if not kinds.get(k)]
        if not ev.cov["fsck_lines_that_fell_back_to_a_backup"]:
            absent.append("fsck(from backup)")
        if absent and not vd.viol:
            die_broken("vacuity: no trace line of kind %s was produced (every action of Trace_Backups must be exercised)" % absent)
        for r in res:
            g = geom_key(r["info"]["geom"])
            last = (r["info"].get("done") or ["mke2fs"])[-1]
            for l in r["lines"]:
                if l["e"] == "recover" and l["g"] != 1:
                    ev.nontrivial((g, last.split(":")[0], l["g"]))
        ev.cov["rule"] = ("universe = Emit_Backups: %d geometries x Ops(geometry)^(<=3) x every prescribed backup location of the final image; "
                          "quick = 28 fixed singles + the per-block-size fixed singles (every block size 1k ... 64k: damaged descriptors ; e2fsck -fy, then -b from every location and plain e2fsck; boundary block sizes twice) + 1 fixed pair + one seeded single per (profile, op kind) up to 38 + 10 seeded pairs + 8 seeded triples, at most 5 locations per image "
                          "(first, last, seeded); thorough = all singles + 500 seeded pairs + 400 seeded triples, every location.  evaluations = trace lines decided by TLC; "
                          "non-trivial = (geometry, last tool, location) triples whose location is not group 1" % len(geoms))
        for r in [x for x in res if x["lines"]][:3]:
            s = r["info"].get("final_sb", {})
            ev.sample({"geom": geom_key(r["info"]["geom"]), "ops_done": r["info"].get("done"), "skipped": r["info"]["skipped"][:3],
                       "final": {k: s.get(k) for k in ("gdc", "dpb", "sparse", "ss2", "metabg", "bk", "feat")},
                       "recoveries": [{"g": l["g"], "rc": l["rc"], "fn": l["fn"], "tree_same": l["tree_post"] == l["tree_pre"]} for l in r["lines"] if l["e"] in ("recover", "plain", "plaingd")][:6]})
        ev.assumptions = [
            "images are unmounted regular files; s_first_meta_bg = 0 (offline resize2fs, mke2fs and tune2fs never set another value); no bigalloc; <= 128 groups",
            "current = equal to the primary in the fields recovery needs: block/inode counts, geometry fields, the three feature words minus the bits e2fsprogs itself ignores when comparing copies (large_file, dir_nlink, orphan_present, extents, needs_recovery), UUID, s_backup_bgs, reserved GDT count, and the block-bitmap / inode-bitmap / inode-table locations of every descriptor; free counts, flags, checksums of backup descriptors, times and mount counts are not compared",
            "a valid copy = magic, s_block_group_nr = its group, superblock checksum verifies (metadata_csum)",
            "a refused tool run (exit != 0) carries no obligation and is skipped; a tool run (resize2fs, tune2fs [+ the e2fsck it asks for], repairing e2fsck) after which e2fsck -fn is not clean is rejected: the property's experiment presupposes a consistent image (such a run also violates C08 / C11)",
            "environment steps are written by the harness itself: primary-only feature bit (dir_prealloc), zeroed inode-table pointer in the primary descriptors, one flipped block-bitmap bit, stale feature word in the FIRST backup copy (the only one check_backup_super_block looks at); damage to other backup copies is outside the universe",
            "conformance is checked with those named deviations of e2fsck's own backup search enabled that are listed known findings (this run: %s): DevBackupSearchIgnoresSs2 (known finding: the search probes groups 1, 3, 5, 7, 9, 25, ... and takes the first superblock-looking block, whatever s_backup_bgs says and however stale) and DevSearchGuesses8xBs (without a superblock the group size is guessed as 8 * blocksize, which no filesystem with 8k ... 64k blocks has; fixes/C20_backup_search_bpg.patch); every behaviour in which that search ran is validated a second time with every deviation off, and a rejection there is attributed by TLC (accepted with exactly one deviation enabled) and reported under that deviation's key" % (sorted(k for k in known_keys(vd) if k in dict(DEV_ONLY)) or "none"),
            "plain e2fsck is run on two kinds of damage: primary superblock and descriptor blocks zeroed ('Superblock invalid, trying backup blocks': get_backup_sb knows nothing), and descriptor blocks alone zeroed ('Group descriptors look bad... trying backup blocks': get_backup_sb knows block and group size)",
            "plain e2fsck is obliged when blocks per group = min(8 * blocksize, 65528), the group size mke2fs chooses by default (8 * blocksize is not a legal group size from 8k blocks on); the image file is exactly as large as the filesystem (get_backup_sb derives its probe limit from the device size)",
            "block sizes above 4 KiB: sparse image files (0.5 ... 4 GiB per group), 128 inodes per group (-N), no journal; tune2fs -O has_journal is not in the universe there",
            "meta_bg: the primary copy of a descriptor block is zeroed only when the format prescribes a backup of it (the meta group has a second group)",
            "tree equality = digest of the independent reader's tree projection (paths, types, sizes of non-directories, modes, owners, link counts, mtimes, xattrs, content digests); compared as strings by TLC",
        ]
        return vd.finish()
    finally:
        shutil.rmtree(work, ignore_errors=True)


def replay(path):
    d = json.load(open(path))
    rp = d.get("replay", d)
    work = fast_tmp()
    try:
        b = build.build()
        trees = make_trees(work)
        res = run_case((b, rp["geom"], rp["ops"], work, 0, trees, 0, 1))
        for i, l in enumerate(res["lines"]):
            if l["e"] in ("recover", "plain", "plaingd"):
                print("%-8s g=%-3d blk=%-6d e2fsck -fy rc=%d, -fn rc=%d, tree %s, after: %s" % (l["e"], l["g"], l["blk"], l["rc"], l["fn"],
                      "same" if l["tree_post"] == l["tree_pre"] else "CHANGED", explain(l["obs"]) if l["parsed"] else "primary unreadable"))
            else:
                s = l["obs"]["prim"]["sb"]
                print("%-8s gdc=%d bk=%s feat=%s prescribed=%s: %s" % (l["e"], s["gdc"], s["bk"], s["feat"], prescribed(s), explain(l["obs"])))
        for s in res["info"]["skipped"]:
            print("skipped: " + s)
        if res["info"]["stopped"]:
            print("stopped: " + res["info"]["stopped"])
        rej, matched, inv, tail, rr = tracecheck.confirm(behaviour_lines(res), TR_MOD, conformance_cfg(work, known_keys()), work, timeout=600)
        if rr["error"]:
            die_broken("TLC failed: %s\n%s" % (rr["error"], tail[-1500:]))
        if rej:
            what, l = describe_failure(res, matched if matched is not None else 0)
            print("VIOLATION property=%s replay=%s  (%s%s)" % (PID, path, what, (" [invariant %s]" % inv) if inv else ""))
            return 1
        rej2, matched2, inv2, tail2, rr2 = tracecheck.confirm(behaviour_lines(res), TR_MOD, TR_STRICT, work, timeout=600)
        if rr2["error"]:
            die_broken("TLC failed (strict cfg): %s\n%s" % (rr2["error"], tail2[-1500:]))
        if rej2:
            what, l = describe_failure(res, matched2 if matched2 is not None else 0)
            keys = []
            for dk, dcfg in DEV_ONLY:
                rej3, m3, inv3, tail3, rr3 = tracecheck.confirm(behaviour_lines(res), TR_MOD, dcfg, work, timeout=600)
                if rr3["error"]:
                    die_broken("TLC failed (%s): %s" % (dk, rr3["error"]))
                if not rej3:
                    keys.append(dk)
            print("KNOWN-FINDING: property=%s accepted only with %s enabled: %s" % (PID, " / ".join(keys or [dk for dk, dcfg in DEV_ONLY]), what))
            return 0
        print("replay accepted by Trace_Backups (conformance and strict cfg)")
        return 0
    finally:
        shutil.rmtree(work, ignore_errors=True)
