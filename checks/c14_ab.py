"""C14 clauses (a) and (b)  (called from checks/c14.py).

(a) every metadata object written by a tool carries the format's checksum: images produced by mke2fs (base profiles),
    debugfs -w, tune2fs (-U, metadata_csum_seed, csum off/on, -I), resize2fs (grow/shrink) and e2fsck -fyD are projected
    by the independent reader (own crc32c/crc16, own seed / inode-number / generation folding) and TLC evaluates the
    conjunct Csums of Ext4Abs!Consistent on every projection (lib/absstate.py).
    The universe of images is stated by spec/CsumUniverse.tla and enumerated by TLC (Emit_CsumUniverse): the geometry
    catalogue (descriptor size 32/64/128 x inode size 128/256/512 x crc16/crc32c x flex_bg), one populated pre-state per
    geometry (gen/c14_rich.py) and, per operation, the object shapes whose checksum inputs the operation changes
    (CsumUniverse!Required); a census of every pre-state by the independent reader is decided by TLC (CensusOK).
    Journals WRITTEN by the tools (debugfs jo [-c [-v 2]] / jw / jc, recovery by e2fsck -fy and debugfs jr rewriting the
    journal superblock, journals made by mke2fs -J and tune2fs -J) are decoded by the independent decoder of
    gen/jbd2write.py + gen/c14_journal.py and TLC decides CsumUniverse!JournalOK per log (Trace_CsumUniverse).
(b) a changed covered byte is detected: spec/CsumCoverage.tla states, per object type, which bytes the format covers
    (TLC checks it against the format's length formulas: MC_CsumCoverage); one bit of a byte of a live object is flipped in
    the real image; the reader says whether the stored checksum still matches; `e2fsck -fn` and the library read path of
    that object type (harness/csumdrv.c) must both detect.  TLC decides every line (Trace_CsumCoverage)."""
import os, sys, json, struct, shutil, subprocess, random, concurrent.futures as cf
from common import VERIF, tool_env, die_broken, NPROC
from common import run as sh
import build, tlc as T, tracecheck
import mkbase, absstate
sys.path.insert(0, os.path.join(VERIF, "reader"))
sys.path.insert(0, os.path.join(VERIF, "gen"))
import ext4read
import c14_rich, c14_journal
import jbd2write as J
from common import Lock, SCRATCH
import hashlib, re

SPEC = os.path.join(VERIF, "spec")
JOBS = max(2, min(12, NPROC - 4))
CSUM_PROFILES = ["ext4_1k", "ext4_4k", "ext4_old", "bigalloc", "meta_bg", "noflex", "inline", "ea_inode", "quota", "sparse2", "holes", "nojournal"]
NEW_UUID = "0f0e0d0c-0b0a-0908-0706-050403020100"


# ------------------------------------------------------------------------------------------------ universe
def load_universe(work):
    """CsumUniverse as enumerated by TLC (cached by the text of the two modules: the universe is a function of the spec)"""
    h = hashlib.sha256()
    for m in ("CsumUniverse.tla", "Emit_CsumUniverse.tla", "Emit_CsumUniverse.cfg"):
        h.update(open(os.path.join(SPEC, m), "rb").read())
    cdir = os.path.join(SCRATCH, "verif-c14-universe"); os.makedirs(cdir, exist_ok=True)
    out = os.path.join(cdir, h.hexdigest()[:16] + ".json")
    stats = None
    if not os.path.exists(out):
        tmp = os.path.join(work, "universe.json")
        r = T.tlc(os.path.join(SPEC, "Emit_CsumUniverse.tla"), os.path.join(SPEC, "Emit_CsumUniverse.cfg"), workers=1, timeout=600, env={"OUT": tmp}, xmx="2g")
        if not r.ok or not os.path.exists(tmp):
            die_broken("TLC could not enumerate the universe (Emit_CsumUniverse): %s\n%s" % (r.error, r.out[-1500:]))
        os.replace(tmp, out)
    U = json.load(open(out))
    gk = lambda g: (g["dsize"], g["isize"], g["kind"], g["flex"])
    U["cases"].sort(key=lambda c: (c["op"], gk(c["g"])))
    U["mandatory_cases"].sort(key=lambda c: (c["op"], gk(c["g"])))
    sk = lambda x: json.dumps(x, sort_keys=True)
    U["scenarios"].sort(key=sk); U["mandatory_scenarios"].sort(key=sk)
    U["req"] = {(r_["op"], r_["kind"]): sorted(r_["shapes"]) for r_ in U["required"]}
    return U


# ------------------------------------------------------------------------------------------------ clause (a)
DEBUGFS_BASE = ["mkdir c14d", "write %(src)s c14d/new", "symlink c14d/sl /" + "t" * 200, "symlink c14d/fl short", "mknod c14d/p p",
                "ea_set c14d/new user.c14 " + "v" * 300, "ea_set c14d user.dir 1", "punch big300k 20 60", "rm medium", "unlink tiny20",
                "sif hello.txt mtime 1234567", "mkdir deep/c14sub", "ln hello.txt c14d/hl"]
DEBUGFS_RICH = ["cd hi", "mkdir c14d", "write %(src)s c14d/new", "symlink c14d/sl /" + "t" * 200, "symlink c14d/fl short", "mknod c14d/p p",
                "ea_set c14d/new user.c14 " + "v" * 700, "ea_set c14d user.dir " + "w" * 700, "punch ex 9 30", "rm xf", "sif slow mtime 1234567",
                "mkdir ht/c14sub", "mkdir lin/c14sub", "ea_rm xd user.c14dir", "rm ht/n0007_" + c14_rich.LONG, "rm ht/n0008_" + c14_rich.LONG, "rm ht/n0009_" + c14_rich.LONG]


def derive(b, src_img, tag, op, work, rich=False):
    """-> path of the derived image or None when the tool refused (a refusal carries no obligation)"""
    env = tool_env(b)
    img = os.path.join(work, "a_%s_%s.img" % (tag, op))
    shutil.copy(src_img, img)
    tune = os.path.join(b, "misc", "tune2fs"); fsck = os.path.join(b, "e2fsck", "e2fsck")
    rsz = os.path.join(b, "resize", "resize2fs"); dbg = os.path.join(b, "debugfs", "debugfs")

    def ok(rc_out, allowed=(0,)):
        # tune2fs may finish its conversion by asking for an e2fsck run ("Please run e2fsck -f[D] on the filesystem"):
        # the conversion is the pair, as in checks/c11.py
        if rc_out[0] in allowed and b"Please run e2fsck" in (rc_out[1] + rc_out[2]):
            sh([fsck, "-fyD", img], env=env, timeout=300)
        return rc_out[0] in allowed
    if op == "base":
        return img
    if op == "tune_U":
        if not ok(sh([tune, "-f", "-U", NEW_UUID, img], env=env, timeout=120, input=b"y\n")): return None
    elif op == "tune_seed_U":
        if not ok(sh([tune, "-O", "metadata_csum_seed", img], env=env, timeout=120)): return None
        if not ok(sh([tune, "-U", NEW_UUID, img], env=env, timeout=120, input=b"y\n")): return None
    elif op == "tune_off_on":
        if not ok(sh([tune, "-O", "^metadata_csum", img], env=env, timeout=120)): return None
        sh([fsck, "-fy", img], env=env, timeout=120)
        if not ok(sh([tune, "-O", "metadata_csum", img], env=env, timeout=120)): return None
        sh([fsck, "-fy", img], env=env, timeout=120)
    elif op == "tune_I":
        isz = ext4read.project(img)["geo"]["isize"]
        sh([fsck, "-fy", img], env=env, timeout=120)            # tune2fs -I insists on a freshly checked filesystem
        if not ok(sh([tune, "-I", str(2 * isz), img], env=env, timeout=300, input=b"y\n")): return None
    elif op == "resize_grow":
        sz = os.path.getsize(img)
        with open(img, "r+b") as f:
            f.truncate(sz + sz // 2)
        if not ok(sh([rsz, img], env=env, timeout=300)): return None
    elif op == "resize_shrink":
        st = ext4read.project(img)["geo"]
        if rich:
            tgt = st["blocks"] - st["bpg"]                        # drop exactly the last group (where /hi lives)
        else:
            rc, out, err = sh([rsz, "-P", img], env=env, timeout=120)
            try:
                minb = int(out.decode().strip().split()[-1])
            except Exception:
                return None
            tgt = max(minb + (st["blocks"] - minb) // 3, minb + 64)
        if tgt >= st["blocks"]: return None
        if not ok(sh([rsz, img, str(tgt)], env=env, timeout=300)): return None
    elif op == "fsck_D":
        if not ok(sh([fsck, "-fyD", img], env=env, timeout=300), (0, 1)): return None
    elif op == "debugfs":
        src = os.path.join(work, "src_%s.bin" % tag)
        with open(src, "wb") as f:
            f.write(bytes((i * 29 + 3) & 255 for i in range(70000)))
        cmds = [c % {"src": src} if "%(src)s" in c else c for c in (DEBUGFS_RICH if rich else DEBUGFS_BASE)]
        rc, out, err = sh([dbg, "-w", "-f", "-", img], env=env, timeout=300, input=("\n".join(cmds) + "\n").encode())
        if rc != 0: return None
    else:
        raise ValueError(op)
    return img


def n_checksummed(P):
    """objects whose checksum the reader recomputed in this projection (measured, for the evidence file)"""
    n = 1 + 3 * len(P.get("gd", [])) + len(P.get("inodes", [])) + len(P.get("xblocks", []))
    loc = P.get("loc", {})
    n += len(loc.get("extblk", {})) + len(loc.get("dirblk", {})) + len(loc.get("orphanblk", {}))
    return n


def rich_images(b, geoms):
    """pre-state image per geometry (gen/c14_rich.py), cached next to the build like the base images"""
    stamp = open(os.path.join(b, ".verif_stamp")).read().strip()[:16]
    gen_h = hashlib.sha256(open(c14_rich.__file__.replace(".pyc", ".py"), "rb").read()).hexdigest()[:8]
    outdir = os.path.join(b, "verif-c14rich-%s-%s" % (stamp, gen_h))
    with Lock(os.path.join(b, "verif-c14rich.lock")):
        for d in os.listdir(b):
            if d.startswith("verif-c14rich-") and os.path.join(b, d) != outdir:
                shutil.rmtree(os.path.join(b, d), ignore_errors=True)
        os.makedirs(outdir, exist_ok=True)
        meta_p = os.path.join(outdir, "meta.json")
        meta = json.load(open(meta_p)) if os.path.exists(meta_p) else {}
        todo = [g for g in geoms if c14_rich.name_of(g) not in meta]
        if todo:
            c14_rich.sources(outdir)
            with cf.ThreadPoolExecutor(max_workers=JOBS) as ex:
                for img, info in ex.map(lambda g: c14_rich.build(b, g, outdir), todo):
                    meta[info["geom"]] = info
            with open(meta_p + ".tmp", "w") as f:
                json.dump(meta, f, indent=1)
            os.replace(meta_p + ".tmp", meta_p)
    return outdir, meta


def clause_a(b, ev, vd, tier, work, rng, U):
    base_dir, info = mkbase.base_images(b)
    env = tool_env(b)
    # ---- (1) the shared base profiles (rich real-world content), every operation
    profs = [p for p in CSUM_PROFILES if info.get(p, {}).get("ok")]
    ops = ["base", "tune_U", "tune_seed_U", "tune_off_on", "resize_grow", "resize_shrink", "fsck_D", "debugfs"]
    cases = [(p, o) for p in profs for o in ops]
    if tier == "quick":
        must = [(p, "base") for p in profs]
        rest = [c for c in cases if c[1] != "base"]
        rng.shuffle(rest)
        cases = must + rest[:12]
    jobs = [dict(kind="prof", tag=p, op=o, src=os.path.join(base_dir, p + ".img"), rich=False, key="a|%s|%s" % (p, o)) for p, o in cases]
    # an MMP filesystem (made here, used by clause (b) as well): its block checksum is seeded like everything else
    mmp = os.path.join(work, "mmp.img")
    rc, o, e = sh([os.path.join(b, "misc", "mke2fs"), "-q", "-F", "-t", "ext4", "-b", "1024", "-O", "mmp,metadata_csum", "-U", mkbase.UUID, mmp, "4096"], env=env, timeout=120)
    if rc == 0:
        jobs += [dict(kind="prof", tag="mmp", op=o_, src=mmp, rich=False, key="a|mmp|%s" % o_) for o_ in ("base", "tune_U")]
    # ---- (2) the geometry / dependency universe of CsumUniverse
    ucases = list(U["mandatory_cases"])
    rest = [c for c in U["cases"] if c not in ucases]
    if tier == "quick":
        rng.shuffle(rest)
        ucases += rest[:10]
    else:
        ucases += rest
    geoms = {c14_rich.name_of(c["g"]): c["g"] for c in ucases}
    # every pre-state of a non-base case is observed as a base case too (census, and the pre-state itself is tool-written)
    have_base = {c14_rich.name_of(c["g"]) for c in ucases if c["op"] == "base"}
    for n_, g in geoms.items():
        if n_ not in have_base:
            ucases.append({"op": "base", "g": g})
    richdir, rmeta = rich_images(b, list(geoms.values()))
    for n_ in geoms:
        if rmeta.get(n_, {}).get("ok") and rmeta[n_].get("fsck_rc"):
            ev.cov.setdefault("a_prestate_fsck_dirty", []).append("%s: e2fsck -fn exit %s" % (n_, rmeta[n_]["fsck_rc"]))
        if not rmeta.get(n_, {}).get("ok"):
            # a pre-state the tools cannot build consistently is itself tool output that e2fsck rejects; C07/C18 own that
            # verdict -- here the universe element is reported as not decided, and a mandatory one breaks the check
            ev.cov.setdefault("a_not_decided", []).append("%s: %s" % (n_, rmeta.get(n_, {}).get("step")))
    for c in ucases:
        n_ = c14_rich.name_of(c["g"])
        if not rmeta.get(n_, {}).get("ok"):
            if c in U["mandatory_cases"]:
                die_broken("mandatory pre-state %s could not be built: %s" % (n_, rmeta.get(n_, {}).get("step")))
            continue
        jobs.append(dict(kind="rich", tag=n_, op=c["op"], g=c["g"], src=os.path.join(richdir, n_ + ".img"), rich=True, key="a|%s|%s" % (n_, c["op"])))

    with cf.ThreadPoolExecutor(max_workers=JOBS) as ex:
        imgs = list(ex.map(lambda j: derive(b, j["src"], j["tag"], j["op"], work, j["rich"]), jobs))
    with cf.ProcessPoolExecutor(max_workers=JOBS) as ex:
        projs = list(ex.map(proj_path, imgs))
    states, owners = [], []
    refused = 0
    pre = {}
    for j, P, img in zip(jobs, projs, imgs):
        if P is None:
            refused += 1
            if j["kind"] == "rich" and {"op": j["op"], "g": j["g"]} in U["mandatory_cases"]:
                die_broken("the tool refused the mandatory case %s" % j["key"])
            continue
        if P.get("unsupported") or "fatal" in P:
            ev.cov.setdefault("a_not_decided", []).append("%s: %s" % (j["key"], P.get("unsupported") or P.get("fatal")))
            continue
        states.append(P); owners.append(j)
        if j["kind"] == "rich" and j["op"] == "base":
            pre[j["tag"]] = (P, img)
    try:
        verdicts = absstate.evaluate(states, stats=ev.cov.setdefault("a_tlc", {}))
    except absstate.AbsStateError as e:
        die_broken("TLC failed while evaluating Ext4Abs!Consistent: %s" % e)
    nobj = 0
    for j, P, v in zip(owners, states, verdicts):
        nobj += n_checksummed(P)
        if "Csums" in v["failed"]:
            bad = {"sb": P["sb"].get("csum_ok"), "gd": [g["g"] for g in P["gd"] if not (g["csum_ok"] and g["bbcsum_ok"] and g["ibcsum_ok"])],
                   "inodes": [i["ino"] for i in P["inodes"] if not i["csum_ok"] or i["csum_err"]][:10],
                   "xblocks": [x["blk"] for x in P["xblocks"] if not x["csum_ok"]], "dirs": [d["dir"] for d in P["dirs"] if d["csum_err"]][:10],
                   "mmp": P["mmp"].get("csum_ok", True), "journal": P["journal"].get("csum_ok", True), "orphan_file": P["orphans"]["file"]["csum_err"][:5],
                   "free_inodes": P.get("free_inode_csum_err", [])[:5]}
            vd.violation(j["key"], "after %s on %s an object does not carry the checksum the format defines: %s" % (j["op"], j["tag"], json.dumps(bad)[:400]),
                         {"clause": "a", "profile": j["tag"], "op": j["op"], "bad": bad})
        ev.nontrivial(("a", j["tag"], j["op"]))
    # ---- census: does every pre-state hold the witnesses the operation's changed inputs demand?  (TLC: CensusOK)
    lines, who = [], []
    for j, P in zip(owners, states):
        if j["kind"] != "rich" or j["op"] == "base" or j["g"]["flex"] or j["tag"] not in pre:
            continue
        if not U["req"].get((j["op"], j["g"]["kind"])):
            continue
        P0, img0 = pre[j["tag"]]
        ni, nb = (P["geo"]["inodes"], P["geo"]["blocks"]) if j["op"] == "resize_shrink" else (0, 0)
        cnt = c14_rich.census(P0, open(img0, "rb").read(), ni, nb)
        lines.append(json.dumps({"t": "census", "op": j["op"], "kind": j["g"]["kind"], "cnt": {k: cnt[k] for k in U["shapes"]}})); who.append(j)
    res = validate_u(lines, os.path.join(work, "tvc"))
    if res["broken"]:
        die_broken("TLC failed on Trace_CsumUniverse (census): %s\n%s" % (res["broken"][0]["error"], res["broken"][0]["tail"][-1200:]))
    ev.cov["states"] += res["distinct"]; ev.cov["transitions"] += res["generated"]
    if res["UNCOVERED"]:
        j = who[res["UNCOVERED"][0]]
        die_broken("universe incomplete: the pre-state of %s lacks a witness CsumUniverse!Required demands: %s" % (j["key"], lines[res["UNCOVERED"][0]]))
    ev.cov["a_census_lines"] = len(lines)
    if lines:
        ev.sample({"clause": "a", "census": json.loads(lines[-1])})
    ev.cov["a_images"] = len(states); ev.cov["a_refused"] = refused; ev.cov["a_checksummed_objects"] = nobj
    ev.cov["a_geometries"] = len(geoms)
    ev.cov["states"] += len(states); ev.cov["transitions"] += len(states)
    if states:
        ev.sample({"clause": "a", "profile": owners[0]["tag"], "op": owners[0]["op"], "objects": n_checksummed(states[0]), "failed_conjuncts": verdicts[0]["failed"]})
    return len(states), {n_: (richdir, n_) for n_ in geoms if rmeta.get(n_, {}).get("ok")}, (mmp if rc == 0 else None)


# ------------------------------------------------------------------------------------------------ clause (a), journals
def _ranges(bl):
    out, i = [], 0
    while i < len(bl):
        k = i
        while k + 1 < len(bl) and bl[k + 1] == bl[k] + 1:
            k += 1
        out.append("%d-%d" % (bl[i], bl[k]) if k > i else "%d" % bl[i]); i = k + 1
    return ",".join(out)


def _content(i, magic, bs):
    body = bytes(((i * 37 + k * 11 + 5) & 0xFF) for k in range(64)) * (bs // 64)
    return (c14_journal.MAGIC_BYTES if magic else b"C14d") + body[4:bs]


def journal_case(args):
    """run one scenario of CsumUniverse!AllScenarios with the real tools, decode the log -> trace line (dict) or {"skip": why}"""
    b, sc, work, idx = args
    env = tool_env(b)
    cfg = sc["cfg"]; bs = cfg["bs"]
    img = os.path.join(work, "j%05d.img" % idx); dat1 = os.path.join(work, "j%05d.d1" % idx); dat2 = os.path.join(work, "j%05d.d2" % idx)
    mk = os.path.join(b, "misc", "mke2fs"); tune = os.path.join(b, "misc", "tune2fs"); dbg = os.path.join(b, "debugfs", "debugfs"); fsck = os.path.join(b, "e2fsck", "e2fsck")
    feats = ["extent", "metadata_csum" if cfg["mcsum"] else "^metadata_csum", "64bit" if cfg["b64"] else "^64bit"]
    if not cfg["mcsum"]: feats.append("uninit_bg")
    jsz = "1" if bs == 1024 else "4"
    try:
        rc, out, err = sh([mk, "-q", "-F", "-t", "ext4", "-b", str(bs), "-O", ",".join(feats), "-J", "size=" + jsz, "-U", mkbase.UUID, img, "8192"], env=env, timeout=120)
        if rc != 0:
            return {"skip": "mke2fs rc=%d" % rc}
        if cfg["origin"] == "tune_J":
            rc, out, err = sh([tune, "-O", "^has_journal", img], env=env, timeout=120)
            rc2, out, err = sh([tune, "-J", "size=" + jsz, img], env=env, timeout=120)
            if rc or rc2:
                return {"skip": "tune2fs -J rc=%d/%d" % (rc, rc2)}
        im = J.Image(img)
        free = []
        for g in range(im.ngroups):
            free += im.free_blocks(g)
        need = sc["n"] + sc["r"] + 3
        if len(free) < need + 8:
            return {"skip": "not enough free blocks"}
        tb = free[-need:]
        blks, rev, blks2, rev2 = tb[:sc["n"]], tb[sc["n"]:sc["n"] + sc["r"]], tb[-3:-1], tb[-1:]
        truth = {}
        with open(dat1, "wb") as f:
            for i, pb in enumerate(blks, 1):
                truth[pb] = _content(i, i in sc["magic"], bs); f.write(truth[pb])
        with open(dat2, "wb") as f:
            for i, pb in enumerate(blks2, 1):
                truth[pb] = _content(1000 + i, i == 2, bs); f.write(truth[pb])
        cmds = ["jo" + {"none": "", "c": " -c", "c2": " -c -v 2"}[cfg["req"]]]
        if sc["n"] + sc["r"] > 0:
            cmds.append("jw" + (" -b " + _ranges(blks) if blks else "") + (" -r " + _ranges(rev) if rev else "") + (" " + dat1 if blks else ""))
        if sc["second"] != "none":
            # one jw per jo .. jc session, as every in-tree user of the writer does (the writer only guesses where a transaction
            # ends, jo finds the real head again)
            cmds += ["jc", "jo", "jw -b %s -r %s%s %s" % (_ranges(blks2), _ranges(rev2), " -c" if sc["second"] == "nocommit" else "", dat2)]
        cmds.append("jc")
        if sc["after"] == "jr":
            cmds.append("jr")
        rc, out, err = sh([dbg, "-w", "-f", "-", img], env=env, timeout=300, input=("\n".join(cmds) + "\n").encode())
        tool_err = ""
        if rc != 0 or b"while " in err:
            tool_err = "debugfs rc=%d %s" % (rc, err.decode("utf8", "replace")[-200:])
        if sc["after"] == "fsck":
            rc, out, err = sh([fsck, "-fy", img], env=env, timeout=300)
            if rc not in (0, 1):
                tool_err = "e2fsck -fy rc=%d" % rc
        j = c14_journal.walk(img)
        for o in j["objs"]:
            data = o.pop("_data", None)
            o["want_esc"] = 0; o["data_ok"] = 1
            if o["k"] == "tag":
                t = truth.get(o["blk"])
                if t is None:
                    o["data_ok"] = 0
                else:
                    o["want_esc"] = int(t[:4] == c14_journal.MAGIC_BYTES)
                    o["data_ok"] = int(data == ((b"\0\0\0\0" + t[4:]) if o["want_esc"] else t))
        if tool_err:
            j["err"].append(tool_err)
        return {"t": "journal", "sc": sc, "j": j}
    finally:
        for p_ in (img, dat1, dat2):
            try: os.unlink(p_)
            except OSError: pass


def clause_a_journal(b, ev, vd, tier, work, rng, U):
    scen = list(U["mandatory_scenarios"])
    rest = [s_ for s_ in U["scenarios"] if s_ not in scen]
    if tier == "quick":
        rng.shuffle(rest)
        scen += rest[:24]
    else:
        scen += rest

    def sckey(s_):
        c = s_["cfg"]
        return "mcsum%d.b64%d.bs%d.%s.%s|n%d.m%s.r%d.%s.%s" % (c["mcsum"], c["b64"], c["bs"], c["req"], c["origin"], s_["n"], "_".join(map(str, s_["magic"])) or "-", s_["r"], s_["second"], s_["after"])

    def describe(r_):
        j = r_["j"]
        badobj = [{k: o[k] for k in ("k", "seq", "st", "fm", "blk", "esc", "want_esc", "logmagic", "data_ok")} for o in j["objs"]
                  if o["st"] != o["fm"] or (o["k"] == "tag" and (o["logmagic"] or bool(o["esc"]) != bool(o["want_esc"]) or not o["data_ok"]))]
        return "ver %d start %d tags %d descs %d revoked %d commits %d err %s; objects off the format: %s" % (
            j["ver"], j["start"], j["tags"], j["descs"], j["revoked"], j["commits"], j["err"], json.dumps(badobj[:4]))
    mand = {json.dumps(s_, sort_keys=True) for s_ in U["mandatory_scenarios"]}
    nlines = nobj = skipped = 0
    first = None
    BATCH = 600                      # results hold every decoded object: bounded memory in the thorough tier
    for b0 in range(0, len(scen), BATCH):
        part = scen[b0:b0 + BATCH]
        with cf.ProcessPoolExecutor(max_workers=JOBS) as ex:
            res = list(ex.map(journal_case, [(b, s_, work, b0 + i) for i, s_ in enumerate(part)], chunksize=2))
        lines, keep = [], []
        for s_, r_ in zip(part, res):
            if "skip" in r_:
                skipped += 1
                if json.dumps(s_, sort_keys=True) in mand:
                    die_broken("mandatory journal scenario could not be set up: %s (%s)" % (r_["skip"], json.dumps(s_)))
                continue
            lines.append(json.dumps(r_)); keep.append((s_, r_))
        res2 = validate_u(lines, os.path.join(work, "tvj%d" % b0), chunk=40)
        if res2["broken"]:
            die_broken("TLC failed on Trace_CsumUniverse (journals): %s\n%s" % (res2["broken"][0]["error"], res2["broken"][0]["tail"][-1200:]))
        ev.cov["states"] += res2["distinct"]; ev.cov["transitions"] += res2["generated"]
        for i in res2["DEVLINE"]:
            s_, r_ = keep[i]
            vd.violation("a|journal|DevV1CommitCoversRevoke", "journal scenario %s: %s" % (sckey(s_), describe(r_)), {"clause": "a-journal", "scenario": s_, "decoded": _slim(r_["j"])})
        for i in res2["BADLINE"]:
            s_, r_ = keep[i]
            vd.violation("a|journal|%s" % sckey(s_), "the journal the tools wrote for scenario %s is not what the jbd2 format defines: %s" % (sckey(s_), describe(r_)),
                         {"clause": "a-journal", "scenario": s_, "decoded": _slim(r_["j"])})
        for s_, r_ in keep:
            nobj += len(r_["j"]["objs"]); ev.nontrivial(("aj", sckey(s_)))
        nlines += len(lines)
        if keep and first is None:
            s_, r_ = keep[0]
            first = {"clause": "a-journal", "scenario": sckey(s_), "objects": len(r_["j"]["objs"]), "tags": r_["j"]["tags"], "ver": r_["j"]["ver"]}
        shutil.rmtree(os.path.join(work, "tvj%d" % b0), ignore_errors=True)
    ev.cov["a_journals"] = nlines; ev.cov["a_journal_objects"] = nobj; ev.cov["a_journal_skipped"] = skipped
    ev.cov["a_journal_universe"] = len(U["scenarios"])
    if first:
        ev.sample(first)
    return nlines


def _slim(j):
    d = dict(j); d["objs"] = j["objs"][:6]
    return d


def proj_path(p):
    if not p:
        return None
    try:
        return ext4read.project(p)
    except Exception as e:          # the reader promises not to raise; if it does the state is not decided
        return {"unsupported": ["reader raised %r" % (e,)]}


# ------------------------------------------------------------------------------------------------ clause (b)
def markers(P):
    """every checksum mismatch the reader reports, as a set of names"""
    m = set()
    if "fatal" in P:
        return None
    if not P["sb"].get("csum_ok", True): m.add("sb")
    for g in P["gd"]:
        if not g["csum_ok"]: m.add("gd%d" % g["g"])
        if not g["bbcsum_ok"]: m.add("bb%d" % g["g"])
        if not g["ibcsum_ok"]: m.add("ib%d" % g["g"])
    for i in P["inodes"]:
        if not i["csum_ok"]: m.add("inode%d" % i["ino"])
        for e in i["csum_err"]: m.add("i%d:%s" % (i["ino"], e))
    for d in P["dirs"]:
        for e in d["csum_err"]: m.add("d%d:%s" % (d["dir"], e))
    for x in P["xblocks"]:
        if not x["csum_ok"]: m.add("x%d" % x["blk"])
    if not P["mmp"].get("csum_ok", True): m.add("mmp")
    if not P["journal"].get("csum_ok", True): m.add("jsb")
    for k in P.get("free_inode_csum_err", []): m.add("freeinode%d" % k)
    return m


def other_errors(P):
    """every non-checksum complaint of the reader anywhere in the projection (strings; compared before / after a flip)"""
    out = set()

    def walk(x, path):
        if isinstance(x, dict):
            tag = path
            for idk in ("ino", "g", "blk", "dir"):
                if idk in x and isinstance(x[idk], int):
                    tag = "%s[%s=%d]" % (path, idk, x[idk]); break
            for k, v in x.items():
                if k in ("loc", "tree", "claims", "runs", "ents"):
                    continue
                if (k.endswith("_err") or k == "err") and isinstance(v, list):
                    for e in v:
                        if not str(e).startswith("csum:"):
                            out.add("%s.%s:%s" % (tag, k, e))
                elif k.endswith("_ok") and v is False and "csum" not in k:
                    out.add("%s.%s" % (tag, k))
                elif isinstance(v, (dict, list)):
                    walk(v, "%s.%s" % (tag, k))
        elif isinstance(x, list):
            for v in x:
                if isinstance(v, (dict, list)):
                    walk(v, path)
    walk(P, "")
    if "fatal" in P:
        out.add("fatal:%s" % P["fatal"])
    return out


def objects(P, img, rich=False):
    """live checksummed objects of an image: list of dict(type, name, base (byte offset in the image), lib request, params).
    rich: an image of gen/c14_rich.py -- inodes and directory blocks are chosen per shape of CsumUniverse!Shapes below /hi"""
    geo = P["geo"]; loc = P["loc"]; bs = geo["bs"]
    if geo["csum"] == "none":
        return []
    meta = geo["csum"] == "crc32c"
    Z = dict(isize=0, hi=0, dsize=0, nbytes=0, ehmax=0, bs=bs, coff=0, count=0, tail=0)
    out = []
    raw = open(img, "rb").read()

    def add(t, name, base, req, **kw):
        d = dict(Z); d.update(kw); d.update(type=t, name=name, base=base, req=req); out.append(d)
    if meta:
        add("sb", "sb", loc["sb"], "open")
    for g in P["gd"][:3]:
        add("gd", "gd%d" % g["g"], loc["gd%d" % g["g"]], "open", dsize=geo["dsize"] if "64bit" in geo["features"] else 32)
        if meta:
            ds = geo["dsize"] if "64bit" in geo["features"] else 32
            if "BLOCK_UNINIT" not in g["flags"] and ("bb%d" % g["g"]) in loc:
                add("bb", "bb%d" % g["g"], loc["bb%d" % g["g"]], "bitmaps", nbytes=geo["cpg"] // 8, dsize=ds)
            if "INODE_UNINIT" not in g["flags"] and ("ib%d" % g["g"]) in loc:
                add("ib", "ib%d" % g["g"], loc["ib%d" % g["g"]], "bitmaps", nbytes=geo["ipg"] // 8, dsize=ds)
    if not meta:
        return out
    inodes = {i["ino"]: i for i in P["inodes"]}
    want = [2, 8]
    hi = {t["path"]: t["ino"] for t in P["tree"] if t["path"].startswith("/hi")} if rich else {}
    if rich:
        want = [hi[k] for k in ("/hi", "/hi/ht", "/hi/ex", "/hi/xd") if k in hi]
    for i in P["inodes"]:
        if i["type"] == "reg" and i["own"]["index"] and len(want) < 4: want.append(i["ino"])
    for i in P["inodes"]:
        if i["own"]["xattr"] and i["ino"] not in want and len(want) < 6: want.append(i["ino"])
    for i in P["inodes"]:
        if i["type"] == "symlink" and i["ino"] not in want and len(want) < 7: want.append(i["ino"]); break
    for ino in want:
        I = inodes.get(ino)
        if I is None or str(ino) not in loc.get("inode", {}): continue
        add("inode", "inode%d" % ino, loc["inode"][str(ino)], "inode %d" % ino, isize=geo["isize"],
            hi=1 if (geo["isize"] > 128 and I.get("extra_isize", 0) >= 4) else 0)
    # extent blocks: find the owner
    owner = {}
    for i in P["inodes"]:
        for a, z in i["own"]["index"]:
            for blk in range(a, z + 1): owner[blk] = i["ino"]
    for blk, off in list(loc.get("extblk", {}).items())[:3]:
        ino = owner.get(int(blk))
        if ino is None: continue
        ehmax = struct.unpack_from("<H", raw, off + 4)[0]
        add("extblk", "extblk%s" % blk, off, "extents %d" % ino, ehmax=ehmax)
    # directory blocks: leaf vs dx node
    nleaf = ndx = 0
    seen_shape = set()
    for key, off in loc.get("dirblk", {}).items():
        ino, l = (int(x) for x in key.split(":"))
        I = inodes.get(ino)
        if I is None or I.get("inline"): continue
        if rich:
            # one block per shape, owned by a directory below /hi (the linear one's emptied block, the htree's root / interior node / leaf)
            shp = c14_rich.dirblock_shape(raw, off, bs, "INDEX" in I["flags"], l)
            if ino not in hi.values() or shp in seen_shape: continue
            seen_shape.add(shp)
        blk = off // bs
        indexed = "INDEX" in I["flags"]
        ino0, rl0 = struct.unpack_from("<IH", raw, off)
        kind = "leaf"
        if indexed and l == 0:
            kind, coff = "dx", 32
        elif indexed and ino0 == 0 and rl0 == bs:
            kind, coff = "dx", 8
        if kind == "dx":
            limit, count = struct.unpack_from("<HH", raw, off + coff)
            tail = coff + 8 * limit
            if tail + 8 > bs or count > limit or ndx >= 3: continue
            add("dxnode", "dx%d:%d" % (ino, l), off, "dirblock %d %d" % (ino, blk), coff=coff, count=count, tail=tail); ndx += 1
        elif nleaf < 3:
            add("dirleaf", "dir%d:%d" % (ino, l), off, "dirblock %d %d" % (ino, blk)); nleaf += 1
    for x in (sorted(P["xblocks"], key=lambda x: 0 if rich and x["referrers"] and x["referrers"][0] == hi.get("/hi/xd") else 1)[:1] if rich else P["xblocks"][:2]):
        if str(x["blk"]) in loc.get("xblk", {}) and x["referrers"]:
            add("xblk", "xblk%d" % x["blk"], loc["xblk"][str(x["blk"])], "xattr %d %d" % (x["referrers"][0], x["blk"]))
    if P["mmp"].get("present") and "mmp" in loc:
        add("mmp", "mmp", loc["mmp"], "mmp")
    if P["journal"].get("present") and set(P["journal"].get("incompat", [])) & {"csum_v2", "csum_v3"} and "jsb" in loc:
        add("jsb", "jsb", loc["jsb"], "open")
    return out


def overlay_blocks(P):
    """blocks the library marks in memory whatever the on-disk bitmaps say: bitmaps and inode table of BLOCK_UNINIT groups"""
    geo = P["geo"]; s = set()
    for g in P["gd"]:
        if "BLOCK_UNINIT" in g["flags"]:
            s.add(g["bb"]); s.add(g["ib"]); s.update(range(g["it"], g["it"] + geo["itb"]))
    return s


def is_overlay(P, ov, o, off, bit):
    if o["type"] != "bb":
        return 0
    geo = P["geo"]
    g = int(o["name"][2:])
    c = g * geo["cpg"] + off * 8 + bit
    lo = geo["first"] + c * geo["cr"]
    return int(any(bk in ov for bk in range(lo, lo + geo["cr"])))


def obj_size(o):
    return {"sb": 1024, "mmp": 1024, "jsb": 1024, "gd": o["dsize"], "inode": o["isize"]}.get(o["type"], o["bs"])


def offsets(o, tier, rng, full, few=False):
    n = obj_size(o)
    if full:
        return list(range(n))
    edges = {0, 1, n - 1, n - 2}
    fields = {"sb": [1019, 1020, 1023, 0x3A, 0x68, 0x175], "gd": [29, 30, 31, 32, 0x18, 0x1C, 0x3A, 63, 64, 65, 96, 127], "inode": [0, 4, 0x1A, 0x28, 123, 124, 125, 126, 127, 128, 129, 130, 131, 132, 255, 256, 511],
              "extblk": [4, 6, 11, 12, 12 + 12 * o["ehmax"] - 1, 12 + 12 * o["ehmax"], 12 + 12 * o["ehmax"] + 3],
              "dirleaf": [4, 8, o["bs"] - 13, o["bs"] - 12, o["bs"] - 8, o["bs"] - 4], "xblk": [0, 4, 15, 16, 19, 20, 32],
              "dxnode": [o["coff"], o["coff"] + 2, o["coff"] + 8 * o["count"] - 1, o["coff"] + 8 * o["count"], o["tail"] - 1, o["tail"], o["tail"] + 3, o["tail"] + 4, o["tail"] + 7],
              "bb": [o["nbytes"] - 1, o["nbytes"]], "ib": [o["nbytes"] - 1, o["nbytes"]], "mmp": [1019, 1020, 4, 8], "jsb": [251, 252, 255, 256, 12, 0x30]}
    s = {x for x in edges | set(fields.get(o["type"], [])) if 0 <= x < n}
    k = (3 if few else 6) if tier == "quick" else (8 if few else 24)
    s |= {rng.randrange(n) for _ in range(k)}
    return sorted(s)


def flip_case(args):
    b, img, o, off, bit, before, work, idx = args
    env = tool_env(b)
    p = os.path.join(work, "f%06d.img" % idx)
    shutil.copy(img, p)
    with open(p, "r+b") as f:
        f.seek(o["base"] + off); c = f.read(1)
        f.seek(o["base"] + off); f.write(bytes([c[0] ^ (1 << bit)]))
    try:
        if o["type"] == "sb":
            raw = open(p, "rb").read(2048)[1024:]
            stale = int(ext4read.crc32c(0xFFFFFFFF, raw[:0x3FC]) != struct.unpack_from("<I", raw, 0x3FC)[0])
        else:
            P = proj_path(p)
            if not P or P.get("unsupported"):
                stale = -1
            else:
                m = markers(P)
                if m is None or (not (m - before[0]) and (other_errors(P) - before[1])):
                    stale = 2          # the reader rejects the altered object for another reason; no checksum verdict
                else:
                    stale = int(bool(m - before[0]))
        rc, out, err = sh([os.path.join(b, "e2fsck", "e2fsck"), "-fn", p], env=env, timeout=120)
        pr = subprocess.run([os.path.join(b, "verif-drv", "csumdrv"), p], input=(o["req"] + "\n").encode(), stdout=subprocess.PIPE, stderr=subprocess.PIPE, timeout=120, env=env)
        lib = {"err": -1, "msg": "driver died rc=%s" % pr.returncode}
        if pr.returncode == 0 and pr.stdout.strip():
            lib = json.loads(pr.stdout.decode().splitlines()[-1])
        if o["type"] == "jsb" and lib["err"] == 0:
            # libext2fs itself never reads the journal superblock; the journal loader every library user shares is
            # debugfs/journal.c (ext2fs_open_journal): run it last, on this scratch copy
            rcj, outj, errj = sh([os.path.join(b, "debugfs", "debugfs"), "-w", "-f", "-", p], env=env, timeout=120, input=b"jo\njc\n")
            msg = (outj + errj).decode("utf8", "replace")
            if "while opening journal" in msg:
                lib = {"err": 1, "msg": [l for l in msg.splitlines() if "while opening journal" in l][0][:200]}
        txt = out.decode("utf8", "replace")
        return dict(stale=stale, fsck=rc, lib=int(lib["err"] != 0), libmsg=lib.get("msg", ""), fsck_tail=txt[-300:],
                    fsck_reported=int("hecksum" in txt or "csum" in txt))
    finally:
        os.unlink(p)


def clause_b(b, ev, vd, tier, work, rng, rich, mmp):
    drv = build.driver(b, "csumdrv")
    # the coverage function against the format's length formulas
    r = T.tlc(os.path.join(SPEC, "MC_CsumCoverage.tla"), os.path.join(SPEC, "MC_CsumCoverage.cfg"), workers=2, timeout=600, xmx="2g")
    if r.violated:
        die_broken("CsumCoverage violates its own sanity invariant %s" % r.violated)
    if not r.ok:
        die_broken("TLC failed on MC_CsumCoverage: %s" % r.error)
    ev.add_tlc(r, "CsumCoverage: every offset of a representative object of every type")
    base_dir, info = mkbase.base_images(b)
    profs = ["ext4_1k", "ext4_old", "ext4_4k", "noflex"] if tier == "quick" else [p for p in CSUM_PROFILES]
    profs = [p for p in profs if info.get(p, {}).get("ok")]
    imgs = {p: os.path.join(base_dir, p + ".img") for p in profs}
    # an MMP filesystem (made by clause (a))
    env = tool_env(b)
    if mmp:
        imgs["mmp"] = mmp; profs.append("mmp")
    # geometry: the sizes the covered range depends on (CsumUniverse!DescSizes / InodeSizes, both kinds), on the populated
    # pre-states of clause (a); quick: the largest and the smallest geometry and the crc16 one with the largest descriptor
    rnames = sorted(n_ for n_ in rich if n_.endswith("_noflex"))
    if tier == "quick":
        rnames = [n_ for n_ in rnames if n_ in ("g128_i512_crc32c_noflex", "g32_i128_crc32c_noflex", "g128_i128_crc16_noflex")]
    isrich = set()
    for n_ in rnames:
        imgs[n_] = os.path.join(rich[n_][0], n_ + ".img"); profs.append(n_); isrich.add(n_)
    cases = []
    full_done = set()
    for p in profs:
        P = proj_path(imgs[p])
        if not P or P.get("unsupported") or "fatal" in P:
            ev.cov.setdefault("b_not_decided", []).append(p); continue
        before = (markers(P), other_errors(P))
        if before[0]:
            # the untouched image already holds checksums the format does not define: that is clause (a)'s verdict (the base case
            # of every image used here is among its mandatory cases); "stale after the flip" cannot be observed on such an image
            if not (vd.viol or vd.hit_known):
                die_broken("the reader finds stale checksums %s in the untouched image %s but clause (a) reported nothing" % (sorted(before[0])[:5], p))
            ev.cov.setdefault("b_not_decided", []).append("%s: stale before any flip (clause a reports it): %s" % (p, sorted(before[0])[:5]))
            continue
        objs = objects(P, imgs[p], p in isrich)
        if tier == "quick" and p in isrich and p != "g128_i512_crc32c_noflex":
            objs = [o for o in objs if o["type"] in ("gd", "bb", "ib", "inode")]      # what depends on the descriptor / inode size
        ov = overlay_blocks(P)
        for o in objs:
            # one complete sweep per object type and per size the covered range depends on
            fkey = (o["type"], o["dsize"] if o["type"] == "gd" else min(o["dsize"], 64) if o["type"] in ("bb", "ib") else 0, o["isize"], o["hi"])
            full = tier == "thorough" and fkey not in full_done and obj_size(o) <= 1024
            if full: full_done.add(fkey)
            for off in offsets(o, tier, rng, full, p in isrich):
                bit = rng.randrange(8)
                cases.append((p, dict(o, overlay=is_overlay(P, ov, o, off, bit)), off, bit, before))
    with cf.ProcessPoolExecutor(max_workers=JOBS) as ex:
        res = list(ex.map(flip_case, [(b, imgs[p], o, off, bit, before, work, i) for i, (p, o, off, bit, before) in enumerate(cases)], chunksize=4))
    lines, keep = [], []
    undec = 0
    for (p, o, off, bit, before), r_ in zip(cases, res):
        if r_["stale"] < 0:
            undec += 1; continue
        d = {k: o[k] for k in ("type", "isize", "hi", "dsize", "nbytes", "ehmax", "bs", "coff", "count", "tail")}
        d.update(off=off, stale=r_["stale"], fsck=r_["fsck"], lib=r_["lib"], overlay=o.get("overlay", 0))
        lines.append(json.dumps(d)); keep.append((p, o, off, bit, r_))
    sub = os.path.join(work, "tvb"); os.makedirs(sub, exist_ok=True)
    res2 = validate_b(lines, sub)
    ev.cov["states"] += res2["distinct"]; ev.cov["transitions"] += res2["generated"]
    if res2["broken"]:
        die_broken("TLC failed on Trace_CsumCoverage: %s\n%s" % (res2["broken"][0]["error"], res2["broken"][0]["tail"][-1200:]))
    if res2["disagree"]:
        i = res2["disagree"][0]; p, o, off, bit, r_ = keep[i]
        die_broken("the coverage function of spec/CsumCoverage.tla and the independent reader disagree on %s byte %d of %s (%s): %s" % (o["type"], off, o["name"], p, lines[i]))
    nobl = 0
    for p, o, off, bit, r_ in keep:
        if r_["stale"] >= 1:
            nobl += 1; ev.nontrivial(("b", p, o["name"], off))
    for i in res2["dev"]:
        p, o, off, bit, r_ = keep[i]
        vd.violation("b|bb|DevUninitOverlayHidesFlip" if o["type"] == "bb" else "b|jsb|DevJsbNrUsersClearsV2",
                     "bit %d of covered byte %d of %s (%s, profile %s) flipped, stored checksum stale: e2fsck -fn exit %d, library %s" %
                     (bit, off, o["name"], o["type"], p, r_["fsck"], ("error: " + r_["libmsg"]) if r_["lib"] else "accepted the object"),
                     {"clause": "b", "profile": p, "object": {k: v for k, v in o.items()}, "off": off, "bit": bit, "result": r_})
    for i in res2["bad"]:
        p, o, off, bit, r_ = keep[i]
        # key = object type + which detector failed; for e2fsck: whether it printed a checksum complaint and still exited 0
        det = ("fsck-reported-exit0" if r_["fsck_reported"] else "fsck-silent") if r_["fsck"] == 0 else "lib-accepts"
        vd.violation("b|%s|%s" % (o["type"], det),
                     "bit %d of covered byte %d of %s (%s, profile %s) flipped, stored checksum stale: e2fsck -fn exit %d, library %s" %
                     (bit, off, o["name"], o["type"], p, r_["fsck"], ("error: " + r_["libmsg"]) if r_["lib"] else "accepted the object"),
                     {"clause": "b", "profile": p, "object": {k: v for k, v in o.items()}, "off": off, "bit": bit, "result": r_})
    ev.cov["b_flips"] = len(lines); ev.cov["b_obligations"] = nobl; ev.cov["b_not_decided_flips"] = undec
    ev.cov["b_library_checksum_class_errors"] = sum(1 for k in keep if k[4]["lib"] and ("hecksum" in k[4]["libmsg"] or "CRC" in k[4]["libmsg"]))
    if keep:
        p, o, off, bit, r_ = keep[0]
        ev.sample({"clause": "b", "profile": p, "object": o["name"], "off": off, "bit": bit, "stale": r_["stale"], "fsck": r_["fsck"], "lib": r_["libmsg"]})
    return len(lines)


def validate_b(lines, workdir, chunk=400):
    """like tracecheck.validate_lines, additionally collecting DISAGREE lines"""
    r = validate_tagged(lines, workdir, "Trace_CsumCoverage", ("BADLINE", "DISAGREE", "DEVLINE"), chunk)
    return dict(bad=r["BADLINE"], disagree=r["DISAGREE"], dev=r["DEVLINE"], broken=r["broken"], distinct=r["distinct"], generated=r["generated"])


def validate_u(lines, workdir, chunk=200):
    return validate_tagged(lines, workdir, "Trace_CsumUniverse", ("BADLINE", "DEVLINE", "UNCOVERED"), chunk)


def validate_tagged(lines, workdir, module, tags, chunk):
    """independent lines validated by one TLC run per chunk; the trace spec prints <<TAG, line>> for a failing line and goes on"""
    os.makedirs(workdir, exist_ok=True)
    out = {t: [] for t in tags}
    out.update(broken=[], distinct=0, generated=0)
    if not lines:
        return out
    tasks, spans = [], []
    for ci, i in enumerate(range(0, len(lines), chunk)):
        p = os.path.join(workdir, "lines%05d.ndjson" % ci)
        part = lines[i:i + chunk]
        with open(p, "w") as f:
            f.write("\n".join(part) + "\n")
        tasks.append(p); spans.append(i)

    def one(p):
        r = T.tlc(os.path.join(SPEC, module + ".tla"), os.path.join(SPEC, module + ".cfg"), workers=1, timeout=900, env={"TRACE": p}, xmx="2g")
        d = {t: [int(x) for x in re.findall(r'<<"%s", (\d+)>>' % t, r.out)] for t in tags}
        d.update(complete=(r.rc == 0 and r.violated is None and r.error is None), error=r.error or r.violated, tail=r.out[-2000:], distinct=r.distinct, generated=r.generated)
        return d
    with cf.ThreadPoolExecutor(max_workers=JOBS) as ex:
        res = list(ex.map(one, tasks))
    for base, r in zip(spans, res):
        out["distinct"] += r["distinct"]; out["generated"] += r["generated"]
        if not r["complete"]:
            out["broken"].append(r); continue
        for t in tags:
            out[t] += [base + k - 1 for k in r[t]]
    for t in tags:
        out[t] = sorted(set(out[t]))
    return out


def run(b, ev, vd, tier, work, rng):
    U = load_universe(work)
    na, rich, mmp = clause_a(b, ev, vd, tier, work, rng, U)
    nj = clause_a_journal(b, ev, vd, tier, work, rng, U)
    nb = clause_b(b, ev, vd, tier, work, rng, rich, mmp)
    ev.cov["clauses_a_b"] = "evaluated: %d tool-produced images and %d tool-written journals (a), %d byte flips (b)" % (na, nj, nb)
    ev.cov["a_universe"] = {"image_cases": len(U["cases"]), "mandatory_image_cases": len(U["mandatory_cases"]),
                            "journal_scenarios": len(U["scenarios"]), "mandatory_journal_scenarios": len(U["mandatory_scenarios"])}
    return na + nj + nb



def replay_one(b, rp, work):
    """one saved universe element of clause (a) (image case or journal scenario) or (b) (byte flip) again"""
    cl = rp.get("clause")
    if cl == "a-journal":
        r_ = journal_case((b, rp["scenario"], work, 0))
        if "skip" in r_:
            die_broken("scenario could not be set up: " + r_["skip"])
        res = validate_u([json.dumps(r_)], os.path.join(work, "tvr"))
        if res["broken"]:
            die_broken("TLC failed: %s" % res["broken"][0]["error"])
        return {"violated": bool(res["BADLINE"] or res["DEVLINE"]), "deviation": bool(res["DEVLINE"]), "decoded": _slim(r_["j"])}
    if cl == "a":
        tag, op = rp["profile"], rp["op"]
        env = tool_env(b)
        if tag == "mmp":
            src = os.path.join(work, "mmp.img")
            sh([os.path.join(b, "misc", "mke2fs"), "-q", "-F", "-t", "ext4", "-b", "1024", "-O", "mmp,metadata_csum", "-U", mkbase.UUID, src, "4096"], env=env, timeout=120)
            rich = False
        elif tag.startswith("g") and "_i" in tag:
            m = re.match(r"g(\d+)_i(\d+)_(crc16|crc32c)_(flex|noflex)$", tag)
            g = dict(dsize=int(m.group(1)), isize=int(m.group(2)), kind=m.group(3), flex=int(m.group(4) == "flex"))
            rdir, meta = rich_images(b, [g])
            src = os.path.join(rdir, tag + ".img"); rich = True
        else:
            base_dir, info = mkbase.base_images(b)
            src = os.path.join(base_dir, tag + ".img"); rich = False
        img = derive(b, src, tag, op, work, rich)
        if img is None:
            return {"violated": False, "note": "the tool refused"}
        P = proj_path(img)
        v = absstate.evaluate([P])[0]
        return {"violated": "Csums" in v["failed"], "failed": v["failed"], "markers": sorted(markers(P) or [])[:20]}
    if cl == "b":
        tag = rp["profile"]
        if tag == "mmp":
            src = os.path.join(work, "mmp.img")
            sh([os.path.join(b, "misc", "mke2fs"), "-q", "-F", "-t", "ext4", "-b", "1024", "-O", "mmp,metadata_csum", "-U", mkbase.UUID, src, "4096"], env=tool_env(b), timeout=120)
        elif tag.startswith("g") and "_i" in tag:
            m = re.match(r"g(\d+)_i(\d+)_(crc16|crc32c)_(flex|noflex)$", tag)
            g = dict(dsize=int(m.group(1)), isize=int(m.group(2)), kind=m.group(3), flex=int(m.group(4) == "flex"))
            rdir, meta = rich_images(b, [g]); src = os.path.join(rdir, tag + ".img")
        else:
            base_dir, info = mkbase.base_images(b); src = os.path.join(base_dir, tag + ".img")
        build.driver(b, "csumdrv")
        P = proj_path(src)
        before = (markers(P), other_errors(P))
        o = rp["object"]
        r_ = flip_case((b, src, o, rp["off"], rp["bit"], before, work, 0))
        d = {k: o[k] for k in ("type", "isize", "hi", "dsize", "nbytes", "ehmax", "bs", "coff", "count", "tail")}
        d.update(off=rp["off"], stale=r_["stale"], fsck=r_["fsck"], lib=r_["lib"], overlay=is_overlay(P, overlay_blocks(P), o, rp["off"], rp["bit"]))
        res = validate_b([json.dumps(d)], os.path.join(work, "tvr"))
        if res["broken"]:
            die_broken("TLC failed: %s" % res["broken"][0]["error"])
        return {"violated": bool(res["bad"] or res["dev"]), "deviation": bool(res["dev"]), "result": r_}
    die_broken("unknown replay clause %r" % (cl,))
