"""C14 clauses (a) and (b)  (called from checks/c14.py).

(a) every metadata object written by a tool carries the format's checksum: images produced by mke2fs (base profiles),
    debugfs -w, tune2fs (-U, metadata_csum_seed, csum off/on), resize2fs (grow/shrink) and e2fsck -fyD are projected by
    the independent reader (own crc32c/crc16, own seed / inode-number / generation folding) and TLC evaluates the conjunct
    Csums of Ext4Abs!Consistent on every projection (lib/absstate.py).
(b) a changed covered byte is detected: spec/CsumCoverage.tla states, per object type, which bytes the format covers
    (TLC checks it against the format's length formulas: MC_CsumCoverage); one bit of a byte of a live object is flipped in
    the real image; the reader says whether the stored checksum still matches; `e2fsck -fn` and the library read path of
    that object type (harness/csumdrv.c) must both detect.  TLC decides every line (Trace_CsumCoverage)."""
import os, sys, json, struct, shutil, subprocess, random, concurrent.futures as cf
from common import VERIF, tool_env, die_broken, NPROC
from common import run as sh
import build, tlc as T, tracecheck
import mkbase, absstate
sys.path.insert(0, os.path.join(VERIF, "reader"))
import ext4read

SPEC = os.path.join(VERIF, "spec")
JOBS = max(2, min(12, NPROC - 4))
CSUM_PROFILES = ["ext4_1k", "ext4_4k", "ext4_old", "bigalloc", "meta_bg", "noflex", "inline", "ea_inode", "quota", "sparse2", "holes", "nojournal"]
NEW_UUID = "0f0e0d0c-0b0a-0908-0706-050403020100"


# ------------------------------------------------------------------------------------------------ clause (a)
def derive(b, base_dir, prof, op, work):
    """-> path of the derived image or None when the tool refused (a refusal carries no obligation)"""
    env = tool_env(b)
    img = os.path.join(work, "a_%s_%s.img" % (prof, op))
    shutil.copy(os.path.join(base_dir, prof + ".img"), img)
    tune = os.path.join(b, "misc", "tune2fs"); fsck = os.path.join(b, "e2fsck", "e2fsck")
    rsz = os.path.join(b, "resize", "resize2fs"); dbg = os.path.join(b, "debugfs", "debugfs")

    def ok(rc_out, allowed=(0,)):
        # tune2fs may finish its conversion by asking for an e2fsck run ("Please run e2fsck -f[D] on the filesystem"):
        # the conversion is the pair, as in checks/c11.py
        if rc_out[0] in allowed and b"Please run e2fsck" in (rc_out[1] + rc_out[2]):
            sh([fsck, "-fyD", img], env=env, timeout=300)
        return rc_out[0] in allowed
    if op == "base":
        return img
    if op == "tune_U":
        if not ok(sh([tune, "-f", "-U", NEW_UUID, img], env=env, timeout=120, input=b"y\n")): return None
    elif op == "tune_seed_U":
        if not ok(sh([tune, "-O", "metadata_csum_seed", img], env=env, timeout=120)): return None
        if not ok(sh([tune, "-U", NEW_UUID, img], env=env, timeout=120, input=b"y\n")): return None
    elif op == "tune_off_on":
        if not ok(sh([tune, "-O", "^metadata_csum", img], env=env, timeout=120)): return None
        sh([fsck, "-fy", img], env=env, timeout=120)
        if not ok(sh([tune, "-O", "metadata_csum", img], env=env, timeout=120)): return None
        sh([fsck, "-fy", img], env=env, timeout=120)
    elif op == "resize_grow":
        sz = os.path.getsize(img)
        with open(img, "r+b") as f:
            f.truncate(sz + sz // 2)
        if not ok(sh([rsz, img], env=env, timeout=300)): return None
    elif op == "resize_shrink":
        rc, out, err = sh([rsz, "-P", img], env=env, timeout=120)
        try:
            minb = int(out.decode().strip().split()[-1])
        except Exception:
            return None
        st = ext4read.project(img)["geo"]
        tgt = max(minb + (st["blocks"] - minb) // 3, minb + 64)
        if tgt >= st["blocks"]: return None
        if not ok(sh([rsz, img, str(tgt)], env=env, timeout=300)): return None
    elif op == "fsck_D":
        if not ok(sh([fsck, "-fyD", img], env=env, timeout=300), (0, 1)): return None
    elif op == "debugfs":
        src = os.path.join(work, "src_%s.bin" % prof)
        with open(src, "wb") as f:
            f.write(bytes((i * 29 + 3) & 255 for i in range(70000)))
        cmds = ["mkdir c14d", "write %s c14d/new" % src, "symlink c14d/sl /" + "t" * 200, "symlink c14d/fl short", "mknod c14d/p p",
                "ea_set c14d/new user.c14 " + "v" * 300, "ea_set c14d user.dir 1", "punch big300k 20 60", "rm medium", "unlink tiny20",
                "sif hello.txt mtime 1234567", "mkdir deep/c14sub", "ln hello.txt c14d/hl"]
        rc, out, err = sh([dbg, "-w", "-f", "-", img], env=env, timeout=300, input=("\n".join(cmds) + "\n").encode())
        if rc != 0: return None
    else:
        raise ValueError(op)
    return img


def n_checksummed(P):
    """objects whose checksum the reader recomputed in this projection (measured, for the evidence file)"""
    n = 1 + 3 * len(P.get("gd", [])) + len(P.get("inodes", [])) + len(P.get("xblocks", []))
    loc = P.get("loc", {})
    n += len(loc.get("extblk", {})) + len(loc.get("dirblk", {})) + len(loc.get("orphanblk", {}))
    return n


def clause_a(b, ev, vd, tier, work, rng):
    base_dir, info = mkbase.base_images(b)
    profs = [p for p in CSUM_PROFILES if info.get(p, {}).get("ok")]
    ops = ["base", "tune_U", "tune_seed_U", "tune_off_on", "resize_grow", "resize_shrink", "fsck_D", "debugfs"]
    cases = [(p, o) for p in profs for o in ops]
    if tier == "quick":
        must = [(p, "base") for p in profs]
        rest = [c for c in cases if c[1] != "base"]
        rng.shuffle(rest)
        cases = must + rest[:20]
    with cf.ThreadPoolExecutor(max_workers=JOBS) as ex:
        imgs = list(ex.map(lambda c: derive(b, base_dir, c[0], c[1], work), cases))

    with cf.ProcessPoolExecutor(max_workers=JOBS) as ex:
        projs = list(ex.map(proj_path, imgs))
    states, owners = [], []
    refused = 0
    for c, P in zip(cases, projs):
        if P is None:
            refused += 1; continue
        if P.get("unsupported") or "fatal" in P:
            ev.cov.setdefault("a_not_decided", []).append("%s/%s: %s" % (c[0], c[1], P.get("unsupported") or P.get("fatal")))
            continue
        states.append(P); owners.append(c)
    try:
        verdicts = absstate.evaluate(states, stats=ev.cov.setdefault("a_tlc", {}))
    except absstate.AbsStateError as e:
        die_broken("TLC failed while evaluating Ext4Abs!Consistent: %s" % e)
    nobj = 0
    for c, P, v in zip(owners, states, verdicts):
        nobj += n_checksummed(P)
        if "Csums" in v["failed"]:
            bad = {"sb": P["sb"].get("csum_ok"), "gd": [g["g"] for g in P["gd"] if not (g["csum_ok"] and g["bbcsum_ok"] and g["ibcsum_ok"])],
                   "inodes": [i["ino"] for i in P["inodes"] if not i["csum_ok"] or i["csum_err"]][:10],
                   "xblocks": [x["blk"] for x in P["xblocks"] if not x["csum_ok"]], "dirs": [d["dir"] for d in P["dirs"] if d["csum_err"]][:10]}
            vd.violation("a|%s|%s" % c, "after %s on profile %s an object does not carry the checksum the format defines: %s" % (c[1], c[0], json.dumps(bad)[:300]),
                         {"clause": "a", "profile": c[0], "op": c[1], "bad": bad})
        ev.nontrivial(("a",) + c)
    ev.cov["a_images"] = len(states); ev.cov["a_refused"] = refused; ev.cov["a_checksummed_objects"] = nobj
    ev.cov["states"] += len(states); ev.cov["transitions"] += len(states)
    if states:
        ev.sample({"clause": "a", "profile": owners[0][0], "op": owners[0][1], "objects": n_checksummed(states[0]), "failed_conjuncts": verdicts[0]["failed"]})
    return len(states)


def proj_path(p):
    if not p:
        return None
    try:
        return ext4read.project(p)
    except Exception as e:          # the reader promises not to raise; if it does the state is not decided
        return {"unsupported": ["reader raised %r" % (e,)]}


# ------------------------------------------------------------------------------------------------ clause (b)
def markers(P):
    """every checksum mismatch the reader reports, as a set of names"""
    m = set()
    if "fatal" in P:
        return None
    if not P["sb"].get("csum_ok", True): m.add("sb")
    for g in P["gd"]:
        if not g["csum_ok"]: m.add("gd%d" % g["g"])
        if not g["bbcsum_ok"]: m.add("bb%d" % g["g"])
        if not g["ibcsum_ok"]: m.add("ib%d" % g["g"])
    for i in P["inodes"]:
        if not i["csum_ok"]: m.add("inode%d" % i["ino"])
        for e in i["csum_err"]: m.add("i%d:%s" % (i["ino"], e))
    for d in P["dirs"]:
        for e in d["csum_err"]: m.add("d%d:%s" % (d["dir"], e))
    for x in P["xblocks"]:
        if not x["csum_ok"]: m.add("x%d" % x["blk"])
    if not P["mmp"].get("csum_ok", True): m.add("mmp")
    if not P["journal"].get("csum_ok", True): m.add("jsb")
    for k in P.get("free_inode_csum_err", []): m.add("freeinode%d" % k)
    return m


def other_errors(P):
    """every non-checksum complaint of the reader anywhere in the projection (strings; compared before / after a flip)"""
    out = set()

    def walk(x, path):
        if isinstance(x, dict):
            tag = path
            for idk in ("ino", "g", "blk", "dir"):
                if idk in x and isinstance(x[idk], int):
                    tag = "%s[%s=%d]" % (path, idk, x[idk]); break
            for k, v in x.items():
                if k in ("loc", "tree", "claims", "runs", "ents"):
                    continue
                if (k.endswith("_err") or k == "err") and isinstance(v, list):
                    for e in v:
                        if not str(e).startswith("csum:"):
                            out.add("%s.%s:%s" % (tag, k, e))
                elif k.endswith("_ok") and v is False and "csum" not in k:
                    out.add("%s.%s" % (tag, k))
                elif isinstance(v, (dict, list)):
                    walk(v, "%s.%s" % (tag, k))
        elif isinstance(x, list):
            for v in x:
                if isinstance(v, (dict, list)):
                    walk(v, path)
    walk(P, "")
    if "fatal" in P:
        out.add("fatal:%s" % P["fatal"])
    return out


def objects(P, img):
    """live checksummed objects of an image: list of dict(type, name, base (byte offset in the image), lib request, params)"""
    geo = P["geo"]; loc = P["loc"]; bs = geo["bs"]
    if geo["csum"] == "none":
        return []
    meta = geo["csum"] == "crc32c"
    Z = dict(isize=0, hi=0, dsize=0, nbytes=0, ehmax=0, bs=bs, coff=0, count=0, tail=0)
    out = []
    raw = open(img, "rb").read()

    def add(t, name, base, req, **kw):
        d = dict(Z); d.update(kw); d.update(type=t, name=name, base=base, req=req); out.append(d)
    if meta:
        add("sb", "sb", loc["sb"], "open")
    for g in P["gd"][:3]:
        add("gd", "gd%d" % g["g"], loc["gd%d" % g["g"]], "open", dsize=geo["dsize"] if "64bit" in geo["features"] else 32)
        if meta:
            ds = geo["dsize"] if "64bit" in geo["features"] else 32
            if "BLOCK_UNINIT" not in g["flags"] and ("bb%d" % g["g"]) in loc:
                add("bb", "bb%d" % g["g"], loc["bb%d" % g["g"]], "bitmaps", nbytes=geo["cpg"] // 8, dsize=ds)
            if "INODE_UNINIT" not in g["flags"] and ("ib%d" % g["g"]) in loc:
                add("ib", "ib%d" % g["g"], loc["ib%d" % g["g"]], "bitmaps", nbytes=geo["ipg"] // 8, dsize=ds)
    if not meta:
        return out
    inodes = {i["ino"]: i for i in P["inodes"]}
    want = [2, 8]
    for i in P["inodes"]:
        if i["type"] == "reg" and i["own"]["index"] and len(want) < 4: want.append(i["ino"])
    for i in P["inodes"]:
        if i["own"]["xattr"] and i["ino"] not in want and len(want) < 6: want.append(i["ino"])
    for i in P["inodes"]:
        if i["type"] == "symlink" and i["ino"] not in want and len(want) < 7: want.append(i["ino"]); break
    for ino in want:
        I = inodes.get(ino)
        if I is None or str(ino) not in loc.get("inode", {}): continue
        add("inode", "inode%d" % ino, loc["inode"][str(ino)], "inode %d" % ino, isize=geo["isize"],
            hi=1 if (geo["isize"] > 128 and I.get("extra_isize", 0) >= 4) else 0)
    # extent blocks: find the owner
    owner = {}
    for i in P["inodes"]:
        for a, z in i["own"]["index"]:
            for blk in range(a, z + 1): owner[blk] = i["ino"]
    for blk, off in list(loc.get("extblk", {}).items())[:3]:
        ino = owner.get(int(blk))
        if ino is None: continue
        ehmax = struct.unpack_from("<H", raw, off + 4)[0]
        add("extblk", "extblk%s" % blk, off, "extents %d" % ino, ehmax=ehmax)
    # directory blocks: leaf vs dx node
    nleaf = ndx = 0
    for key, off in loc.get("dirblk", {}).items():
        ino, l = (int(x) for x in key.split(":"))
        I = inodes.get(ino)
        if I is None or I.get("inline"): continue
        blk = off // bs
        indexed = "INDEX" in I["flags"]
        ino0, rl0 = struct.unpack_from("<IH", raw, off)
        kind = "leaf"
        if indexed and l == 0:
            kind, coff = "dx", 32
        elif indexed and ino0 == 0 and rl0 == bs:
            kind, coff = "dx", 8
        if kind == "dx":
            limit, count = struct.unpack_from("<HH", raw, off + coff)
            tail = coff + 8 * limit
            if tail + 8 > bs or count > limit or ndx >= 3: continue
            add("dxnode", "dx%d:%d" % (ino, l), off, "dirblock %d %d" % (ino, blk), coff=coff, count=count, tail=tail); ndx += 1
        elif nleaf < 3:
            add("dirleaf", "dir%d:%d" % (ino, l), off, "dirblock %d %d" % (ino, blk)); nleaf += 1
    for x in P["xblocks"][:2]:
        if str(x["blk"]) in loc.get("xblk", {}) and x["referrers"]:
            add("xblk", "xblk%d" % x["blk"], loc["xblk"][str(x["blk"])], "xattr %d %d" % (x["referrers"][0], x["blk"]))
    if P["mmp"].get("present") and "mmp" in loc:
        add("mmp", "mmp", loc["mmp"], "mmp")
    if P["journal"].get("present") and set(P["journal"].get("incompat", [])) & {"csum_v2", "csum_v3"} and "jsb" in loc:
        add("jsb", "jsb", loc["jsb"], "open")
    return out


def obj_size(o):
    return {"sb": 1024, "mmp": 1024, "jsb": 1024, "gd": o["dsize"], "inode": o["isize"]}.get(o["type"], o["bs"])


def offsets(o, tier, rng, full):
    n = obj_size(o)
    if full:
        return list(range(n))
    edges = {0, 1, n - 1, n - 2}
    fields = {"sb": [1019, 1020, 1023, 0x3A, 0x68, 0x175], "gd": [29, 30, 31, 32, 0x18, 0x1C], "inode": [0, 4, 0x1A, 0x28, 123, 124, 125, 126, 127, 128, 129, 130, 131, 132],
              "extblk": [4, 6, 11, 12, 12 + 12 * o["ehmax"] - 1, 12 + 12 * o["ehmax"], 12 + 12 * o["ehmax"] + 3],
              "dirleaf": [4, 8, o["bs"] - 13, o["bs"] - 12, o["bs"] - 8, o["bs"] - 4], "xblk": [0, 4, 15, 16, 19, 20, 32],
              "dxnode": [o["coff"], o["coff"] + 2, o["coff"] + 8 * o["count"] - 1, o["coff"] + 8 * o["count"], o["tail"] - 1, o["tail"], o["tail"] + 3, o["tail"] + 4, o["tail"] + 7],
              "bb": [o["nbytes"] - 1, o["nbytes"]], "ib": [o["nbytes"] - 1, o["nbytes"]], "mmp": [1019, 1020, 4, 8], "jsb": [251, 252, 255, 256, 12, 0x30]}
    s = {x for x in edges | set(fields.get(o["type"], [])) if 0 <= x < n}
    k = 6 if tier == "quick" else 24
    s |= {rng.randrange(n) for _ in range(k)}
    return sorted(s)


def flip_case(args):
    b, img, o, off, bit, before, work, idx = args
    env = tool_env(b)
    p = os.path.join(work, "f%06d.img" % idx)
    shutil.copy(img, p)
    with open(p, "r+b") as f:
        f.seek(o["base"] + off); c = f.read(1)
        f.seek(o["base"] + off); f.write(bytes([c[0] ^ (1 << bit)]))
    try:
        if o["type"] == "sb":
            raw = open(p, "rb").read(2048)[1024:]
            stale = int(ext4read.crc32c(0xFFFFFFFF, raw[:0x3FC]) != struct.unpack_from("<I", raw, 0x3FC)[0])
        else:
            P = proj_path(p)
            if not P or P.get("unsupported"):
                stale = -1
            else:
                m = markers(P)
                if m is None or (not (m - before[0]) and (other_errors(P) - before[1])):
                    stale = 2          # the reader rejects the altered object for another reason; no checksum verdict
                else:
                    stale = int(bool(m - before[0]))
        rc, out, err = sh([os.path.join(b, "e2fsck", "e2fsck"), "-fn", p], env=env, timeout=120)
        pr = subprocess.run([os.path.join(b, "verif-drv", "csumdrv"), p], input=(o["req"] + "\n").encode(), stdout=subprocess.PIPE, stderr=subprocess.PIPE, timeout=120, env=env)
        lib = {"err": -1, "msg": "driver died rc=%s" % pr.returncode}
        if pr.returncode == 0 and pr.stdout.strip():
            lib = json.loads(pr.stdout.decode().splitlines()[-1])
        txt = out.decode("utf8", "replace")
        return dict(stale=stale, fsck=rc, lib=int(lib["err"] != 0), libmsg=lib.get("msg", ""), fsck_tail=txt[-300:],
                    fsck_reported=int("hecksum" in txt or "csum" in txt))
    finally:
        os.unlink(p)


def clause_b(b, ev, vd, tier, work, rng):
    drv = build.driver(b, "csumdrv")
    # the coverage function against the format's length formulas
    r = T.tlc(os.path.join(SPEC, "MC_CsumCoverage.tla"), os.path.join(SPEC, "MC_CsumCoverage.cfg"), workers=2, timeout=600, xmx="2g")
    if r.violated:
        die_broken("CsumCoverage violates its own sanity invariant %s" % r.violated)
    if not r.ok:
        die_broken("TLC failed on MC_CsumCoverage: %s" % r.error)
    ev.add_tlc(r, "CsumCoverage: every offset of a representative object of every type")
    base_dir, info = mkbase.base_images(b)
    profs = ["ext4_1k", "ext4_old", "ext4_4k", "noflex"] if tier == "quick" else [p for p in CSUM_PROFILES]
    profs = [p for p in profs if info.get(p, {}).get("ok")]
    imgs = {p: os.path.join(base_dir, p + ".img") for p in profs}
    # an MMP filesystem and a journal with checksums (not among the base profiles)
    env = tool_env(b)
    mmp = os.path.join(work, "mmp.img")
    rc, o, e = sh([os.path.join(b, "misc", "mke2fs"), "-q", "-F", "-t", "ext4", "-b", "1024", "-O", "mmp,metadata_csum", "-U", mkbase.UUID, mmp, "4096"], env=env, timeout=120)
    if rc == 0:
        imgs["mmp"] = mmp; profs.append("mmp")
    cases = []
    full_done = set()
    for p in profs:
        P = proj_path(imgs[p])
        if not P or P.get("unsupported") or "fatal" in P:
            ev.cov.setdefault("b_not_decided", []).append(p); continue
        before = (markers(P), other_errors(P))
        for o in objects(P, imgs[p]):
            full = tier == "thorough" and o["type"] not in full_done and obj_size(o) <= 1024
            if full: full_done.add(o["type"])
            for off in offsets(o, tier, rng, full):
                cases.append((p, o, off, rng.randrange(8), before))
    with cf.ProcessPoolExecutor(max_workers=JOBS) as ex:
        res = list(ex.map(flip_case, [(b, imgs[p], o, off, bit, before, work, i) for i, (p, o, off, bit, before) in enumerate(cases)], chunksize=4))
    lines, keep = [], []
    undec = 0
    for (p, o, off, bit, before), r_ in zip(cases, res):
        if r_["stale"] < 0:
            undec += 1; continue
        d = {k: o[k] for k in ("type", "isize", "hi", "dsize", "nbytes", "ehmax", "bs", "coff", "count", "tail")}
        d.update(off=off, stale=r_["stale"], fsck=r_["fsck"], lib=r_["lib"])
        lines.append(json.dumps(d)); keep.append((p, o, off, bit, r_))
    sub = os.path.join(work, "tvb"); os.makedirs(sub, exist_ok=True)
    res2 = validate_b(lines, sub)
    ev.cov["states"] += res2["distinct"]; ev.cov["transitions"] += res2["generated"]
    if res2["broken"]:
        die_broken("TLC failed on Trace_CsumCoverage: %s\n%s" % (res2["broken"][0]["error"], res2["broken"][0]["tail"][-1200:]))
    if res2["disagree"]:
        i = res2["disagree"][0]; p, o, off, bit, r_ = keep[i]
        die_broken("the coverage function of spec/CsumCoverage.tla and the independent reader disagree on %s byte %d of %s (%s): %s" % (o["type"], off, o["name"], p, lines[i]))
    nobl = 0
    for p, o, off, bit, r_ in keep:
        if r_["stale"] >= 1:
            nobl += 1; ev.nontrivial(("b", p, o["name"], off))
    for i in res2["bad"]:
        p, o, off, bit, r_ = keep[i]
        # key = object type + which detector failed; for e2fsck: whether it printed a checksum complaint and still exited 0
        det = ("fsck-reported-exit0" if r_["fsck_reported"] else "fsck-silent") if r_["fsck"] == 0 else "lib-accepts"
        vd.violation("b|%s|%s" % (o["type"], det),
                     "bit %d of covered byte %d of %s (%s, profile %s) flipped, stored checksum stale: e2fsck -fn exit %d, library %s" %
                     (bit, off, o["name"], o["type"], p, r_["fsck"], ("error: " + r_["libmsg"]) if r_["lib"] else "accepted the object"),
                     {"clause": "b", "profile": p, "object": {k: v for k, v in o.items()}, "off": off, "bit": bit, "result": r_})
    ev.cov["b_flips"] = len(lines); ev.cov["b_obligations"] = nobl; ev.cov["b_not_decided_flips"] = undec
    ev.cov["b_library_checksum_class_errors"] = sum(1 for k in keep if k[4]["lib"] and ("hecksum" in k[4]["libmsg"] or "CRC" in k[4]["libmsg"]))
    if keep:
        p, o, off, bit, r_ = keep[0]
        ev.sample({"clause": "b", "profile": p, "object": o["name"], "off": off, "bit": bit, "stale": r_["stale"], "fsck": r_["fsck"], "lib": r_["libmsg"]})
    return len(lines)


def validate_b(lines, workdir, chunk=400):
    """like tracecheck.validate_lines, additionally collecting DISAGREE lines"""
    import re
    tasks, spans = [], []
    for ci, i in enumerate(range(0, len(lines), chunk)):
        p = os.path.join(workdir, "lines%05d.ndjson" % ci)
        part = lines[i:i + chunk]
        with open(p, "w") as f:
            f.write("\n".join(part) + "\n")
        tasks.append(p); spans.append(i)

    def one(p):
        r = T.tlc(os.path.join(SPEC, "Trace_CsumCoverage.tla"), os.path.join(SPEC, "Trace_CsumCoverage.cfg"), workers=1, timeout=900, env={"TRACE": p}, xmx="2g")
        return dict(bad=[int(x) for x in re.findall(r'<<"BADLINE", (\d+)>>', r.out)], dis=[int(x) for x in re.findall(r'<<"DISAGREE", (\d+)>>', r.out)],
                    complete=(r.rc == 0 and r.violated is None and r.error is None), error=r.error or r.violated, tail=r.out[-2000:], distinct=r.distinct, generated=r.generated)
    with cf.ThreadPoolExecutor(max_workers=JOBS) as ex:
        res = list(ex.map(one, tasks))
    bad, dis, broken, d, g = [], [], [], 0, 0
    for base, r in zip(spans, res):
        d += r["distinct"]; g += r["generated"]
        if not r["complete"]:
            broken.append(r); continue
        bad += [base + k - 1 for k in r["bad"]]; dis += [base + k - 1 for k in r["dis"]]
    return dict(bad=sorted(set(bad)), disagree=sorted(set(dis)), broken=broken, distinct=d, generated=g)


def run(b, ev, vd, tier, work, rng):
    na = clause_a(b, ev, vd, tier, work, rng)
    nb = clause_b(b, ev, vd, tier, work, rng)
    ev.cov["clauses_a_b"] = "evaluated: %d tool-produced images (a), %d byte flips (b)" % (na, nb)
    return na + nb
