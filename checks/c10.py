"""C10 -- directory operations keep the namespace exact, at every directory size.

(1) TLC model-checks spec/Dir.tla (namespace, stored link counts vs directory references, inode / block release; raw
    debugfs ln/unlink/kill_file/sif vs counted mkdir/write/rm/rmdir), spec/DirBlock.tla (link_proc / unlink_proc / expand with the
    true 1 KiB arithmetic) and spec/HTree.tla (dx_lookup / dx_split_leaf / dx_grow_tree with scaled node limits).
(2) Operation histories drawn (seeded) from the observed state are executed through harness/dirdrv.c (public libext2fs API)
    and through `debugfs -w -f`, interleaved with `e2fsck -fyD`, on the profiles {linear, dir_index, dir_index+metadata_csum,
    inline_data, no filetype, dir_nlink} x {1k, 4k}.  After every step (library) / every few commands (debugfs) the whole
    filesystem is observed (listing of every directory, inode types and link counts, in-use set, exact slot layout of every
    directory block, htree index, free counts) and every observation is validated by TLC against spec/Trace_Dir.tla: the run
    of operations applied to Dir + DirBlock + HTree must yield exactly the observation, all invariants are evaluated on every
    line, `e2fsck -fyD` must find nothing on states the model calls consistent and must leave every directory in exactly the
    form HTree.tla states for a rebuilt directory (leaf fill, level decision and index of calculate_tree), and the final
    `e2fsck -fn` must be clean exactly when the model says so.
(3) Directory sizes at which the rebuilt index changes shape are taken from the BOUNDARY CATALOGUE of HTree.tla (written by
    spec/Emit_HTreeCat.tla: root limit, interior-node limit, root*node limit, for 1k/2k/4k blocks with and without
    metadata_csum; c-1, c, c+1, c+2 leaf blocks each): every feasible size is built from a linear directory and re-indexed,
    and a directory is grown across each boundary in steps of at most one leaf with `e2fsck -fyD` after every step.
(4) Refusals: mkdir / symlink / write of a name that exists (every kind of existing object) must change nothing.
(5) TRANSITION GRAPH of the layout specification (DESIGN 2.2, replay direction): spec/Edge_DirBlock.tla lets TLC enumerate every
    class of edge link_proc / unlink_proc can take (operation x block x position of the slot x state of the neighbouring slots x
    kind of the previous operation; DirBlock!DelEdge / InsEdge) in a bounded universe per geometry (1 KiB with / without checksum
    tail, inline area, 4 KiB), each with the shortest operation sequence that takes it.  A covering set of these sequences is
    replayed through the library AND through debugfs; every step is validated by Trace_Dir as in (2), and TLC also checks that
    the step is of the catalogued class (Trace_Dir!EdgesAgree).  The evidence lists the classes covered per front end; a
    catalogued class that no accepted replay took makes the check CHECK-BROKEN.
(6) The link-count rule at the REAL limit: Dir!NlinkCatalogue (stored count of the parent in {LinkMax-2, LinkMax-1, LinkMax, 1}
    x {mkdir, rmdir}, emitted by spec/Emit_DirCat.tla for dir_nlink on and off) is walked in a directory that really holds
    ~65000 subdirectories (harness/dirdrv.c bulkdir), through the library and through debugfs, e2fsck -fn as the oracle; every
    line is validated by TLC against spec/Trace_DirNlink.tla (the count abstraction of Dir.tla, same rule operators)."""
import os, sys, json, random, shutil, subprocess, struct, time, hashlib, threading
import concurrent.futures as cf
from common import VERIF, fast_tmp, seed, die_broken, tool_env, run as sh
import build, tlc as T, tracecheck
from evidence import Evidence, Verdict
sys.path.insert(0, os.path.join(VERIF, "reader"))

PID = "C10"
SPEC = os.path.join(VERIF, "spec")
JOBS = 4
HASH_SEED = "01234567-89ab-cdef-0123-456789abcdef"
FS_UUID = "11111111-2222-3333-4444-555555555555"
LINK_MAX = 65000             # EXT2_LINK_MAX: the value of the constant LinkMax in every conformance configuration

# feature profile -> (mke2fs -O list, FileType, DirNlink, inline)
PROFILES = {
    "linear":  ("^dir_index,^dir_nlink,^metadata_csum,uninit_bg", 1, 0, 0),
    "dx":      ("dir_index,^dir_nlink,^metadata_csum,uninit_bg", 1, 0, 0),
    "dxcsum":  ("dir_index,^dir_nlink,metadata_csum", 1, 0, 0),
    "inline":  ("dir_index,^dir_nlink,metadata_csum,inline_data", 1, 0, 1),
    "noft":    ("dir_index,^dir_nlink,^filetype,^metadata_csum,uninit_bg", 0, 0, 0),
    "nlink":   ("dir_index,dir_nlink,metadata_csum", 1, 1, 0),
}
BLOCKSIZES = (1024, 4096)
# deviations of the pinned tree that are modelled literally (DESIGN 3.5); all FALSE = repaired behaviour
DEV = {"DevMkdirNoNlinkRule": "FALSE", "DevKillLeaksEaBlock": "FALSE", "DevMkdirExistsLeak": "FALSE", "DevSymlinkExistsLeak": "FALSE",
       "DevMkdirNoEmlink": "FALSE"}

DEV_ORDER = ["DevSymlinkExistsLeak", "DevMkdirExistsLeak", "DevKillLeaksEaBlock", "DevMkdirNoNlinkRule", "DevMkdirNoEmlink"]   # naming a rejected behaviour: tried in this order
FT = {"mkdir": 2, "create": 1, "symlink": 7}
LOCK = threading.Lock()


def load_known():
    """known findings of this property live in fixes/C10_known_findings.txt (brief) and/or known_findings.txt"""
    out = {}
    p = os.path.join(VERIF, "fixes", "C10_known_findings.txt")
    if os.path.exists(p):
        for l in open(p):
            l = l.strip()
            if l.startswith("{"):
                d = json.loads(l)
                if d.get("property") == PID and d.get("status", "known") == "known":
                    out[d["key"]] = d
    return out


# ------------------------------------------------------------------------------------------------ filesystem images
class Env:
    def __init__(self, b, work):
        self.b, self.work = b, work
        self.env = tool_env(b, {"DIRDRV_E2FSCK": os.path.join(b, "e2fsck", "e2fsck")})
        self.drv = build.driver(b, "dirdrv")
        self.base = {}
        self.src = {}
        for n, sz in (("s0", 0), ("s100", 100), ("s3000", 3000), ("ea600", 600)):
            p = os.path.join(work, n)
            with open(p, "wb") as f:
                f.write(b"d" * sz)
            self.src[n] = p

    def base_image(self, prof, bs, big):
        key = (prof, bs, big)
        with LOCK:
            if key in self.base:
                return self.base[key]
            p = os.path.join(self.work, "base_%s_%d_%d.img" % (prof, bs, big))
            feat = PROFILES[prof][0]
            cmd = [os.path.join(self.b, "misc", "mke2fs"), "-q", "-F", "-t", "ext4", "-b", str(bs), "-I", "256", "-m", "0",
                   "-N", "2048" if big else "512", "-E", "hash_seed=" + HASH_SEED, "-U", FS_UUID,
                   "-O", "^has_journal,^resize_inode,^flex_bg," + feat, p, "16M" if big else "8M"]
            rc, o, e = sh(cmd, env=self.env, timeout=60)
            if rc != 0:
                die_broken("mke2fs failed for profile %s/%d: %s" % (prof, bs, (o + e).decode()[-500:]))
            self.base[key] = p
            return p


def sb_hash_params(img):
    with open(img, "rb") as f:
        f.seek(1024 + 0xEC)
        seedw = struct.unpack("<4I", f.read(16))
        f.seek(1024 + 0xFC)
        hver = f.read(1)[0]
        f.seek(1024 + 0x160)
        flags = struct.unpack("<I", f.read(4))[0]
    if flags & 2:           # EXT2_FLAGS_UNSIGNED_HASH
        hver += 3
    return hver, seedw


# ------------------------------------------------------------------------------------------------ observations
class Obs:
    """normalised observation of the whole filesystem (from dirdrv's "st")"""
    def __init__(self, st, csum):
        self.bs = st["bs"]; self.first = st["first"]; self.ninodes = st["ninodes"]
        self.fi, self.fb = st["fi"], st["fb"]
        self.ino = {r["i"]: (r["ty"] if isinstance(r["ty"], int) else 0, r["links"], r["nblk"], r["acl"]) for r in st["inodes"]}
        self.dirs = {}
        for d in st["dirs"]:
            self.dirs[d["ino"]] = self._dir(d, csum)

    def _dir(self, d, csum):
        ok = 1 if (d["lsr"] == "ok" and d["rd"] == "ok") else 0
        ls = []
        dot = dotdot = None
        for name, ino, ft, lk in d["ls"]:
            if lk != ino:
                ok = 0
            if name == ".":
                dot = ino
            elif name == "..":
                dotdot = ino
            else:
                ls.append((name, ino, ft))
        if dot != d["ino"] or dotdot != d["dd"]:
            ok = 0
        blks, nodes = [], []
        for el in d["blks"]:
            if isinstance(el, dict):
                nodes.append((el["node"], el["dx"]["limit"], el["dx"]["count"], [tuple(x) for x in el["dx"]["e"]], el.get("hv", 0)))
                if el["dx"]["count"] != len(el["dx"]["e"]):
                    ok = 0
                continue
            blks.append([tuple(x) for x in el])
        idxblocks = {n[0] for n in nodes}
        out = []
        for j, b in enumerate(blks):
            tail = bool(b) and b[-1][1] == -1 and b[-1][3] == 222
            if tail:
                b = b[:-1]
            if any(x[0] == -1 for x in b) or not b:
                ok = 0
            if not d["inl"] and j not in idxblocks and bool(csum) != tail:
                ok = 0                      # a leaf block of a metadata_csum filesystem must end in the checksum tail
            out.append(b)
        # listing from ext2fs_dir_iterate2 must be the used slots of the raw blocks, in order
        live = [(x[4], x[0], x[3]) for b in out for x in b if x[0] > 0 and x[4] not in (".", "..")]
        if live != ls:
            ok = 0
        return dict(idx=d["idx"], inl=d["inl"], dd=d["dd"], ok=ok, ls=ls, blks=out,
                    lv=d["dx"]["lv"] if d["idx"] else -1, nodes=nodes if d["idx"] else [])

    # ---- what the generator needs
    def refs(self):
        r = {i: 0 for i in self.ino}
        for d, D in self.dirs.items():
            for n, i, ft in D["ls"]:
                if i in r:
                    r[i] += 1
        for d, D in self.dirs.items():
            r[d] += 1
            if D["dd"] in r:
                r[D["dd"]] += 1
        return r

    def consistent(self, ftflag, K):
        """python rendition of Dir!Consistent, used ONLY to decide when the generator may issue e2fsck -fyD"""
        r = self.refs()
        named = {}
        for d, D in self.dirs.items():
            for n, i, ft in D["ls"]:
                if i not in self.ino:
                    return False
                if ft != (self.ino[i][0] if ftflag else 0):
                    return False
                named.setdefault(i, []).append(d)
        for i, (ty, links, nblk, acl) in self.ino.items():
            if links != r[i] or (r[i] > 65000 and ty == 2):
                return False
            if i != 2:
                if i not in named:
                    return False
                if ty == 2 and (len(named[i]) != 1 or self.dirs[i]["dd"] != named[i][0]):
                    return False
        if self.fb + sum(v[2] for v in self.ino.values()) != K:
            return False
        return True


class Names:
    """concrete names <-> small integers; NT rows are [name_len, hash >> 1]"""
    def __init__(self, hver, seedw):
        import ext4read
        self.h = lambda s: ext4read.dirhash(hver, s.encode(), seedw)[0] >> 1
        self.ids, self.rows, self.unknown = {}, [], {}

    def nid(self, name, add=False):
        if name == ".": return -1
        if name == "..": return -2
        if name == "": return 0
        if name in self.ids:
            return self.ids[name]
        if add:
            self.rows.append([len(name), self.h(name)])
            self.ids[name] = len(self.rows)
            return self.ids[name]
        return self.unknown.setdefault(name, -10 - len(self.unknown))


def tdir(ino, D, names):
    return {"ino": ino, "idx": D["idx"], "inl": D["inl"], "dd": D["dd"], "ok": D["ok"],
            "ls": sorted([names.nid(n), i, ft] for n, i, ft in D["ls"]),      # by name id (Trace_Dir!LsOf bisects); the order of delivery is judged in Obs._dir
            "blks": [[[x[0], x[1], x[2], x[3], names.nid(x[4])] for x in b] for b in D["blks"]],
            "dx": {"lv": D["lv"], "nodes": [[n[0], n[1], [list(e) for e in n[3]]] for n in D["nodes"]]}}


def tline(kind, prev, cur, names, ops=None, fe=0, rc=0, extra=None, eg=None):
    d = {"e": kind, "fe": fe, "rc": rc, "ops": ops or [], "eg": eg or []}
    pi = prev.ino if prev else {}
    pd = prev.dirs if prev else {}
    # an inode number released and allocated again inside one run may carry an identical record: log every inode then
    # (the blocks an object owns are taken from the observation, not predicted)
    opn = {o["op"] for o in (ops or [])}
    reuse = bool(opn & {"rm", "rmdir", "kill"}) and bool(opn & {"mkdir", "create", "symlink", "mknod"})
    d["ino"] = [[i, v[0], v[1], v[2], v[3]] for i, v in sorted(cur.ino.items()) if reuse or pi.get(i) != v]
    d["gone"] = sorted(i for i in pi if i not in cur.ino)
    d["dirs"] = [tdir(i, D, names) for i, D in sorted(cur.dirs.items()) if pd.get(i) != D]
    d["fi"], d["fb"] = cur.fi, cur.fb
    if extra:
        d.update(extra)
    return d


# ------------------------------------------------------------------------------------------------ operations
def parse_op(s):
    """driver-format operation string -> dict(op, d, name, i, v)"""
    w = s.split()
    op = w[0]
    o = dict(op=op, d=0, name="", i=0, v=0)
    if op in ("mkdir", "unlink", "rm", "rmdir"):
        o.update(d=int(w[1]), name=w[2])
    elif op in ("create", "symlink"):
        o.update(d=int(w[1]), name=w[2], v=int(w[3]))
    elif op == "mknod":
        o.update(d=int(w[1]), name=w[2], v={"p": 5, "c": 3, "b": 4}[w[3]])
    elif op in ("link", "hlink"):
        o.update(d=int(w[1]), name=w[2], i=int(w[3]))
    elif op == "kill":
        o.update(i=int(w[1]))
    elif op in ("setlinks", "setea"):
        o.update(i=int(w[1]), v=int(w[2]))
    return o


def top(o, names):
    return {"op": o["op"], "d": o["d"], "n": names.nid(o["name"], add=True) if o["name"] else 0, "i": o["i"], "v": o["v"]}


def debugfs_cmds(o, env):
    op, n = o["op"], o["name"]
    cd = ["cd <%d>" % o["d"]] if o["d"] else []
    if op == "mkdir": return cd + ["mkdir " + n]
    if op == "create": return cd + ["write %s %s" % (env.src["s%d" % o["v"]], n)]
    if op == "symlink": return cd + ["symlink %s %s" % (n, "x" * o["v"])]
    if op == "mknod": return cd + ["mknod %s %s" % (n, {5: "p", 3: "c 1 3", 4: "b 1 3"}[o["v"]])]
    if op == "link": return cd + ["ln <%d> %s" % (o["i"], n)]
    if op == "unlink": return cd + ["unlink " + n]
    if op == "rm": return cd + ["rm " + n]
    if op == "rmdir": return cd + ["rmdir " + n]
    if op == "kill": return ["kill_file <%d>" % o["i"]]
    if op == "setlinks": return ["sif <%d> links_count %d" % (o["i"], o["v"])]
    if op == "setea": return ["ea_set -f %s <%d> user.big" % (env.src["ea600"], o["i"])]
    raise ValueError(op)


# ------------------------------------------------------------------------------------------------ generator
class Gen:
    """chooses the next operation from the OBSERVED state (no shadow model): names that exist, their types, emptiness"""
    def __init__(self, rng, prof, bs, front, raw_ok, big):
        self.rng, self.prof, self.bs, self.front, self.raw_ok, self.big = rng, prof, bs, front, raw_ok, big
        self.ft = PROFILES[prof][1]
        self.cnt = 0
        self.style = rng.choice(["long", "long", "mixed", "mixed", "short"])
        self.single = list("abcdefghijklmnopqrstuvwxyzABCDEFGHIJKLMNOPQRSTUVWXYZ0123456789_")
        rng.shuffle(self.single)

    def newname(self, ln=None):
        r = self.rng
        if ln is None:
            ln = {"long": r.choice([255, 255, 120, 255, 8]), "mixed": r.choice([1, 8, 120, 255, 8, 120]), "short": r.choice([1, 8, 8, 8, 120])}[self.style]
        if ln == 1:
            if self.single:
                return self.single.pop()
            ln = 8
        self.cnt += 1
        base = "n%05d" % self.cnt
        if ln < len(base) + 1:
            return (base + "z" * 8)[:max(ln, 7)]
        return base + "_" + "x" * (ln - len(base) - 1)

    def pick(self, o, pending=None):
        """one operation string valid on observation o; pending = names already used in this debugfs batch"""
        r = self.rng
        pending = pending if pending is not None else set()
        dead = {x[1] for x in pending if x[0] == "ino"}          # inodes released earlier in this batch
        dirs = [d for d in o.dirs if d in o.ino and o.dirs[d]["ok"] and d not in dead]
        userdirs = [d for d in dirs if d not in (11,)]
        ents = [(d, n, i, ft) for d in userdirs for (n, i, ft) in o.dirs[d]["ls"] if (d, n) not in pending and n != "lost+found"]
        live = [e for e in ents if e[2] in o.ino and e[2] not in dead]
        files = [e for e in live if o.ino[e[2]][0] != 2]
        sub = [e for e in live if o.ino[e[2]][0] == 2]
        emptysub = [e for e in sub if not o.dirs[e[2]]["ls"]]
        for _ in range(50):
            k = r.random()
            d = r.choice(userdirs if r.random() < 0.93 else dirs)
            if k < 0.006:
                # a request that must be refused: mkdir / symlink / write of a name that exists (Dir!RefusedExists)
                if not ents: continue
                e = r.choice(ents)
                kind = r.choice(["mkdir", "symlink", "create"])
                if kind == "mkdir": return "mkdir %d %s" % (e[0], e[1])
                if kind == "symlink": return "symlink %d %s %d" % (e[0], e[1], r.choice([10, 200]))
                return "create %d %s 0" % (e[0], e[1])
            if k < 0.09:
                if len(dirs) >= 5: continue
                return "mkdir %d %s" % (d, self.newname(r.choice([8, 8, 120, 255, 1])))
            if k < 0.27:
                return "create %d %s %d" % (d, self.newname(), r.choice([0, 0, 100, 3000]))
            if k < 0.35:
                return "symlink %d %s %d" % (d, self.newname(), r.choice([10, 59, 60, 200]))
            if k < 0.42:
                return "mknod %d %s %s" % (d, self.newname(), r.choice("pcb"))
            if k < 0.47:
                if not files or self.front != "lib": continue
                return "hlink %d %s %d" % (d, self.newname(), r.choice(files)[2])
            if k < 0.52:
                if not files or not self.raw_ok: continue
                return "link %d %s %d" % (d, self.newname(), r.choice(files)[2])
            if k < 0.72:
                if not files: continue
                e = r.choice(files); pending.add((e[0], e[1]))
                if o.ino[e[2]][1] <= 1: pending.add(("ino", e[2]))
                return "rm %d %s" % (e[0], e[1])
            if k < 0.79:
                if not emptysub: continue
                e = r.choice(emptysub)
                if any(x[0] == e[2] for x in pending): continue      # something was created in it in this batch
                pending.add((e[0], e[1])); pending.add(("ino", e[2]))
                return "rmdir %d %s" % (e[0], e[1])
            if k < 0.84:
                if not ents or not self.raw_ok: continue
                e = r.choice(ents); pending.add((e[0], e[1]))
                return "unlink %d %s" % (e[0], e[1])
            if k < 0.86:
                if not files or not self.raw_ok: continue
                e = r.choice(files)
                if any(x[2] == e[2] and (x[0], x[1]) in pending for x in ents): continue
                for x in ents:
                    if x[2] == e[2]: pending.add((x[0], x[1]))    # its names now dangle: not used again in this batch
                pending.add(("ino", e[2]))
                return "kill %d" % e[2]
            if k < 0.89:
                if not live or not self.raw_ok: continue
                e = r.choice(live)
                if o.ino[e[2]][0] == 2 and r.random() < 0.5:          # bring a directory to the dir_nlink limit: the next mkdirs in it cross it
                    return "setlinks %d %d" % (e[2], r.choice([64999, 65000, 65000]))
                return "setlinks %d %d" % (e[2], r.choice([0, 1, 2, 3, o.refs()[e[2]]]))
            if k < 0.94:
                if not files or self.prof == "inline": continue
                e = r.choice(files)
                if o.ino[e[2]][3] or (e[0], e[1]) in pending: continue
                return "setea %d 600" % e[2]
            if k < 0.97 and self.big:
                return "RUN %d" % d
            return "FSCKD"
        return "create %d %s 0" % (2, self.newname())


# ------------------------------------------------------------------------------------------------ running a behaviour
class Driver:
    def __init__(self, env, img):
        self.p = subprocess.Popen([env.drv, img, "run"], stdin=subprocess.PIPE, stdout=subprocess.PIPE, stderr=subprocess.PIPE, env=env.env)

    def hello(self):
        return self._read()

    def _read(self):
        ln = self.p.stdout.readline()
        if not ln:
            err = self.p.stderr.read().decode("utf8", "replace")
            raise RuntimeError("dirdrv died (rc=%s): %s" % (self.p.poll(), err[-400:]))
        return json.loads(ln)

    def do(self, opline, quiet=False):
        self.p.stdin.write((("-" if quiet else "") + opline + "\n").encode()); self.p.stdin.flush()
        return None if quiet else self._read()

    def close(self):
        try:
            self.p.stdin.write(b"quit\n"); self.p.stdin.close()
        except Exception:
            pass
        try:
            rc = self.p.wait(timeout=60)
        except subprocess.TimeoutExpired:
            self.p.kill(); rc = -9
        return rc


def dump(env, img):
    rc, o, e = sh([env.drv, img, "dump"], env=env.env, timeout=120)
    if rc != 0:
        raise RuntimeError("dirdrv dump failed rc=%d: %s" % (rc, e.decode("utf8", "replace")[-300:]))
    return json.loads(o)["st"]


def run_behaviour(env, spec, script=None):
    """spec: dict(prof, bs, front, seed, nsteps, raw, big).  script: recorded steps for a replay (list of dict(kind, ops)).
    returns dict(lines=[tlc lines], steps=[...recorded...], nt=..., crash=None|str)"""
    prof, bs, front = spec["prof"], spec["bs"], spec["front"]
    feat, ftflag, dirnlink, inline = PROFILES[prof]
    csum = "metadata_csum" in feat and "^metadata_csum" not in feat
    rng = random.Random(spec["seed"])
    img = os.path.join(env.work, "img_%s.img" % hashlib.sha1(json.dumps([spec, script], sort_keys=True).encode()).hexdigest()[:12])
    shutil.copyfile(env.base_image(prof, bs, spec.get("big", 0)), img)
    prep = spec.get("prep")          # operations executed through the library before the first observation (large directories)
    hver, seedw = sb_hash_params(img)
    names = Names(hver, seedw)
    names.nid("lost+found", add=True)
    for d, ns in (prep["want"] if prep else []):
        for n in ns:
            names.nid(n, add=True)
    gen = Gen(rng, prof, bs, front, spec.get("raw", 0), spec.get("big", 0))
    lines, steps = [], []
    drv = None
    crash = None
    try:
        if prep:
            d0 = Driver(env, img); d0.hello()
            for opl in prep["ops"]:
                d0.do(opl, quiet=True)
            if d0.close() != 0:
                raise RuntimeError("dirdrv failed while preparing %s" % prep.get("what"))
        if front == "lib":
            drv = Driver(env, img)
            cur = Obs(drv.hello()["st"], csum)
        else:
            cur = Obs(dump(env, img), csum)
        K = cur.fb + sum(v[2] for v in cur.ino.values())
        lines.append(("reset", None, cur, None, 0, 0, None))
        nsteps = spec["nsteps"] if script is None else len(script)
        si = 0
        queued = None
        while si < nsteps or queued:
            if queued:
                st, queued = queued, None
            elif script is not None:
                st = script[si]; si += 1
            else:
                st = plan_step(gen, cur, front, ftflag, K, rng, last=(si == nsteps - 1)); si += 1
                if st["kind"] == "fsckD":
                    # a generated e2fsck -fyD is preceded by e2fsck -fn as a step of its own (the model must agree with its verdict)
                    # and issued only when that found the filesystem clean: repairs of e2fsck -fy are not modelled
                    st, queued = {"kind": "fsckn", "ops": [], "then": "fsckD"}, st
            kind, ops = st["kind"], st["ops"]
            rc = 0
            prev = cur
            if kind in ("fsckD", "fsckn"):
                flags = "fyD" if kind == "fsckD" else "fn"
                if front == "lib":
                    r = drv.do("fsck " + flags)
                    rc = r["rc"]; cur = Obs(r["st"], csum)
                else:
                    rc, o, e = sh([env.env["DIRDRV_E2FSCK"], "-" + flags, img], env=env.env, timeout=300)
                    cur = Obs(dump(env, img), csum)
            elif front == "lib":
                for k, opl in enumerate(ops):
                    r = drv.do(opl, quiet=(k < len(ops) - 1))
                cur = Obs(r["st"], csum)
            else:
                sc = os.path.join(env.work, "dbg_%d_%s.cmd" % (os.getpid(), threading.get_ident()))
                with open(sc, "w") as f:
                    for opl in ops:
                        f.write("\n".join(debugfs_cmds(parse_op(opl), env)) + "\n")
                rc2, o, e = sh([os.path.join(env.b, "debugfs", "debugfs"), "-w", "-f", sc, img], env=env.env, timeout=300)
                if rc2 < 0 or rc2 > 1:
                    crash = "debugfs exited %d on %s: %s" % (rc2, ops, e.decode("utf8", "replace")[-300:])
                    steps.append(st); break
                cur = Obs(dump(env, img), csum)
            if st.get("then") and rc != 0:
                queued = None
            st = dict({"kind": st["kind"], "ops": st["ops"]}, **({"eg": st["eg"]} if st.get("eg") else {}))
            steps.append(st)
            lines.append((kind, prev, cur, [parse_op(x) for x in ops], 1 if front == "dbg" else 0, rc, st.get("eg")))
    except RuntimeError as ex:
        crash = str(ex)
    finally:
        if drv:
            rc = drv.close()
            if rc not in (0, None) and not crash:
                crash = "dirdrv exited %s" % rc
        try:
            os.unlink(img)
        except OSError:
            pass
    # names are numbered in order of first use; the reset line carries the complete table
    out = []
    for kind, prev, c, ops, fe, rc, eg in lines:
        tops = [top(o, names) for o in ops] if ops else []
        if kind == "reset":
            continue
        out.append(tline("step" if kind == "step" else kind, prev, c, names, tops, fe, rc, eg=eg))
    first = lines[0][2]
    want = [[d, sorted(names.nid(n) for n in ns)] for d, ns in (prep["want"] if prep else [])]
    reset = tline("reset", None, first, names, extra={"bs": bs, "tail": 12 if csum else 0, "cs": 12 if csum else 0, "inline": inline,
                                                       "maxlv": 2, "names": names.rows, "want": want,
                                                       "dirindex": 0 if "^dir_index" in feat else 1})
    return dict(lines=[reset] + out, steps=steps, crash=crash, spec=spec,
                stats=dict(splits=0))


def plan_step(gen, cur, front, ftflag, K, rng, last=False):
    if last:
        return {"kind": "fsckn", "ops": []}
    if front == "lib":
        op = gen.pick(cur)
    else:
        pending = set()
        k = rng.choice([1, 2, 3, 4, 6])
        ops = []
        for _ in range(k):
            op = gen.pick(cur, pending)
            if op in ("FSCKD",) or op.startswith("RUN"):
                if ops: break
                ops = [op]; break
            o = parse_op(op)
            if o["name"]:
                pending.add((o["d"], o["name"]))
            ops.append(op)
        if len(ops) > 1 or not (ops[0] == "FSCKD" or ops[0].startswith("RUN")):
            return {"kind": "step", "ops": ops}
        op = ops[0]
    if op == "FSCKD":
        if cur.consistent(ftflag, K):
            return {"kind": "fsckD", "ops": []}
        return {"kind": "step", "ops": ["create 2 %s 0" % gen.newname()]}
    if op.startswith("RUN"):
        d = int(op.split()[1])
        n = rng.choice([12, 20, 40])
        ln = rng.choice([255, 255, 120, 8])
        return {"kind": "step", "ops": ["create %d %s 0" % (d, gen.newname(ln)) for _ in range(n)]}
    return {"kind": "step", "ops": [op]}


# ------------------------------------------------------------------------------------------------ model checking
def model_check(ev, tier, work):
    res = []
    def cfg(name, **kw):
        p = os.path.join(work, name)
        T.write_cfg(p, **kw)
        return p
    base = dict(Root=1, FirstIno=2, NInodes=6, LinkMax=3, LinkMod=8, DirNlink="TRUE", FileType="TRUE",
                DevMkdirNoNlinkRule="FALSE", DevKillLeaksEaBlock="FALSE", DevMkdirExistsLeak="FALSE", DevSymlinkExistsLeak="FALSE", DevMkdirNoEmlink="FALSE",
                NameSet="{1, 2, 3}", MaxDirs=3, TotalBlocks=12)
    inv = ["InvTypeOK", "InvLinksRule", "InvNoFreeReferenced", "InvBalancedIsConsistent", "InvConservation", "InvNoLeak", "InvConsistentIsBalanced", "InvNoOverflow"]
    depth = 3 if tier == "quick" else 5
    c = cfg("MC_Dir.cfg", spec="Spec", constants=dict(base, MaxDepth=depth), invariants=inv, constraints=["Depth"])
    r = T.tlc(os.path.join(SPEC, "MC_Dir.tla"), c, workers=JOBS, timeout=2400, xmx="4g")
    ev.add_tlc(r, "Dir: 3 directories, 3 names, every operation sequence of length <= %d (BFS)" % depth)
    res.append(("Dir", r))
    # without dir_nlink: mkdir in a directory that holds LinkMax links is refused (EMLINK), no directory ever exceeds the limit
    c = cfg("MC_Dir_nonlink.cfg", spec="Spec", constants=dict(base, DirNlink="FALSE", MaxDepth=min(depth, 4)), invariants=inv, constraints=["Depth"])
    r = T.tlc(os.path.join(SPEC, "MC_Dir.tla"), c, workers=JOBS, timeout=2400, xmx="4g")
    ev.add_tlc(r, "Dir without dir_nlink: 3 directories, 3 names, every operation sequence of length <= %d (BFS)" % min(depth, 4))
    res.append(("Dir-nonlink", r))
    # the count abstraction of one directory (Trace_DirNlink) at scaled limits, with and without dir_nlink
    for dn in ("TRUE", "FALSE"):
        cn = {k: v for k, v in base.items() if k not in ("NameSet", "MaxDirs", "TotalBlocks")}
        c = cfg("MC_DirNlink_%s.cfg" % dn, spec="Spec", constants=dict(cn, LinkMax=5, DirNlink=dn, MaxSub=7), invariants=["InvCountOK", "InvLinks"])
        r = T.tlc(os.path.join(SPEC, "MC_DirNlink.tla"), c, workers=1, timeout=300, xmx="1g")
        ev.add_tlc(r, "DirNlink (count abstraction): LinkMax 5, every sequence of mkdir / rmdir up to 7 subdirectories, dir_nlink %s" % dn)
        res.append(("DirNlink", r))
    if tier != "quick":
        c = cfg("MC_Dir6.cfg", spec="Spec", constants=dict(base, NameSet="{1, 2, 3, 4, 5, 6}", NInodes=8, MaxDepth=100), invariants=inv)
        r = T.tlc(os.path.join(SPEC, "MC_Dir.tla"), c, workers=JOBS, timeout=900, xmx="4g", simulate=20000, depth=12)
        ev.add_tlc(r, "Dir: 3 directories, 6 names, 20000 random behaviours of 12 operations (simulation)")
        res.append(("Dir-sim", r))
    for nm, c0 in (("MC_DirBlock.cfg", "1 KiB blocks with checksum tail, 5 names of length 255/255/120/8/255"),
                   ("MC_DirBlock_inline.cfg", "inline directory (56 bytes) expanding to a 1 KiB block, 5 names")):
        r = T.tlc(os.path.join(SPEC, "MC_DirBlock.tla"), os.path.join(SPEC, nm), workers=JOBS, timeout=900, xmx="4g")
        ev.add_tlc(r, "DirBlock: every insert/remove sequence, " + c0)
        res.append(("DirBlock", r))
    r = T.tlc(os.path.join(SPEC, "MC_HTree.tla"), os.path.join(SPEC, "MC_HTree.cfg" if tier == "quick" else "MC_HTree_thorough.cfg"),
              workers=JOBS, timeout=1800, xmx="4g")
    ev.add_tlc(r, "HTree: scaled limits (root holds 3, node holds 3, leaf holds 3 names of 255 bytes), every insertion order / removal")
    res.append(("HTree", r))
    # the same with `e2fsck -D` (HTree!RebuildDx) as a third operation: the rebuilt tree satisfies every invariant, has the form
    # IsRebuiltDx that the trace specification demands, and the level TreeLevels decides; insertions continue on rebuilt trees
    c = cfg("MC_HTree_rebuild.cfg", spec="Spec", constants=dict(N=8, BS=560, RootLim=2, NodeLim=3, MaxOps=6 if tier == "quick" else 8, WithRebuild="TRUE"),
            invariants=["InvDx", "InvLookup", "InvLive", "InvChain", "InvDisguise", "InvRefusal", "InvRebuiltForm"])
    r = T.tlc(os.path.join(SPEC, "MC_HTree.tla"), c, workers=JOBS, timeout=1800, xmx="4g")
    ev.add_tlc(r, "HTree + rebuild: root holds 2, node holds 3, leaf holds 2 long names; every sequence of insert / remove / rebuild of length <= %d" % (6 if tier == "quick" else 8))
    res.append(("HTree-rebuild", r))
    for nm, r in res:
        if r.violated:
            return "model: invariant %s violated in %s (design-level counterexample)\n%s" % (r.violated, nm, r.out[-3000:])
        if not r.ok:
            die_broken("TLC failed on %s: %s\n%s" % (nm, r.error, r.out[-2000:]))
    return None



FAIL_CAP = 6                 # rejected behaviours examined per profile (the verdict is a violation by then)


def validate_capped(behaviours, module, cfg, workdir, chunk_lines, jobs, timeout, cap=FAIL_CAP, tag="vc"):
    """tracecheck.validate with a bound on the work after failures (a tree that breaks most behaviours would otherwise cost one
    TLC process per behaviour): a failing chunk is continued behind its first rejected behaviour as ONE new chunk, and the search
    stops once `cap` behaviours have been rejected; the behaviours not looked at are returned in `unchecked` (never counted as
    validated).  Failures are reported as by tracecheck.validate."""
    chunks, cur, curlen = [], [], 0
    for bi, b in enumerate(behaviours):
        if cur and curlen + len(b) > chunk_lines:
            chunks.append(cur); cur = []; curlen = 0
        cur.append(bi); curlen += len(b)
    if cur:
        chunks.append(cur)
    failures, broken, tot_d, tot_g, rnd, unchecked = [], [], 0, 0, 0, []
    while chunks:
        rnd += 1
        tasks = []
        for ci, ch in enumerate(chunks):
            pth = os.path.join(workdir, "%s_%d_%05d.ndjson" % (tag, rnd, ci))
            n = 0
            with open(pth, "w") as f:
                for bi in ch:
                    for ln in behaviours[bi]:
                        f.write(ln if ln.endswith("\n") else ln + "\n"); n += 1
            tasks.append((module, cfg, pth, n, timeout, False))
        with cf.ThreadPoolExecutor(max_workers=jobs) as ex:
            res = list(ex.map(tracecheck._run_chunk, tasks))
        nxt = []
        for ch, r in zip(chunks, res):
            tot_d += r["distinct"]; tot_g += r["generated"]
            if r["accepted"]:
                continue
            if r["error"] and r["violated"] is None:
                broken.append(r); continue
            m = r["matched"] if r["matched"] is not None else 0
            if r["violated"] and m > 0:
                m -= 1          # an invariant failed in the state reached by line m-1: that line is the offending one
            pos = 0; hit = None
            for bi in ch:
                if m < pos + len(behaviours[bi]):
                    hit = bi; break
                pos += len(behaviours[bi])
            if hit is None:
                hit = ch[-1]; pos -= len(behaviours[hit])
            failures.append(dict(behaviour=hit, line_in_behaviour=m - pos, violated=r["violated"], chunk=r["path"], tail=r["out_tail"]))
            rest = ch[ch.index(hit) + 1:]
            if rest:
                nxt.append(rest)
        if len(failures) >= cap:
            unchecked = [bi for c in nxt for bi in c]
            break
        chunks = nxt
    return dict(failures=failures, broken=broken, distinct=tot_d, generated=tot_g, unchecked=unchecked)


def relevant_devs(lines, k):
    """the literal deviations that can explain a rejection at line k: a deviation changes what the model does only from the first
    operation of its kind on (mkdir / symlink of a name; removal through debugfs of an object with an xattr block; mkdir in a
    directory whose stored count was set to the limit)"""
    ops = [o for x in lines[:k + 1] for o in x.get("ops", [])]
    kinds = {o["op"] for o in ops}
    atlimit = any(o["op"] == "setlinks" and o["v"] >= LINK_MAX - 1 for o in ops)
    out = []
    for dev in DEV_ORDER:
        if dev == "DevSymlinkExistsLeak" and "symlink" not in kinds: continue
        if dev == "DevMkdirExistsLeak" and "mkdir" not in kinds: continue
        if dev == "DevKillLeaksEaBlock" and not ("setea" in kinds and kinds & {"rm", "rmdir", "kill"}): continue
        if dev in ("DevMkdirNoNlinkRule", "DevMkdirNoEmlink") and not ("mkdir" in kinds and atlimit): continue
        out.append(dev)
    return out


def run_alone(lines, module, cfg, workdir, tag, timeout=900):
    """one behaviour, one TLC process; (rejected, first unmatched line, violated invariant, tail)"""
    pth = os.path.join(workdir, "alone_%s.ndjson" % tag)
    with open(pth, "w") as f:
        for ln in lines:
            f.write(ln if ln.endswith("\n") else ln + "\n")
    r = tracecheck._run_chunk((module, cfg, pth, len(lines), timeout, False))
    if not r["accepted"] and r["error"] and r["violated"] is None:
        return None, None, None, r["out_tail"]          # TLC itself failed
    return (not r["accepted"]), r["matched"], r["violated"], r["out_tail"]

# ------------------------------------------------------------------------------------------------ the check
def trace_cfg(work, prof, dev_on=None, check_edges=True):
    """dev_on: name of one literal deviation (Dir.tla Dev* constant) to enable -- used only to NAME the deviation a rejected behaviour shows"""
    feat, ftflag, dirnlink, inline = PROFILES[prof]
    p = os.path.join(work, "Trace_Dir_%s%s%s.cfg" % (prof, "_" + dev_on if dev_on else "", "" if check_edges else "_noedges"))
    consts = dict(Root=2, FirstIno=11, NInodes=2048, LinkMax=LINK_MAX, LinkMod=65536, DirNlink="TRUE" if dirnlink else "FALSE",
                  FileType="TRUE" if ftflag else "FALSE", CheckEdges="TRUE" if check_edges else "FALSE")
    consts.update(DEV)
    if dev_on:
        consts[dev_on] = "TRUE"
    # with a deviation enabled only conformance is asked (is this a behaviour of specification + deviation?): the deviation
    # is the very thing that breaks the invariants
    T.write_cfg(p, spec="TraceSpec", constants=consts,
                invariants=["InvTypeOK"] if dev_on else ["InvTypeOK", "InvLinksRule", "InvNoFreeReferenced", "InvBalancedIsConsistent", "InvNoLeak", "InvLayout"],
                postcondition="TraceAccepted")
    return p


def universe(tier, rng, cat):
    specs = []
    nlib, ndbg, nsteps = (96, 36, 22) if tier == "quick" else (700, 240, 40)
    combos = [(p, b) for p in PROFILES for b in BLOCKSIZES]
    for i in range(nlib):
        p, b = combos[i % len(combos)]
        specs.append(dict(prof=p, bs=b, front="lib", seed=rng.getrandbits(31), nsteps=nsteps, raw=1 if i % 3 == 2 else 0, big=0))
    for i in range(ndbg):
        p, b = combos[(i * 5 + 1) % len(combos)]
        specs.append(dict(prof=p, bs=b, front="dbg", seed=rng.getrandbits(31), nsteps=max(8, nsteps // 2), raw=1 if i % 3 == 1 else 0, big=0))
    # stretched behaviours (scripted): real leaf limits at 1 KiB with 255-byte names (3 per leaf, 123 per root, 126 per node)
    if tier == "quick":
        bigs = [("dxcsum", 1024, "lib", 363, 12, 255), ("dx", 1024, "dbg", 120, 10, 255)]
    else:
        bigs = [("dxcsum", 1024, "lib", 363, 40, 255), ("dx", 1024, "dbg", 366, 40, 255), ("nlink", 1024, "lib", 372, 30, 255),
                ("noft", 1024, "dbg", 200, 40, 120), ("linear", 1024, "lib", 200, 30, 255), ("inline", 1024, "lib", 150, 30, 255),
                ("dxcsum", 4096, "lib", 400, 60, 255), ("dx", 4096, "dbg", 400, 60, 120), ("inline", 4096, "dbg", 300, 40, 255),
                ("dxcsum", 1024, "dbg", 300, 40, 8), ("linear", 4096, "dbg", 300, 30, 255), ("nlink", 4096, "lib", 400, 40, 8)]
    for p, b, fe, n1, n2, ln in bigs:
        sc = big_script(n1, n2, ln)
        specs.append(dict(prof=p, bs=b, front=fe, seed=1, nsteps=len(sc), raw=0, big=1, script=sc))
    bspecs, skipped = boundary_specs(tier, cat, rng)
    # the refusal behaviours go last (tracecheck re-runs, one process each, whatever stands behind a rejected behaviour of a chunk)
    return specs + bspecs + refusal_specs(tier), skipped


# ------------------------------------------------------------------------------------------------ boundary catalogue
MAX_NAMES = {"quick": 1900, "thorough": 7000}      # largest directory (names) a tier builds; larger catalogue elements are reported as not visited
BIGDIR, HOLDER = 12, 13                            # first free inodes of a fresh base image: the large directory and the file its hard links name


def load_catalogue(work):
    """the directory sizes (leaf blocks) at which the rebuilt index changes shape, enumerated by TLC from HTree!Catalogue"""
    out = os.path.join(work, "htree_catalogue.json")
    r = T.tlc(os.path.join(SPEC, "Emit_HTreeCat.tla"), os.path.join(SPEC, "Emit_HTreeCat.cfg"), workers=1, timeout=300, env={"OUT": out}, xmx="1g")
    if not r.ok or not os.path.exists(out):
        die_broken("TLC could not enumerate the boundary catalogue (Emit_HTreeCat): %s\n%s" % (r.error, r.out[-1500:]))
    cat = json.load(open(out))["cat"]
    return sorted(cat, key=lambda e: (e["len"], e["bs"], e["csum"], e["leaves"], e["kind"]))


def bname(i, ln):
    return ("b%05d_" % i).ljust(ln, "y")[:max(ln, 7)]


def kind_of(front, i, few):
    """which kind of object name i of the large directory is (16 = a hard link to the holder file)"""
    if front != "lib":
        return (1, 5, 9, 13)[i % 4]
    return i % 16 if (i < 64 or not few) else 16


def add_ops(front, lo, hi, ln, few=False):
    """operations that create the names lo..hi-1 of the large directory: through the library mostly hard links to one file
    (so that thousands of names need a handful of inodes) with an object of every other kind in between; through debugfs
    (which has no counted hard link) objects of rotating kinds; few = only the first 64 names get objects of their own"""
    ops = []
    for i in range(lo, hi):
        n = bname(i, ln)
        k = kind_of(front, i, few)
        if i == 0 or k == 1: ops.append("create %d %s 0" % (BIGDIR, n))
        elif k == 5: ops.append("mkdir %d %s" % (BIGDIR, n))
        elif k == 9: ops.append("symlink %d %s %d" % (BIGDIR, n, 10 if i % 32 < 16 else 200))
        elif k == 13: ops.append("mknod %d %s p" % (BIGDIR, n))
        else: ops.append("hlink %d %s %d" % (BIGDIR, n, HOLDER))
    return ops


def del_op(i, ln, front, few=False):
    k = kind_of(front, i, few)
    return ("rmdir %d %s" if (k == 5 and i != 0) else "rm %d %s") % (BIGDIR, bname(i, ln))


def runs(ops, k=40):
    return [{"kind": "step", "ops": ops[i:i + k]} for i in range(0, len(ops), k)]


def fresh_script(front, n, ln, few):
    """a linear directory of exactly n names (built through the library before the first observation, which must show
    exactly these names), re-indexed; one name replaced; re-indexed again"""
    prep = {"what": "%d names" % n, "ops": ["mkdir 2 big"] + add_ops("lib", 0, n, ln, few),
            "want": [[2, ["lost+found", "big"]], [BIGDIR, [bname(i, ln) for i in range(n)]]]}
    steps = [{"kind": "fsckD", "ops": []}, {"kind": "step", "ops": [del_op(3, ln, "lib", few)]}, {"kind": "step", "ops": add_ops(front, n, n + 1, ln, few)},
             {"kind": "fsckD", "ops": []}, {"kind": "fsckn", "ops": []}]
    return steps, prep


def growth_script(front, targets, ln, stepwise):
    """the directory grows through the name counts `targets` (both ends of every leaf count around a boundary), re-indexed
    after every step; on the way up (stepwise) it is indexed early so that the names arrive through dx_link"""
    steps = [{"kind": "step", "ops": ["mkdir 2 big"]}]
    prep = None
    t0 = targets[0]
    if stepwise:
        early = min(40, t0)
        steps += runs(add_ops(front, 0, early, ln)) + [{"kind": "fsckD", "ops": []}] + runs(add_ops(front, early, t0, ln))
    else:
        prep = {"what": "%d names" % t0, "ops": ["mkdir 2 big"] + add_ops(front, 0, t0, ln, True), "want": [[2, ["lost+found", "big"]], [BIGDIR, [bname(i, ln) for i in range(t0)]]]}
        steps = []
    steps.append({"kind": "fsckD", "ops": []})
    have = t0
    for t in targets[1:]:
        steps += [{"kind": "step", "ops": add_ops(front, have, t, ln, not stepwise)}, {"kind": "fsckD", "ops": []}]
        have = t
    # back down across the last boundary: remove one leaf's worth of names, re-index
    steps += [{"kind": "step", "ops": [del_op(i, ln, front, not stepwise) for i in range(20, 20 + (targets[-1] - targets[-3] if len(targets) > 2 else 1))]},
              {"kind": "fsckD", "ops": []}, {"kind": "fsckn", "ops": []}]
    return steps, prep


def boundary_specs(tier, cat, rng):
    """behaviours derived from the catalogue.  Returns (specs, visited-plan, skipped elements)"""
    specs, skipped = [], []
    groups = {}
    for e in cat:
        if e["leaves"] * e["per"] + 1 > MAX_NAMES[tier]:
            skipped.append(e); continue
        groups.setdefault((e["len"], e["bs"], e["csum"]), []).append(e)
    # quick: everything at 1 KiB; of the larger block sizes the two sizes on either side of the level decision, for one (seeded) checksum setting
    big_csum = rng.choice([0, 1])
    for (ln, bs, csum), els in sorted(groups.items()):
        if tier == "quick" and bs != 1024:
            if csum != big_csum:
                skipped += els; continue
            keep = [e for e in els if e["kind"] == "root" and e["leaves"] - e["at"] in (0, 1)]
            skipped += [e for e in els if e not in keep]
            for e in keep:
                sc, prep = fresh_script("lib", e["leaves"] * e["per"], ln, True)
                specs.append(dict(prof="dxcsum" if csum else "dx", bs=bs, front="lib", seed=1, nsteps=len(sc), raw=0, big=1, script=sc, prep=prep,
                                  cat=dict(kind="fresh", bs=bs, csum=csum, len=ln, leaves=[e["leaves"]])))
            continue
        prof = "dxcsum" if csum else "dx"
        per = els[0]["per"]
        leaves = sorted({e["leaves"] for e in els})
        stepwise = (bs == 1024 and ln == 255) and not os.environ.get("C10_NOSTEP")
        # growth across the whole range of catalogued leaf counts of this geometry (they are adjacent: node limit = root limit + 3)
        targets = sorted({x for L in leaves for x in ((L - 1) * per + 1, L * per)})
        fronts = ["lib", "dbg"] if (stepwise and tier != "quick") else ["lib" if (csum or not stepwise) else "dbg"]
        for fe in fronts:
            sc, prep = growth_script(fe, targets, ln, stepwise)
            specs.append(dict(prof=prof, bs=bs, front=fe, seed=1, nsteps=len(sc), raw=0, big=1, script=sc, prep=prep,
                              cat=dict(kind="growth", bs=bs, csum=csum, len=ln, leaves=leaves)))
        # every catalogued size built as a linear directory and indexed for the first time
        for L in leaves:
            if tier == "quick" and not any(e["leaves"] == L and e["leaves"] - e["at"] in (0, 1) for e in els):
                continue                      # quick: first-time indexing only at c and c + 1 (the growth above visits every size)
            fe = "lib" if (L + csum) % 2 else "dbg"
            sc, prep = fresh_script(fe, L * per, ln, L * per > 600)      # large directories: objects of their own only among the first 64 names
            specs.append(dict(prof=prof, bs=bs, front=fe, seed=1, nsteps=len(sc), raw=0, big=1, script=sc, prep=prep,
                              cat=dict(kind="fresh", bs=bs, csum=csum, len=ln, leaves=[L])))
    return specs, skipped



# ------------------------------------------------------------------------------------------------ edge catalogue (transition graph of DirBlock)
# universes: geometry x names x (names inserted first, in order) x (operations after that); profiles that have this geometry
def edge_universes(tier, rng):
    q = tier == "quick"
    u = [dict(tag="1kcsum", N=7, nlen="L255", G="G1kCsum", inline=0, fill=7, maxops=4 if q else 5, bs=1024, profs=["dxcsum", "nlink"]),
         dict(tag="1k", N=10, nlen="LMix", G="G1k", inline=0, fill=10, maxops=4 if q else 5, bs=1024, profs=["linear", "dx", "noft"]),
         dict(tag="inline", N=6, nlen="LInl", G="G1kCsum", inline=1, fill=0, maxops=5 if q else 7, bs=1024, profs=["inline"])]
    k4 = [dict(tag="4kcsum", N=32, nlen="L255", G="G4kCsum", inline=0, fill=32, maxops=2 if q else 3, bs=4096, profs=["dxcsum", "nlink"]),
          dict(tag="4k", N=32, nlen="L255", G="G4k", inline=0, fill=32, maxops=2 if q else 3, bs=4096, profs=["dx", "linear", "noft"])]
    u += [k4[rng.randrange(2)]] if q else k4
    if not q:
        u += [dict(tag="1kcsum-partial", N=7, nlen="L255", G="G1kCsum", inline=0, fill=4, maxops=5, bs=1024, profs=["nlink", "dxcsum"]),
              dict(tag="1k-partial", N=10, nlen="LMix", G="G1k", inline=0, fill=6, maxops=5, bs=1024, profs=["dx", "noft", "linear"]),
              dict(tag="inline4k", N=6, nlen="LInl", G="G4kCsum", inline=1, fill=0, maxops=6, bs=4096, profs=["inline"])]
    return u


def ekey(e):
    return "%s/%s/%s/prev=%s/next=%s/%s%s%s/after=%s" % (e["op"], e["blk"], e["pos"], e["prev"], e["next"], e["self"], e["how"], "+sweep" if e["sweep"] else "", e["after"])


def load_edges(ev, work, tier, rng):
    """TLC enumerates the edge classes of every universe; returns [universe dict + "edges": [{"e": class, "w": labelled witness}]]"""
    univ = edge_universes(tier, rng)
    def one(u):
        out = os.path.join(work, "edges_%s.json" % u["tag"])
        c = os.path.join(work, "Edge_%s.cfg" % u["tag"])
        with open(c, "w") as f:
            f.write("SPECIFICATION Spec\nCONSTANTS\n  N = %d\n  NLen <- %s\n  G <- %s\n  Inline = %s\n  Fill = %d\n  MaxOps = %d\n  MaxBlocks = 9\n"
                    "INVARIANT InvChain\nINVARIANT InvLive\nVIEW View\nPOSTCONDITION Emit\nCHECK_DEADLOCK FALSE\n"
                    % (u["N"], u["nlen"], u["G"], "TRUE" if u["inline"] else "FALSE", u["fill"], u["maxops"]))
        r = T.tlc(os.path.join(SPEC, "Edge_DirBlock.tla"), c, workers=1, timeout=1500, env={"OUT": out}, xmx="3g")
        return u, r, out
    with cf.ThreadPoolExecutor(max_workers=JOBS) as ex:
        res = list(ex.map(one, univ))
    for u, r, out in res:
        if r.violated and r.violated != "POSTCONDITION":
            return None, "model: invariant %s violated in Edge_DirBlock (%s)\n%s" % (r.violated, u["tag"], r.out[-3000:])
        if not r.ok or not os.path.exists(out):
            die_broken("TLC could not enumerate the edge catalogue (Edge_DirBlock, %s): %s\n%s" % (u["tag"], r.error or r.violated, r.out[-1500:]))
        d = json.load(open(out))
        u["nlens"] = d["nlen"]
        u["edges"] = sorted(d["edges"], key=lambda x: ekey(x["e"]))
        if not u["edges"]:
            die_broken("empty edge catalogue for %s" % u["tag"])
        ev.add_tlc(r, "DirBlock transition graph, %s: %d names, the first %d inserted in order, then every sequence of <= %d insertions / removals: %d edge classes"
                   % (u["tag"], u["N"], u["fill"], u["maxops"], len(u["edges"])))
    return [u for u, r, out in res], None


EDGEDIR = 12                 # the directory the replays work in (first free inode of a fresh base image)
EKINDS = ("create0", "mknod", "symlink", "mkdir", "create100")


def ename(n, ln):
    if ln == 1:
        return "ABCDEFGHIJKLMNOPQRSTUVWXYZabcdefghijklmn"[n]
    return ("%02d" % n).ljust(ln, "q")[:ln]


def eop(o, n, ln, front):
    """driver-format operation for one catalogue step; the object kind rotates with the name"""
    kind = EKINDS[n % len(EKINDS)]
    nm = ename(n, ln)
    if o == "del":
        return ("rmdir %d %s" if kind == "mkdir" else "rm %d %s") % (EDGEDIR, nm)
    return {"create0": "create %d %s 0", "mknod": "mknod %d %s p", "symlink": "symlink %d %s 10", "mkdir": "mkdir %d %s", "create100": "create %d %s 100"}[kind] % (EDGEDIR, nm)


def edge_specs(univ):
    """a covering set of witnesses per universe (greedy), each replayed through the library and through debugfs"""
    specs = []
    for u in univ:
        todo = {ekey(x["e"]) for x in u["edges"]}
        chosen = []
        cand = [(x["w"], {ekey(st["e"]) for st in x["w"]}) for x in u["edges"]]
        while todo:
            w, ks = max(cand, key=lambda c: (len(c[1] & todo), -len(c[0])))
            if not ks & todo:
                break
            chosen.append(w); todo -= ks
        for wi, w in enumerate(chosen):
            for fi, fe in enumerate(("lib", "dbg")):
                sc = [{"kind": "step", "ops": ["mkdir 2 ed"]}]
                run_ops, run_eg = [], []
                for k, st in enumerate(w):
                    run_ops.append(eop(st["o"], st["n"], u["nlens"][st["n"] - 1], fe)); run_eg.append(st["e"])
                    # the names inserted first travel in runs of up to 8 (every operation labelled; the layout is compared after the run)
                    if k >= u["fill"] - 1 or len(run_ops) == 8:
                        sc.append({"kind": "step", "ops": run_ops, "eg": run_eg}); run_ops, run_eg = [], []
                if run_ops:
                    sc.append({"kind": "step", "ops": run_ops, "eg": run_eg})
                sc.append({"kind": "fsckn", "ops": []})
                prof = u["profs"][(wi + fi) % len(u["profs"])]
                specs.append(dict(prof=prof, bs=u["bs"], front=fe, seed=1, nsteps=len(sc), raw=0, big=0, script=sc,
                                  cat=dict(kind="edge", univ=u["tag"], classes=sorted({ekey(st["e"]) for st in w}))))
    return specs


# ------------------------------------------------------------------------------------------------ the link-count rule at the real limit
NL_PROFILES = {1: "nlink", 0: "dx"}          # dir_nlink on / off
NLDIR = 12


def load_nlink_catalogue(ev, work):
    cat = []
    for dn in (1, 0):
        out = os.path.join(work, "nlink_cat_%d.json" % dn)
        c = os.path.join(work, "Emit_DirCat_%d.cfg" % dn)
        consts = dict(Root=2, FirstIno=11, NInodes=2048, LinkMax=LINK_MAX, LinkMod=65536, DirNlink="TRUE" if dn else "FALSE", FileType="TRUE")
        consts.update(DEV)
        T.write_cfg(c, constants=consts)
        r = T.tlc(os.path.join(SPEC, "Emit_DirCat.tla"), c, workers=1, timeout=300, env={"OUT": out}, xmx="1g")
        if not r.ok or not os.path.exists(out):
            die_broken("TLC could not enumerate the link-count catalogue (Emit_DirCat): %s\n%s" % (r.error, r.out[-1500:]))
        cat += json.load(open(out))["cat"]
    return sorted(cat, key=lambda e: (e["dirnlink"], e["links"] == 1, e["links"], e["op"]))


def plan_walk(els, start):
    """operations (op, stored count before it) that take every catalogue element of `els` starting from the stored count `start`;
    moves outside the catalogued counts are plain +1 / -1"""
    todo = {(e["links"], e["op"]): e for e in els}
    cur, ops = start, []
    def do(op):
        nonlocal cur
        e = todo.pop((cur, op), None)
        ops.append((op, cur))
        cur = e["after"] if e else (cur + 1 if op == "mkdir" else cur - 1)
    guard = 0
    while todo and guard < 200:
        guard += 1
        nums = sorted(k[0] for k in todo if k[0] != 1)
        target = nums[0] if (nums and cur != 1) else 1
        if cur == target:
            do("rmdir" if (cur, "rmdir") in todo else "mkdir")
        elif target == 1 or cur < target:
            do("mkdir")
        else:
            do("rmdir")
    return ops, todo


def nlink_specs(cat):
    specs = []
    for dn in (1, 0):
        els = [e for e in cat if e["dirnlink"] == dn]
        start = min(e["links"] for e in els if e["links"] != 1)
        for fe in ("lib", "dbg"):
            # requests that must be refused get a behaviour of their own (a tree that does not refuse them diverges from there on)
            for part in ([e for e in els if not e["refused"]], [e for e in els if e["refused"]]):
                if not part:
                    continue
                ops, left = plan_walk(part, start)
                if left:
                    die_broken("no walk through the link-count catalogue elements %s" % sorted(left))
                specs.append(dict(dirnlink=dn, prof=NL_PROFILES[dn], front=fe, start=start, ops=ops))
    return specs


class NlinkBase:
    """one filesystem per profile whose directory NLDIR really has start - 2 subdirectories (built once, copied per behaviour)"""
    def __init__(self, env):
        self.env, self.img, self.lock = env, {}, threading.Lock()

    def get(self, prof, start):
        with self.lock:
            if (prof, start) in self.img:
                return self.img[(prof, start)]
            env = self.env
            p = os.path.join(env.work, "nlbase_%s_%d.img" % (prof, start))
            cmd = [os.path.join(env.b, "misc", "mke2fs"), "-q", "-F", "-t", "ext4", "-b", "1024", "-I", "256", "-m", "0", "-N", str(LINK_MAX + 1000),
                   "-E", "hash_seed=" + HASH_SEED, "-U", FS_UUID, "-O", "^has_journal,^resize_inode,^flex_bg," + PROFILES[prof][0], p, "112M"]
            rc, o, e = sh(cmd, env=env.env, timeout=120)
            if rc != 0:
                die_broken("mke2fs failed for the link-count base image %s: %s" % (prof, (o + e).decode()[-500:]))
            # a few long names make two blocks, e2fsck -fyD indexes the directory (linking 65000 names into a linear directory is quadratic)
            prep = ["-mkdir 2 big"] + ["-mknod %d l%d_%s p" % (NLDIR, i, "y" * 240) for i in range(6)] + ["-fsck fyD", "-bulkdir %d s %d" % (NLDIR, start - 2), "nl %d" % NLDIR]
            rc, o, e = sh([env.drv, p, "runq"], env=env.env, timeout=600, input=("\n".join(prep) + "\nquit\n").encode())
            try:
                last = json.loads(o.decode().strip().split("\n")[-1])
            except Exception:
                last = {}
            if rc != 0 or last.get("r") != "ok" or "nl" not in last:
                raise RuntimeError("preparing the directory with %d subdirectories failed (rc=%s): %s" % (start - 2, rc, e.decode("utf8", "replace")[-300:]))
            self.img[(prof, start)] = p
            return p


def run_nlink(env, nb, spec):
    """returns dict(lines=[...], crash, spec, covered=[(links, op)])"""
    lines, crash, drv = [], None, None
    img = os.path.join(env.work, "nl_%s_%s_%d.img" % (spec["prof"], spec["front"], len(spec["ops"])))
    fe = 1 if spec["front"] == "dbg" else 0
    made, nbulk = [], spec["start"] - 2
    def obs_dbg(full=True):
        rc, o, e = sh([env.drv, img, "nl", str(NLDIR)] + ([] if full else ["light"]), env=env.env, timeout=300)
        if rc != 0:
            raise RuntimeError("dirdrv nl failed rc=%d: %s" % (rc, e.decode("utf8", "replace")[-300:]))
        return json.loads(o)["nl"]
    try:
        shutil.copyfile(nb.get(spec["prof"], spec["start"]), img)
        if fe == 0:
            drv = subprocess.Popen([env.drv, img, "runq"], stdin=subprocess.PIPE, stdout=subprocess.PIPE, stderr=subprocess.PIPE, env=env.env)
            drv.stdout.readline()
            def lib(cmd):
                drv.stdin.write((cmd + "\n").encode()); drv.stdin.flush()
                ln = drv.stdout.readline()
                if not ln:
                    raise RuntimeError("dirdrv died: " + drv.stderr.read().decode("utf8", "replace")[-300:])
                return json.loads(ln)
            r = lib("nl %d" % NLDIR); o = r["nl"]
        else:
            o = obs_dbg()
        lines.append({"e": "reset", "fe": fe, "r": "ok", "rc": 0, "nl": o})
        fscked = set()
        for k, (op, before) in enumerate(spec["ops"]):
            if op == "mkdir":
                name = "x%d" % len(made + [0]) + "_%d" % k; made.append(name)
            elif made:
                name = made.pop()
            else:
                nbulk -= 1; name = "s%05d" % nbulk
            if fe == 0:
                r = lib("nl%s %d %s" % (op, NLDIR, name)); o, res = r["nl"], r["r"]
            else:
                rc2, out, err = sh([os.path.join(env.b, "debugfs", "debugfs"), "-w", "-R", "%s /big/%s" % (op, name), img], env=env.env, timeout=300)
                if rc2 < 0 or rc2 > 1:
                    raise RuntimeError("debugfs exited %d on %s: %s" % (rc2, op, err.decode("utf8", "replace")[-300:]))
                o, res = obs_dbg(full=False), "dbg"
            lines.append({"e": op, "fe": fe, "r": res, "rc": 0, "nl": o})
            if o["links"] not in fscked or k == len(spec["ops"]) - 1:
                fscked.add(o["links"])
                if fe == 0:
                    r = lib("nlfsck fn"); rc3, o = r["rc"], r["nl"]
                else:
                    rc3, out, err = sh([env.env["DIRDRV_E2FSCK"], "-fn", img], env=env.env, timeout=600)
                    o = obs_dbg()
                lines.append({"e": "fsckn", "fe": fe, "r": "ok", "rc": rc3, "nl": o})
    except RuntimeError as ex:
        crash = str(ex)
    finally:
        if drv:
            try:
                drv.stdin.write(b"quit\n"); drv.stdin.close(); drv.wait(timeout=120)
            except Exception:
                drv.kill()
        try:
            os.unlink(img)
        except OSError:
            pass
    return dict(lines=lines, crash=crash, spec=spec)


def nlink_cfg(work, dn, dev_on=None):
    p = os.path.join(work, "Trace_DirNlink_%d%s.cfg" % (dn, "_" + dev_on if dev_on else ""))
    consts = dict(Root=2, FirstIno=11, NInodes=2048, LinkMax=LINK_MAX, LinkMod=65536, DirNlink="TRUE" if dn else "FALSE", FileType="TRUE")
    consts.update(DEV)
    if dev_on:
        consts[dev_on] = "TRUE"
    T.write_cfg(p, spec="TraceSpec", constants=consts, invariants=["InvTypeOK"] if dev_on else ["InvTypeOK", "InvCountOK"], postcondition="TraceAccepted")
    return p


def check_nlink(ev, vd, env, work, cat, nbehs):
    """validates the link-count walks; returns the number of rejected behaviours"""
    module = os.path.join(SPEC, "Trace_DirNlink.tla")
    covered, nfail, nlines = set(), 0, 0
    for bh in nbehs:
        if bh["crash"]:
            vd.violation("crash", "front end crashed or failed on a walk across the link-count limit: " + bh["crash"][:300], {"spec": bh["spec"]})
    for dn in (1, 0):
        sub = [bh for bh in nbehs if bh["spec"]["dirnlink"] == dn and not bh["crash"]]
        if not sub:
            continue
        tb = [[json.dumps(x, separators=(",", ":")) for x in bh["lines"]] for bh in sub]
        nlines += sum(len(x) for x in tb)
        res = tracecheck.validate(tb, module, nlink_cfg(work, dn), work, chunk_lines=60, jobs=JOBS, timeout=600)
        if res["broken"]:
            die_broken("TLC failed on a link-count trace: %s\n%s" % (res["broken"][0]["error"], res["broken"][0]["out_tail"][-1500:]))
        ev.cov["states"] += res["distinct"]; ev.cov["transitions"] += res["generated"]
        first = {f["behaviour"]: (f["line_in_behaviour"], f["violated"]) for f in reversed(res["failures"])}
        for bi, bh in enumerate(sub):
            sp = bh["spec"]
            els = {(dn, before, op, sp["front"]) for op, before in sp["ops"]}
            if bi not in first:
                covered |= els; continue
            nfail += 1
            k, inv = first[bi]
            named = None
            for dev in ("DevMkdirNoEmlink", "DevMkdirNoNlinkRule"):
                rej, m2, inv2, tail2, _ = tracecheck.confirm(tb[bi], module, nlink_cfg(work, dn, dev), work, timeout=600)
                if not rej:
                    named = dev; break
            ln = bh["lines"][k] if k < len(bh["lines"]) else {"e": "(end)", "nl": {}}
            what = "%s in a directory with %s subdirectories and stored count %s (front end %s, dir_nlink %s): observed %s" % (
                ln["e"], bh["lines"][k - 1]["nl"].get("sub") if 0 < k <= len(bh["lines"]) else "?", bh["lines"][k - 1]["nl"].get("links") if 0 < k <= len(bh["lines"]) else "?",
                sp["front"], "on" if dn else "off", json.dumps({x: ln["nl"].get(x) for x in ("links", "sub", "fi", "fb")} if ln.get("nl") else {}) + (" e2fsck -fn exit %s" % ln["rc"] if ln["e"] == "fsckn" else ""))
            if named:
                covered |= els       # the walk was taken; it shows the named deviation
                vd.violation(named, "the code shows the literal deviation %s: rejected as specified at line %d, accepted with the deviation enabled: %s" % (named, k, what),
                             {"nlink_walk": sp, "first_unmatched_line": k, "deviation": named, "lines": bh["lines"][max(0, k - 2):k + 2]})
            else:
                vd.violation("nlink: %s@%s" % ("invariant %s violated" % inv if inv else "trace rejected", ln["e"]), ("invariant %s violated: " % inv if inv else "trace rejected: ") + what,
                             {"nlink_walk": sp, "first_unmatched_line": k, "lines": bh["lines"][max(0, k - 2):k + 2]})
    want = {(e["dirnlink"], e["links"], e["op"], fe) for e in cat for fe in ("lib", "dbg")}
    ev.cov["nlink_catalogue"] = {"elements": sorted("%s/%d/%s" % ("dir_nlink" if e["dirnlink"] else "no dir_nlink", e["links"], e["op"] + ("(refused)" if e["refused"] else "")) for e in cat),
                                 "element_x_front_end": len(want), "taken_and_validated": len(want & covered), "lines": nlines}
    if not vd.viol and want - covered:
        die_broken("link-count catalogue elements not taken by the walks built for them: %s" % sorted(want - covered)[:6])
    return nfail, nlines

REFUSALS = [("mkdir", "mkdir 2 %s"), ("write", "create 2 %s 0"), ("symlink", "symlink 2 %s 10"), ("slowlink", "symlink 2 %s 200")]


def refusal_specs(tier):
    """Dir!RefusedExists: mkdir / write / symlink (fast and slow) of an existing name, for every kind of existing object (directory,
    file, symlink): refused, nothing changes; e2fsck -fn after each request; then an allocation (which takes the inode a refused
    request may have touched) and e2fsck -fyD.  One behaviour per request kind, so that a defect of one kind does not hide the others.
    quick: every profile with one (seed-independent) block size / front end; thorough: every profile x block size x front end."""
    specs = []
    for pi, prof in enumerate(PROFILES):
        for bi, bs in enumerate(BLOCKSIZES):
            for fi, fe in enumerate(("lib", "dbg")):
                if tier == "quick" and (bi != pi % 2 or fi != (pi // 2) % 2):
                    continue
                for kind, req in REFUSALS:
                    sc = [{"kind": "step", "ops": ["mkdir 2 ed"]}, {"kind": "step", "ops": ["create 2 ef 100"]}, {"kind": "step", "ops": ["symlink 2 es 10"]}]
                    for victim in ("ed", "ef", "es"):
                        sc += [{"kind": "step", "ops": [req % victim]}, {"kind": "fsckn", "ops": []}]
                    sc += [{"kind": "step", "ops": ["mkdir 2 ed2"]}, {"kind": "fsckD", "ops": []}, {"kind": "step", "ops": ["mknod 2 ep p"]}, {"kind": "fsckn", "ops": []}]
                    specs.append(dict(prof=prof, bs=bs, front=fe, seed=1, nsteps=len(sc), raw=0, big=0, script=sc, cat=dict(kind="refusal", req=kind)))
    return specs


def big_script(n1, n2, ln, parent=2):
    """stretch: one abstract Create becomes a run of n1 creates (observed every 40), e2fsck -fyD, n2 single creates with
    removals in between, e2fsck -fyD, e2fsck -fn; the names are ln bytes long"""
    def nm(i): return ("b%05d_" % i).ljust(ln, "y")[:max(ln, 7)]
    steps = [{"kind": "step", "ops": ["mkdir %d big" % parent]}]
    i = 0
    while i < n1:
        k = min(40, n1 - i)
        steps.append({"kind": "step", "ops": ["create 12 %s 0" % nm(i + j) for j in range(k)]}); i += k
    steps.append({"kind": "fsckD", "ops": []})
    for j in range(n2):
        steps.append({"kind": "step", "ops": ["create 12 %s 0" % nm(n1 + j)]})
        if j % 5 == 4:
            steps.append({"kind": "step", "ops": ["rm 12 %s" % nm(j * 3)]})
    steps += [{"kind": "fsckD", "ops": []}, {"kind": "fsckn", "ops": []}]
    return steps


def to_lines(beh):
    return [json.dumps(x, separators=(",", ":")) for x in beh["lines"]]


def features(beh):
    """what a behaviour exercised: leaf splits / index growth of htree directories, dirent coalescing, inode release"""
    f = dict(freed=0, coalesce=0, split=0, grow=0, nodesplit=0, expand=0, idxlink=0, rehash=0)
    shape = {}
    for x in beh["lines"]:
        if x["e"] == "fsckD":
            f["rehash"] += 1
        f["freed"] += len(x.get("gone", []))
        adds = any(o["op"] in ("mkdir", "create", "symlink", "mknod", "link", "hlink") for o in x["ops"])
        dels = any(o["op"] in ("unlink", "rm", "rmdir") for o in x["ops"])
        for d in x["dirs"]:
            nb, lv, nn = len(d["blks"]), d["dx"]["lv"], len(d["dx"]["nodes"])
            old = shape.get(d["ino"])
            if old and x["e"] == "step":
                if dels: f["coalesce"] += 1
                if adds and d["idx"] and old[3]:
                    f["idxlink"] += 1
                    if nb > old[0]: f["split"] += 1
                    if lv > old[1]: f["grow"] += 1
                    if nn > old[2] and lv == old[1]: f["nodesplit"] += 1
                if adds and not d["idx"] and nb > old[0]: f["expand"] += 1
            shape[d["ino"]] = (nb, lv, nn, d["idx"])
    return f


def nontrivial(beh):
    """>= 1 leaf split or dirent coalescing, and >= 1 removal that frees an inode"""
    f = features(beh)
    return f["freed"] > 0 and (f["coalesce"] > 0 or f["split"] > 0)


def run(tier):
    ev = Evidence(PID, tier, "model_checking")
    vd = Verdict(PID, ev)
    vd.known.update(load_known())
    work = fast_tmp()
    try:
        try:
            b = build.build()
            env = Env(b, work)
        except RuntimeError as e:
            die_broken(str(e))
        mc_err = model_check(ev, tier, work)
        if mc_err:
            vd.violation("model", mc_err[:300], {"tlc": mc_err})
        rng = random.Random(seed())
        cat = load_catalogue(work)
        specs, skipped = universe(tier, rng, cat)
        eunivs, e_err = load_edges(ev, work, tier, rng)
        if e_err:
            vd.violation("model", e_err[:300], {"tlc": e_err})
            eunivs = []
        nref = sum(1 for sp in specs if (sp.get("cat") or {}).get("kind") == "refusal")
        specs = specs[:len(specs) - nref] + edge_specs(eunivs) + specs[len(specs) - nref:]       # the refusal behaviours stay last
        ncat = load_nlink_catalogue(ev, work)
        nspecs, nbase = nlink_specs(ncat), NlinkBase(env)
        t0 = time.time()
        with cf.ThreadPoolExecutor(max_workers=JOBS) as ex:
            nfut = [ex.submit(run_nlink, env, nbase, sp) for sp in nspecs]          # the long ones first
            behs = list(ex.map(lambda s: run_behaviour(env, {k: v for k, v in s.items() if k != "script"}, script=s.get("script")), specs))
            nbehs = [f.result() for f in nfut]
        ev.cov["wall_run_s"] = round(time.time() - t0, 1)
        for bh in behs:
            if bh["crash"]:
                vd.violation("crash", "front end crashed or failed on a legal history: " + bh["crash"][:300], {"spec": bh["spec"], "steps": bh["steps"]})
        behs = [bh for bh in behs if not bh["crash"]]
        nfail = 0
        total_lines = 0
        rejected = set()
        nunchecked = 0
        for prof in PROFILES:
            sub = [bh for bh in behs if bh["spec"]["prof"] == prof]
            if not sub:
                continue
            tb = [to_lines(bh) for bh in sub]
            total_lines += sum(len(x) for x in tb)
            cfgp = trace_cfg(work, prof)
            module = os.path.join(SPEC, "Trace_Dir.tla")
            res = validate_capped(tb, module, cfgp, work, chunk_lines=250, jobs=JOBS, timeout=1500, tag="vc_" + prof)
            if res["broken"]:
                die_broken("TLC failed on a trace chunk (%s): %s\n%s" % (prof, res["broken"][0]["error"], res["broken"][0]["out_tail"][-1500:]))
            ev.cov["states"] += res["distinct"]; ev.cov["transitions"] += res["generated"]
            for bi in res["unchecked"]:
                rejected.add(id(sub[bi])); nunchecked += 1
            failed = sorted({f["behaviour"] for f in res["failures"]})
            first = {f["behaviour"]: f["line_in_behaviour"] for f in reversed(res["failures"])}
            # every rejected behaviour is examined on its own (in parallel): a behaviour that IS a behaviour of the specification with exactly
            # one literal deviation enabled shows that deviation and is reported under its name (a listed known finding prints KNOWN-FINDING,
            # anything else VIOLATION); otherwise the rejection is confirmed by a run of the behaviour alone
            devcfg = {dev: trace_cfg(work, prof, dev) for dev in DEV_ORDER}
            noedge = trace_cfg(work, prof, check_edges=False)
            def examine(bi):
                tagb = "%s_%d" % (prof, bi)
                for dev in relevant_devs(sub[bi]["lines"], first.get(bi, 0) or 0):
                    rej = run_alone(tb[bi], module, devcfg[dev], work, tagb + dev)[0]
                    if rej is False:
                        return ("named", dev)
                rej, matched, inv, tail = run_alone(tb[bi], module, cfgp, work, tagb)
                if rej is None:
                    return ("broken", tail)
                if not rej:
                    return ("accepted",)
                if (sub[bi]["spec"].get("cat") or {}).get("kind") == "edge" and run_alone(tb[bi], module, noedge, work, tagb + "ne")[0] is False:
                    return ("astray", matched)
                return ("rejected", matched, inv, tail)
            with cf.ThreadPoolExecutor(max_workers=JOBS) as ex:
                verdicts = list(ex.map(examine, failed))
            for bi, v in zip(failed, verdicts):
                sp = sub[bi]["spec"]
                if v[0] == "broken":
                    die_broken("TLC failed on a rejected behaviour (%s): %s" % (prof, v[1][-1500:]))
                if v[0] == "accepted":
                    continue
                if v[0] == "astray":
                    # accepted once the class labels are ignored = the replay took other edges than the catalogue says: the check is at fault
                    die_broken("a replay of the edge catalogue (%s, %s, %s/%d) is a behaviour of the specification but its steps are not of the catalogued classes (line %s)"
                               % (sp["cat"]["univ"], sp["front"], prof, sp["bs"], v[1]))
                nfail += 1
                rejected.add(id(sub[bi]))
                if v[0] == "named":
                    k = first.get(bi, 0) or 0
                    ln = json.loads(tb[bi][k]) if k < len(tb[bi]) else {"e": "(end)", "ops": []}
                    vd.violation(v[1], "the code shows the literal deviation %s (rejected as specified at line %d, %s; accepted with the deviation enabled; front end %s, profile %s/%d)"
                                 % (v[1], k, ln["e"], sp["front"], prof, sp["bs"]),
                                 {"spec": sp, "steps": sub[bi]["steps"], "first_unmatched_line": k, "deviation": v[1]})
                    continue
                report(vd, sub[bi], tb[bi], v[1], v[2], v[3])
        ev.cov["not_examined_after_cap"] = nunchecked
        nfail_n, nlines_n = check_nlink(ev, vd, env, work, ncat, nbehs)
        ev.cov["trace_lines_validated"] = total_lines + nlines_n
        ev.cov["traces_validated_against_impl"] = len(behs) - nfail - nunchecked + len([b for b in nbehs if not b["crash"]]) - nfail_n
        ev.cov["evaluations"] = len(behs) + len(nbehs)
        # edge catalogue: a class is covered by a front end when an ACCEPTED replay (TLC checked the class of every labelled step) took it
        ecov = {}
        for bh in behs:
            c = bh["spec"].get("cat") or {}
            if c.get("kind") == "edge" and id(bh) not in rejected:
                ecov.setdefault((c["univ"], bh["spec"]["front"]), set()).update(c["classes"])
        erep, emiss = {}, []
        for u in eunivs:
            allc = {ekey(x["e"]) for x in u["edges"]}
            erep[u["tag"]] = {"classes": len(allc), "replays": sum(1 for sp in specs if (sp.get("cat") or {}).get("univ") == u["tag"]),
                              "covered_lib": len(allc & ecov.get((u["tag"], "lib"), set())), "covered_dbg": len(allc & ecov.get((u["tag"], "dbg"), set())),
                              "class_list": sorted(allc)}
            emiss += ["%s/%s: %s" % (u["tag"], fe, k) for fe in ("lib", "dbg") for k in sorted(allc - ecov.get((u["tag"], fe), set()))]
        ev.cov["edge_catalogue"] = erep
        if not vd.viol and emiss:
            die_broken("edge catalogue classes not taken by an accepted replay: %s" % emiss[:6])
        tot = {}
        for bh in behs:
            for k, v in features(bh).items():
                tot[k] = tot.get(k, 0) + v
            if nontrivial(bh):
                ev.nontrivial(hashlib.sha1(json.dumps(bh["steps"], sort_keys=True).encode()).hexdigest())
        tot["refused_requests"] = sum(1 for bh in behs if (bh["spec"].get("cat") or {}).get("kind") == "refusal" for st in bh["steps"][3:9] if st["kind"] == "step")
        ev.cov["exercised"] = tot
        planned, seen = set(), set()
        for bh in behs:
            c = bh["spec"].get("cat") or {}
            if c.get("kind") not in ("growth", "fresh"):
                continue
            planned |= {(c["bs"], c["csum"], L) for L in c["leaves"]}
            for x in bh["lines"]:
                if x["e"] != "fsckD":
                    continue
                for d in x["dirs"]:
                    if d["ino"] == BIGDIR and d["idx"]:
                        seen.add((c["bs"], c["csum"], len(d["blks"]) - len(d["dx"]["nodes"]), d["dx"]["lv"]))
        want = {(e["bs"], e["csum"], e["leaves"], e["levels"]) for e in cat if (e["bs"], e["csum"], e["leaves"]) in planned}
        ev.cov["boundary_catalogue"] = {"elements": len({(e["bs"], e["csum"], e["leaves"]) for e in cat}), "planned": len(want), "rebuilt_and_validated": len(want & seen),
                                        "not_built_in_this_tier": sorted({"%d/%s/%s@%d" % (e["bs"], "csum" if e["csum"] else "nocsum", e["kind"], e["leaves"]) for e in cat
                                                                          if (e["bs"], e["csum"], e["leaves"]) not in planned})}
        if not vd.viol and want - seen:
            die_broken("boundary catalogue elements not reached by the behaviours built for them: %s" % sorted(want - seen)[:6])
        ev.cov["rule"] = ("histories of namespace operations chosen (seeded) from the observed state, run through libext2fs (harness/dirdrv.c) and debugfs -w -f "
                          "on 6 feature profiles x {1k,4k}, interleaved with e2fsck -fyD, ending in e2fsck -fn; plus the scripted behaviours of the boundary catalogue "
                          "(HTree!Catalogue via Emit_HTreeCat: growth across / first indexing at every catalogued leaf count the tier can build, see boundary_catalogue) and of the "
                          "refusal catalogue (request kind x kind of the existing object), of the edge catalogue (every class of transition of DirBlock.tla that TLC finds in the bounded "
                          "universes of spec/Edge_DirBlock.tla, through both front ends, see edge_catalogue) and of the link-count catalogue (Dir!NlinkCatalogue walked in a directory with "
                          "~65000 real subdirectories, see nlink_catalogue); non-trivial = >= 1 removal that coalesces/clears "
                          "a directory slot and >= 1 removal that frees an inode; distinct by operation sequence")
        if behs:
            ev.sample({"spec": behs[0]["spec"], "steps": behs[0]["steps"][:8]})
            ev.sample({"spec": behs[-1]["spec"], "steps": behs[-1]["steps"][:5]})
        ev.cov["checker_cmd"] = ("TRACE=<chunk> tlc -workers 1 -config <Trace_Dir_<profile>.cfg> spec/Trace_Dir.tla (POSTCONDITION TraceAccepted; INVARIANT InvTypeOK InvLinksRule InvNoFreeReferenced InvBalancedIsConsistent InvNoLeak InvLayout); "
                                 "link-count walks: the same with spec/Trace_DirNlink.tla (INVARIANT InvTypeOK InvCountOK)")
        ev.assumptions = ASSUMPTIONS
        return vd.finish()
    finally:
        shutil.rmtree(work, ignore_errors=True)


ASSUMPTIONS = [
    "names are unique within a directory when ln / mknod / hlink are issued (debugfs ln and mknod do not check; in-tree callers do)",
    "rm, rmdir, ln, sif, kill_file, ea_set are issued on inodes that are in use; hard links (ln, hlink) only to non-directories",
    "single block group (8-16 MiB images): ext2fs_new_inode returns the lowest free inode >= s_first_ino",
    "observation goes through libext2fs readers (harness/dirdrv.c dump: ext2fs_dir_iterate2, ext2fs_lookup, raw block parse); the consistency oracle is e2fsck -fn",
    "e2fsck -fyD is issued only on states the model calls consistent (its repairs of inconsistent states are not modelled)",
    "no quota, no journal, no ea_inode, no casefold, no large_dir; names are ASCII",
    "e2fsck runs with an empty e2fsck.conf (indexed_dir_slack_percentage = 20, the default HTree!SlackPct states)",
    "directories of the boundary catalogue larger than a 1 KiB-block htree (and every directory that is indexed for the first time at a catalogued size) are built through the library "
    "before the first observation; TLC checks that this observation is consistent and lists exactly the intended names, the build-up itself is validated operation by operation only at 1 KiB",
    "a refused mkdir / symlink / write names an existing entry of an in-use directory; mknod and ln of an existing name are not issued (debugfs does not refuse them)",
    "edge catalogue: the classes are those DirBlock.tla can take in the bounded universes of spec/Edge_DirBlock.tla (names inserted in order, then every short sequence); "
    "directories of the replays are linear or inline (an indexed directory inserts through dx_link, whose leaves are covered by HTree.tla)",
    "link-count walks: the directory at the limit is indexed (as the kernel would have it; e2fsck pass 4 accepts a saturated count of 1 below the limit only on indexed directories) "
    "and is prepared with harness/dirdrv.c bulkdir (ext2fs_mkdir without a name + ext2fs_link); TLC checks that the prepared state is consistent; there the observation is the count "
    "abstraction of Trace_DirNlink.tla (counts of names / subdirectories / free inodes and blocks), not the full listing",
]


def report(vd, bh, lines, matched, inv, tail):
    k = matched if matched is not None else 0
    ln = json.loads(lines[k]) if k < len(lines) else {"e": "(end)", "ops": []}
    opn = "+".join(sorted({o["op"] for o in ln.get("ops", [])})) or ln["e"]
    what = ("invariant %s violated" % inv) if inv else "trace rejected"
    key = "%s@%s" % (what, opn)
    edge = ("; catalogued edge " + ", ".join(ekey(e) for e in ln["eg"][:3])) if ln.get("eg") else ""
    vd.violation(key, "%s at line %d (%s, front end %s, profile %s/%d): %s%s" % (what, k, opn, bh["spec"]["front"], bh["spec"]["prof"], bh["spec"]["bs"],
                                                                              json.dumps(ln.get("ops", []))[:200], edge),
                 {"spec": bh["spec"], "steps": bh["steps"], "first_unmatched_line": k, "tlc_tail": tail[-1200:]})


def replay(path):
    d = json.load(open(path))
    rp = d["replay"]
    work = fast_tmp()
    try:
        b = build.build(); env = Env(b, work)
        if "nlink_walk" in rp:          # a walk across the link-count limit (Trace_DirNlink)
            sp = rp["nlink_walk"]
            sp["ops"] = [tuple(x) for x in sp["ops"]]
            bh = run_nlink(env, NlinkBase(env), sp)
            if bh["crash"]:
                print("VIOLATION property=%s replay=%s (%s)" % (PID, path, bh["crash"])); return 1
            tl = [json.dumps(x, separators=(",", ":")) for x in bh["lines"]]
            rej, matched, inv, tail, _ = tracecheck.confirm(tl, os.path.join(SPEC, "Trace_DirNlink.tla"), nlink_cfg(work, sp["dirnlink"]), work, timeout=900)
            if rej:
                print("first unmatched line %s: %s" % (matched, tl[matched][:600] if matched is not None and matched < len(tl) else "?"))
                print("VIOLATION property=%s replay=%s" % (PID, path)); return 1
            print("replay accepted (%d lines)" % len(tl)); return 0
        bh = run_behaviour(env, rp["spec"], script=rp["steps"])
        if bh["crash"]:
            print("VIOLATION property=%s replay=%s (%s)" % (PID, path, bh["crash"])); return 1
        tl = to_lines(bh)
        cfgp = trace_cfg(work, rp["spec"]["prof"])
        rej, matched, inv, tail, _ = tracecheck.confirm(tl, os.path.join(SPEC, "Trace_Dir.tla"), cfgp, work, timeout=900)
        if rej:
            print("first unmatched line %s: %s" % (matched, tl[matched][:600] if matched is not None and matched < len(tl) else "?"))
            print(tail[-1500:])
            print("VIOLATION property=%s replay=%s" % (PID, path)); return 1
        print("replay accepted (%d lines)" % len(tl)); return 0
    finally:
        shutil.rmtree(work, ignore_errors=True)
